// C10 driver: NTS authentication soundness on the real net/nts + net/ntske code.
//
// spec -> code: every case is a class (role, packet shape, mutation kind, region,
// field, part) enumerated by TLC from spec/NtsPacket.tla together with the set of
// outcomes the specification predicts.  For each class the driver builds REAL
// packets with the project's own encoder (nts.NewRequestPacket /
// NewResponsePacket / EncodePacket, cookies from ServerCookie.EncryptWithNonce
// under a real ntske.Provider key, session keys from ntske.ExportKeys over a real
// TLS connection), maps the region to its byte range in THIS packet, applies
// single-bit flips / field replacements / key, direction, uid, cookie
// substitutions and runs the real receiving code in the order of server_ip.go
// (DecodePacket, FirstCookie, Decode, provider.Get, Decrypt, ProcessRequest) or
// client_ip.go (DecodePacket, ProcessResponse).
//
// code -> spec: one record per mutation (model units: strings, booleans, small
// ints) for spec/trace/NtsPacketTrace.tla (monitor: Sound, Complete,
// CookieBinding; strict: outcome is one the specification predicts).
//
// Live part: the first packet instance's provider also backs a REAL listener
// (server.StartIPServer on loopback).  For every request class a few of the
// mutated datagrams whose function-level outcome was a clean accept / reject are
// sent to it, followed by a plain NTP sentinel on the same socket; "reply before
// the sentinel's reply" is the listener's verdict (records with role = "listener").
// Replies to unmutated requests are fed to the real client path (records
// role = "resp", why = "live-reply").
//
// Every real call runs under recover() and a watchdog.  Nothing is pre-filtered on
// the tree as it is; see probeLoops for trees whose DecodePacket loops on Length 0.
package c10

import (
	"bytes"
	"context"
	"log/slog"
	"crypto/ecdsa"
	"crypto/elliptic"
	crand "crypto/rand"
	"crypto/tls"
	"crypto/x509"
	"crypto/x509/pkix"
	"encoding/binary"
	"fmt"
	"math/big"
	"math/rand"
	"net"
	"os"
	"strconv"
	"testing"
	"time"

	"example.com/scion-time/core/server"
	"example.com/scion-time/core/timebase"
	"example.com/scion-time/driver/clocks"
	"example.com/scion-time/net/ntp"
	"example.com/scion-time/net/nts"
	"example.com/scion-time/net/ntske"

	"verif/harness/internal/vio"
)

type tcase struct {
	Role   string   `json:"role"`
	Nf     int      `json:"nf"`
	Kind   string   `json:"kind"`
	Region string   `json:"region"`
	Fi     int      `json:"fi"`
	Sub    string   `json:"sub"`
	Pred   []string `json:"pred"`
}

// record consumed by NtsPacketTrace.tla
type rec struct {
	Role    string   `json:"role"`
	Nf      int      `json:"nf"`
	Kind    string   `json:"kind"`
	Region  string   `json:"region"`
	Fi      int      `json:"fi"`
	Sub     string   `json:"sub"`
	Pk      int      `json:"pk"`  // packet instance
	Off     int      `json:"off"` // byte offset of the change (-1: none)
	Bit     int      `json:"bit"` // flipped bit (-1: field replacement / other)
	Val     int      `json:"val"` // replacement value of a 16-bit field, appended/cut byte count (-1: n/a)
	Out     string   `json:"out"` // accepted | rejected | panic | hang
	Why     string   `json:"why"` // where the receiver stopped
	Pre     bool     `json:"pre"` // hang predicted by the pre-filter, call not executed
	Touched []string `json:"touched"`
	Key     bool     `json:"key"` // sealed under the session key the receiver uses
	Dir     bool     `json:"dir"` // ... of the right direction
	Uid     bool     `json:"uid"` // uid bytes in the packet = uid of the outstanding request
	TCkey   int      `json:"t_ckey"`
	TCsc    int      `json:"t_csc"`
	Opened  bool     `json:"ck_opened"`
	CkKey   int      `json:"ck_key"`
	CkSc    int      `json:"ck_sc"`
	Stored  int      `json:"stored"`
	Pred    []string `json:"pred"`
	DD      bool     `json:"dd"`  // exported C2S and S2C keys are distinct (and agree on both ends)
	Cok     bool     `json:"cok"` // cookies stored (client) / fields counted (server) are exactly the authenticated ones
}

const (
	ntpLen    = 48
	uidLen    = 32
	cookieLen = 124 // asserted at set-up
)

// ---------------------------------------------------------------- sessions
type session struct{ c2s, s2c []byte }

func rnd32(t testing.TB) []byte {
	b := make([]byte, 32)
	if _, err := crand.Read(b); err != nil {
		t.Fatal(err)
	}
	return b
}

// exportedSession runs a real TLS 1.3 handshake over a pipe and calls the
// project's ExportKeys on both ends.
func exportedSession(t testing.TB) (session, bool) {
	priv, err := ecdsa.GenerateKey(elliptic.P256(), crand.Reader)
	if err != nil {
		t.Fatal(err)
	}
	tmpl := &x509.Certificate{SerialNumber: big.NewInt(1), Subject: pkix.Name{CommonName: "c10"},
		NotBefore: time.Now().Add(-time.Hour), NotAfter: time.Now().Add(time.Hour), DNSNames: []string{"c10"},
		KeyUsage: x509.KeyUsageDigitalSignature, ExtKeyUsage: []x509.ExtKeyUsage{x509.ExtKeyUsageServerAuth}}
	der, err := x509.CreateCertificate(crand.Reader, tmpl, tmpl, &priv.PublicKey, priv)
	if err != nil {
		t.Fatal(err)
	}
	cert := tls.Certificate{Certificate: [][]byte{der}, PrivateKey: priv}
	c, s := net.Pipe()
	srv := tls.Server(s, &tls.Config{Certificates: []tls.Certificate{cert}, MinVersion: tls.VersionTLS13})
	cli := tls.Client(c, &tls.Config{InsecureSkipVerify: true, ServerName: "c10", MinVersion: tls.VersionTLS13})
	errc := make(chan error, 1)
	go func() { errc <- srv.Handshake() }()
	if err := cli.Handshake(); err != nil {
		t.Fatal(err)
	}
	if err := <-errc; err != nil {
		t.Fatal(err)
	}
	var dc, ds ntske.Data
	if err := ntske.ExportKeys(cli.ConnectionState(), &dc); err != nil {
		t.Fatal(err)
	}
	if err := ntske.ExportKeys(srv.ConnectionState(), &ds); err != nil {
		t.Fatal(err)
	}
	c.Close()
	s.Close()
	ok := len(dc.C2sKey) == 32 && len(dc.S2cKey) == 32 && !bytes.Equal(dc.C2sKey, dc.S2cKey) &&
		bytes.Equal(dc.C2sKey, ds.C2sKey) && bytes.Equal(dc.S2cKey, ds.S2cKey)
	return session{c2s: dc.C2sKey, s2c: dc.S2cKey}, ok
}

// ---------------------------------------------------------------- world
type world struct {
	t        testing.TB
	prov     *ntske.Provider // the receiving server's keys
	provKey  ntske.Key
	foreign  ntske.Key // a key of another server
	sess     [3]session
	uid2     []byte
	rng      *rand.Rand
	abandons int
}

func (w *world) sealCookie(s session, key ntske.Key) []byte {
	sc := ntske.ServerCookie{Algo: ntske.AES_SIV_CMAC_256, S2C: s.s2c, C2S: s.c2s}
	ec, err := sc.EncryptWithNonce(key.Value, key.ID)
	if err != nil {
		w.t.Fatal(err)
	}
	b := ec.Encode()
	if len(b) != cookieLen {
		w.t.Fatalf("cookie length %d, layout assumes %d", len(b), cookieLen)
	}
	return b
}

func (w *world) ntpHeader() []byte {
	var p ntp.Packet
	p.SetVersion(ntp.VersionMax)
	p.SetMode(ntp.ModeClient)
	p.TransmitTime = ntp.Time64{Seconds: w.rng.Uint32(), Fraction: w.rng.Uint32()}
	buf := make([]byte, ntpLen)
	ntp.EncodePacket(&buf, &p)
	if buf[40] == 0xA5 { // never looks like the live rig's sentinel
		buf[40] = 0x5A
	}
	if len(buf) != ntpLen {
		w.t.Fatalf("ntp header length %d", len(buf))
	}
	return buf
}

// a segment of the encoded packet
type seg struct {
	region string
	fi     int
	sub    string
	lo, hi int
}

type packet struct {
	role   string
	nf     int
	kind   string // sender-side substitution
	b      []byte
	lay    []seg
	uid    []byte // uid the receiver expects (client) / sent (server)
	keyOK  bool
	dirOK  bool
	tckey  int
	tcsc   int
	cookie []byte
	sealed [][]byte // resp: the cookies the server sealed into the authenticator
}

func cookieSegs(region string, fi, at int) []seg {
	return []seg{{region, fi, "kidT", at, at + 2}, {region, fi, "kidL", at + 2, at + 4}, {region, fi, "kid", at + 4, at + 6},
		{region, fi, "nonT", at + 6, at + 8}, {region, fi, "nonL", at + 8, at + 10}, {region, fi, "non", at + 10, at + 26},
		{region, fi, "ctT", at + 26, at + 28}, {region, fi, "ctL", at + 28, at + 30}, {region, fi, "ct", at + 30, at + cookieLen}}
}

func headSegs() []seg {
	return []seg{{"ntpHeader", 0, "body", 0, ntpLen}, {"uidField", 0, "type", 48, 50}, {"uidField", 0, "len", 50, 52},
		{"uidField", 0, "body", 52, 52 + uidLen}}
}

func authSegs(at, ptLen int) []seg {
	s := []seg{{"authHdr", 0, "type", at, at + 2}, {"authHdr", 0, "len", at + 2, at + 4},
		{"nonceLenField", 0, "len", at + 4, at + 6}, {"ctLenField", 0, "len", at + 6, at + 8},
		{"nonce", 0, "body", at + 8, at + 24}, {"ciphertext", 0, "siv", at + 24, at + 40}}
	if ptLen > 0 {
		s = append(s, seg{"ciphertext", 0, "ctr", at + 40, at + 40 + ptLen})
	}
	return s
}

func u16(b []byte, p int) int { return int(binary.BigEndian.Uint16(b[p:])) }

// checkLayout makes sure the byte ranges the concretiser uses are the ones the
// encoder really wrote (otherwise the run is inconclusive, not a verdict).
func (w *world) checkLayout(p *packet) {
	b := p.b
	want := func(off, v int, what string) {
		if off+2 > len(b) || u16(b, off) != v {
			w.t.Fatalf("layout assumption broken (%s %s nf=%d): offset %d expected %#x in % x", what, p.role, p.nf, off, v, b[:min(len(b), 96)])
		}
	}
	end := 0
	for _, s := range p.lay {
		if s.lo != end {
			w.t.Fatalf("layout not contiguous at %d", s.lo)
		}
		end = s.hi
	}
	if end != len(b) {
		w.t.Fatalf("layout covers %d bytes, packet has %d (%s nf=%d)", end, len(b), p.role, p.nf)
	}
	if p.role == "cookie" {
		want(0, 0x401, "kidT")
		want(2, 2, "kidL")
		want(6, 0x501, "nonT")
		want(8, 16, "nonL")
		want(26, 0x601, "ctT")
		want(28, cookieLen-30, "ctL")
		return
	}
	want(48, 0x104, "uid type")
	want(50, 4+uidLen, "uid len")
	at := 48 + 4 + uidLen
	if p.role == "req" {
		for i := 0; i < p.nf; i++ {
			// placeholders are written with the cookie type by the code as it is (C11/C14's finding); either is fine here
			if t := u16(b, at); t != 0x204 && !(i > 0 && t == 0x304) {
				w.t.Fatalf("field %d type %#x", i, t)
			}
			want(at+2, 4+cookieLen, "cookie len")
			at += 4 + cookieLen
		}
	}
	want(at, 0x404, "auth type")
	want(at+2, len(b)-at, "auth len")
	want(at+4, 16, "nonce len")
	want(at+6, len(b)-at-24, "ct len")
}

func safely(f func()) (panicked any) {
	defer func() { panicked = recover() }()
	f()
	return nil
}

// build encodes one packet with the project's own encoder.
func (w *world) build(role string, nf int, kind string) *packet {
	p := &packet{role: role, nf: nf, kind: kind, keyOK: kind != "swapkey", dirOK: kind != "swapdir", tckey: 101, tcsc: 1}
	s1, s2 := w.sess[1], w.sess[2]
	skey := w.provKey
	if kind == "foreignkey" {
		skey = w.foreign
		p.tckey = 201
	}
	switch role {
	case "cookie":
		p.b = w.sealCookie(s1, skey)
		p.lay = cookieSegs("cookie", 1, 0)
	case "req":
		pool := make([][]byte, 9-nf) // pool level: 8 cookies -> no placeholder
		for i := range pool {
			pool[i] = w.sealCookie(s1, skey)
		}
		data := ntske.Data{C2sKey: s1.c2s, S2cKey: s1.s2c, Cookie: pool, Algo: ntske.AES_SIV_CMAC_256}
		if kind == "swapkey" {
			data.C2sKey = s2.c2s
		} else if kind == "swapdir" {
			data.C2sKey = s1.s2c
		}
		buf := w.ntpHeader()
		if pn := safely(func() {
			pkt, id := nts.NewRequestPacket(data)
			p.uid = id
			nts.EncodePacket(&buf, &pkt)
		}); pn != nil {
			// a request this tree's encoder cannot produce (C11's subject): no packet, class skipped
			return nil
		}
		p.b = buf
		p.cookie = pool[0]
		p.lay = headSegs()
		at := 48 + 4 + uidLen
		p.lay = append(p.lay, seg{"cookieField", 1, "type", at, at + 2}, seg{"cookieField", 1, "len", at + 2, at + 4})
		p.lay = append(p.lay, cookieSegs("cookieField", 1, at+4)...)
		at += 4 + cookieLen
		for j := 2; j <= nf; j++ {
			p.lay = append(p.lay, seg{"placeholderField", j, "type", at, at + 2}, seg{"placeholderField", j, "len", at + 2, at + 4},
				seg{"placeholderField", j, "body", at + 4, at + 4 + cookieLen})
			at += 4 + cookieLen
		}
		p.lay = append(p.lay, authSegs(at, 0)...)
	case "resp":
		// the client's outstanding request has uid1; the server answers it (or, replay, another one)
		uid1 := rnd32(w.t)
		p.uid = uid1
		ans := uid1
		if kind == "replay" {
			ans = w.uid2
		}
		key := s1.s2c
		if kind == "swapkey" {
			key = s2.s2c
		} else if kind == "swapdir" {
			key = s1.c2s
		}
		cookies := make([][]byte, nf)
		for i := range cookies {
			cookies[i] = w.sealCookie(s1, w.provKey)
		}
		buf := w.ntpHeader()
		if pn := safely(func() {
			pkt := nts.NewResponsePacket(cookies, key, ans)
			nts.EncodePacket(&buf, &pkt)
		}); pn != nil {
			return nil
		}
		if len(buf) != 48+4+uidLen+40+nf*(4+cookieLen) {
			return nil // the encoder dropped or cut cookies (C11's subject): not a shape of this run
		}
		p.b = buf
		p.sealed = cookies
		p.lay = append(headSegs(), authSegs(48+4+uidLen, nf*(4+cookieLen))...)
	default:
		w.t.Fatalf("role %q", role)
	}
	w.checkLayout(p)
	return p
}

// ---------------------------------------------------------------- receivers
type result struct {
	cok          bool
	ncook        int
	out, why     string
	opened       bool
	ckKey, ckSc  int
	stored       int
	pre, timeout bool
}

func (w *world) keyIndex(k []byte) int {
	switch {
	case bytes.Equal(k, w.provKey.Value):
		return 101
	case bytes.Equal(k, w.foreign.Value):
		return 201
	}
	return 0
}

func (w *world) scIndex(sc *ntske.ServerCookie) int {
	for i := 1; i <= 2; i++ {
		if sc.Algo == ntske.AES_SIV_CMAC_256 && bytes.Equal(sc.S2C, w.sess[i].s2c) && bytes.Equal(sc.C2S, w.sess[i].c2s) {
			return i
		}
	}
	return 0
}

// openCookie: EncryptedServerCookie.Decode, provider.Get, Decrypt  (server_ip.go)
func (w *world) openCookie(cookie []byte, r *result) (ntske.ServerCookie, bool) {
	var ec ntske.EncryptedServerCookie
	if err := ec.Decode(cookie); err != nil {
		r.out, r.why = "rejected", "cookie-decode"
		return ntske.ServerCookie{}, false
	}
	key, ok := w.prov.Get(int(ec.ID))
	if !ok {
		r.out, r.why = "rejected", "provider-get"
		return ntske.ServerCookie{}, false
	}
	sc, err := ec.Decrypt(key.Value)
	if err != nil {
		r.out, r.why = "rejected", "cookie-decrypt"
		return ntske.ServerCookie{}, false
	}
	r.opened, r.ckKey, r.ckSc = true, w.keyIndex(key.Value), w.scIndex(&sc)
	return sc, true
}

func (w *world) serverRecv(b []byte, nf int, r *result) {
	var pkt nts.Packet
	if err := nts.DecodePacket(&pkt, b); err != nil {
		r.out, r.why = "rejected", "decode"
		return
	}
	cookie, err := pkt.FirstCookie()
	if err != nil {
		r.out, r.why = "rejected", "first-cookie"
		return
	}
	sc, ok := w.openCookie(cookie, r)
	if !ok {
		return
	}
	// what server_ip.go will issue cookies for
	r.cok = len(pkt.Cookies)+len(pkt.CookiePlaceholders) <= nf // no field beyond the authenticated ones is counted
	if err := nts.ProcessRequest(b, sc.C2S, &pkt); err != nil {
		r.out, r.why = "rejected", "process-request"
		return
	}
	r.out, r.why = "accepted", "-"
}

func (w *world) clientRecv(b []byte, key, reqID []byte, sealed [][]byte, r *result) {
	var f ntske.Fetcher
	defer func() {
		st := f.VerifData().Cookie
		r.stored = len(st)
		if r.out == "accepted" && sealed != nil {
			// nothing but authenticated cookies is taken over: every stored cookie is one of the
			// cookies sealed into the response (each at most as often as it was sealed).  That ALL of
			// them are stored is not C10's statement - a client that caps its pool, or keeps only
			// cookies of its current association, stores fewer (a property-preserving change of that
			// kind was alarmed on while this was an equality).
			r.cok = subBag(st, sealed)
		}
	}()
	var pkt nts.Packet
	if err := nts.DecodePacket(&pkt, b); err != nil {
		r.out, r.why = "rejected", "decode"
		return
	}
	if err := nts.ProcessResponse(b, key, &f, &pkt, reqID); err != nil {
		r.out, r.why = "rejected", "process-response"
		return
	}
	r.out, r.why = "accepted", "-"
	r.ncook = len(pkt.Cookies) // the cookies the authenticated part carried
}

// Endless loops.  The decoders of the current tree reject an extension field whose Length is below 4; older
// (or changed) trees loop forever on Length 0, allocating 64 KiB per round for uid / cookie fields.  Whether THIS
// build loops is probed once at start-up on two harmless inputs (zero-Length field of an unknown type: the loop
// spins without allocating; the probing goroutine is abandoned if it does).  Only if a probe shows a loop are
// the inputs of that shape not executed (outcome "hang", pre = true); otherwise nothing is pre-filtered and the
// watchdog alone guards the calls.
var loopsBefore, loopsAfter bool // zero Length before / at-or-after the authenticator makes DecodePacket spin

func spins(b []byte) bool {
	done := make(chan struct{}, 1)
	go func() {
		defer func() { recover(); done <- struct{}{} }()
		var pkt nts.Packet
		nts.DecodePacket(&pkt, b)
	}()
	select {
	case <-done:
		return false
	case <-time.After(2 * time.Second):
		return true
	}
}

func (w *world) probeLoops() {
	zero := make([]byte, 32)
	binary.BigEndian.PutUint16(zero, 0x7f7f) // unknown type, Length 0
	loopsBefore = spins(append(w.ntpHeader(), zero...))
	if p := w.build("req", 1, "none"); p != nil {
		loopsAfter = spins(append(bytes.Clone(p.b), zero...))
	}
}

// zeroLen reports whether walking the extension fields meets a Length 0 before the authenticator (first result)
// or at / after it (second result; only a tree that walks on behind the authenticator gets there).
func zeroLen(b []byte) (before, after bool) {
	pos, seenAuth := ntpLen, false
	for len(b)-pos >= 28 {
		typ, l := u16(b, pos), u16(b, pos+2)
		if typ == 0x404 {
			seenAuth = true
		}
		if l == 0 {
			if seenAuth {
				return false, true
			}
			return true, false
		}
		pos += l
	}
	return false, false
}

// receive runs the real receiving path on a private copy of the datagram.
func (w *world) receive(p *packet, mutated []byte) result {
	b := make([]byte, len(mutated))
	copy(b, mutated)
	if p.role != "cookie" && (loopsBefore || loopsAfter) {
		if zb, za := zeroLen(b); (zb && loopsBefore) || (za && loopsAfter) {
			return result{out: "hang", why: "decode-loop", pre: true, cok: true}
		}
	}
	done := make(chan result, 1)
	go func() {
		r := result{cok: true}
		defer func() {
			if x := recover(); x != nil {
				r.out, r.why = "panic", fmt.Sprint(x)
				if len(r.why) > 60 {
					r.why = r.why[:60]
				}
			}
			done <- r
		}()
		switch p.role {
		case "req":
			w.serverRecv(b, p.nf, &r)
		case "resp":
			w.clientRecv(b, w.sess[1].s2c, p.uid, p.sealed, &r)
		case "cookie":
			if _, ok := w.openCookie(b, &r); ok {
				r.out, r.why = "accepted", "-"
			}
		}
	}()
	tm := time.NewTimer(20 * time.Second)
	defer tm.Stop()
	select {
	case r := <-done:
		return r
	case <-tm.C:
		// the call is abandoned (its goroutine keeps running until the process ends)
		w.abandons++
		if w.abandons > 3 {
			w.t.Fatalf("more than 3 calls did not return within 20 s; giving up")
		}
		return result{out: "hang", why: "watchdog", timeout: true, cok: true}
	}
}

// ---------------------------------------------------------------- mutations
func regionAt(lay []seg, off int) string {
	for _, s := range lay {
		if off >= s.lo && off < s.hi {
			return s.region
		}
	}
	return "trailing"
}

// touched: regions whose bytes differ from what the own encoder produced
func touched(p *packet, m []byte) []string {
	set := map[string]bool{}
	res := []string{}
	add := func(r string) {
		if !set[r] {
			set[r] = true
			res = append(res, r)
		}
	}
	n := min(len(p.b), len(m))
	for i := 0; i < n; i++ {
		if p.b[i] != m[i] {
			add(regionAt(p.lay, i))
		}
	}
	for i := n; i < len(p.b); i++ {
		add(regionAt(p.lay, i))
	}
	if len(m) > len(p.b) {
		add("trailing")
	}
	return res
}

func uidIntact(p *packet, m []byte) bool {
	if p.role == "cookie" {
		return true
	}
	if p.kind == "replay" {
		return false
	}
	return len(m) >= 52+uidLen && bytes.Equal(m[52:52+uidLen], p.uid)
}

type driver struct {
	w     *world
	out   *vio.Out
	stats map[string]int
	n     int
	live  *live
	liveN map[string]int
	liveK int
}

// ---------------------------------------------------------------- live listener
type live struct {
	t    testing.TB
	conn *net.UDPConn
	seq  uint64
}

func startLive(t testing.TB, prov *ntske.Provider) *live {
	ip := net.IPv4(127, 0, 0, 1)
	c, err := net.ListenUDP("udp4", &net.UDPAddr{IP: ip})
	if err != nil {
		t.Fatalf("cannot bind loopback: %v", err)
	}
	port := c.LocalAddr().(*net.UDPAddr).Port
	c.Close()
	timebase.RegisterClock(clocks.NewSystemClock(slog.New(slog.DiscardHandler), clocks.UnknownDrift))
	server.StartIPServer(context.Background(), slog.New(slog.DiscardHandler), &net.UDPAddr{IP: ip, Port: port}, 0, prov)
	conn, err := net.DialUDP("udp4", nil, &net.UDPAddr{IP: ip, Port: port})
	if err != nil {
		t.Fatal(err)
	}
	l := &live{t: t, conn: conn}
	// wait until the listeners answer
	for i := 0; ; i++ {
		if _, _, ok := l.try(nil, 200*time.Millisecond); ok {
			break
		}
		if i > 50 {
			t.Fatal("live listener does not answer plain NTP requests")
		}
	}
	return l
}

// try sends dgram (if any) and then a sentinel; it returns the datagram received
// before the sentinel's reply, if any.  All datagrams of one socket are handled
// by one listener goroutine in order (SO_REUSEPORT hashes the 4-tuple).
func (l *live) try(dgram []byte, wait time.Duration) (replied bool, reply []byte, ok bool) {
	if dgram != nil {
		if _, err := l.conn.Write(dgram); err != nil {
			l.t.Fatal(err)
		}
	}
	l.seq++
	s := make([]byte, ntpLen)
	s[0] = 0x23
	binary.BigEndian.PutUint64(s[40:], 0xA55A<<48|l.seq&0xffffffffffff)
	copy(s[32:40], s[40:48])
	if _, err := l.conn.Write(s); err != nil {
		l.t.Fatal(err)
	}
	buf := make([]byte, 4096)
	for {
		l.conn.SetReadDeadline(time.Now().Add(wait))
		n, err := l.conn.Read(buf)
		if err != nil {
			return replied, reply, false
		}
		if n >= ntpLen && bytes.Equal(buf[24:32], s[40:48]) {
			return replied, reply, true
		}
		if n >= ntpLen && buf[24] == 0xA5 && buf[25] == 0x5A {
			continue // reply to an earlier sentinel (start-up polling)
		}
		replied, reply = true, bytes.Clone(buf[:n])
	}
}

func (l *live) probe(dgram []byte) (bool, []byte) {
	replied, reply, ok := l.try(dgram, 5*time.Second)
	if !ok {
		l.t.Fatalf("live listener did not answer the sentinel after a %d-byte probe", len(dgram))
	}
	return replied, reply
}

func (d *driver) observe(c tcase, pk int, p *packet, m []byte, off, bit, val int) {
	r := d.w.receive(p, m)
	tc, tcsc := p.tckey, p.tcsc
	if c.Kind == "swapcookie" {
		tcsc = 2
	}
	d.out.Emit(rec{Role: c.Role, Nf: c.Nf, Kind: c.Kind, Region: c.Region, Fi: c.Fi, Sub: c.Sub, Pk: pk, Off: off, Bit: bit, Val: val,
		Out: r.out, Why: r.why, Pre: r.pre, Touched: touched(p, m), Key: p.keyOK, Dir: p.dirOK, Uid: uidIntact(p, m),
		TCkey: tc, TCsc: tcsc, Opened: r.opened, CkKey: r.ckKey, CkSc: r.ckSc, Stored: r.stored, Pred: c.Pred, DD: true,
		Cok: r.cok || r.out != "accepted"})
	d.n++
	d.stats[r.out]++
	d.liveObserve(c, pk, p, m, off, bit, val, r)
	if r.pre {
		d.stats["hang-prefiltered"]++
	}
	if r.timeout {
		d.stats["hang-watchdog"]++
	}
}

// liveObserve: the same datagram against the real listener (requests only, clean function-level outcomes only:
// a panic or an endless loop inside a listener goroutine would take the whole driver down).
func (d *driver) liveObserve(c tcase, pk int, p *packet, m []byte, off, bit, val int, r result) {
	if d.live == nil || p.role != "req" || (r.out != "accepted" && r.out != "rejected") {
		return
	}
	k := fmt.Sprint(c.Nf, c.Kind, c.Region, c.Fi, c.Sub)
	if d.liveN[k] >= d.liveK {
		return
	}
	d.liveN[k]++
	replied, reply := d.live.probe(m)
	for i := 0; i < 2 && !replied && r.out == "accepted"; i++ {
		// a lost datagram must not look like a refusal: what counts is that the listener never answers
		replied, reply = d.live.probe(m)
	}
	out := "rejected"
	if replied {
		out = "accepted"
	}
	tcsc := p.tcsc
	if c.Kind == "swapcookie" {
		tcsc = 2
	}
	// the listener issues one cookie per cookie / placeholder field it counted: seen in its reply
	liveCok := true
	if replied {
		var x result
		if safely(func() { d.w.clientRecv(bytes.Clone(reply), d.w.sess[tcsc].s2c, p.uid, nil, &x) }) == nil && x.out == "accepted" {
			// not more cookies than authenticated cookie / placeholder fields (nothing after the
			// authenticator was counted); that it issues one for EACH of them is C11's statement, and how
			// many of them the client keeps is the client's business (x.stored is not used here: a client
			// that only keeps cookies of its current association kept none and was alarmed on)
			liveCok = x.ncook <= c.Nf
		}
	}
	// The listener does not show which cookie it opened (ck_* unobserved); what its reply is worth is
	// observed below through the real client path.
	d.out.Emit(rec{Role: "listener", Nf: c.Nf, Kind: c.Kind, Region: c.Region, Fi: c.Fi, Sub: c.Sub, Pk: pk, Off: off, Bit: bit, Val: val,
		Out: out, Why: "live", Touched: touched(p, m), Key: p.keyOK, Dir: p.dirOK, Uid: uidIntact(p, m),
		TCkey: p.tckey, TCsc: tcsc, Pred: c.Pred, DD: true, Cok: liveCok})
	d.n++
	d.stats["live"]++
	if replied && c.Kind == "none" {
		// the listener's reply through the real client path
		rp := &packet{role: "resp", nf: c.Nf, kind: "none", b: reply, uid: p.uid, keyOK: true, dirOK: true, tckey: 101, tcsc: 1, sealed: nil}
		cr := d.w.receive(rp, reply)
		d.out.Emit(rec{Role: "resp", Nf: c.Nf, Kind: "none", Region: "-", Sub: "-", Pk: pk, Off: -1, Bit: -1, Val: -1,
			Out: cr.out, Why: "live-reply", Touched: []string{}, Key: true, Dir: true,
			Uid: len(reply) >= 52+uidLen && bytes.Equal(reply[52:52+uidLen], p.uid),
			TCkey: 101, TCsc: 1, Stored: cr.stored, Pred: []string{"accepted"}, DD: true, Cok: cr.out != "accepted" || cr.stored <= c.Nf})
		d.n++
		d.stats["live-reply"]++
	}
}

var smallSubs = map[string]bool{"type": true, "len": true, "kidT": true, "kidL": true, "kid": true, "nonT": true, "nonL": true, "ctT": true, "ctL": true}

func replacements16(orig int, sub string) []int {
	var vs []int
	switch sub {
	case "type", "kidT", "nonT", "ctT":
		vs = []int{0, 0x104, 0x204, 0x304, 0x404, 0x101, 0x201, 0x301, 0x401, 0x501, 0x601, 0xffff}
	case "kid":
		vs = []int{0, 1, 2, 3, orig + 1, 0xffff}
	default: // length fields
		vs = []int{0, 1, 2, 3, 4, 8, 16, 28, orig - 4, orig - 1, orig + 1, orig + 4, orig + 4 + cookieLen, 1024, 0xffff}
	}
	res := []int{}
	seen := map[int]bool{orig: true}
	for _, v := range vs {
		if v >= 0 && v <= 0xffff && !seen[v] {
			seen[v] = true
			res = append(res, v)
		}
	}
	return res
}

func (d *driver) runCase(c tcase, pk int, p *packet, allBits bool) {
	w := d.w
	switch c.Kind {
	case "none", "swapkey", "swapdir", "replay", "foreignkey":
		d.observe(c, pk, p, p.b, -1, -1, -1)
	case "appenduid", "replay+appenduid", "appendcookie", "replay+appendcookie":
		// whole extension fields after the authenticator (of a genuine packet / of a genuine response to another request)
		var bodies [][]byte
		typ := 0x104
		if c.Kind == "appenduid" || c.Kind == "replay+appenduid" {
			id := w.uid2
			if c.Role == "resp" {
				id = p.uid // the id of the client's outstanding request, readable in its request
			}
			bodies = [][]byte{id}
		} else {
			typ = 0x204
			bodies = [][]byte{w.sealCookie(w.sess[2], w.provKey), w.sealCookie(w.sess[1], w.provKey)}
		}
		for i, body := range bodies {
			m := bytes.Clone(p.b)
			m = binary.BigEndian.AppendUint16(m, uint16(typ))
			m = binary.BigEndian.AppendUint16(m, uint16(4+len(body)))
			m = append(m, body...)
			d.observe(c, pk, p, m, len(p.b), -1, i)
			if typ == 0x204 {
				// and twice the field / a placeholder of the same size
				m2 := append(bytes.Clone(m), m[len(p.b):]...)
				d.observe(c, pk, p, m2, len(p.b), -1, 10+i)
				m3 := bytes.Clone(m)
				binary.BigEndian.PutUint16(m3[len(p.b):], 0x304)
				d.observe(c, pk, p, m3, len(p.b), -1, 20+i)
			}
		}
	case "flip":
		for _, s := range p.lay {
			if s.region != c.Region || s.fi != c.Fi || s.sub != c.Sub {
				continue
			}
			for off := s.lo; off < s.hi; off++ {
				if allBits || smallSubs[s.sub] {
					for bit := 0; bit < 8; bit++ {
						m := bytes.Clone(p.b)
						m[off] ^= 1 << bit
						d.observe(c, pk, p, m, off, bit, -1)
					}
				} else {
					bit := w.rng.Intn(8)
					m := bytes.Clone(p.b)
					m[off] ^= 1 << bit
					d.observe(c, pk, p, m, off, bit, -1)
				}
			}
			if smallSubs[s.sub] && s.hi-s.lo == 2 {
				for _, v := range replacements16(u16(p.b, s.lo), s.sub) {
					m := bytes.Clone(p.b)
					binary.BigEndian.PutUint16(m[s.lo:], uint16(v))
					d.observe(c, pk, p, m, s.lo, -1, v)
				}
			}
		}
	case "append":
		// the model appends one cell (fewer bytes than a TLV header for a cookie, any for a packet)
		ks := []int{1, 2, 3}
		if c.Role != "cookie" {
			ks = append(ks, 4, 28, 40)
		}
		for _, k := range ks {
			for _, fill := range []int{0, 1} {
				m := bytes.Clone(p.b)
				for i := 0; i < k; i++ {
					x := byte(0)
					if fill == 1 {
						x = byte(w.rng.Intn(255) + 1)
					}
					m = append(m, x)
				}
				d.observe(c, pk, p, m, len(p.b), -1, k)
			}
		}
	case "trunc":
		// cut the tail, staying inside the last part of the packet (the ciphertext)
		last := p.lay[len(p.lay)-1]
		maxk := min(last.hi-last.lo, 40)
		for k := 1; k <= maxk; k++ {
			if !allBits && k > 4 && k%5 != 0 {
				continue
			}
			if len(bytes.Trim(p.b[len(p.b)-k:], "\x00")) == 0 {
				// The cut bytes are all zero: the receiver's zero fill (make + copy in unpack) rebuilds the very same
				// ciphertext, so this is not the model's mutation (its ciphertext cells are never zero bytes).
				// Inexact abstraction: skipped and counted, never judged.
				d.out.Emit(rec{Role: "note", Nf: c.Nf, Kind: "trunc-zero-tail", Region: c.Region, Fi: c.Fi, Sub: c.Sub, Pk: pk, Off: len(p.b) - k,
					Bit: -1, Val: k, Out: "rejected", Why: c.Role, Touched: []string{}, Pred: c.Pred, DD: true, Cok: true})
				continue
			}
			d.observe(c, pk, p, p.b[:len(p.b)-k], len(p.b)-k, -1, k)
		}
	case "replaceuid":
		m := bytes.Clone(p.b)
		copy(m[52:52+uidLen], w.uid2)
		d.observe(c, pk, p, m, 52, -1, -1)
	case "swapcookie":
		// a valid cookie of session 2 under the same server key, written over the request's cookie
		other := w.sealCookie(w.sess[2], w.provKey)
		m := bytes.Clone(p.b)
		at := 48 + 4 + uidLen + 4
		copy(m[at:at+cookieLen], other)
		d.observe(c, pk, p, m, at, -1, -1)
	default:
		w.t.Fatalf("unknown mutation kind %q", c.Kind)
	}
}

func TestC10(t *testing.T) {
	cases := vio.ReadCases[tcase](t)
	out := vio.Create(t)
	defer out.Close()
	rng := vio.Rand()
	npk, nplain := 1, 20
	if vio.Thorough() {
		npk, nplain = 4, 100
	}
	if v, err := strconv.Atoi(os.Getenv("VERIF_C10_PACKETS")); err == nil && v > 0 {
		npk = v
	}
	total := map[string]int{}
	nrec := 0
	for pk := 0; pk < npk; pk++ {
		w := &world{t: t, rng: rng}
		w.prov = ntske.NewProvider()
		w.provKey = w.prov.Current()
		other := ntske.NewProvider()
		w.foreign = other.Current()
		if w.foreign.ID != w.provKey.ID || bytes.Equal(w.foreign.Value, w.provKey.Value) {
			t.Fatalf("set-up: provider keys %d/%d", w.provKey.ID, w.foreign.ID)
		}
		s1, dd := exportedSession(t)
		w.sess[1] = s1
		w.sess[2] = session{c2s: rnd32(t), s2c: rnd32(t)}
		if pk%2 == 1 {
			s2, dd2 := exportedSession(t)
			w.sess[2] = s2
			dd = dd && dd2
		}
		dd = dd && !bytes.Equal(w.sess[1].c2s, w.sess[2].s2c) && !bytes.Equal(w.sess[1].s2c, w.sess[2].c2s)
		w.uid2 = rnd32(t)
		if pk == 0 {
			w.probeLoops()
		}
		d := &driver{w: w, out: out, stats: total, liveN: map[string]int{}, liveK: 2}
		if vio.Thorough() {
			d.liveK = 6
		}
		if pk == 0 && os.Getenv("VERIF_C10_NOLIVE") == "" {
			d.live = startLive(t, w.prov)
		}
		// the observation about ExportKeys itself
		out.Emit(rec{Role: "export", Nf: 1, Kind: "export", Region: "-", Sub: "-", Pk: pk, Off: -1, Bit: -1, Val: -1, Out: "rejected",
			Why: "-", Touched: []string{}, Key: true, Dir: true, Uid: true, Pred: []string{"rejected"}, DD: dd, Cok: true})
		d.n++
		for _, c := range cases {
			p := w.build(c.Role, c.Nf, senderKind(c.Kind))
			if p == nil {
				out.Emit(rec{Role: "skip", Nf: c.Nf, Kind: c.Kind, Region: c.Region, Fi: c.Fi, Sub: c.Sub, Pk: pk, Off: -1, Bit: -1, Val: -1,
					Out: "rejected", Why: c.Role, Touched: []string{}, Pred: c.Pred, DD: true, Cok: true})
				continue
			}
			reps := 1
			if c.Kind == "none" {
				reps = nplain // fresh nonces, uids and cookies each time
			}
			for i := 0; i < reps; i++ {
				if i > 0 {
					if p = w.build(c.Role, c.Nf, senderKind(c.Kind)); p == nil {
						break
					}
				}
				d.runCase(c, pk, p, vio.Thorough())
			}
		}
		nrec += d.n
	}
	t.Logf("C10 STATS records=%d cases=%d packets=%d accepted=%d rejected=%d panic=%d hang=%d hang_prefiltered=%d hang_watchdog=%d",
		nrec, len(cases), npk, total["accepted"], total["rejected"], total["panic"], total["hang"], total["hang-prefiltered"], total["hang-watchdog"])
	if nrec == 0 {
		t.Fatal("no record produced")
	}
}

func senderKind(k string) string {
	switch k {
	case "swapkey", "swapdir", "replay", "foreignkey":
		return k
	case "replay+appenduid", "replay+appendcookie":
		return "replay"
	}
	return "none"
}

// subBag: every element of a occurs in b at least as often as in a
func subBag(a, b [][]byte) bool {
	used := make([]bool, len(b))
	for _, x := range a {
		ok := false
		for j, y := range b {
			if !used[j] && bytes.Equal(x, y) {
				used[j], ok = true, true
				break
			}
		}
		if !ok {
			return false
		}
	}
	return true
}
