-------------------------- MODULE KeyProviderTrace --------------------------
(***************************************************************************)
(* Validation of what the real ntske.Provider returned under a virtual     *)
(* clock (harness/c12) against KeyProvider.tla.  The trace is a sequence   *)
(* of behaviours, each starting with a "reset" record (NewProvider) and    *)
(* followed by "adv" (clock step), "cur", "get" and "open" records in      *)
(* seconds since NewProvider; l' = l + 1.  A "cur" record carries in cid   *)
(* the identifier read back (Decode) from the cookie the driver sealed     *)
(* under the returned key through the servers' path (EncryptWithNonce,     *)
(* Encode); an "open" record is that cookie presented again the way the    *)
(* listeners do (Decode, Get(int(ID)), Decrypt, compare the plaintext).    *)
(* The reset record names the class of the scripted rand.Reader (draw).    *)
(*   monitor (KeyProviderTrace_mon.cfg): now, ret and the histories issued *)
(*     / seen are bound to the recorded projection and the property        *)
(*     section of KeyProvider.tla is evaluated as is on every recorded     *)
(*     return.  Calls of one phase (field ph) overlapped in real time, so  *)
(*     an issue obliges look-ups of later phases only: issues of the       *)
(*     running phase wait in `pend`.  The unobservable Provider fields are *)
(*     left alone.                                                         *)
(*   strict  (KeyProviderTrace_strict.cfg): the specification is stepped   *)
(*     by the recorded calls (Current / Get(arg) / Advance(d)) and must    *)
(*     return what the code returned, and what the generator expected.     *)
(***************************************************************************)
EXTENDS Integers, Sequences, FiniteSets, TLC, Json

Day == 86400          \* trace unit: one second
Gaps == {}
Horizon == 2000000000
VARIABLES now, keys, currentID, generatedAt, ret, issued, seen, cookies, draw,
          l,     \* position in the trace
          cph,   \* phase of the record at l
          pend,  \* issues of phase cph (monitor only)
          pendc  \* cookies issued in phase cph (monitor only)
INSTANCE KeyProvider

Trace == ndJsonDeserialize("trace.ndjson")
N == Len(Trace)
tvars == <<now, keys, currentID, generatedAt, ret, issued, seen, cookies, draw, l, cph, pend, pendc>>

IsCall(e) == e.op \in {"cur", "get", "open"}
Proj(e) == [op |-> e.op, arg |-> e.arg, t |-> e.t, ok |-> e.ok,
            id |-> e.id, nb |-> e.nb, na |-> e.na, val |-> e.val, cid |-> e.cid]
Merge(f, g) == [i \in DOMAIN f \cup DOMAIN g |-> IF i \in DOMAIN g THEN g[i] ELSE f[i]]

TInit ==
  /\ l = 0 /\ cph = 0 /\ pend = << >> /\ pendc = << >>
  /\ cookies = << >> /\ draw = "real"
  /\ now = 0 /\ ret = NoRet /\ issued = << >> /\ seen = {}
  /\ keys = << >> /\ currentID = 0 /\ generatedAt = 0

\* ------------------------------------------------------------- monitor
MonNext ==
  /\ l < N /\ l' = l + 1
  /\ UNCHANGED <<keys, currentID, generatedAt>>
  /\ LET e == Trace[l'] IN
     IF e.op = "reset"
     THEN /\ now' = 0 /\ ret' = NoRet /\ issued' = << >> /\ seen' = {} /\ cph' = 0 /\ pend' = << >>
          /\ cookies' = << >> /\ pendc' = << >> /\ draw' = e.draw
     ELSE LET newph == e.ph # cph
              pend0 == IF newph THEN << >> ELSE pend
              pendc0 == IF newph THEN << >> ELSE pendc
          IN /\ now' = e.t
             /\ draw' = draw
             /\ cookies' = IF newph THEN Merge(cookies, pendc) ELSE cookies
             /\ cph' = e.ph
             /\ issued' = IF newph THEN Merge(issued, pend) ELSE issued
             /\ IF IsCall(e) /\ e.exact
                THEN /\ ret' = Proj(e)
                     /\ seen' = SeenAfter(seen, ret')
                     /\ pend' = IssuedAfter(pend0, ret')
                     /\ pendc' = CookiesAfter(pendc0, ret')
                ELSE /\ ret' = NoRet      \* clock step, or instants that are not whole seconds (see RRaw)
                     /\ seen' = seen
                     /\ pend' = pend0
                     /\ pendc' = pendc0
MonSpec == TInit /\ [][MonNext]_tvars

\* the property section of KeyProvider.tla (CurrentValid, CurrentFresh,
\* GetOnlyValid, IdsUnique, CookieLifetime, CookieUsable) is listed in the cfg as is; plus
\* the same per-call inequalities evaluated by the driver on the raw time.Time
\* values (guards the conversion to seconds), and: Current() returned at all
RRaw == l > 0 => Trace[l].raw_ok

\* -------------------------------------------------------------- strict
StrNext ==
  /\ l < N /\ l' = l + 1
  /\ pend' = pend /\ pendc' = pendc
  /\ LET e == Trace[l'] IN
     /\ cph' = e.ph
     /\ CASE e.op = "reset" ->
               /\ now' = 0 /\ currentID' = 1 /\ generatedAt' = 0
               /\ keys' = [i \in {1} |-> NewKey(0, 1)]
               /\ ret' = NoRet /\ issued' = << >> /\ seen' = {}
               /\ cookies' = << >> /\ draw' = e.draw
          [] e.op = "adv" -> Advance(e.d)
          [] e.op = "cur" -> Current
          [] e.op = "get" -> Get(e.arg)
          [] e.op = "open" -> Open(e.arg)
StrSpec == TInit /\ [][StrNext]_tvars

Judged == l > 0 /\ IsCall(Trace[l]) /\ Trace[l].exact
\* the call is explained by the specification's action: same result
SExplained == Judged =>
  LET e == Trace[l] IN
    /\ ret.op = e.op /\ ret.arg = e.arg /\ ret.t = e.t /\ ret.ok = e.ok
    /\ ret.id = e.id /\ ret.nb = e.nb /\ ret.na = e.na /\ ret.cid = e.cid
STime == (l > 0 /\ Trace[l].exact) => now = Trace[l].t
\* ... and it is what the generating TLC run printed for this event
SExpected == (Judged /\ Trace[l].hasx) =>
  LET e == Trace[l] IN
    e.ok = e.xok /\ e.id = e.xid /\ e.nb = e.xnb /\ e.na = e.xna
SCurrentPresent == l > 0 => CurrentPresent
\* the scripted class of the randomness source is one the specification generates
SDraw == draw \in Draws
=============================================================================
