// C14 driver, histories of codec calls (spec/WireHist.tla): the results of
// earlier calls stay valid while the codecs are called again.
//
// Every TLC behaviour (plan of 2..3 calls, schedule of Begin/End events over
// one or two goroutines) is replayed on the real codecs.  The caller holds the
// result of every call until the end of the history.  Every result is copied
// into model units when its call returns (ret) and again at the end of the
// history (end); only then the encodings are decoded with the real decoders
// (rt).  WireTrace.tla judges: RHistRoundTrip on the end-of-history values,
// RResultsStable end = ret.
//
// Inputs are never written to after they were passed (decoded values may
// share memory with their input), buffers the codecs ask the caller for are
// fresh for every call.
package c14

import (
	"bufio"
	"bytes"
	"context"
	"math/rand"
	"reflect"
	"strings"
	"testing"

	"example.com/scion-time/net/ntp"
	"example.com/scion-time/net/nts"
	"example.com/scion-time/net/ntske"

	"verif/harness/internal/vio"
)

type hshape struct {
	Ssds bool       `json:"ssds"`
	Uid  int        `json:"uid"`
	Ck   []int      `json:"ck"`
	Ph   []int      `json:"ph"`
	Pt   []int      `json:"pt"`
	N    int        `json:"n"`
	Xl   int        `json:"xl"`
	Yl   int        `json:"yl"`
	Recs []keRecord `json:"recs"`
}

type hcall struct {
	Th  int    `json:"th"`
	Op  string `json:"op"`
	Cd  string `json:"cd"`
	Src int    `json:"src"`
	V   int    `json:"v"`
	Sh  hshape `json:"sh"`
}

type hev struct {
	E string `json:"e"`
	I int    `json:"i"`
}

type hcase struct {
	K     string  `json:"k"`
	Calls []hcall `json:"calls"`
	Sched []hev   `json:"sched"`
}

type hcallRec struct {
	Th    int    `json:"th"`
	Op    string `json:"op"`
	Cd    string `json:"cd"`
	Src   int    `json:"src"`
	V     int    `json:"v"`
	Val   any    `json:"val"`   // the protocol value, in the form of Wire.tla section 5
	Err   string `json:"err"`   // error / panic of the call
	Ret   any    `json:"ret"`   // the result, copied when the call returned
	End   any    `json:"end"`   // the same result, copied at the end of the history
	RtErr string `json:"rterr"` // enc: error of decoding the held result at the end of the history
	Rt    any    `json:"rt"`    // enc: what the real decoder makes of the held result at the end (dec: end itself is judged)
	Reenc []int  `json:"reenc"` // fixed layouts, enc: re-encoding of rt
}

type histRec struct {
	K     string     `json:"k"`
	Mode  string     `json:"mode"` // inline (one goroutine, no scheduling points between the calls) | goroutines
	Rep   int        `json:"rep"`
	Calls []hcallRec `json:"calls"`
	Sched []hev      `json:"sched"`
}

// hcodec: one codec of the property behind the interface of Wire.tla section 5.
// "live" results are the Go values the caller holds; snapshots are deep copies
// in model units.
type hcodec struct {
	newValue func(sh hshape, rng *rand.Rand) any
	valJSON  func(val any) any
	encode   func(val any) any              // -> live encoding (panics on error)
	encSnap  func(enc any) any              // live encoding -> model units
	cloneEnc func(enc any) any              // live encoding -> storage owned by the driver
	decode   func(val any, enc any) any     // live encoding -> live decoded value (panics on error)
	decSnap  func(dec any) any              // live decoded value -> model units (the form of HDecode)
	reenc    func(val any, dec any) []int   // fixed layouts only
}

// ---------------------------------------------------------------- fixed layouts

type layVal struct{ p any }

func layCodec(m string) hcodec {
	a := adaptors[m]
	return hcodec{
		newValue: func(sh hshape, rng *rand.Rand) any {
			p := baseStruct(a, m, "rand", sh.Ssds, rng)
			a.canon(p)
			return &layVal{p}
		},
		valJSON: func(v any) any { return valsOf(v.(*layVal).p) },
		encode: func(v any) any {
			p := v.(*layVal).p
			if m == "ntp" {
				var b []byte // EncodePacket allocates the buffer
				ntp.EncodePacket(&b, p.(*ntp.Packet))
				return b
			}
			b := make([]byte, a.declen(p))
			a.encode(b, p)
			return b
		},
		encSnap:  func(e any) any { return ints(e.([]byte)) },
		cloneEnc: func(e any) any { return append([]byte{}, e.([]byte)...) },
		decode: func(_ any, e any) any {
			p := reflect.New(a.typ).Interface()
			if err := a.decode(p, e.([]byte)); err != nil {
				panic("decode: " + err.Error())
			}
			return p
		},
		decSnap: func(d any) any { return valsOf(d) },
		reenc: func(_ any, d any) []int {
			b := make([]byte, a.declen(d))
			a.encode(b, d)
			return ints(b)
		},
	}
}

// ---------------------------------------------------------------- NTS packets

type ntsVal struct {
	pkt *nts.Packet
	in  ntsIn
	key []byte
	hdr []byte
}

type ntsLive struct {
	d      *nts.Packet
	nck    int
	err    string
	authOK bool
}

type ntsObs struct {
	Err    string  `json:"err"`
	Uid    []int   `json:"uid"`
	Ck     [][]int `json:"ck"`
	Ph     []int   `json:"ph"`
	AuthOK bool    `json:"auth_ok"`
	Rec    [][]int `json:"rec"`
	Nonce  []int   `json:"nonce"`
	Ct     []int   `json:"ct"`
}

var ntsCodec = hcodec{
	newValue: func(sh hshape, rng *rand.Rand) any {
		pkt, in, key := ntsFromShape(wcase{Uid: sh.Uid, Ck: sh.Ck, Ph: sh.Ph, Pt: sh.Pt}, rng)
		return &ntsVal{pkt: pkt, in: in, key: key, hdr: randBytes(rng, 48)}
	},
	valJSON: func(v any) any { return v.(*ntsVal).in },
	encode: func(v any) any {
		x := v.(*ntsVal)
		b := append([]byte{}, x.hdr...)
		nts.EncodePacket(&b, x.pkt) // allocates the MaxPacketLen buffer
		return b
	},
	encSnap: func(e any) any {
		b := e.([]byte)
		if len(b) < 48 {
			return []int{}
		}
		return ints(b[48:])
	},
	cloneEnc: func(e any) any { return append([]byte{}, e.([]byte)...) },
	// DecodePacket, then ProcessRequest (authentication, cookies carried in the authenticator)
	decode: func(v any, e any) any {
		x, b := v.(*ntsVal), e.([]byte)
		r := &ntsLive{d: &nts.Packet{}, err: "nil"}
		if err := nts.DecodePacket(r.d, b); err != nil {
			r.err = "other: " + err.Error()
			if strings.Contains(r.err, "unique identifier") {
				r.err = "nouid"
			} else if strings.Contains(r.err, "authenticator") {
				r.err = "noauth"
			}
		}
		r.nck = len(r.d.Cookies)
		if r.err == "nil" {
			r.authOK = nts.ProcessRequest(b, x.key, r.d) == nil
		}
		return r
	},
	decSnap: func(d any) any {
		r := d.(*ntsLive)
		o := ntsObs{Err: r.err, Uid: ints(r.d.UniqueID.ID), Ck: [][]int{}, Ph: []int{}, AuthOK: r.authOK, Rec: [][]int{},
			Nonce: ints(r.d.Auth.Nonce), Ct: ints(r.d.Auth.CipherText)}
		for i, c := range r.d.Cookies {
			if i < r.nck {
				o.Ck = append(o.Ck, ints(c.Cookie))
			} else {
				o.Rec = append(o.Rec, ints(c.Cookie))
			}
		}
		for _, c := range r.d.CookiePlaceholders {
			o.Ph = append(o.Ph, int(c.Length)-4)
		}
		return o
	},
}

// ---------------------------------------------------------------- server cookies

func ckShape(sh hshape, rng *rand.Rand) (n uint16, x, y []byte) {
	return uint16(sh.N), randBytes(rng, sh.Xl), randBytes(rng, sh.Yl)
}

var sckCodec = hcodec{
	newValue: func(sh hshape, rng *rand.Rand) any {
		n, x, y := ckShape(sh, rng)
		return &ntske.ServerCookie{Algo: n, S2C: x, C2S: y}
	},
	valJSON:  func(v any) any { return sckSnap(v) },
	encode:   func(v any) any { return v.(*ntske.ServerCookie).Encode() },
	encSnap:  func(e any) any { return ints(e.([]byte)) },
	cloneEnc: func(e any) any { return append([]byte{}, e.([]byte)...) },
	decode: func(_ any, e any) any {
		var d ntske.ServerCookie
		if err := d.Decode(e.([]byte)); err != nil {
			panic("decode: " + err.Error())
		}
		return &d
	},
	decSnap: sckSnap,
}

func sckSnap(d any) any {
	c := d.(*ntske.ServerCookie)
	return ckVal{Err: "nil", N: int(c.Algo), X: ints(c.S2C), Y: ints(c.C2S)}
}

func eckSnap(d any) any {
	c := d.(*ntske.EncryptedServerCookie)
	return ckVal{Err: "nil", N: int(c.ID), X: ints(c.Nonce), Y: ints(c.Ciphertext)}
}

var eckCodec = hcodec{
	newValue: func(sh hshape, rng *rand.Rand) any {
		n, x, y := ckShape(sh, rng)
		return &ntske.EncryptedServerCookie{ID: n, Nonce: x, Ciphertext: y}
	},
	valJSON:  func(v any) any { return eckSnap(v) },
	encode:   func(v any) any { return v.(*ntske.EncryptedServerCookie).Encode() },
	encSnap:  func(e any) any { return ints(e.([]byte)) },
	cloneEnc: func(e any) any { return append([]byte{}, e.([]byte)...) },
	decode: func(_ any, e any) any {
		var d ntske.EncryptedServerCookie
		if err := d.Decode(e.([]byte)); err != nil {
			panic("decode: " + err.Error())
		}
		return &d
	},
	decSnap: eckSnap,
}

// crypt: EncryptWithNonce / Decrypt; the "encoding" is the EncryptedServerCookie
type cryptVal struct {
	sc    *ntske.ServerCookie
	key   []byte
	keyid int
}

var cryptCodec = hcodec{
	newValue: func(sh hshape, rng *rand.Rand) any {
		n, x, y := ckShape(sh, rng)
		return &cryptVal{sc: &ntske.ServerCookie{Algo: n, S2C: x, C2S: y}, key: randBytes(rng, 32), keyid: sh.N}
	},
	valJSON: func(v any) any { return sckSnap(v.(*cryptVal).sc) },
	encode: func(v any) any {
		x := v.(*cryptVal)
		e, err := x.sc.EncryptWithNonce(x.key, x.keyid)
		if err != nil {
			panic("encrypt: " + err.Error())
		}
		return &e
	},
	encSnap: eckSnap,
	cloneEnc: func(e any) any {
		c := e.(*ntske.EncryptedServerCookie)
		return &ntske.EncryptedServerCookie{ID: c.ID, Nonce: append([]byte{}, c.Nonce...), Ciphertext: append([]byte{}, c.Ciphertext...)}
	},
	decode: func(v any, e any) any {
		out, err := e.(*ntske.EncryptedServerCookie).Decrypt(v.(*cryptVal).key)
		if err != nil {
			panic("decrypt: " + err.Error())
		}
		return &out
	},
	decSnap: sckSnap,
}

// ---------------------------------------------------------------- NTS-KE records (ExchangeMsg.Pack / ReadData)

type keLive struct {
	d   *ntske.Data
	err string
}

type keObs struct {
	Data keData `json:"data"`
	Err  string `json:"err"`
}

var keCodec = hcodec{
	newValue: func(sh hshape, _ *rand.Rand) any { return normRecs(append([]keRecord{}, sh.Recs...)) },
	valJSON:  func(v any) any { return v },
	encode: func(v any) any {
		var m ntske.ExchangeMsg
		for _, r := range v.([]keRecord) {
			m.AddRecord(toRecord(r))
		}
		buf, err := m.Pack()
		if err != nil {
			panic("pack: " + err.Error())
		}
		return buf
	},
	encSnap:  func(e any) any { return ints(e.(*bytes.Buffer).Bytes()) },
	cloneEnc: func(e any) any { return bytes.NewBuffer(append([]byte{}, e.(*bytes.Buffer).Bytes()...)) },
	decode: func(_ any, e any) any {
		r := &keLive{d: &ntske.Data{}}
		// reads the held bytes without consuming the caller's buffer
		err := ntske.ReadData(context.Background(), discard, bufio.NewReader(bytes.NewReader(e.(*bytes.Buffer).Bytes())), r.d)
		r.err = errClass(err)
		return r
	},
	decSnap: func(d any) any {
		r := d.(*keLive)
		o := keObs{Data: keData{Algo: int(r.d.Algo), Cookies: [][]int{}, Server: ints([]byte(r.d.Server)), Port: int(r.d.Port)}, Err: r.err}
		for _, c := range r.d.Cookie {
			o.Data.Cookies = append(o.Data.Cookies, ints(c))
		}
		return o
	},
}

var hcodecs = map[string]hcodec{
	"ntp": layCodec("ntp"), "csptp": layCodec("csptp"), "reqtlv": layCodec("reqtlv"), "resptlv": layCodec("resptlv"),
	"nts": ntsCodec, "sck": sckCodec, "eck": eckCodec, "crypt": cryptCodec, "ke": keCodec,
}

// ---------------------------------------------------------------- replay of one history

func runHist(c hcase, rep int, rng *rand.Rand) *histRec {
	n := len(c.Calls)
	r := &histRec{K: "hist", Mode: "inline", Rep: rep, Calls: make([]hcallRec, n), Sched: c.Sched}
	vals := make([]any, n) // protocol values
	ext := make([]any, n)  // decoder inputs written by the environment
	live := make([]any, n) // the results, held by the caller until the end of the history
	for i, call := range c.Calls {
		cd, ok := hcodecs[call.Cd]
		if !ok {
			panic("unknown codec " + call.Cd)
		}
		if call.Src > 0 {
			vals[i] = vals[call.Src-1]
		} else {
			vals[i] = cd.newValue(call.Sh, rng)
		}
		r.Calls[i] = hcallRec{Th: call.Th, Op: call.Op, Cd: call.Cd, Src: call.Src, V: call.V, Val: cd.valJSON(vals[i]),
			Err: "not run", Ret: []int{}, End: []int{}, RtErr: "nil", Rt: []int{}, Reenc: []int{}}
		if call.Th != 1 {
			r.Mode = "goroutines"
		}
	}
	// the environment's encodings (datagrams from the network): made before the
	// history starts, copied into storage of the driver
	for i, call := range c.Calls {
		if call.Op == "dec" && call.Src == 0 {
			cd := hcodecs[call.Cd]
			msg := guard(func() { ext[i] = cd.cloneEnc(cd.encode(vals[i])) })
			if msg != "nil" {
				r.Calls[i].Err = "input: " + msg
			}
		}
	}
	// one call; the result is copied as soon as the call has returned
	exec := func(i int) {
		call, cd, rec := c.Calls[i], hcodecs[c.Calls[i].Cd], &r.Calls[i]
		if strings.HasPrefix(rec.Err, "input: ") {
			return
		}
		rec.Err = guard(func() {
			if call.Op == "enc" {
				live[i] = cd.encode(vals[i])
				rec.Ret = cd.encSnap(live[i])
				return
			}
			in := ext[i]
			if call.Src > 0 {
				in = live[call.Src-1] // the result of the earlier call itself, not a copy
			}
			if in == nil {
				panic("no input")
			}
			live[i] = cd.decode(vals[i], in)
			rec.Ret = cd.decSnap(live[i])
		})
	}
	if r.Mode == "inline" {
		for _, ev := range c.Sched {
			if ev.E == "B" {
				exec(ev.I - 1)
			}
		}
	} else {
		// one goroutine per thread of the plan; Begin releases the call, End waits for its return
		cmd := map[int]chan int{}
		done := make([]chan struct{}, n)
		for i, call := range c.Calls {
			done[i] = make(chan struct{})
			if cmd[call.Th] == nil {
				ch := make(chan int, n)
				cmd[call.Th] = ch
				go func() {
					for j := range ch {
						exec(j)
						close(done[j])
					}
				}()
			}
		}
		for _, ev := range c.Sched {
			if ev.E == "B" {
				cmd[c.Calls[ev.I-1].Th] <- ev.I - 1
			} else {
				<-done[ev.I-1]
			}
		}
		for _, ch := range cmd {
			close(ch)
		}
	}
	// end of the history: first every held result is copied again ...
	for i, call := range c.Calls {
		if live[i] == nil {
			continue
		}
		cd, rec := hcodecs[call.Cd], &r.Calls[i]
		msg := guard(func() {
			if call.Op == "enc" {
				rec.End = cd.encSnap(live[i])
			} else {
				rec.End = cd.decSnap(live[i])
			}
		})
		if msg != "nil" {
			rec.Err = "end: " + msg
		}
	}
	// ... then the held encodings are decoded (these calls are not part of the history)
	for i, call := range c.Calls {
		cd, rec := hcodecs[call.Cd], &r.Calls[i]
		if live[i] == nil {
			continue
		}
		if call.Op == "dec" {
			continue // judged on End itself
		}
		rec.RtErr = guard(func() {
			d := cd.decode(vals[i], live[i])
			rec.Rt = cd.decSnap(d)
			if cd.reenc != nil {
				rec.Reenc = cd.reenc(vals[i], d)
			}
		})
	}
	return r
}

func TestC14Hist(t *testing.T) {
	cases := vio.ReadCases[hcase](t)
	out := vio.Create(t)
	defer out.Close()
	rng := vio.Rand()
	counts := map[string]int{}
	for _, c := range cases {
		if c.K != "hist" {
			t.Fatalf("unknown case kind %q", c.K)
		}
		reps := 1
		overlap := false
		for j := 1; j < len(c.Sched); j++ {
			if c.Sched[j].E == "B" && c.Sched[j-1].E == "B" {
				overlap = true
			}
		}
		if overlap && len(c.Calls) == 2 && vio.Thorough() {
			reps = 2 // calls that run at the same time: the outcome of a race is not in the driver's hands
		}
		for rep := 0; rep < reps; rep++ {
			r := runHist(c, rep, rng)
			out.Emit(r)
			counts[r.Mode]++
			if overlap {
				counts["overlapping"]++
			}
		}
	}
	t.Logf("C14 history records: %v (cases=%d)", counts, len(cases))
	if out.N == 0 {
		t.Fatal("no record produced")
	}
}
