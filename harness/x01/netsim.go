// Package x01 is the scripted network + server harness for X01 (CSPTP
// exchange): the real core/client.CSPTPClientIP talks over loopback to the
// harness, which plays the network (drop, duplicate, hold, reorder, forge,
// transparent clock) and
//   - mode "sim":  a stand-in CSPTP server that implements ServerMode =
//     "paired" of spec/CsptpExchange.tla with real timestamps shifted by a
//     controllable clock offset theta (the repository's server never answers),
//   - mode "real": relays the requests to the REAL server.StartCSPTPServerIP
//     and records whatever comes back.
// Schedules come from TLC (CsptpExchangeGen).
package x01

import (
	"context"
	"fmt"
	"log/slog"
	"net"
	"net/netip"
	"os"
	"sync"
	"sync/atomic"
	"time"

	btimebase "example.com/scion-time/base/timebase"
	"example.com/scion-time/core/client"
	"example.com/scion-time/core/timebase"
	"example.com/scion-time/net/csptp"
	"example.com/scion-time/net/udp"

	"golang.org/x/sys/unix"
)

// ------------------------------------------------------------------ clock
type realClock struct{}

func (realClock) Epoch() uint64                                  { return 0 }
func (realClock) Now() time.Time                                 { return time.Now().UTC() }
func (realClock) Drift(time.Duration) time.Duration              { return 0 }
func (realClock) Step(time.Duration)                             {}
func (realClock) Adjust(time.Duration, time.Duration, float64)   {}
func (realClock) Sleep(d time.Duration)                          { time.Sleep(d) }

var _ btimebase.SystemClock = realClock{}

var registerOnce sync.Once

func registerClock() { registerOnce.Do(func() { timebase.RegisterClock(realClock{}) }) }

// ------------------------------------------------------------------ addresses
// every process gets its own 127.88.<p>.x block, so parallel checks do not
// collide on the fixed CSPTP ports 319/320
func addr(last int) netip.Addr {
	p := os.Getpid()
	return netip.AddrFrom4([4]byte{127, 88, byte(1 + p%250), byte(last)})
}

var (
	addrSim   = addr(1)  // stand-in server
	addrOther = addr(2)  // "another host"
	addrReal  = addr(3)  // real server
	addrRelay = addr(4)  // relay in front of the real server
)

func addrClient(c int) netip.Addr { return addr(10 + c) } // local address of client c
func addrFwd(c int) netip.Addr    { return addr(20 + c) } // client c as the real server sees it

// ------------------------------------------------------------------ logging
type LogRec struct {
	Msg    string
	M0, M1 csptp.Message
	TLV    csptp.ResponseTLV
	Off    time.Duration
}

type chanHandler struct{ ch chan LogRec }

func (h chanHandler) Enabled(context.Context, slog.Level) bool { return true }
func (h chanHandler) Handle(_ context.Context, r slog.Record) error {
	lr := LogRec{Msg: r.Message}
	r.Attrs(func(a slog.Attr) bool {
		switch v := a.Value.Any().(type) {
		case *csptp.Message:
			if a.Key == "respmsg0" {
				lr.M0 = *v
			} else if a.Key == "respmsg1" {
				lr.M1 = *v
			}
		case *csptp.ResponseTLV:
			lr.TLV = *v
		}
		if a.Key == "clock offset" && a.Value.Kind() == slog.KindDuration {
			lr.Off = a.Value.Duration()
		}
		return true
	})
	select {
	case h.ch <- lr:
	default: // never block the client
	}
	return nil
}
func (h chanHandler) WithAttrs([]slog.Attr) slog.Handler { return h }
func (h chanHandler) WithGroup(string) slog.Handler      { return h }

type nullHandler struct{}

func (nullHandler) Enabled(context.Context, slog.Level) bool  { return false }
func (nullHandler) Handle(context.Context, slog.Record) error { return nil }
func (nullHandler) WithAttrs([]slog.Attr) slog.Handler        { return nullHandler{} }
func (nullHandler) WithGroup(string) slog.Handler             { return nullHandler{} }

func slogNull() *slog.Logger { return slog.New(nullHandler{}) }

// ------------------------------------------------------------------ sockets
type tsConn struct {
	c   *net.UDPConn
	oob []byte
}

func listenTS(a netip.Addr, port int) (*tsConn, error) {
	c, err := net.ListenUDP("udp", net.UDPAddrFromAddrPort(netip.AddrPortFrom(a, uint16(port))))
	if err != nil {
		return nil, err
	}
	if err := udp.EnableTimestamping(c, ""); err != nil {
		return nil, fmt.Errorf("timestamping: %w", err)
	}
	return &tsConn{c: c, oob: make([]byte, udp.TimestampLen())}, nil
}

// listenRx: receive timestamps only (the endpoint sockets are read by a goroutine of
// their own; reading transmit timestamps from the error queue would wait for it)
func listenRx(a netip.Addr, port int) (*tsConn, error) {
	c, err := net.ListenUDP("udp", net.UDPAddrFromAddrPort(netip.AddrPortFrom(a, uint16(port))))
	if err != nil {
		return nil, err
	}
	sc, err := c.SyscallConn()
	if err != nil {
		return nil, err
	}
	var serr error
	err = sc.Control(func(fd uintptr) {
		serr = unix.SetsockoptInt(int(fd), unix.SOL_SOCKET, unix.SO_TIMESTAMPING_NEW,
			unix.SOF_TIMESTAMPING_SOFTWARE|unix.SOF_TIMESTAMPING_RX_SOFTWARE)
	})
	if err != nil || serr != nil {
		return nil, fmt.Errorf("timestamping: %v %v", err, serr)
	}
	return &tsConn{c: c, oob: make([]byte, udp.TimestampLen())}, nil
}

// deliver sends; the time just before the send bounds the receiver's rx timestamp from below
func (t *tsConn) deliver(b []byte, dst netip.AddrPort) (time.Time, error) {
	at := time.Now().UTC()
	_, err := t.c.WriteToUDPAddrPort(b, dst)
	return at, err
}

func (t *tsConn) port() uint16 { return t.c.LocalAddr().(*net.UDPAddr).AddrPort().Port() }

// read returns payload, kernel rx timestamp and source.
func (t *tsConn) read(deadline time.Duration) ([]byte, time.Time, netip.AddrPort, error) {
	buf := make([]byte, 2048)
	oob := t.oob[:cap(t.oob)]
	t.c.SetReadDeadline(time.Now().Add(deadline))
	n, oobn, _, src, err := t.c.ReadMsgUDPAddrPort(buf, oob)
	if err != nil {
		return nil, time.Time{}, src, err
	}
	ts, err := udp.TimestampFromOOBData(oob[:oobn])
	if err != nil {
		ts = time.Now().UTC()
	}
	return buf[:n], ts, src, nil
}

// write sends and returns the kernel tx timestamp.
func (t *tsConn) write(b []byte, dst netip.AddrPort) (time.Time, error) {
	_, err := t.c.WriteToUDPAddrPort(b, dst)
	if err != nil {
		return time.Time{}, err
	}
	ts, _, err := udp.ReadTXTimestamp(t.c)
	if err != nil {
		return time.Now().UTC(), nil
	}
	return ts, nil
}

// ------------------------------------------------------------------ clients
type MeasureResult struct {
	Ts  time.Time
	Off time.Duration
	Err error
}

type cli struct {
	id      int
	c       *client.CSPTPClientIP
	local   netip.Addr
	logs    chan LogRec
	done    chan MeasureResult
	calling atomic.Bool
	oks     int
}

func newCli(id int) *cli {
	k := &cli{id: id, local: addrClient(id), logs: make(chan LogRec, 256), done: make(chan MeasureResult, 4)}
	k.c = &client.CSPTPClientIP{Log: slog.New(chanHandler{k.logs})}
	return k
}

func (k *cli) start(remote netip.Addr, timeout time.Duration) {
	k.calling.Store(true)
	go func() {
		ctx, cancel := context.WithTimeout(context.Background(), timeout)
		defer cancel()
		var res MeasureResult
		func() {
			defer func() {
				if r := recover(); r != nil {
					res.Err = fmt.Errorf("PANIC: %v", r)
				}
			}()
			res.Ts, res.Off, res.Err = k.c.MeasureClockOffset(ctx, k.local, remote)
		}()
		k.calling.Store(false)
		k.done <- res
	}()
}

func (k *cli) drainLogs() {
	for {
		select {
		case <-k.logs:
		default:
			return
		}
	}
}

// ------------------------------------------------------------------ network endpoint
type Arrival struct {
	B    []byte
	At   time.Time // kernel rx timestamp at the endpoint
	Src  netip.AddrPort
	Port int // 319 | 320
}

// Endpoint: the address the clients query (stand-in server or relay).
type Endpoint struct {
	A        netip.Addr
	E, G     *tsConn // :319, :320
	X        *tsConn // another host, :320
	Arrivals chan Arrival
	stop     chan struct{}
	wg       sync.WaitGroup
}

func NewEndpoint(a netip.Addr) (*Endpoint, error) {
	e := &Endpoint{A: a, Arrivals: make(chan Arrival, 64), stop: make(chan struct{})}
	var err error
	if e.E, err = listenRx(a, csptp.EventPortIP); err != nil {
		return nil, err
	}
	if e.G, err = listenRx(a, csptp.GeneralPortIP); err != nil {
		return nil, err
	}
	if e.X, err = listenRx(addrOther, csptp.GeneralPortIP); err != nil {
		return nil, err
	}
	for _, pc := range []struct {
		c *tsConn
		p int
	}{{e.E, csptp.EventPortIP}, {e.G, csptp.GeneralPortIP}} {
		e.wg.Add(1)
		go func(c *tsConn, p int) {
			defer e.wg.Done()
			for {
				select {
				case <-e.stop:
					return
				default:
				}
				b, at, src, err := c.read(50 * time.Millisecond)
				if err != nil {
					continue
				}
				e.Arrivals <- Arrival{B: b, At: at, Src: src, Port: p}
			}
		}(pc.c, pc.p)
	}
	return e, nil
}

func (e *Endpoint) Close() {
	close(e.stop)
	e.wg.Wait()
	e.E.c.Close()
	e.G.c.Close()
	e.X.c.Close()
}

func (e *Endpoint) sock(src string) *tsConn {
	switch src {
	case "e":
		return e.E
	case "g":
		return e.G
	}
	return e.X
}

// ------------------------------------------------------------------ stand-in server ("paired")
const ctxCap = 2 // CtxCap of the generator configuration

type sctx struct {
	conn string
	port uint16
	seq  uint16
	corr int64
	rx   time.Time
	th   time.Duration
	ex   int
}

type Pairing struct {
	H              int
	Cl             int
	SyEx, FuEx     int
	Seq            uint16
	T1, T2         time.Time // server clock
	Th1, Th2       time.Duration
	SyPort, FuPort uint16
	RC             int64
}

type SimServer struct {
	theta  time.Duration
	ctx    map[int][]sctx
	hcount int
	Pairs  map[int]*Pairing
}

func NewSimServer() *SimServer { return &SimServer{ctx: map[int][]sctx{}, Pairs: map[int]*Pairing{}} }

// Recv is CsptpExchange!ServerRecv for ServerMode = "paired".
func (s *SimServer) Recv(cl int, kind string, seq uint16, port uint16, corr int64, ex int) *Pairing {
	cn, other := "e", "g"
	if kind == "fu" {
		cn, other = "g", "e"
	}
	me := sctx{conn: cn, port: port, seq: seq, corr: corr, rx: time.Now().UTC().Add(s.theta), th: s.theta, ex: ex}
	tab := s.ctx[cl]
	oth, sam := -1, -1
	for i, c := range tab {
		if c.seq == seq && c.conn == other && oth < 0 {
			oth = i
		}
		if c.seq == seq && c.conn == cn && sam < 0 {
			sam = i
		}
	}
	if oth >= 0 {
		sy, fu := me, tab[oth]
		if cn == "g" {
			sy, fu = tab[oth], me
		}
		s.hcount++
		p := &Pairing{H: s.hcount, Cl: cl, SyEx: sy.ex, FuEx: fu.ex, Seq: seq, T1: sy.rx, Th1: sy.th,
			T2: time.Now().UTC().Add(s.theta), Th2: s.theta, SyPort: sy.port, FuPort: fu.port, RC: sy.corr}
		s.ctx[cl] = append(append([]sctx{}, tab[:oth]...), tab[oth+1:]...)
		s.Pairs[p.H] = p
		return p
	}
	switch {
	case sam >= 0:
		tab[sam] = me
	case len(tab) == ctxCap:
		tab = append(append([]sctx{}, tab[1:]...), me)
	default:
		tab = append(tab, me)
	}
	s.ctx[cl] = tab
	return nil
}

// ------------------------------------------------------------------ wire
func syncResp(seq uint16, corr int64) []byte {
	msg := csptp.Message{
		SdoIDMessageType: csptp.MessageTypeSync, PTPVersion: csptp.PTPVersion, MessageLength: csptp.MinMessageLength,
		DomainNumber: csptp.DomainNumber, MinorSdoID: csptp.MinorSdoID, FlagField: csptp.FlagTwoStep | csptp.FlagUnicast,
		CorrectionField: corr, SourcePortIdentity: csptp.PortID{ClockID: 1, Port: 1}, SequenceID: seq,
		ControlField: csptp.ControlSync, LogMessageInterval: csptp.LogMessageInterval,
	}
	b := make([]byte, csptp.MinMessageLength)
	csptp.EncodeMessage(b, &msg)
	return b
}

func fuResp(seq uint16, t1 time.Time, rc int64, t2 time.Time, sub2 uint8) []byte {
	msg := csptp.Message{
		SdoIDMessageType: csptp.MessageTypeFollowUp, PTPVersion: csptp.PTPVersion, MessageLength: csptp.MinMessageLength,
		DomainNumber: csptp.DomainNumber, MinorSdoID: csptp.MinorSdoID, FlagField: csptp.FlagUnicast,
		SourcePortIdentity: csptp.PortID{ClockID: 1, Port: 1}, SequenceID: seq,
		ControlField: csptp.ControlFollowUp, LogMessageInterval: csptp.LogMessageInterval,
		Timestamp: csptp.TimestampFromTime(t2),
	}
	tlv := csptp.ResponseTLV{
		Type:                    csptp.TLVTypeOrganizationExtension,
		OrganizationID:          [3]uint8{csptp.OrganizationIDMeinberg0, csptp.OrganizationIDMeinberg1, csptp.OrganizationIDMeinberg2},
		OrganizationSubType:     [3]uint8{csptp.OrganizationSubTypeResponse0, csptp.OrganizationSubTypeResponse1, sub2},
		FlagField:               csptp.TLVFlagServerStateDS,
		RequestIngressTimestamp: csptp.TimestampFromTime(t1),
		RequestCorrectionField:  rc,
	}
	msg.MessageLength += uint16(csptp.EncodedResponseTLVLength(&tlv))
	tlv.Length = uint16(csptp.EncodedResponseTLVLength(&tlv))
	b := make([]byte, msg.MessageLength)
	csptp.EncodeMessage(b[:csptp.MinMessageLength], &msg)
	csptp.EncodeResponseTLV(b[csptp.MinMessageLength:], &tlv)
	return b
}

func getCorr(b []byte) int64 {
	var m csptp.Message
	if csptp.DecodeMessage(&m, b[:csptp.MinMessageLength]) != nil {
		return 0
	}
	return m.CorrectionField
}

// addCorr adds d to the correctionField (ns * 2^16) of an encoded message.
func addCorr(b []byte, d time.Duration) []byte {
	var m csptp.Message
	if csptp.DecodeMessage(&m, b[:csptp.MinMessageLength]) != nil {
		return b
	}
	m.CorrectionField += int64(d) << 16
	out := append([]byte{}, b...)
	csptp.EncodeMessage(out[:csptp.MinMessageLength], &m)
	return out
}
