"""C02 - fault-tolerant midpoint and median stay within the correct values."""
import vlib


def run(ctx):
    q = ctx.quick
    # 1. design level: the property section of Midpoint.tla, exhaustively
    r = ctx.tlc("MidpointMC", "Midpoint_exh.cfg" if q else "Midpoint_deep.cfg", timeout=900)
    ctx.log("TLC exhaustive: %d distinct states" % r["distinct"])
    # 2. spec -> code: TLC enumerates the inputs with the spec's results
    g = ctx.tlc("MidpointMC", "Midpoint_gen.cfg" if q else "Midpoint_gendeep.cfg", workers=1, timeout=900, tag="gen")
    cases = ctx.emitted(g["out"])
    if len(cases) < 1000:
        raise vlib.Inconclusive("case generator produced only %d cases" % len(cases))
    cp = ctx.path("cases.ndjson")
    vlib.write_ndjson(cp, cases)
    # 3. real code under embeddings and input orders
    trace, out = ctx.godriver("c02", "TestC02", cases=cp)
    recs = vlib.read_ndjson(trace)
    ctx.log("driver: %d records from %d cases" % (len(recs), len(cases)))
    # 4. code -> spec: monitor decides, strict reports drift
    nval = 0
    chunk = 60000
    paths = []
    for i in range(0, len(recs), chunk):
        pp = ctx.path("chunk%d.ndjson" % (i // chunk))
        vlib.write_ndjson(pp, recs[i:i + chunk])
        paths.append(pp)
    res = ctx.validate_parallel("MidpointTrace", "MidpointTrace_mon.cfg", paths, jobs=4)
    clean = []
    for k, (ok, l, inv, tout) in enumerate(res):
        part = recs[k * chunk:(k + 1) * chunk]
        if not ok:
            bad = part[l - 1] if l else None
            ctx.violation("C02 %s %s" % (inv, bad["k"] if bad else "?"),
                          "real %s result violates %s: %s" % (bad["k"] if bad else "?", inv, bad), bad)
            continue
        nval += len(part)
        clean.append((k, paths[k]))
    if clean:
        sres = ctx.validate_parallel("MidpointTrace", "MidpointTrace_strict.cfg", [p for _, p in clean], jobs=4)
        for (k, _), (ok, l, inv, tout) in zip(clean, sres):
            if not ok:
                part = recs[k * chunk:(k + 1) * chunk]
                ctx.drift.append("record %s differs from Midpoint.tla (%s)" % (part[l - 1] if l else "?", inv))
    distinct = len({(x["k"], tuple(x["s"]), x["emb"]) for x in recs})
    ctx.cov.update(
        evaluations=len(recs), distinct_nontrivial=distinct,
        rule="every sequence over the config's value set with length 1..MaxN (TLC-enumerated, exhaustive) x "
             "value embeddings a*v+b up to +-(2^62-1) x input orders (identity, reverse, seeded permutations); "
             "distinct = distinct (variant, ordered input, embedding)",
        traces_validated_against_impl=nval, exhaustive=True,
        samples=recs[:2] + recs[len(recs) // 2:len(recs) // 2 + 2] + recs[-2:])
    ctx.assumptions += ["affine embeddings commute with sort/midpoint (inexact inverse images are skipped, never judged)",
                        "small-scope: n <= 5 (quick) / 7-8 (thorough) over 5-7 model values"]
