"""C03 - reported offset within half the round-trip delay of the true offset; four timestamps of one exchange."""
import vlib


def reuse_scenario(ctx, recs_main):
    """Known finding C03-port-reuse: the schedule TLC finds with ReusePorts = TRUE (a delayed
    response to a timed-out interleaved request reaches the next attempt's socket, which got the
    same ephemeral port) executed on the real clients in a network namespace whose ephemeral port
    range is one port."""
    import os, subprocess
    r = ctx.tlc("NtpExchangeGen", "NtpExchange_reuse.cfg", workers=1, timeout=300, simulate="num=3000", depth=90,
                allow_violation=True, tag="reuse-spec")
    ctx.notes.append("NtpExchange.tla with ReusePorts=TRUE: TLC reports %s (expected: PrevConsistent / SameExchange)" % r["violated"])
    outp = ctx.path("reuse.ndjson")
    env = vlib.goenv()
    env.update(VERIF_FIXED_PORTS="1", VERIF_IN=os.path.join(vlib.SPEC, "mc", "NtpExchange_reuse.ndjson"), VERIF_OUT=outp,
               VERIF_SEED=str(ctx.seed))
    vlib.ensure_harness()
    mod = ("-modfile=" + vlib.alt_modfile()) if vlib.REPO != "/repo" else ""
    cmd = ("ip link set lo up && sysctl -qw net.ipv4.ip_local_port_range='40000 40000' && cd %s && "
           "%s test -tags verif -count 1 -vet=off %s -run ^TestC03Reuse$ ./c03" % (vlib.HARNESS, vlib.GO, mod))
    p = subprocess.run(["timeout", "300", "unshare", "-n", "sh", "-c", cmd], env=env, stdout=subprocess.PIPE,
                       stderr=subprocess.STDOUT, text=True)
    if p.returncode != 0 or not os.path.exists(outp):
        ctx.notes.append("port-reuse scenario not run (no network namespace available?): %s" % p.stdout[-300:])
        return
    recs = vlib.read_ndjson(outp)
    for attempt in range(6):
        pp = ctx.path("reuse_cur.ndjson")
        vlib.write_ndjson(pp, recs)
        ok, l, inv, tout = ctx.validate("NtpExchangeTrace", "NtpExchangeTrace_mon.cfg", pp)
        if ok:
            break
        bad = recs[l - 1]
        ctx.violation("C03 %s %s port-reuse" % (inv, "interleaved" if bad["il"] else "basic"),
                      "with the ephemeral port reused, accepted measurement violates %s: %s" % (inv, bad),
                      {"record": bad, "schedule": "spec/mc/NtpExchange_reuse.ndjson"})
        recs = [x for x in recs if x["beh"] != bad["beh"]]
    ctx.cov["port_reuse_records"] = len(vlib.read_ndjson(outp))


def run(ctx):
    """Two exhaustive TLC runs per tier: the IP network (the end host attaches nothing) and the SCION
    end host (every class of forwarder stamp, end-to-end option 253, at every delivery). The longer of
    the two runs in a thread of its own (private copy of the spec directory) while the schedules are
    generated and replayed; its result is awaited before the verdict."""
    from concurrent.futures import ThreadPoolExecutor
    q = ctx.quick
    sd = ctx.private_specdir()
    pool = ThreadPoolExecutor(max_workers=1)
    if q:
        fut = pool.submit(ctx.tlc, "NtpExchangeMC", "NtpExchange_fwd.cfg", timeout=300, workers=4, tag="fwd", specdir=sd)
    else:
        fut = pool.submit(ctx.tlc, "NtpExchangeMC", "NtpExchange_deep.cfg", timeout=2400, workers=8, heap="20g", specdir=sd)
    try:
        _run(ctx, fut)
    finally:
        fut.exception()     # never leave the background run behind (its failure is raised by fut.result() in _run)
        pool.shutdown()


def _run(ctx, fut):
    q = ctx.quick
    if q:
        r = ctx.tlc("NtpExchangeMC", "NtpExchange_exh.cfg", timeout=300, workers=8)
        ctx.log("TLC exhaustive (IP network): %d distinct states" % r["distinct"])
    else:
        rf = ctx.tlc("NtpExchangeMC", "NtpExchange_fwddeep.cfg", timeout=1200, workers=8, heap="12g", tag="fwd")
        ctx.log("TLC exhaustive, SCION end host with forwarder stamps: %d distinct states" % rf["distinct"])
    n = 104 if q else 1200

    def gen(cfg, num, tag):
        g = ctx.tlc("NtpExchangeGen", cfg, workers=1, timeout=600, simulate="num=%d" % num, depth=90, tag=tag)
        ss = ctx.emitted(g["out"])
        # a walk is emitted again every time it continues after completion: keep maximal ones
        keep = []
        for i, s in enumerate(ss):
            nxt = ss[i + 1] if i + 1 < len(ss) else None
            if nxt is not None and len(nxt) > len(s) and nxt[:len(s)] == s:
                continue
            keep.append(s)
        return keep
    # one generator run per network: IP (the end host attaches nothing) and SCION (the
    # forwarder's stamp class is drawn at every delivery); the schedules alternate
    s_ip = gen("NtpExchange_gen.cfg", n // 2, "gen")
    s_sc = gen("NtpExchange_genfwd.cfg", n // 2, "genfwd")
    scheds = [s for pair in zip(s_ip, s_sc) for s in pair] + s_ip[len(s_sc):] + s_sc[len(s_ip):]
    if len(scheds) < n // 4 or len(s_ip) < n // 8 or len(s_sc) < n // 8:
        raise vlib.Inconclusive("generator produced only %d + %d schedules" % (len(s_ip), len(s_sc)))
    # vacuity of the forwarder dimension, judged on what the specification generated:
    # deliveries the schedules predict to be accepted, per stamp class
    classes = ("none", "inside", "before", "after", "bad")
    fwd_ok = {c: sum(1 for s in s_sc for m in s if m.get("a") == "crecv" and m.get("res") == "ok" and m.get("fw") == c)
              for c in classes}
    fwd_all = {c: sum(1 for s in s_sc for m in s if m.get("a") == "crecv" and m.get("fw") == c) for c in classes}
    need = 8 if q else 80
    if any(fwd_ok[c] < need for c in classes):
        raise vlib.Inconclusive("schedules vacuous in the forwarder-stamp dimension: accepted deliveries per class %s" % fwd_ok)
    cp = ctx.path("scheds.ndjson")
    vlib.write_ndjson(cp, scheds)
    try:
        tp, out = ctx.godriver("c03", "^TestC03$", cases=cp, timeout=1500)
    except vlib.Inconclusive as e:
        # the SCION client evaluates responses in goroutines of its own: a panic there
        # (its only panic site fires when t3 < t0, i.e. timestamps of different exchanges
        # were combined) kills the driver process and cannot be recovered by the harness
        msg = str(e)
        if "panic: unexpected system clock behavior" in msg and "scion-time/core/client" in msg:
            ctx.violation("C03 TNoPanic client crash", "the client panicked in ValidateResponseTimestamps while "
                          "evaluating a response of a conformant server", {"output": msg[-3000:]})
            ctx.cov.update(traces_validated_against_impl=0, samples=[msg[-400:]])
            return
        raise
    recs = vlib.read_ndjson(tp)
    acc = [x for x in recs if x["ev"] == "accept"]
    unj = sum(1 for x in recs if x["ev"] == "recv" and x["got"] == "ok")
    ctx.log("driver: %d schedules, %d records, %d accepted measurements judged (%d interleaved; %d through the client's "
            "filter, %d from wire fields and return values), %d accepted without a visible offset; log records seen for %d" %
            (len(scheds), len(recs), len(acc), sum(1 for x in acc if x["il"]), sum(1 for x in acc if x["src"] == "filter"),
             sum(1 for x in acc if x["src"] == "wire"), unj, sum(1 for x in recs if x.get("lg"))))
    # vacuity is judged on the specification side (what the schedules ask for), so
    # that a property-preserving change of the client is not reported as a failure
    want_ok = sum(1 for s in scheds for m in s if m.get("a") == "crecv" and m.get("res") == "ok")
    if want_ok < 2 * len(scheds) or len(recs) < want_ok:
        raise vlib.Inconclusive("schedules vacuous: %d deliveries predicted ok, %d records" % (want_ok, len(recs)))
    if not any(x["il"] for x in acc):
        ctx.drift.append("the client never evaluated an interleaved response (%d accepts)" % len(acc))
    ok, l, inv, tout = ctx.validate("NtpExchangeTrace", "NtpExchangeTrace_mon.cfg", tp)
    nval = len(scheds)
    if not ok:
        bad = recs[l - 1] if l else None
        beh = [x for x in recs if bad and x["beh"] == bad["beh"]]
        # input class: what the end host attached to the delivery whose receive time the result
        # uses (this delivery for a basic result, the previously accepted one for an interleaved)
        fwc = (bad.get("pfw") if bad.get("il") else bad.get("fw")) if bad else None
        sig = "C03 %s %s" % (inv, "interleaved" if bad and bad["il"] else "basic")
        if fwc and fwc != "none":
            sig += " forwarder-stamp=%s" % fwc
        ctx.violation(sig,
                      "accepted measurement violates %s: %s" % (inv, bad),
                      {"record": bad, "behaviour_records": beh, "schedule": scheds[bad["beh"]] if bad else None})
        nval = 0
    else:
        ok, l, inv, tout = ctx.validate("NtpExchangeTrace", "NtpExchangeTrace_strict.cfg", tp)
        if not ok:
            what = {"SOutcome": "client reaction differs from NtpExchange.tla",
                    "SPrevFlag": "the client's interleaved state (hook) and the wire classify the accepted response differently",
                    "SStampUse": "the client uses / ignores the end-host forwarder's timestamp option differently from NtpExchange!RxTime",
                    "SLog": "the client's log records tell another reaction / offset / delay / mode than the observation"}.get(inv, inv)
            ctx.drift.append("%s: %s" % (what, recs[l - 1] if l else "?"))
    reuse_scenario(ctx, recs)
    # the exhaustive run that went on in the background (tool failure / timeout / a spec-level
    # violation there is raised here as Inconclusive)
    if q:
        rf = fut.result()
        ctx.log("TLC exhaustive, SCION end host with forwarder stamps: %d distinct states" % rf["distinct"])
    else:
        r = fut.result()
        ctx.log("TLC exhaustive (IP network): %d distinct states" % r["distinct"])
    drv = [x for x in recs if x["ev"] in ("accept", "recv") and x.get("fw")]
    fwd_del = {c: sum(1 for x in drv if x["fw"] == c) for c in classes[1:]}
    fwd_acc = {c: sum(1 for x in acc if x.get("fw") == c) for c in classes[1:]}
    ctx.notes.append("end-host forwarder dimension (SCION end-to-end option 253; NtpExchange!ClientRecv(m, fw)): TLC exhaustive over "
                     "all five stamp classes at every delivery: %d distinct states; %d of %d generated schedules are SCION schedules "
                     "with a drawn class per delivery: deliveries per class %s, of which predicted accepted %s; replayed on the real "
                     "SCIONClient: deliveries carrying the option %s, judged accepted measurements %s (%d of them took the stamp as t3)" %
                     (rf["distinct"], len(s_sc), len(scheds), fwd_all, fwd_ok, fwd_del, fwd_acc, sum(1 for x in acc if x.get("t3s"))))
    ctx.cov.update(traces_validated_against_impl=nval, evaluations=len(recs),
                   distinct_nontrivial=len({(x["il"], x["t0ex"], x["t1h"], x["t2r"], x["ex"]) for x in acc}),
                   accepted=len(acc), accepted_interleaved=sum(1 for x in acc if x["il"]),
                   accepted_by_source={k: sum(1 for x in acc if x["src"] == k) for k in ("filter", "wire")},
                   accepted_not_judged=unj, forwarder_stamp_generated=fwd_all, forwarder_stamp_generated_accepted=fwd_ok,
                   forwarder_stamp_delivered=fwd_del, forwarder_stamp_judged=fwd_acc,
                   exhaustive_forwarder_states=rf["distinct"], records_with_log_crosscheck=sum(1 for x in recs if x.get("lg")),
                   outcomes={k: sum(1 for x in recs if x.get("got") == k) for k in ("ok", "skip", "error", "timeout", "ignored")},
                   rule="TLC -simulate walks of NtpExchangeGen (6 attempts, loss/duplication/reordering of requests and "
                        "responses, lost server tx timestamps, server clock steps of +-1 s, idle > 3 s; SCION schedules: "
                        "the end-host forwarder's timestamp option absent / inside the exchange / before the request's "
                        "transmission / after the socket receive / malformed at every delivery) executed by the "
                        "harness network against the real IPClient / SCIONClient and the real server handler on loopback",
                   samples=acc[:3] + [x for x in acc if x["il"]][:2])
    ctx.assumptions += ["IP and SCION clients alternate per schedule (SCION: same-AS empty path, no SPAO - see C13)",
                        "the end-host forwarder's genuine stamp is taken by the harness just before it hands the datagram to the "
                        "client's socket (the delivery window of t3 begins there); stamps from before the request lie >= 20 ms before "
                        "the last harness event preceding the request, stamps after the receive >= 5 s ahead; SCION schedules run "
                        "with 8-12 ms of real one-way delay",
                        "a datagram reaches only the socket it was addressed to (no ephemeral-port reuse)",
                        "loopback kernel software timestamps; causal identification windows between neighbouring harness network events",
                        "what the client did with a datagram is decided without its log: return of the measurement call, the "
                        "client's next request on the wire, state of the client's socket (/proc/net/udp: gone / read empty) and of "
                        "the call's goroutines (all parked again = the datagram was skipped); three quarters of the behaviours run "
                        "with a recording pass-through measurements.Filter (every accepted exchange is judged on the four "
                        "timestamps the client hands over), the rest without filter (only measurements the call returns are "
                        "judged; the round-trip delay is that of the four identified timestamps)"]
