// C08 driver: replays every abstract input enumerated by TLC from
// spec/Robust.tla on the REAL receive loops (child processes, see
// child_test.go), each followed by a well-formed sentinel on the same socket,
// and records what happened for spec/trace/RobustTrace.tla.
//
// Record (model units): kind, the abstract case c (verbatim), cls
// ("abstract" | "sampling"), outcome in {served, dropped, child_died, hang},
// sentinel_answered, sig (structural signature: panic message without numbers
// and the innermost scion-time frames; for a hang the frames of the spinning
// goroutine).
//
// A case with c.il = "yes" is a client history (hist_test.go): the record stands for all calls of the
// history and the sentinel call on the same client value; hq / hn / hr are what was seen of it.
// A case whose datagram has a burst class g.bu is preceded by that burst (burst_test.go); bsent /
// bval / bans / bms describe the burst.
package c08

import (
	"encoding/binary"
	"encoding/json"
	"fmt"
	"math/rand"
	"net"
	"os"
	"runtime"
	"strconv"
	"strings"
	"sync"
	"testing"
	"time"

	"verif/harness/internal/vio"
)

type tcase struct {
	Id  int             `json:"id"`
	Mut int             `json:"mut"` // number of byte-level mutants to add (thorough)
	C   json.RawMessage `json:"c"`
	// the burst composition (RobustBurst.tla) that realises the burst class g.bu of the case
	Burst []bsend `json:"burst"`
}

type rec struct {
	Id       int             `json:"id"`
	Kind     string          `json:"kind"`
	Cls      string          `json:"cls"`
	C        json.RawMessage `json:"c"`
	Outcome  string          `json:"outcome"`
	Sentinel bool            `json:"sentinel_answered"`
	Sig      string          `json:"sig"`
	Detail   string          `json:"detail"`
	Lane     int             `json:"lane"`
	Hex      string          `json:"hex"` // concrete input (first 96 bytes) of crashing / hanging inputs
	Ms       int             `json:"ms"`  // wall time spent on this input
	// client histories: kind of every request seen, requests per call, result per call
	Hq []string `json:"hq"`
	Hn []int    `json:"hn"`
	Hr []string `json:"hr"`
	// bursts: datagrams sent / well-formed requests sent / of these answered / client addresses used, wall time
	Baddr int `json:"baddr"`
	Bsent int `json:"bsent"`
	Bval  int `json:"bval"`
	Bans  int `json:"bans"`
	Bms   int `json:"bms"`
}

const (
	maxPacketLen = 1280 // nts.MaxPacketLen of the tree under test (client receive buffer, reply size)
	ntpPort = 123
	altPort = 10123
	kePort  = 4460
)

type lane struct {
	id                              int
	net                             int
	srvIP, fakeIP, cliIP, otherIP   string
	rng                             *rand.Rand
	srv, cli                        *proc
	sess                            *session
	fke                             *fakeKE
	ntp, alt, other                 *net.UDPConn
	cs319, cs320, csOther           *net.UDPConn
	scFwd, scHop                    *net.UDPConn // forward target; first hop of the SCION client
	seq, hseq                       int
	bseq                            uint32 // burst source addresses used so far
	restarts                        int
	t                               *testing.T
	stalls                          int
}

func (l *lane) logf(f string, a ...any) {
	if os.Getenv("C08_VERBOSE") != "" {
		fmt.Fprintf(os.Stderr, "[lane %d] "+f+"\n", append([]any{l.id}, a...)...)
	}
}

func udpListen(ip string, port int) (*net.UDPConn, error) {
	return net.ListenUDP("udp4", &net.UDPAddr{IP: net.ParseIP(ip), Port: port})
}

func newLane(t *testing.T, id int, base int) (*lane, error) {
	n := base + id
	l := &lane{id: id, net: n, t: t,
		srvIP:   fmt.Sprintf("127.8.%d.1", n),
		fakeIP:  fmt.Sprintf("127.8.%d.2", n),
		cliIP:   fmt.Sprintf("127.8.%d.3", n),
		otherIP: fmt.Sprintf("127.8.%d.4", n),
		rng:     rand.New(rand.NewSource(vio.Seed()*7919 + int64(id))),
	}
	var err error
	if l.fke, err = newFakeKE(net.JoinHostPort(l.fakeIP, strconv.Itoa(kePort))); err != nil {
		return nil, err
	}
	for _, x := range []struct {
		c    **net.UDPConn
		ip   string
		port int
	}{{&l.ntp, l.fakeIP, ntpPort}, {&l.alt, l.fakeIP, altPort}, {&l.other, l.otherIP, ntpPort},
		{&l.cs319, l.fakeIP, 319}, {&l.cs320, l.fakeIP, 320}, {&l.csOther, l.otherIP, 320},
		{&l.scFwd, l.fakeIP, 31001}, {&l.scHop, l.fakeIP, 31000}} {
		if *x.c, err = udpListen(x.ip, x.port); err != nil {
			return nil, err
		}
	}
	return l, nil
}

func (l *lane) close() {
	l.srv.kill()
	l.cli.kill()
	if l.fke != nil {
		l.fke.close()
	}
	for _, c := range []*net.UDPConn{l.ntp, l.alt, l.other, l.cs319, l.cs320, l.csOther, l.scFwd, l.scHop} {
		if c != nil {
			c.Close()
		}
	}
}

func goodKERequest() []byte {
	b := keRec(nil, 1, true, []byte{0, 0}, -1)
	b = keRec(b, 4, true, []byte{0, 15}, -1)
	return keRec(b, 0, true, nil, -1)
}

// ensureSrv (re)starts the server child and runs one real key exchange with
// it, so that the lane holds genuine cookies and the session keys.
func (l *lane) ensureSrv() error {
	if l.srv != nil && !l.srv.exited() {
		return nil
	}
	var lastErr error
	for attempt := 0; attempt < 3; attempt++ {
		p, err := startProc("server", "C08_IP="+l.srvIP, "C08_PORT="+strconv.Itoa(ntpPort), "C08_CSPTP=1", "C08_SCION=1", "USE_MOCK_KEYS=true", "C08_LOG=debug")
		if err != nil {
			lastErr = err
			time.Sleep(200 * time.Millisecond)
			continue
		}
		l.srv = p
		l.restarts++
		res, sess, err := keExchange(net.JoinHostPort(l.srvIP, strconv.Itoa(kePort)), "tls", goodKERequest(), false, 5*time.Second)
		if err != nil || len(res.cookies) == 0 {
			lastErr = fmt.Errorf("key exchange with fresh server child failed: %v (cookies=%d); stderr: %s", err, len(res.cookies), tail(p.stderr(), 600))
			p.kill()
			l.srv = nil
			continue
		}
		l.sess = sess
		return nil
	}
	return lastErr
}

func (l *lane) ensureCli() error {
	if l.cli != nil && !l.cli.exited() {
		return nil
	}
	p, err := startProc("client", "C08_LOG=error", "USE_MOCK_KEYS=true")
	if err != nil {
		return err
	}
	l.cli = p
	l.restarts++
	return nil
}

func tail(s string, n int) string {
	if len(s) > n {
		return s[len(s)-n:]
	}
	return s
}

func hexHead(b []byte) string {
	if len(b) > 96 {
		b = b[:96]
	}
	return fmt.Sprintf("%x", b)
}

// ----------------------------------------------------------------- ipsrv
func (l *lane) srvBytes(g *dgram) ([]byte, [8]byte) {
	hdr, tx := ntpRequest(l.rng, g.B0)
	var b []byte
	switch g.Sz {
	case "s0":
		b = []byte{}
	case "s1":
		b = hdr[:1]
	case "s47":
		b = hdr[:47]
	case "s48":
		b = hdr
	case "s49":
		b = append(hdr, rndBytes(l.rng, 1)...)
	case "s75":
		b = append(hdr, rndBytes(l.rng, 27)...)
	case "ext":
		b = ntsTrailer(l.rng, hdr, g, l.sess, l.sess.c2s, nil, 0)
	case "s1024":
		b = ntsTrailer(l.rng, hdr, g, l.sess, l.sess.c2s, nil, 1024)
	case "s2048":
		b = ntsTrailer(l.rng, hdr, g, l.sess, l.sess.c2s, nil, 2048)
	case "s2049":
		b = append(hdr, rndBytes(l.rng, 2001+l.rng.Intn(3000))...)
	default:
		b = hdr
	}
	return b, tx
}

type probeRes struct {
	crafted, sentinel bool
}

// readReplies reads replies on conn until the sentinel's reply arrives, the
// child exits or the timeout elapses.
func (l *lane) readReplies(conn *net.UDPConn, txC, txS [8]byte, total time.Duration, r *probeRes) {
	buf := make([]byte, 4096)
	end := time.Now().Add(total)
	for time.Now().Before(end) && !r.sentinel {
		conn.SetReadDeadline(time.Now().Add(15 * time.Millisecond))
		n, err := conn.Read(buf)
		if err != nil {
			if l.srv.exited() {
				return
			}
			continue
		}
		if n >= 48 {
			var o [8]byte
			copy(o[:], buf[24:32])
			if o == txS {
				r.sentinel = true
			} else if o == txC {
				r.crafted = true
			}
		}
	}
}

// control: is the listener answering other 4-tuples?
func (l *lane) controlAnswered() bool {
	for i := 0; i < 12; i++ {
		c, err := net.DialUDP("udp4", &net.UDPAddr{IP: net.ParseIP(l.fakeIP)}, &net.UDPAddr{IP: net.ParseIP(l.srvIP), Port: ntpPort})
		if err != nil {
			continue
		}
		req, tx := ntpRequest(l.rng, "v4c")
		c.Write(req)
		var r probeRes
		l.readReplies(c, [8]byte{}, tx, 120*time.Millisecond, &r)
		c.Close()
		if r.sentinel {
			return true
		}
		if l.srv.exited() {
			return false
		}
	}
	return false
}

func (l *lane) sendSrv(b []byte, id int, raw json.RawMessage, cls string) rec {
	r := rec{Id: id, Kind: "ipsrv", Cls: cls, C: raw, Lane: l.id}
	if err := l.ensureSrv(); err != nil {
		r.Outcome, r.Detail = "stall", err.Error()
		return r
	}
	conn, err := net.DialUDP("udp4", &net.UDPAddr{IP: net.ParseIP(l.fakeIP)}, &net.UDPAddr{IP: net.ParseIP(l.srvIP), Port: ntpPort})
	if err != nil {
		r.Outcome, r.Detail = "stall", err.Error()
		return r
	}
	defer conn.Close()
	txC := [8]byte{}
	if len(b) >= 48 {
		copy(txC[:], b[40:48])
	}
	sreq, txS := ntpRequest(l.rng, "v4c")
	conn.Write(b)
	conn.Write(sreq)
	var pr probeRes
	l.readReplies(conn, txC, txS, 200*time.Millisecond, &pr)
	if !pr.sentinel && !l.srv.exited() {
		// not answered: lost? slow? stuck? dead? -- repeat the sentinel on the SAME 4-tuple
		w := 250 * time.Millisecond
		if l.srv.spinning(50 * time.Millisecond) {
			w = 80 * time.Millisecond
		}
		for i := 0; i < 2 && !pr.sentinel && !l.srv.exited(); i++ {
			conn.Write(sreq)
			l.readReplies(conn, txC, txS, w, &pr)
		}
	}
	if pr.sentinel {
		r.Sentinel = true
		if pr.crafted {
			r.Outcome = "served"
		} else {
			r.Outcome = "dropped"
		}
		return r
	}
	r.Hex = hexHead(b)
	if l.srv.exited() || l.srv.waitExit(100*time.Millisecond) {
		r.Outcome = "child_died"
		r.Sig, r.Detail = crashSignature(l.srv.stderr())
		if r.Sig == "" {
			r.Outcome, r.Detail = "stall", "child exited without a Go crash dump: "+tail(l.srv.stderr(), 400)
		}
		l.srv = nil
		return r
	}
	// alive but silent on this 4-tuple: hang iff other 4-tuples are answered
	other := l.controlAnswered()
	if l.srv.exited() {
		r.Outcome = "child_died"
		r.Sig, r.Detail = crashSignature(l.srv.stderr())
		l.srv = nil
		return r
	}
	spin := l.srv.spinning(100*time.Millisecond) || l.srv.spinning(100*time.Millisecond)
	if !spin {
		// not burning CPU: give it a long last chance before calling it stuck
		conn.Write(sreq)
		l.readReplies(conn, txC, txS, 1500*time.Millisecond, &pr)
		if pr.sentinel {
			r.Sentinel = true
			r.Outcome = map[bool]string{true: "served", false: "dropped"}[pr.crafted]
			r.Hex = ""
			return r
		}
	}
	if !other {
		r.Outcome, r.Detail = "stall", "no 4-tuple is answered although the child is alive"
		l.srv.kill()
		l.srv = nil
		return r
	}
	dump := l.srv.dumpAndKill()
	if f := os.Getenv("C08_DUMPFILE"); f != "" {
		os.WriteFile(f, []byte(dump), 0o644)
	}
	r.Outcome = "hang"
	r.Sig = spinSignature(dump)
	r.Detail = fmt.Sprintf("same 4-tuple unanswered 4x, other 4-tuples answered, spinning=%v", spin)
	if strings.Contains(dump, "out of memory") {
		r.Outcome, r.Sig = "child_died", "oom"
	}
	l.srv = nil
	return r
}

func (l *lane) runSrv(tc *tcase, c *acase, out emitter) {
	if err := l.ensureSrv(); err != nil {
		out.Emit(rec{Id: tc.Id, Kind: "ipsrv", Cls: "abstract", C: tc.C, Outcome: "stall", Detail: err.Error(), Lane: l.id})
		return
	}
	g := &c.Rs[0]
	b, _ := l.srvBytes(g)
	bst, br, died := l.burstBefore(tc, "ipsrv", g.Bu, l.burstIP(b))
	if died {
		out.Emit(br)
		return
	}
	r := l.sendSrv(b, tc.Id, tc.C, "abstract")
	r.Bsent, r.Bval, r.Bans, r.Baddr, r.Bms = int(bst.sent), int(bst.val), int(bst.ans), int(bst.addr), bst.ms
	out.Emit(r)
	for i := 0; i < tc.Mut; i++ {
		if err := l.ensureSrv(); err != nil {
			return
		}
		b2, _ := l.srvBytes(g)
		var other []byte
		if i%4 == 3 {
			g2 := *g
			g2.Fs = []field{{"uid", "ok"}, {"cookie", "ok"}, {"auth", "ok"}}
			g2.Ck, g2.An, g2.Ac, g2.Av, g2.Inner, g2.Sz = "valid", "n16", "ok", "yes", "none", "ext"
			other, _ = l.srvBytes(&g2)
		}
		out.Emit(l.sendSrv(mutate(l.rng, b2, other), tc.Id, tc.C, "sampling"))
	}
}

// mutate: seeded byte-level mutation of a concrete input (sampling below the
// abstract classes): bit flips, 16-bit length-field edits at 4-byte aligned
// offsets behind the header, truncation, splice with another valid packet.
func mutate(rng *rand.Rand, b []byte, other []byte) []byte {
	b = append([]byte(nil), b...)
	if len(b) == 0 {
		return rndBytes(rng, rng.Intn(80))
	}
	switch k := rng.Intn(5); {
	case k == 0:
		for i := 0; i < 1+rng.Intn(4); i++ {
			b[rng.Intn(len(b))] ^= 1 << uint(rng.Intn(8))
		}
	case k == 1 && len(b) > 52:
		p := 48 + 4*rng.Intn((len(b)-48)/4)
		if p+4 <= len(b) {
			vals := []uint16{0, 1, 2, 3, 4, 5, 27, 28, 0x7fff, 0xfffc, 0xffff, uint16(rng.Intn(65536))}
			binary.BigEndian.PutUint16(b[p+2:], vals[rng.Intn(len(vals))])
		}
	case k == 2:
		b = b[:rng.Intn(len(b)+1)]
	case k == 3 && len(other) > 0:
		cut := rng.Intn(len(b) + 1)
		cut2 := rng.Intn(len(other) + 1)
		b = append(b[:cut], other[cut2:]...)
		if len(b) > 2048 {
			b = b[:2048]
		}
	default:
		p := rng.Intn(len(b))
		n := 1 + rng.Intn(8)
		for i := p; i < p+n && i < len(b); i++ {
			b[i] = byte(rng.Intn(256))
		}
	}
	return b
}

// ----------------------------------------------------------------- clients
func (l *lane) cliCall(cmd clientCmd) (res clientRes, state string, sig, detail string) {
	if err := l.ensureCli(); err != nil {
		return res, "stall", "", err.Error()
	}
	// drain stale lines
	for {
		select {
		case <-l.cli.lines:
			continue
		default:
		}
		break
	}
	b, _ := json.Marshal(cmd)
	if _, err := l.cli.stdin.Write(append(b, '\n')); err != nil && !l.cli.exited() {
		return res, "stall", "", err.Error()
	}
	limit := time.Duration(cmd.DeadlineMs)*time.Millisecond + 1500*time.Millisecond
	if cmd.Auth {
		limit += 6 * time.Second // dialTLS has its own 5 s timeout, outside the context
	}
	t0 := time.Now()
	early := time.Duration(cmd.DeadlineMs)*time.Millisecond + 150*time.Millisecond
	spin := false
	for !spin && time.Since(t0) < limit {
		w := early - time.Since(t0)
		if w <= 0 {
			w = 150 * time.Millisecond
		}
		select {
		case line := <-l.cli.lines:
			if err := json.Unmarshal([]byte(line), &res); err != nil {
				return res, "stall", "", "bad result line " + line
			}
			return res, "returned", "", ""
		case <-l.cli.done:
			s, d := crashSignature(l.cli.stderr())
			l.cli = nil
			if s == "" {
				return res, "stall", "", "client child exited without a Go crash dump: " + d
			}
			return res, "child_died", s, d
		case <-time.After(w):
		}
		// the call has not returned 150 ms after its deadline: burning CPU (twice in a row)?
		if time.Since(t0) >= early && l.cli.spinning(100*time.Millisecond) && l.cli.spinning(100*time.Millisecond) && len(l.cli.lines) == 0 {
			spin = true
		}
	}
	if !spin {
		select {
		case line := <-l.cli.lines:
			json.Unmarshal([]byte(line), &res)
			return res, "returned", "", "late"
		case <-l.cli.done:
			s, d := crashSignature(l.cli.stderr())
			l.cli = nil
			return res, "child_died", s, d
		case <-time.After(3 * time.Second):
		}
	}
	if l.cli.exited() {
		s, d := crashSignature(l.cli.stderr())
		l.cli = nil
		return res, "child_died", s, d
	}
	dump := l.cli.dumpAndKill()
	l.cli = nil
	if strings.Contains(dump, "out of memory") {
		return res, "child_died", "oom", "out of memory"
	}
	return res, "hang", spinSignature(dump), fmt.Sprintf("call did not return %v after its start (deadline %d ms), spinning=%v", time.Since(t0).Round(time.Millisecond), cmd.DeadlineMs, spin)
}

var metaByte = map[string][2]byte{ // LVM, stratum
	"ok": {0x24, 1}, "li3": {0xe4, 1}, "vn2": {0x14, 1}, "mode3": {0x23, 1}, "str0": {0x24, 0}, "str16": {0x24, 16},
}

func (l *lane) cliResponse(g *dgram, req []byte, auth bool, sess *session) []byte {
	hdr := rndBytes(l.rng, 48)
	m, ok := metaByte[g.Meta]
	if !ok {
		m = metaByte["ok"]
	}
	hdr[0], hdr[1] = m[0], m[1]
	if g.Org == "other" {
		// random origin
	} else if g.Org == "ileave" && len(req) >= 48 {
		// an interleaved-mode response: the origin is the request's receive timestamp
		copy(hdr[24:32], req[32:40])
	} else if len(req) >= 48 {
		copy(hdr[24:32], req[40:48])
	}
	sec, frac := ntpNow()
	binary.BigEndian.PutUint32(hdr[32:], sec)
	binary.BigEndian.PutUint32(hdr[36:], frac)
	binary.BigEndian.PutUint32(hdr[40:], sec)
	binary.BigEndian.PutUint32(hdr[44:], frac)
	if g.Ts == "neg" {
		binary.BigEndian.PutUint32(hdr[40:], sec-2)
	}
	if g.Ts == "old" { // before anything a server could have received from this client
		binary.BigEndian.PutUint32(hdr[40:], sec-30)
	}
	var uid []byte
	if auth && len(req) >= 84 && g.Uidm != "no" {
		uid = req[52:84]
	}
	var key []byte
	if sess != nil {
		key = sess.s2c
	}
	switch g.Sz {
	case "s0":
		return []byte{}
	case "s47":
		return hdr[:47]
	case "s48":
		return hdr
	case "s49":
		return append(hdr, rndBytes(l.rng, 1)...)
	case "s75":
		return append(hdr, rndBytes(l.rng, 27)...)
	case "ext":
		return ntsTrailer(l.rng, hdr, g, sess, key, uid, 0)
	case "smax", "s1024":
		return ntsTrailer(l.rng, hdr, g, sess, key, uid, maxPacketLen)
	case "sover", "s1025":
		return append(hdr, rndBytes(l.rng, maxPacketLen-47+l.rng.Intn(500))...)
	}
	return hdr
}

// respond waits for the client's request on the fake NTP server sockets and
// answers with the planned datagrams.
func (l *lane) respond(rs []dgram, auth bool, wait time.Duration, mut bool, done chan<- []byte) {
	got := make(chan struct {
		b    []byte
		from *net.UDPAddr
		c    *net.UDPConn
	}, 2)
	for _, c := range []*net.UDPConn{l.ntp, l.alt} {
		go func(c *net.UDPConn) {
			buf := make([]byte, 4096)
			n, from, err := c.ReadFromUDP(buf)
			if err == nil {
				got <- struct {
					b    []byte
					from *net.UDPAddr
					c    *net.UDPConn
				}{append([]byte(nil), buf[:n]...), from, c}
			} else {
				got <- struct {
					b    []byte
					from *net.UDPAddr
					c    *net.UDPConn
				}{nil, nil, c}
			}
		}(c)
	}
	var first []byte
	for i := 0; i < 2; i++ {
		x := <-got
		if x.b == nil {
			continue
		}
		if first == nil {
			first = x.b
			sess := l.fke.session()
			for j := range rs {
				g := &rs[j]
				if g.Sz == "none" {
					break
				}
				b := l.cliResponse(g, x.b, auth, sess)
				if mut {
					b = mutate(l.rng, b, nil)
				}
				c := x.c
				if g.Src == "other" {
					c = l.other
				}
				c.WriteToUDP(b, x.from)
			}
			// unblock the other reader
			l.ntp.SetReadDeadline(time.Now())
			l.alt.SetReadDeadline(time.Now())
		}
	}
	done <- first
}

func (l *lane) drainUDP(cs ...*net.UDPConn) {
	buf := make([]byte, 4096)
	for _, c := range cs {
		for {
			c.SetReadDeadline(time.Now().Add(time.Millisecond))
			if _, _, err := c.ReadFromUDP(buf); err != nil {
				break
			}
		}
	}
}

// planSilent: does the plan itself contain silence (a call that is meant to run into its deadline)?
func planSilent(c *acase) bool {
	for _, g := range c.Rs {
		if g.Sz == "none" {
			return true
		}
	}
	return len(c.Rs) == 0
}

// A call that reports a timeout although every planned datagram was sent may just have been slow
// (busy machine): such a call is repeated once with a longer deadline.
func timedOut(res clientRes, state string) bool {
	return state == "returned" && !res.Ok && strings.Contains(res.Err, "i/o timeout")
}

func (l *lane) cliOnce(c *acase, mut bool) (res clientRes, state, sig, detail string) {
	res, state, sig, detail = l.cliOnceD(c, mut, 1)
	if timedOut(res, state) && !planSilent(c) {
		res, state, sig, detail = l.cliOnceD(c, mut, 4)
	}
	return
}

func (l *lane) cliOnceD(c *acase, mut bool, scale int) (res clientRes, state, sig, detail string) {
	auth := c.Auth == "yes"
	deadline := 150 * scale
	if auth {
		stream := keStream(l.rng, c.Ke, c.Kt, l.fakeIP, altPort)
		l.fke.set(&kePlan{pre: c.Pre, stream: stream})
		deadline = 250 * scale
	}
	l.drainUDP(l.ntp, l.alt)
	done := make(chan []byte, 1)
	l.ntp.SetReadDeadline(time.Now().Add(time.Duration(deadline+200) * time.Millisecond))
	l.alt.SetReadDeadline(time.Now().Add(time.Duration(deadline+200) * time.Millisecond))
	go l.respond(c.Rs, auth, time.Duration(deadline+200)*time.Millisecond, mut, done)
	res, state, sig, detail = l.cliCall(clientCmd{Op: "ip", Auth: auth, Local: l.cliIP, Remote: l.fakeIP, Port: ntpPort,
		KE: net.JoinHostPort(l.fakeIP, strconv.Itoa(kePort)), DeadlineMs: deadline})
	// stop the responder
	l.ntp.SetReadDeadline(time.Now())
	l.alt.SetReadDeadline(time.Now())
	<-done
	return
}

var goodCli = acase{Kind: "ipcli", Auth: "no", Rs: []dgram{{Sz: "s48", Src: "ok", Org: "match", Meta: "ok", Ts: "ok"}}}

func outcomeOf(res clientRes, state string) string {
	switch state {
	case "returned":
		if res.Ok {
			return "served"
		}
		return "dropped"
	default:
		return state
	}
}

func (l *lane) runCli(tc *tcase, c *acase, out emitter) {
	n := 1 + tc.Mut
	for i := 0; i < n; i++ {
		r := rec{Id: tc.Id, Kind: "ipcli", Cls: "abstract", C: tc.C, Lane: l.id}
		if i > 0 {
			r.Cls = "sampling"
		}
		res, state, sig, detail := l.cliOnce(c, i > 0)
		r.Outcome, r.Sig, r.Detail = outcomeOf(res, state), sig, detail
		if state == "returned" {
			r.Detail = res.Err
		}
		if r.Outcome == "served" || r.Outcome == "dropped" {
			// the next well-formed exchange (a dead or stuck child answers nothing; it is replaced)
			res2, state2, _, _ := l.cliOnce(&goodCli, false)
			r.Sentinel = state2 == "returned" && res2.Ok
			if !r.Sentinel && (r.Outcome == "served" || r.Outcome == "dropped") {
				// a single unanswered sentinel after a healthy return is re-tried once (scheduling noise)
				res2, state2, _, _ = l.cliOnce(&goodCli, false)
				r.Sentinel = state2 == "returned" && res2.Ok
			}
			l.sentinelLastResort(&r, res2, state2, func() (clientRes, string) {
				x, s, _, _ := l.cliOnceD(&goodCli, false, 16)
				return x, s
			})
		}
		out.Emit(r)
	}
}

// ----------------------------------------------------------------- kesrv
func (l *lane) runKeSrv(tc *tcase, c *acase, out emitter) {
	n := 1 + tc.Mut
	for i := 0; i < n; i++ {
		r := rec{Id: tc.Id, Kind: "kesrv", Cls: "abstract", C: tc.C, Lane: l.id}
		if err := l.ensureSrv(); err != nil {
			r.Outcome, r.Detail = "stall", err.Error()
			out.Emit(r)
			return
		}
		addr := net.JoinHostPort(l.srvIP, strconv.Itoa(kePort))
		req := keStream(l.rng, c.Ke, c.Kt, l.srvIP, ntpPort)
		if c.Pre == "garbage" {
			req = rndBytes(l.rng, 1+l.rng.Intn(300))
		}
		if i > 0 {
			r.Cls = "sampling"
			req = mutate(l.rng, req, nil)
		}
		// (a stream with a length-variant record may leave the reader waiting for bytes that were
		// never announced to it: the writer half-closes behind it, like behind the eof terminators)
		half := strings.HasPrefix(c.Kt, "eof") || keHasLv(c.Ke, c.Kt) || i > 0
		res, _, err := keExchange(addr, c.Pre, req, half, 2*time.Second)
		answered := err == nil && (len(res.cookies) > 0 || res.errCode >= 0 || res.eom)
		switch {
		case l.srv.exited() || (!answered && l.srv.waitExit(40*time.Millisecond)):
			r.Outcome = "child_died"
			r.Sig, r.Detail = crashSignature(l.srv.stderr())
			r.Hex = hexHead(req)
			l.srv = nil
		case err != nil && strings.HasPrefix(err.Error(), "read:"):
			// neither answered nor closed: the handler waits for more input (its own goroutine; the
			// accept loop is judged by the sentinel) -- a hang only if it burns CPU instead of waiting
			if l.srv.spinning(80*time.Millisecond) && l.srv.spinning(80*time.Millisecond) {
				dump := l.srv.dumpAndKill()
				r.Outcome, r.Sig, r.Hex = "hang", spinSignature(dump), hexHead(req)
				l.srv = nil
			} else {
				r.Outcome, r.Detail = "dropped", "no answer within 2 s, connection left open: "+err.Error()
			}
		case err != nil && strings.HasPrefix(err.Error(), "dial:"):
			r.Outcome, r.Detail = "stall", err.Error()
		case len(res.cookies) > 0 && res.eom:
			r.Outcome = "served"
		default:
			r.Outcome = "dropped"
			if err != nil {
				r.Detail = err.Error()
			}
		}
		if r.Outcome == "served" || r.Outcome == "dropped" {
			for k := 0; k < 2 && !r.Sentinel; k++ {
				res2, _, err2 := keExchange(addr, "tls", goodKERequest(), false, 2*time.Second)
				r.Sentinel = err2 == nil && len(res2.cookies) == 8 && res2.eom
				if l.srv.exited() {
					break
				}
			}
			if !r.Sentinel && l.srv.exited() {
				r.Outcome = "child_died"
				r.Sig, r.Detail = crashSignature(l.srv.stderr())
				l.srv = nil
			}
		}
		out.Emit(r)
	}
}

// ----------------------------------------------------------------- csptpsrv
func (l *lane) nextSeq() int {
	l.seq = (l.seq + 1) % 60000
	return l.seq + 1
}

func (l *lane) csSrvBytes(g *dgram, seq int) ([]byte, int) {
	port := 319
	typ := byte(0)
	mt := g.Mt
	if mt == "na" {
		mt = pick(l.rng, "sync319", "sync320", "fup319", "fup320", "other319", "other320")
		if g.Sz == "short" {
			// the representative of "shorter than a header" that gets furthest: a Follow Up on the
			// general port whose MessageLength is its own (short) length
			mt = "fup320"
		}
	}
	if strings.HasSuffix(mt, "320") {
		port = 320
	}
	switch {
	case strings.HasPrefix(mt, "fup"):
		typ = 8
	case strings.HasPrefix(mt, "other"):
		typ = byte(1 + l.rng.Intn(7))
	}
	n := 44
	var tlv []byte
	switch g.Sz {
	case "tlv", "tlvds":
		tn, flags, org, ttype := 36, uint32(0), orgMeinberg, uint16(3)
		if g.Sz == "tlvds" {
			tn, flags = 54, 1
		}
		switch g.Tlv {
		case "flagshort":
			flags = 1
		case "noflag":
			flags = 0
		case "badorg":
			org = [3]byte{0xec, 0x46, 0x71}
		case "badtype":
			ttype = 4
		}
		tlv = csptpTLV(l.rng, tn, ttype, org, subRequest, flags)
		n += tn
	}
	ml := n
	if g.Ml == "other" {
		ml = n + 1 + l.rng.Intn(50)
	}
	b := append(csptpMsg(l.rng, typ, ml, uint16(seq)), tlv...)
	switch g.Sz {
	case "s0":
		b = []byte{}
	case "short":
		n := 4 + l.rng.Intn(40)
		if g.Ml != "other" {
			binary.BigEndian.PutUint16(b[2:], uint16(n))
		}
		b = b[:n]
	case "over":
		b = append(b, rndBytes(l.rng, 99-len(b)+l.rng.Intn(200))...)
	}
	return b, port
}

func (l *lane) runCsSrv(tc *tcase, c *acase, out emitter) {
	r := rec{Id: tc.Id, Kind: "csptpsrv", Cls: "abstract", C: tc.C, Lane: l.id}
	if err := l.ensureSrv(); err != nil {
		r.Outcome, r.Detail = "stall", err.Error()
		out.Emit(r)
		return
	}
	g := &c.Rs[0]
	seqC, seqS := l.nextSeq(), l.nextSeq()
	b, port := l.csSrvBytes(g, seqC)
	conn, err := net.DialUDP("udp4", &net.UDPAddr{IP: net.ParseIP(l.fakeIP)}, &net.UDPAddr{IP: net.ParseIP(l.srvIP), Port: port})
	if err != nil {
		r.Outcome, r.Detail = "stall", err.Error()
		out.Emit(r)
		return
	}
	defer conn.Close()
	var sent []byte
	if port == 319 {
		sent = csptpMsg(l.rng, 0, 44, uint16(seqS))
	} else {
		sent = append(csptpMsg(l.rng, 8, 98, uint16(seqS)), csptpTLV(l.rng, 54, 3, orgMeinberg, subRequest, 1)...)
	}
	conn.Write(b)
	conn.Write(sent)
	wait := func(d time.Duration) bool {
		end := time.Now().Add(d)
		for time.Now().Before(end) {
			if l.srv.sawSeq(seqS) || l.srv.exited() {
				break
			}
			time.Sleep(time.Millisecond)
		}
		return l.srv.sawSeq(seqS)
	}
	ok := wait(250 * time.Millisecond)
	for i := 0; i < 2 && !ok && !l.srv.exited(); i++ {
		conn.Write(sent)
		ok = wait(300 * time.Millisecond)
	}
	switch {
	case ok:
		r.Sentinel = true
		r.Outcome = map[bool]string{true: "served", false: "dropped"}[l.srv.sawSeq(seqC)]
	case l.srv.exited() || l.srv.waitExit(100*time.Millisecond):
		r.Outcome = "child_died"
		r.Sig, r.Detail = crashSignature(l.srv.stderr())
		r.Hex = hexHead(b)
		l.srv = nil
	default:
		spin := l.srv.spinning(80 * time.Millisecond)
		if !spin && wait(1500*time.Millisecond) {
			r.Sentinel = true
			r.Outcome = map[bool]string{true: "served", false: "dropped"}[l.srv.sawSeq(seqC)]
			break
		}
		if !l.controlAnswered() {
			r.Outcome, r.Detail = "stall", "CSPTP sentinel not logged and NTP control unanswered"
			l.srv.kill()
			l.srv = nil
			break
		}
		dump := l.srv.dumpAndKill()
		r.Outcome, r.Sig, r.Hex = "hang", spinSignature(dump), hexHead(b)
		l.srv = nil
	}
	out.Emit(r)
}

// ----------------------------------------------------------------- csptpcli
func (l *lane) csCliDgram(g *dgram, seq uint16) ([]byte, *net.UDPConn) {
	mt := g.Mt
	if mt == "na" {
		mt = pick(l.rng, "sync", "fup")
	}
	typ := byte(0)
	conn := l.cs319
	switch mt {
	case "fup":
		typ, conn = 8, l.cs320
	case "other":
		typ = byte(1 + l.rng.Intn(7))
		if l.rng.Intn(2) == 0 {
			conn = l.cs320
		}
	}
	if g.Src == "other" {
		switch l.rng.Intn(2) {
		case 0:
			conn = l.csOther
		default: // right host, wrong port
			if conn == l.cs319 {
				conn = l.cs320
			} else {
				conn = l.cs319
			}
		}
	}
	if g.Seq == "other" {
		seq += uint16(1 + l.rng.Intn(100))
	}
	n := 44
	var tlv []byte
	switch g.Sz {
	case "tlv", "tlvds":
		tn, flags, org := 36, uint32(0), orgMeinberg
		if g.Sz == "tlvds" {
			tn, flags = 54, 1
		}
		switch g.Tlv {
		case "flagshort":
			flags = 1
		case "noflag":
			flags = 0
		case "badorg":
			org = [3]byte{0xec, 0x46, 0x71}
		}
		tlv = csptpTLV(l.rng, tn, 3, org, subResponse, flags)
		// plausible contents: zero correction fields and an ingress timestamp of now
		for i := 14; i < tn; i++ {
			tlv[i] = 0
		}
		n += tn
	}
	shortLen := 4 + l.rng.Intn(40)
	if g.Sz == "short" {
		n = shortLen
	}
	ml := n
	if g.Ml == "other" {
		ml = n + 1 + l.rng.Intn(40)
	}
	b := csptpMsg(l.rng, typ, ml, seq)
	for i := 8; i < 16; i++ { // correction field 0
		b[i] = 0
	}
	now := time.Now().Unix()
	b[34], b[35] = 0, 0
	binary.BigEndian.PutUint32(b[36:], uint32(now))
	binary.BigEndian.PutUint32(b[40:], uint32(time.Now().Nanosecond()))
	b[6], b[7] = 0x04, 0x00
	b = append(b, tlv...)
	switch g.Sz {
	case "short":
		b = b[:shortLen]
	case "over":
		b = append(b, rndBytes(l.rng, 99-len(b)+l.rng.Intn(100))...)
	}
	return b, conn
}

func (l *lane) csCliOnce(c *acase) (res clientRes, state, sig, detail string) {
	res, state, sig, detail = l.csCliOnceD(c, 100)
	if timedOut(res, state) && !planSilent(c) {
		res, state, sig, detail = l.csCliOnceD(c, 400)
	}
	return
}

func (l *lane) csCliOnceD(c *acase, deadline int) (res clientRes, state, sig, detail string) {
	l.drainUDP(l.cs319, l.cs320)
	stop := make(chan struct{})
	var wg sync.WaitGroup
	wg.Add(1)
	go func() {
		defer wg.Done()
		// one OS thread for all sends of the call: datagrams sent from different sockets keep their order
		runtime.LockOSThread()
		defer runtime.UnlockOSThread()
		buf := make([]byte, 512)
		// the Follow Up request is the second datagram the client writes
		l.cs320.SetReadDeadline(time.Now().Add(time.Duration(deadline+300) * time.Millisecond))
		n, from, err := l.cs320.ReadFromUDP(buf)
		if err != nil || n < 32 {
			return
		}
		seq := binary.BigEndian.Uint16(buf[30:])
		for j := range c.Rs {
			g := &c.Rs[j]
			if g.Sz == "none" {
				break
			}
			b, conn := l.csCliDgram(g, seq)
			conn.WriteToUDP(b, from)
			time.Sleep(time.Millisecond) // keep the order of datagrams sent from different sockets
		}
		<-stop
	}()
	res, state, sig, detail = l.cliCall(clientCmd{Op: "csptp", Local: l.cliIP, Remote: l.fakeIP, DeadlineMs: deadline})
	close(stop)
	l.cs320.SetReadDeadline(time.Now())
	wg.Wait()
	return
}

var goodCsCli = acase{Kind: "csptpcli", Rs: []dgram{
	{Sz: "min", Ml: "len", Seq: "match", Mt: "sync", Src: "ok"},
	{Sz: "tlvds", Ml: "len", Seq: "match", Mt: "fup", Src: "ok", Tlv: "okds"}}}

func (l *lane) runCsCli(tc *tcase, c *acase, out emitter) {
	r := rec{Id: tc.Id, Kind: "csptpcli", Cls: "abstract", C: tc.C, Lane: l.id}
	res, state, sig, detail := l.csCliOnce(c)
	r.Outcome, r.Sig, r.Detail = outcomeOf(res, state), sig, detail
	if state == "returned" {
		r.Detail = res.Err
	}
	if r.Outcome == "served" || r.Outcome == "dropped" {
		var res2 clientRes
		var state2 string
		for k := 0; k < 2 && !r.Sentinel; k++ {
			res2, state2, _, _ = l.csCliOnce(&goodCsCli)
			r.Sentinel = state2 == "returned" && res2.Ok
			if state2 != "returned" {
				break
			}
		}
		l.sentinelLastResort(&r, res2, state2, func() (clientRes, string) {
			x, s, _, _ := l.csCliOnceD(&goodCsCli, 1600)
			return x, s
		})
	}
	out.Emit(r)
}

// sentinelLastResort: a client child that RETURNED from the sentinel call (so it is alive and its
// loops make progress) but reported an i/o timeout twice, with the longer deadline each time, most
// likely ran on a machine too busy for the responder and the child to meet within the deadline
// (observed at load averages of 60-90).  One more call with a deadline of seconds decides: answered
// -> sentinel answered; timed out again with the child alive and not burning CPU -> the harness
// could not make the observation ("stall", not judged, counted); anything else (an error other than
// a timeout, a dead or spinning child) stands as recorded.
func (l *lane) sentinelLastResort(r *rec, res2 clientRes, state2 string, long func() (clientRes, string)) {
	// (a sentinel call that RETURNED without a measurement for any reason - i/o timeout, or the SCION
	// client's "no measurement" when its attempts ran out of time - is treated alike: the child
	// answered the harness, so it is alive and its loops make progress; only the exchange failed.
	// A busy machine produced exactly that under `bin/loadsweep`.)
	if r.Sentinel || !(r.Outcome == "served" || r.Outcome == "dropped") || state2 != "returned" {
		return
	}
	res3, state3 := long()
	switch {
	case state3 == "returned" && res3.Ok:
		r.Sentinel = true
	case state3 == "returned" && l.cli != nil && !l.cli.exited() && !l.cli.spinning(100*time.Millisecond):
		r.Outcome, r.Detail = "stall", "client sentinel returned without a measurement three times with growing deadlines ("+res3.Err+"); the child is alive and idle"
	}
}

// ----------------------------------------------------------------- driver
type emitter interface{ Emit(rec any) }

// stallGuard withholds "stall" records (the harness could not make the observation: a child that
// did not start, a port in use, no 4-tuple answered) so that the case can be tried once more.
type stallGuard struct {
	out     *vio.Out
	final   bool
	stalled bool
	t0      time.Time
}

func (g *stallGuard) Emit(r any) {
	x, ok := r.(rec)
	if ok && x.Outcome == "stall" && !g.final {
		g.stalled = true
		return
	}
	if ok {
		x.Ms = int(time.Since(g.t0).Milliseconds())
		g.t0 = time.Now()
		if x.Hq == nil { // (TLC cannot read null)
			x.Hq = []string{}
		}
		if x.Hn == nil {
			x.Hn = []int{}
		}
		if x.Hr == nil {
			x.Hr = []string{}
		}
		r = x
	}
	g.out.Emit(r)
}

func TestC08(t *testing.T) {
	cases := vio.ReadCases[tcase](t)
	out := vio.Create(t)
	defer out.Close()
	nl := 8
	if v, err := strconv.Atoi(os.Getenv("C08_LANES")); err == nil && v > 0 {
		nl = v
	}
	base := 10 + int(vio.Seed()%5)*40
	if v, err := strconv.Atoi(os.Getenv("C08_NETBASE")); err == nil {
		base = v
	}
	// The lanes bind fixed loopback addresses derived from `base`.  If another run of this check is
	// using them at the moment (two checks started side by side on one machine), move to the next
	// free block instead of giving up.
	var lanes []*lane
	var lastErr error
	for attempt := 0; attempt < 4 && lanes == nil; attempt++ {
		ls := make([]*lane, nl)
		ok := true
		for i := range ls {
			l, err := newLane(t, i, base+attempt*20)
			if err != nil {
				for _, x := range ls[:i] {
					x.close()
				}
				ok, lastErr = false, fmt.Errorf("lane %d (address block %d): %v", i, base+attempt*20, err)
				break
			}
			ls[i] = l
		}
		if ok {
			lanes = ls
		}
	}
	if lanes == nil {
		t.Fatalf("%v", lastErr)
	}
	defer func() {
		for _, l := range lanes {
			l.close()
		}
	}()
	// seeded order (the inputs of a lane form one long sequence on its children), dealt round-robin
	rng := vio.Rand()
	rng.Shuffle(len(cases), func(i, j int) { cases[i], cases[j] = cases[j], cases[i] })
	var wg sync.WaitGroup
	t0 := time.Now()
	var tmu sync.Mutex
	spent := map[string]time.Duration{}
	for i, l := range lanes {
		wg.Add(1)
		go func(i int, l *lane) {
			defer wg.Done()
			for k := i; k < len(cases); k += nl {
				tc := &cases[k]
				var c acase
				if err := json.Unmarshal(tc.C, &c); err != nil {
					t.Errorf("bad case %d: %v", tc.Id, err)
					return
				}
				tk := time.Now()
				for try := 0; try < 2; try++ {
					sg := &stallGuard{out: out, final: try == 1, t0: time.Now()}
					switch c.Kind {
					case "ipsrv":
						l.runSrv(tc, &c, sg)
					case "ipcli":
						if c.Il == "yes" {
							l.runHist(tc, &c, sg, l.histIP())
						} else {
							l.runCli(tc, &c, sg)
						}
					case "kesrv":
						l.runKeSrv(tc, &c, sg)
					case "csptpsrv":
						l.runCsSrv(tc, &c, sg)
					case "csptpcli":
						l.runCsCli(tc, &c, sg)
					case "scsrv":
						l.runScSrv(tc, &c, sg)
					case "sccli":
						if c.Il == "yes" {
							l.runHist(tc, &c, sg, l.histSCION())
						} else {
							l.runScCli(tc, &c, sg)
						}
					default:
						t.Errorf("unknown kind %q", c.Kind)
					}
					if !sg.stalled {
						break
					}
					l.stalls++
					time.Sleep(300 * time.Millisecond)
				}
				tmu.Lock()
				spent[c.Kind] += time.Since(tk)
				tmu.Unlock()
			}
		}(i, l)
	}
	wg.Wait()
	restarts := 0
	for _, l := range lanes {
		restarts += l.restarts
	}
	t.Logf("C08 cases=%d records=%d lanes=%d child starts=%d wall=%.1fs lane-seconds per kind=%v", len(cases), out.N, nl, restarts, time.Since(t0).Seconds(), spent)
	if out.N == 0 {
		t.Fatal("no record produced")
	}
}
