SPECIFICATION Spec
CONSTANTS
  WriterKind = "provider"
  Mode = 0
  NSamples = 2
  MaxCalls = 2
  MaxRetries = 8
  DlKinds <- DlNone
  ReadOrder <- AddrOrder
  AtomicAttempt = TRUE
  RecordHist = TRUE
  SModes <- ModesSmall
  SValids <- ValidsSmall
  SPairs <- PairsSmall
  SCounts = {7}
INVARIANTS Emit
