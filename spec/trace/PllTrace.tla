------------------------------ MODULE PllTrace ------------------------------
(***************************************************************************)
(* Validation of the update histories recorded by harness/c19 from the     *)
(* real adjustments.Pll (scripted clock, capturing logger) against         *)
(* Pll.tla.  The trace is a concatenation of histories, each introduced by *)
(* a reset event; event l+1 is consumed by every step.                     *)
(*                                                                         *)
(*  monitor: the property section of Pll.tla (the ...P predicates)         *)
(*           evaluated on the recorded calls.  o* variables are bound to   *)
(*           the logged projection: the inputs as replayed, the clock      *)
(*           epoch seen at entry / after the call, the mode attribute of   *)
(*           the "PLL iteration" log record, the Step/Adjust calls the     *)
(*           clock received; oEstart is the clock-side ghost "reading at   *)
(*           which the current clock epoch began".                         *)
(*  strict:  the Pll.tla variables are advanced by Pll!Do on the same      *)
(*           inputs; mode and call must be the ones the specification      *)
(*           computes (drift only).                                        *)
(* Every failing (event, clauses) pair is printed when the event is        *)
(* consumed (MBAD / SBAD lines) and counted in mbad / sbad; MonitorReport /*)
(* StrictReport print the totals at the end of the trace, so that one run  *)
(* names every failing clause of every event.  PllTrace_first.cfg has the  *)
(* ordinary invariant MonitorClean (stops at the first failure and prints  *)
(* the behaviour: for short traces).                                       *)
(***************************************************************************)
EXTENDS Integers, Sequences, TLC, Json

U == 1000
OneMs == 2
OffMax == 20
PB == 500000
SatSecs == 2001
Advs == {}
Offs == {}
Weights == {}
AllowSat == TRUE
BumpDen == 1
InitClkEpochs == {0}
MaxLen == 1000000
RawMags(b) == {b}
\* the code under test has both repairs (Step(measured), d clamped to the
\* largest whole number of seconds of a time.Duration)
StepUsesDoubleInv == FALSE
DurationWraps == FALSE

VARIABLES mode, epoch, t0, t, now, clkEpoch, estart, act, lastIn, hist,   \* Pll.tla, advanced by Pll!Do
          l,                                                              \* events consumed
          oNow, oCep, oCep2, oMode, oEstart, oLi,                         \* observed projection
          mbad, sbad                                                      \* failing clauses so far
INSTANCE Pll

Trace == ndJsonDeserialize("trace.ndjson")
N == Len(Trace)

tvars == <<mode, epoch, t0, t, now, clkEpoch, estart, act, lastIn, hist,
           l, oNow, oCep, oCep2, oMode, oEstart, oLi, mbad, sbad>>

\* ------------------------------------------------------------------ observed
ObsAct(a) == [k |-> a.k, x |-> a.x, p |-> a.p, d |-> IF a.d_pos THEN 1 ELSE 0, ffin |-> a.ffin]

\* ------------------------------------------------------------ monitor clauses
\* (R: the event, li: facts about the update as observed)
MStepMode(R, li)   == \A i \in DOMAIN R.acts : StepModeP(ObsAct(R.acts[i]), li)
MStepWait(R, li)   == \A i \in DOMAIN R.acts : StepWaitP(ObsAct(R.acts[i]), li)
MStepWeight(R, li) == \A i \in DOMAIN R.acts : StepWeightP(ObsAct(R.acts[i]), li)
MStepOffset(R, li) == \A i \in DOMAIN R.acts : StepOffsetP(ObsAct(R.acts[i]), li)
MStepAmount(R, li) == \A i \in DOMAIN R.acts :
                        R.acts[i].k = "step" => (R.acts[i].x_eq /\ StepAmountP(ObsAct(R.acts[i]), li))
MTrackingOnlySlews(R, li) == \A i \in DOMAIN R.acts : TrackingOnlySlewsP(ObsAct(R.acts[i]), li)
MSlewBound(R, li)  == \A i \in DOMAIN R.acts :
                        R.acts[i].k = "adjust" =>
                          /\ R.acts[i].slew_within_bound                       \* exact, on the real values
                          /\ (R.acts[i].p_small => SlewBoundP(ObsAct(R.acts[i]), li))
MPositiveDuration(R, li) == \A i \in DOMAIN R.acts : PositiveDurationP(ObsAct(R.acts[i]))
MFiniteFrequency(R, li)  == \A i \in DOMAIN R.acts : FiniteFrequencyP(ObsAct(R.acts[i]))
\* The phase of the start-up sequence ("waiting for its initial step", "tracking")
\* is the Pll's own, as it declares it in the `mode` attribute of its debug
\* record, WHEN that attribute is there.  A property-preserving change that
\* renamed the attribute was alarmed on (mode unknown = -1 satisfied no clause),
\* so without it the phase is derived from what can be observed: the Pll is
\* waiting for its initial step as long as it has not actuated (stepped or
\* slewed) since the start of the clock epoch it observed last, and past that
\* afterwards (1 = waiting, 3 = past it).  oMode carries both.
DvAfter(R, li, dvB) ==
  IF Len(R.acts) > 0 THEN 3
  ELSE IF li.obs THEN 1
  ELSE dvB
ModeAfter(R, li, dvB) == IF R.mode >= 0 THEN R.mode ELSE DvAfter(R, li, dvB)
MEpochRestarts(R, li) == /\ \A i \in DOMAIN R.acts : EpochRestartsP(ObsAct(R.acts[i]), li, ModeAfter(R, li, li.dvB))
                         /\ EpochRestartsP(NoAct, li, ModeAfter(R, li, li.dvB))

MFailing(R, li) ==
  (IF MStepMode(R, li) THEN << >> ELSE <<"StepMode">>) \o
  (IF MStepWait(R, li) THEN << >> ELSE <<"StepWait">>) \o
  (IF MStepWeight(R, li) THEN << >> ELSE <<"StepWeight">>) \o
  (IF MStepOffset(R, li) THEN << >> ELSE <<"StepOffset">>) \o
  (IF MStepAmount(R, li) THEN << >> ELSE <<"StepAmount">>) \o
  (IF MTrackingOnlySlews(R, li) THEN << >> ELSE <<"TrackingOnlySlews">>) \o
  (IF MSlewBound(R, li) THEN << >> ELSE <<"SlewBound">>) \o
  (IF MPositiveDuration(R, li) THEN << >> ELSE <<"PositiveDuration">>) \o
  (IF MFiniteFrequency(R, li) THEN << >> ELSE <<"FiniteFrequency">>) \o
  (IF MEpochRestarts(R, li) THEN << >> ELSE <<"EpochRestarts">>)

\* ------------------------------------------------------------- strict clauses
\* evaluated on the primed Pll.tla variables (the specification's result for
\* the same inputs) against the event
SMode(R)  == R.mode = mode'
SReading(R) == R.now_t = now'.t /\ R.now_e = now'.e
SEpoch(R) == R.cep = epoch' /\ R.cep2 = clkEpoch'
SLogged(R) == R.nlog = 1 /\ ~R.panic
SAct(R) ==
  IF act'.k = "none" THEN Len(R.acts) = 0
  ELSE /\ Len(R.acts) = 1
       /\ R.acts[1].k = act'.k
       /\ (act'.k = "step" => R.acts[1].x = act'.x)
       /\ (act'.k = "adjust" =>
             /\ R.acts[1].d_whole /\ R.acts[1].d = act'.d
             /\ (R.acts[1].p_small => (R.acts[1].p = act'.p /\ (R.acts[1].p = 0 \/ Sgn(R.acts[1].p) = Sgn(R.off)))))
\* gain branch taken in tracking mode, read off the logged gain a
SGain(R) == R.gc = hist'[Len(hist')].gc
SFailing(R) ==
  (IF SMode(R) THEN << >> ELSE <<"Mode">>) \o
  (IF SGain(R) THEN << >> ELSE <<"Gain">>) \o
  (IF SReading(R) THEN << >> ELSE <<"Reading">>) \o
  (IF SEpoch(R) THEN << >> ELSE <<"Epoch">>) \o
  (IF SLogged(R) THEN << >> ELSE <<"Logged">>) \o
  (IF SAct(R) THEN << >> ELSE <<"Act">>)

\* print the failing clauses of event n (TRUE either way)
Say(marker, names, n) == names = << >> \/ PrintT(<<marker, ToJson([l |-> n, c |-> names])>>)

\* ----------------------------------------------------------------- behaviour
TInit ==
  /\ Init
  /\ l = 0
  /\ oNow = Time0 /\ oCep = 0 /\ oCep2 = 0 /\ oMode = [lg |-> 0, dv |-> 1] /\ oEstart = Time0 /\ oLi = NoIn
  /\ mbad = 0 /\ sbad = 0

Reset(R) ==
  /\ mode' = 0 /\ epoch' = 0 /\ t0' = Time0 /\ t' = Time0 /\ now' = Time0
  /\ clkEpoch' = R.c0 /\ estart' = Time0 /\ act' = NoAct /\ lastIn' = NoIn /\ hist' = << >>
  /\ oNow' = Time0 /\ oCep' = 0 /\ oCep2' = R.c0 /\ oMode' = [lg |-> 0, dv |-> 1] /\ oEstart' = Time0 /\ oLi' = NoIn
  /\ UNCHANGED <<mbad, sbad>>

Upd(R) ==
  LET in   == [adv |-> R.adv, sat |-> R.sat, bump |-> R.bump, off |-> R.off, w |-> R.w]
      \* the symbolic proportional term is whatever the code slewed by
      raw  == IF Len(R.acts) = 1 /\ R.acts[1].k = "adjust" /\ R.acts[1].p_small THEN R.acts[1].p ELSE 0
      now1 == TAdd(oNow, R.adv, R.sat)
      ext  == R.cep # oCep2                      \* the clock epoch was bumped since the last call
      es1  == IF ext THEN now1 ELSE oEstart
      li   == [off |-> R.off, w |-> R.w, modeB |-> IF oMode.lg >= 0 THEN oMode.lg ELSE oMode.dv, dvB |-> oMode.dv,
               obs |-> R.cep # oCep, since |-> TSub(now1, es1), dt |-> TSub(now1, oNow)]
  IN
  /\ Do(in, raw)
  /\ oNow' = now1
  /\ oCep' = R.cep /\ oCep2' = R.cep2
  /\ oMode' = [lg |-> R.mode, dv |-> DvAfter(R, li, oMode.dv)]
  /\ oEstart' = IF R.cep2 # R.cep THEN now1 ELSE es1
  /\ oLi' = li
  /\ mbad' = mbad + Len(MFailing(R, li)) /\ Say("MBAD", MFailing(R, li), l')
  /\ sbad' = sbad + Len(SFailing(R)) /\ Say("SBAD", SFailing(R), l')

TNext ==
  /\ l < N
  /\ l' = l + 1
  /\ IF Trace[l'].ev = "reset" THEN Reset(Trace[l']) ELSE Upd(Trace[l'])

TSpec == TInit /\ [][TNext]_tvars

\* -------------------------------------------------------------- verdicts
MonitorClean == mbad = 0
StrictClean  == sbad = 0
\* End-of-trace reports: always TRUE (so that TLC does not print a behaviour of
\* N states); checks/c19.py reads the MBAD / SBAD lines and these totals.  A
\* total of 0 means every monitor / strict clause held on every event.
MonitorReport == l = N => PrintT(<<"MDONE", ToJson([n |-> mbad, events |-> N])>>)
StrictReport  == l = N => PrintT(<<"SDONE", ToJson([n |-> sbad, events |-> N])>>)
=============================================================================
