SPECIFICATION Spec
CONSTANTS
  Servers = {"A", "B"}
  B0s <- B0All
  Shapes <- ShapesAll
  Vias <- ViasAll
  MaxInject = 1
  Spoof = TRUE
  Confs <- ConfsSw
  Stores <- StoresNone
  Ancs <- AncsTs
  SrcPorts <- SrcPortsEph
  RestoreAtTop = TRUE
CONSTRAINTS GenDeep
INVARIANTS ReplyIffValid ExactlyOne ToSender ReplyHeader NeverAnswersReply BoundedTraffic HistoryIndependence
