SPECIFICATION Spec
CONSTANTS
  MaxClients = 0
  MaxPaths = 0
  ThetaVecs <- Theta1
  AllCompletions = FALSE
  FW = 8
  MaxRounds = 1
  MaxRefresh = 1
  PrivateSlice = TRUE
  KeepHist = FALSE
  CheckRand = TRUE
  RandWMax = 8
  CheckUnif = TRUE
  UnifNMax = 5
INVARIANTS TypeOK
