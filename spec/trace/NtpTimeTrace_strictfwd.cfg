SPECIFICATION TSpec
INVARIANTS SEncode SDecodeFaithful SAggFaithful
