package c20

// QUIC/SCION variant of the scripted peer: the same histories on a Fetcher with
// QUIC.Enabled, against a peer listening with scion.ListenQUIC on a same-AS empty
// path (daemon address ""). The Fetcher is the one inside a client.SCIONClient
// with Auth.NTSEnabled (configured as timeservice.go configureSCIONClientNTS
// does); a call is made either directly (FetchData) or by the NTP client
// (client.MeasureClockOffsetSCION with the CONFIGURED remote address: key-exchange
// host, port cfgPort; local and remote in the same ISD-AS), as the history says.
// UDP sockets on the three hosts x {standard SCION NTP port, 4001, 4002, cfgPort}
// record where the NTP request datagram ARRIVES (underlay next hop) and which
// SCION destination host and UDP port it carries.

import (
	"context"
	"crypto/tls"
	"errors"
	"fmt"
	"log/slog"
	mrand "math/rand"
	"net"
	"runtime"
	"sync"
	"sync/atomic"
	"testing"
	"time"

	"github.com/google/gopacket"
	"github.com/scionproto/scion/pkg/addr"
	"github.com/scionproto/scion/pkg/slayers"
	"github.com/scionproto/scion/pkg/snet"
	spath "github.com/scionproto/scion/pkg/snet/path"

	"example.com/scion-time/core/client"
	"example.com/scion-time/net/ntp"

	"example.com/scion-time/net/ntske"
	"example.com/scion-time/net/scion"
	"example.com/scion-time/net/udp"

	"verif/harness/internal/vio"
)

var iaQ = addr.MustParseIA("1-ff00:0:110")

const (
	stdPortSCION = ntp.ServerPortSCION // NtsKe!StdPort for Transport "quic"
	cfgPort      = 4003                // NtsKe!CfgPort: the port of the configured remote address
)

// scionDst: destination host (model name) and UDP port of a SCION/UDP packet
func (n *wnet) scionDst(b []byte) (string, int) {
	var (
		sl slayers.SCION
		ul slayers.UDP
	)
	parser := gopacket.NewDecodingLayerParser(slayers.LayerTypeSCION, &sl, &ul)
	parser.IgnoreUnsupported = true
	decoded := make([]gopacket.LayerType, 0, 4)
	if err := parser.DecodeLayers(b, &decoded); err != nil || len(decoded) < 2 ||
		decoded[len(decoded)-1] != slayers.LayerTypeSCIONUDP {
		return "?", -1
	}
	name, ok := n.names[net.IP(sl.RawDstAddr).String()]
	if !ok || name == "" || sl.DstIA != iaQ {
		name = "?"
	}
	return name, int(ul.DstPort)
}

type qpeer struct {
	*peer
	ln     *scion.QUICListener
	port   int
	hellos atomic.Int64 // ClientHello messages seen = exchanges attempted by the client
}

var errRefused = errors.New("c20: peer refuses the handshake")

func newQPeer(cert tls.Certificate, n *wnet) *qpeer {
	q := &qpeer{peer: &peer{cert: cert, net: n}}
	base := &tls.Config{Certificates: []tls.Certificate{cert}, MinVersion: tls.VersionTLS13, NextProtos: []string{"ntske/1"}}
	base.GetConfigForClient = func(*tls.ClientHelloInfo) (*tls.Config, error) {
		q.hellos.Add(1)
		q.mu.Lock()
		sc := q.plan
		q.conns = append(q.conns, connRec{sc: sc})
		q.mu.Unlock()
		switch sc.Alpn {
		case "refused":
			return nil, errRefused
		case "other":
			return &tls.Config{Certificates: []tls.Certificate{cert}, MinVersion: tls.VersionTLS13, NextProtos: []string{"h2"}}, nil
		}
		return nil, nil
	}
	ln, err := scion.ListenQUIC(context.Background(),
		udp.UDPAddr{IA: iaQ, Host: &net.UDPAddr{IP: net.ParseIP(n.ips[0]), Port: 0}}, base, nil)
	if err != nil {
		panic(err)
	}
	q.ln = ln
	q.port = ln.Addr().(udp.UDPAddr).Host.Port
	go func() {
		for {
			c, err := ln.Accept(context.Background())
			if err != nil {
				return
			}
			q.accepted.Add(1)
			func() {
				defer q.finished.Add(1)
				cs := c.ConnectionState().TLS
				c2s, err1 := cs.ExportKeyingMaterial(exporterLabel, ctxC2S, 32)
				s2c, err2 := cs.ExportKeyingMaterial(exporterLabel, ctxS2C, 32)
				if err1 != nil || err2 != nil {
					panic(fmt.Sprint("peer cannot export keys: ", err1, err2))
				}
				q.mu.Lock()
				sc := q.plan
				q.sess = append(q.sess, sessKeys{c2s, s2c})
				s := len(q.sess)
				wire, off := q.build(sc, s)
				stl := q.stall
				last := &q.conns[len(q.conns)-1]
				last.handshake, last.sess = true, s
				q.mu.Unlock()
				ctx, cancel := context.WithTimeout(context.Background(), 5*time.Second)
				defer cancel()
				st, err := c.AcceptStream(ctx)
				if err == nil {
					st.SetDeadline(time.Now().Add(5 * time.Second))
					if readRequest2(st) {
						q.mu.Lock()
						q.conns[len(q.conns)-1].reqSeen = true
						q.mu.Unlock()
						if off >= 0 {
							// see (*peer).handle
							if off > 0 {
								st.Write(wire[:off])
							}
							early := stl.wait()
							q.mu.Lock()
							cr := &q.conns[len(q.conns)-1]
							cr.reached, cr.early = true, early
							if early {
								cr.nlate = len(sc.Recs) - sc.Stall
							}
							q.mu.Unlock()
							wire = wire[off:]
						}
						if len(wire) > 0 {
							st.Write(wire)
						}
						q.mu.Lock()
						q.conns[len(q.conns)-1].fin = time.Now()
						q.mu.Unlock()
					}
					st.Close()
				}
				// the client closes the connection at the end of exchangeKeys
				select {
				case <-c.Context().Done():
				case <-ctx.Done():
					c.CloseWithError(0, "")
				}
			}()
		}
	}()
	return q
}

type reader interface{ Read([]byte) (int, error) }

func readRequest2(r reader) bool {
	var hdr [4]byte
	full := func(b []byte) bool {
		for n := 0; n < len(b); {
			k, err := r.Read(b[n:])
			n += k
			if err != nil && n < len(b) {
				return false
			}
		}
		return true
	}
	for i := 0; i < 64; i++ {
		if !full(hdr[:]) {
			return false
		}
		n := int(hdr[2])<<8 | int(hdr[3])
		if n > 0 && !full(make([]byte, n)) {
			return false
		}
		if (int(hdr[0])<<8|int(hdr[1]))&0x7fff == 0 {
			return true
		}
	}
	return false
}

// newClient: a SCION NTP client with NTS, configured as timeservice.go
// configureSCIONClientNTS does
func (q *qpeer) newClient(w *worker) *client.SCIONClient {
	c := &client.SCIONClient{Log: w.log}
	c.Auth.NTSEnabled = true
	f := &c.Auth.NTSKEFetcher
	f.Log = w.log
	f.TLSConfig = tls.Config{
		NextProtos:         []string{"ntske/1"},
		InsecureSkipVerify: true,
		ServerName:         w.net.ips[0],
		MinVersion:         tls.VersionTLS13,
	}
	f.Port = fmt.Sprint(q.port)
	f.QUIC.Enabled = true
	f.QUIC.DaemonAddr = ""
	f.QUIC.LocalAddr = udp.UDPAddr{IA: iaQ, Host: &net.UDPAddr{IP: net.ParseIP(w.net.ips[0])}}
	f.QUIC.RemoteAddr = udp.UDPAddr{IA: iaQ, Host: &net.UDPAddr{IP: net.ParseIP(w.net.ips[0]), Port: q.port}}
	return c
}

// measure: one client.MeasureClockOffsetSCION call (one client, not interleaved:
// one measureClockOffsetSCION) the way timeservice.go makes it inside one AS:
// the configured remote address and an empty path whose next hop is that
// address. Every call gets address values of its own (the client writes through
// remoteAddr.Host). The capture sockets answer with datagrams that are no SCION
// packets, so the call returns at once.
func (q *qpeer) measure(w *worker, c *client.SCIONClient) (o callObs) {
	o = newCallObs()
	w.logh.reset()
	w.net.drain()
	ctx, cancel := context.WithTimeout(context.Background(), 2*time.Second)
	defer cancel()
	host := func() net.IP { return net.ParseIP(w.net.ips[0]).To4() }
	local := udp.UDPAddr{IA: iaQ, Host: &net.UDPAddr{IP: host()}}
	remote := udp.UDPAddr{IA: iaQ, Host: &net.UDPAddr{IP: host(), Port: cfgPort}}
	ps := []snet.Path{spath.Path{Src: iaQ, Dst: iaQ, DataplanePath: spath.Empty{}, NextHop: remote.Host}}
	client.MeasureClockOffsetSCION(ctx, w.log, []*client.SCIONClient{c}, local, remote, ps)
	for _, cp := range w.net.drain() {
		if !o.dest.Sent {
			o.dest = mdest{Sent: true, Net: "scion", Server: cp.dsrv, Port: cp.dport, Hop: mhop{cp.server, cp.port}}
		}
	}
	// (a request on the wire was built from key-exchange data)
	o.ok = o.dest.Sent || !w.logh.saw("failed to fetch key exchange data")
	return
}

func (q *qpeer) runHistory(w *worker, ci int, h []script, seed int64) []event {
	q.resetCase(uint64(seed), mrand.New(mrand.NewSource(seed^0x5bd1e995)))
	cl := q.newClient(w)
	f := &cl.Auth.NTSKEFetcher
	blank := func() event {
		return event{Case: ci, Src: "quic", Planned: noScript, Served: noScript, Ret: zeroData, Post: zeroData,
			Dest: noDest, Twin: mtwin{Ret: zeroData, Post: zeroData}}
	}
	r := blank()
	r.Ev = "reset"
	evs := []event{r}
	nstore := 0
	lastOK := false
	for k, op := range h {
		e := blank()
		e.K = k
		var late *event
		switch op.Op {
		case "store":
			if !lastOK { // see runHistory in c20_test.go
				e.Ev = "skip"
				break
			}
			nstore++
			id := 900 + nstore
			cb := cookieBytes(uint64(seed), id)
			q.mu.Lock()
			q.cookies[string(cb)] = id
			q.mu.Unlock()
			f.StoreCookie(cb)
			e.Ev, e.ID = "store", id
			e.Post = q.project(f.VerifData())
		case "fetch":
			sc := effective(op)
			q.setPlan(sc)
			h0, a0 := q.hellos.Load(), q.accepted.Load()
			q.mu.Lock()
			c0 := len(q.conns)
			q.mu.Unlock()
			e.Ev, e.Via, e.Planned = "call", "fetch", sc
			var o callObs
			stalls := sc.StallW != "none"
			var post0 ntske.Data
			var label string
			var retAt time.Time
			arrivedLate := false
			if stalls {
				var done func()
				o, label, retAt, done = fetchStalled(q.peer, f)
				post0 = f.VerifData()
				done()
			} else if op.Via == "measure" {
				e.Via = "measure"
				o = q.measure(w, cl)
			} else {
				o = fetchCtx(context.Background(), f)
			}
			h1 := q.hellos.Load()
			// a handshake the peer let through ends in its handler
			if h1 > h0 && sc.Alpn == "ntske/1" {
				for dl := time.Now().Add(2 * time.Second); q.accepted.Load() == a0 && time.Now().Before(dl); {
					time.Sleep(100 * time.Microsecond)
				}
			}
			for dl := time.Now().Add(20 * time.Second); q.finished.Load() < q.accepted.Load(); {
				if time.Now().After(dl) {
					panic(fmt.Sprintf("case %d: QUIC peer did not finish", ci))
				}
				time.Sleep(100 * time.Microsecond)
			}
			e.Dialed = int(h1 - h0)
			q.mu.Lock()
			e.Sess = len(q.sess)
			if len(q.conns) > c0 {
				cr := q.conns[c0]
				e.Served, e.ReqSeen = cr.sc, cr.reqSeen
				e.Reached, e.Early, e.NLate = cr.reached, cr.early, cr.nlate
				arrivedLate = stalls && cr.fin.After(retAt)
			}
			q.mu.Unlock()
			e.Ok, e.Panicked, e.Note, e.Dest = o.ok, o.panicked, o.note, o.dest
			lastOK = o.ok
			if stalls {
				e.Post = q.project(post0)
			} else {
				e.Post = q.project(f.VerifData())
			}
			if e.Via == "fetch" {
				if o.ok {
					e.Ret = q.project(o.ret)
				}
			} else if o.ok {
				e.Ret = e.Post // see runHistory in c20_test.go
			}
			if stalls {
				// see runHistory in c20_test.go
				l := e
				l.Ev, l.Via, l.Planned, l.Served, l.Ret, l.Dest = "late", "", noScript, noScript, zeroData, noDest
				l.Ok, l.Dialed = false, 0
				l.Unsettled = arrivedLate && !settle(label)
				l.Post = q.project(f.VerifData())
				late = &l
			}
		}
		evs = append(evs, e)
		if late != nil {
			evs = append(evs, *late)
		}
	}
	return evs
}

func TestQUIC(t *testing.T) {
	cases := vio.ReadCases[tcase](t)
	out := vio.Create(t)
	defer out.Close()
	cert := selfSigned(t)
	nw := envInt("VERIF_C20_WORKERS", 8)
	if nw > len(cases) {
		nw = len(cases)
	}
	res := make([][]event, len(cases))
	var next atomic.Int64
	var wg sync.WaitGroup
	for i := 0; i < nw; i++ {
		wg.Add(1)
		go func(i int) {
			defer wg.Done()
			n := allocNetPorts(t, 100+i, []int{stdPortSCION, portA, portB, cfgPort}, true)
			defer n.close()
			h := &logCapture{}
			w := &worker{t: t, net: n, logh: h, log: slog.New(h)}
			q := newQPeer(cert, n)
			defer q.ln.Close()
			for k := 0; ; k++ {
				ci := int(next.Add(1)) - 1
				if ci >= len(cases) {
					return
				}
				seed := vio.Seed()*1000003 + int64(ci)
				// the probe is made the way the last generated call is made
				pv := ""
				for _, op := range cases[ci].H {
					if op.Op == "fetch" {
						pv = op.Via
					}
				}
				hist := append(append([]script{}, cases[ci].H...), script{Op: "fetch", Via: pv, Alpn: "dflt", Recs: []string{}, Cut: "none"})
				evs := q.runHistory(w, ci, hist, seed)
				evs[len(evs)-1].Probe = true
				un := hasUn(hist)
				var tw []event
				if un {
					tw = q.runHistory(w, ci, erase(hist), seed)
				}
				for j := range evs {
					if evs[j].Ev != "call" {
						continue
					}
					evs[j].HasUn = un
					src := evs[j]
					if un {
						src = tw[j]
					}
					evs[j].Twin = mtwin{Ok: src.Ok, Dialed: src.Dialed, Ret: src.Ret, Post: src.Post}
				}
				res[ci] = evs
				if k%100 == 99 {
					runtime.GC()
				}
			}
		}(i)
	}
	wg.Wait()
	calls, dials, oks, stalled, early, unsettled := 0, 0, 0, 0, 0, 0
	meas, sent := 0, 0
	for _, evs := range res {
		for _, e := range evs {
			out.Emit(e)
			if e.Ev == "late" && e.Unsettled {
				unsettled++
			}
			if e.Ev == "call" && e.Reached {
				stalled++
				if e.Early {
					early++
				}
			}
			if e.Ev == "call" {
				calls++
				dials += e.Dialed
				if e.Ok {
					oks++
				}
				if e.Via == "measure" {
					meas++
				}
				if e.Dest.Sent {
					sent++
				}
			}
		}
	}
	fmt.Printf("C20QUIC cases=%d calls=%d exchanges=%d ok=%d stalled=%d returned-early=%d unsettled=%d measure=%d captured=%d\n",
		len(cases), calls, dials, oks, stalled, early, unsettled, meas, sent)
	if calls == 0 {
		t.Fatal("no call performed")
	}
}
