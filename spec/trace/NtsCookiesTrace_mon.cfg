SPECIFICATION TSpec
CONSTANTS
  PlaceholderTypedAsCookie = FALSE
  CapReply = TRUE
INVARIANTS TMonitor
PROPERTIES TMonitorProp
POSTCONDITION Consumed
