SPECIFICATION Spec
CONSTANTS
  Fault = "none"
  KeyRegime = "drkey"
  CheckSrcHost = TRUE
  MaxDatagrams = 3
  CIAs <- CIAs2
  CHosts <- CHostsK3
  EpochLen = 1
  MaxClock = 1
  Grace = 0
  KeepPathType = FALSE
  Modes <- ModesK
  ULs <- ULsK
  L4s <- L4sK
  DPorts <- DPortsK
  DHosts <- DHostsAll
  Fams <- Fams4
  PathSet <- PathsK
  PathExts <- PathExtsK
  RespExts <- RespExts1
  Pls <- PlsK
  ReqAuths <- ReqAuthsK3
  RespMuts <- RespMutsK
INVARIANTS TypeOK MacSound AuthReplyVerifies ReplyAddressing ForwardRule AtMostOne EmitSeq
CONSTRAINT KeysOnly
