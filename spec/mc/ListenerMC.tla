----------------------------- MODULE ListenerMC -----------------------------
EXTENDS Listener, Json

\* the statement's quantifier: all 256 first bytes x lengths x trailing data
B0All  == 0 .. 255
Lens   == {0, 1, 47, 48, 49, 75, 76, 1024, 2048}
EnvTrailers == TrailerNames \ {"nts_resp"}
\* every trailer class at its natural length and, padded, at the listed lengths
ShapesAll == {sh \in (Lens \cup {NatLen(c) : c \in EnvTrailers}) \X EnvTrailers :
                /\ ShapeOK(sh[1], sh[2])
                /\ (sh[1] \in Lens \/ sh[1] = NatLen(sh[2]))}
ViasAll   == {<<"ip", "empty">>} \cup {<<"scion", k>> : k \in PathKinds}

\* the valid first bytes and their near misses (one field off), the reply byte
B0Key == {8, 19, 27, 35, 200, 211, 219, 227,
          36, 228, 11, 16, 3, 43, 59, 99, 163, 32, 33, 34, 37, 38, 39, 0, 255, 24, 75}
ShapesPair == {<<47, "none">>, <<48, "none">>, <<252, "nts_ok">>, <<252, "nts_badmac">>}
ViasPair   == {<<"ip", "empty">>, <<"scion", "empty">>, <<"scion", "s2">>}
ShapesDeep == {<<48, "none">>, <<252, "nts_ok">>, <<49, "short">>}
ViasDeep   == {<<"ip", "empty">>, <<"scion", "s1">>}
B0Deep     == {8, 35, 227, 36, 228, 11, 32, 163}
ViasGenPair == {<<"ip", "empty">>, <<"scion", "empty">>}
ShapesGenPair == {<<47, "none">>, <<48, "none">>, <<252, "nts_ok">>}

ASSUME Reflection
ASSUME HeaderTestExact
ASSUME \A c \in EnvTrailers : NatLen(c) <= 1024
ASSUME Cardinality(ShapesAll) = 42

\* quick-tier generator: the full first-byte x shape product over IP and over
\* SCION with the empty path; multi-segment paths with the key first bytes
GenQuick == draft.stage \in {"via", "addr"} => (draft.pk = "empty" \/ draft.b0 \in B0Key)
\* pair generator: only forged sources (the others are the ordinary cases)
GenPairQuick == (draft.stage = "addr" => draft.from # Client) /\ (draft.stage # "idle" => draft.b0 \in B0Key)
GenPairDeep  == draft.stage = "addr" => draft.from # Client
\* nothing needs to be handled while generating
GenStop == draft.stage # "addr" /\ ninj = 0

Case(x) ==
  LET d == DraftDgram(x)
  IN [tp |-> x.tp, b0 |-> x.b0, len |-> x.len, tr |-> x.tr, pk |-> x.pk, from |-> x.from, to |-> x.to,
      t |-> Trailer(x.tr), path |-> PathOf(x.pk),
      exp |-> Len(Replies(x.to, d)), drop |-> DropStage(x.to, d)]
Emit == draft.stage = "addr" => PrintT(<<"CASE", ToJson(Case(draft))>>)
EmitPair == (draft.stage = "addr" /\ draft.from # Client) => PrintT(<<"CASE", ToJson(Case(draft))>>)
=============================================================================
