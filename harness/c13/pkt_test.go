// Packet construction, tampering and examination for the C13 driver.
//
// The protocol constants below are deliberately NOT imported from
// example.com/scion-time/net/scion: they are the specification's values
// (ScionAuth.tla), so that a change of the repository's constants is seen as
// a change of behaviour and not silently followed by the harness.
package c13

import (
	"bytes"
	"crypto/subtle"
	"encoding/binary"
	"fmt"
	"math/rand"
	"net"
	"net/netip"

	"github.com/google/gopacket"
	"github.com/scionproto/scion/pkg/addr"
	"github.com/scionproto/scion/pkg/slayers"
	"github.com/scionproto/scion/pkg/slayers/path"
	"github.com/scionproto/scion/pkg/slayers/path/empty"
	"github.com/scionproto/scion/pkg/slayers/path/epic"
	"github.com/scionproto/scion/pkg/slayers/path/onehop"
	"github.com/scionproto/scion/pkg/slayers/path/scion"
	"github.com/scionproto/scion/pkg/spao"
)

const (
	spiClient   = 0x3007B // host-host, receiver side, protocol 123: requests
	spiServer   = 0x2007B // host-host, sender side, protocol 123: responses
	algCMAC     = 0
	endhostPort = 30041
	optDataLen  = 28
	optTS       = 253 // the repository's experimental receive-timestamp option
)

var (
	iaC      = addr.MustParseIA("1-ff00:0:110")
	iaS      = addr.MustParseIA("1-ff00:0:111")
	zeroKey  = make([]byte, 16) // USE_MOCK_KEYS: the host-to-host key is all zero
	otherKey = []byte{1, 2, 3, 4, 5, 6, 7, 8, 9, 10, 11, 12, 13, 14, 15, 16}
)

// ------------------------------------------------------------------ model types

type aseg struct {
	Cons bool  `json:"cons"`
	Sid  int   `json:"sid"`
	Hops []int `json:"hops"`
}

type apath struct {
	Kind string `json:"kind"`
	Ci   int    `json:"ci"`
	Ch   int    `json:"ch"`
	Segs []aseg `json:"segs"`
}

var emptyPath = apath{Kind: "empty", Segs: []aseg{}}

// a datagram in model units (the fields of ScionAuth.tla's datagram records
// that are observable on the wire)
type adgram struct {
	To   string `json:"to"`   // outs only: "prev" | "src" | "dst" | "ehD" | "srvD"
	From string `json:"from"` // outs only: listener socket it came from: "srv" | "eh" | "?"
	Ul   string `json:"ul"`   // requests only: listener socket it was sent to
	L4   string `json:"l4"`   // "udp" | "echo" | "tr" | "echoRep" | "trRep" | "scmpx" | "l4x" | "undec"
	Sia  string `json:"sia"`
	Dia  string `json:"dia"`
	Sh   string `json:"sh"`
	Dh   string `json:"dh"`
	Sfam int    `json:"sfam"`
	Dfam int    `json:"dfam"`
	Sp   string `json:"sp"`
	Dp   string `json:"dp"`
	Path apath  `json:"path"`
	Pl   string `json:"pl"`
	Ext  string `json:"ext"` // extension header chain: "e2e" | "hbh" | "optBefore" | "optAfter"
	// authenticator as found on the wire
	Auth  string `json:"auth"`  // "absent" | "ok" | "bad" | "malformed"
	Aspi  string `json:"aspi"`  // "client" | "server" | "other" | "-"
	Aalgo string `json:"aalgo"` // "cmac" | "other" | "-"
	// key regime with epochs: the key epochs (the DRKey daemon's numbering) under whose
	// host-to-host key of this datagram's (ISD-AS, host) pairs the MAC verifies; empty otherwise
	Vep []int `json:"vep"`
	// strict-only details
	RawOK bool `json:"raw_ok"` // outs: path bytes == slayers' own Reverse() of the request's path bytes
	Echo  bool `json:"echo"`   // NTP reply: origin timestamp == request's transmit timestamp
	TsOpt bool `json:"tsopt"`  // forwarded: carries the receive-timestamp option
}

// ------------------------------------------------------------------------ world

type world struct {
	ipS  map[string]net.IP // listener address per mode
	ipC  net.IP
	ipC2 net.IP // a second client host (key regime)
	// host-to-host key of (server IA, client IA, server host, client host); nil:
	// USE_MOCK_KEYS, the all-zero key for everybody
	keyFn func(srvIA, cliIA addr.IA, srvHost, cliHost netip.Addr) []byte
	// key regime with epochs: the host-to-host key of epoch ep, and the range of epochs
	// the DRKey daemon knows for a client ISD-AS (keyFn is then the key valid now)
	keyEp   func(srvIA, cliIA addr.IA, srvHost, cliHost netip.Addr, ep int) []byte
	epRange func(cliIA addr.IA) (lo, hi int)
	ipP     net.IP
	ipD     net.IP
	srvPort int
}

func (w *world) v6(last byte) netip.Addr {
	b := w.ipC.To4()
	return netip.AddrFrom16([16]byte{0xfd, 0, 0, 0, 0, 0, 0, 0, 0, 0, 0, 0, 0, b[1], b[2], last})
}

func v4(ip net.IP) netip.Addr {
	a, _ := netip.AddrFromSlice(ip.To4())
	return a
}

// host address of a model host label in the given family
func (w *world) host(mode, label string, fam int) netip.Addr {
	var ip net.IP
	switch label {
	case "C":
		ip = w.ipC
	case "C2":
		ip = w.ipC2
	case "S":
		ip = w.ipS[mode]
	case "D":
		ip = w.ipD
	case "P":
		ip = w.ipP
	default:
		panic("host label " + label)
	}
	if fam == 4 {
		return v4(ip)
	}
	return w.v6(ip.To4()[3])
}

func (w *world) hostLabel(mode string, raw []byte) (string, int) {
	a, ok := netip.AddrFromSlice(raw)
	if !ok {
		return "?", 0
	}
	fam := 4
	if a.Is6() {
		fam = 6
	}
	for _, l := range []string{"C", "S", "D", "P", "C2"} {
		if l == "C2" && w.ipC2 == nil {
			continue
		}
		if w.host(mode, l, fam) == a {
			return l, fam
		}
	}
	return "?", fam
}

func iaLabel(ia addr.IA) string {
	switch ia {
	case iaC:
		return "iaC"
	case iaS:
		return "iaS"
	}
	return "?"
}

// --------------------------------------------------------------------- paths

func randBytes(rng *rand.Rand, n int) []byte {
	b := make([]byte, n)
	for i := range b {
		b[i] = byte(rng.Intn(256))
	}
	return b
}

func buildPath(p apath, rng *rand.Rand) (path.Path, path.Type) {
	switch p.Kind {
	case "empty":
		return empty.Path{}, empty.PathType
	case "onehop":
		sg := p.Segs[0]
		hop := func(h int) path.HopField {
			hf := path.HopField{ConsIngress: uint16(h), ConsEgress: uint16(h + 100), ExpTime: uint8(rng.Intn(256))}
			copy(hf.Mac[:], randBytes(rng, 6))
			return hf
		}
		return &onehop.Path{Info: path.InfoField{ConsDir: sg.Cons, SegID: uint16(sg.Sid), Timestamp: uint32(rng.Int63())},
			FirstHop: hop(sg.Hops[0]), SecondHop: hop(sg.Hops[1])}, onehop.PathType
	case "epic":
		q := p
		q.Kind = "scion"
		inner, _ := buildPath(q, rng)
		raw := &scion.Raw{}
		if err := raw.DecodeFromBytes(pathBytes(inner)); err != nil {
			panic(err)
		}
		return &epic.Path{PktID: epic.PktID{Timestamp: uint32(rng.Int63()), Counter: uint32(rng.Int63())},
			PHVF: randBytes(rng, 4), LHVF: randBytes(rng, 4), ScionPath: raw}, epic.PathType
	}
	d := &scion.Decoded{}
	d.PathMeta.CurrINF = uint8(p.Ci)
	d.PathMeta.CurrHF = uint8(p.Ch)
	d.NumINF = len(p.Segs)
	for i, sg := range p.Segs {
		d.PathMeta.SegLen[i] = uint8(len(sg.Hops))
		d.NumHops += len(sg.Hops)
		d.InfoFields = append(d.InfoFields, path.InfoField{ConsDir: sg.Cons, SegID: uint16(sg.Sid),
			Timestamp: uint32(rng.Int63())})
		for _, h := range sg.Hops {
			hf := path.HopField{ConsIngress: uint16(h), ConsEgress: uint16(h + 100), ExpTime: uint8(rng.Intn(256))}
			copy(hf.Mac[:], randBytes(rng, 6))
			d.HopFields = append(d.HopFields, hf)
		}
	}
	return d, scion.PathType
}

func pathBytes(p path.Path) []byte {
	b := make([]byte, p.Len())
	if err := p.SerializeTo(b); err != nil {
		panic(err)
	}
	return b
}

func projectPath(p path.Path) apath {
	switch x := p.(type) {
	case empty.Path:
		return emptyPath
	case *scion.Raw:
		d, err := x.ToDecoded()
		if err != nil {
			return apath{Kind: "undecodable", Segs: []aseg{}}
		}
		return projectPath(d)
	case *scion.Decoded:
		r := apath{Kind: "scion", Ci: int(x.PathMeta.CurrINF), Ch: int(x.PathMeta.CurrHF), Segs: []aseg{}}
		k := 0
		for i := 0; i < x.NumINF; i++ {
			sg := aseg{Cons: x.InfoFields[i].ConsDir, Sid: int(x.InfoFields[i].SegID), Hops: []int{}}
			for j := 0; j < int(x.PathMeta.SegLen[i]); j++ {
				sg.Hops = append(sg.Hops, int(x.HopFields[k].ConsIngress))
				k++
			}
			r.Segs = append(r.Segs, sg)
		}
		return r
	case *onehop.Path:
		return apath{Kind: "onehop", Segs: []aseg{{Cons: x.Info.ConsDir, Sid: int(x.Info.SegID),
			Hops: []int{int(x.FirstHop.ConsIngress), int(x.SecondHop.ConsIngress)}}}}
	case *epic.Path:
		if x.ScionPath == nil {
			return apath{Kind: "undecodable", Segs: []aseg{}}
		}
		r := projectPath(x.ScionPath)
		if r.Kind == "scion" {
			r.Kind = "epic"
		}
		return r
	}
	return apath{Kind: "other", Segs: []aseg{}}
}

// slayers' own reversal of a serialized path (what "the reversed path" is):
// its type and its bytes
func reversedPathBytes(pt path.Type, pb []byte) (path.Type, []byte) {
	var p path.Path
	switch pt {
	case scion.PathType:
		p = &scion.Raw{}
	case onehop.PathType:
		p = &onehop.Path{}
	case epic.PathType:
		p = &epic.Path{}
	default:
		return pt, pb
	}
	if err := p.DecodeFromBytes(append([]byte{}, pb...)); err != nil {
		panic(err)
	}
	rv, err := p.Reverse()
	if err != nil {
		panic(err)
	}
	return rv.Type(), pathBytes(rv)
}

// ----------------------------------------------------------------- building

type authSpec struct {
	spi  uint32
	algo uint8
	ts   uint64
	key  []byte
}

type pktSpec struct {
	srcIA, dstIA     addr.IA
	srcHost, dstHost netip.Addr
	sport, dport     uint16
	path             apath
	l4               string // "udp" | "echo" | "tr" | "scmpx" | "l4x"
	payload          []byte // UDP payload / SCMP message body (after type, code, checksum) / raw L4
	auth             *authSpec
	ext              string // "" / "e2e" | "hbh" | "optBefore" | "optAfter"
	flow             uint32
	tc               uint8
}

var serOpts = gopacket.SerializeOptions{ComputeChecksums: true, FixLengths: true}

func build(s *pktSpec, rng *rand.Rand) []byte {
	var sl slayers.SCION
	sl.FlowID = s.flow
	sl.TrafficClass = s.tc
	sl.SrcIA, sl.DstIA = s.srcIA, s.dstIA
	if err := sl.SetSrcAddr(addr.HostIP(s.srcHost)); err != nil {
		panic(err)
	}
	if err := sl.SetDstAddr(addr.HostIP(s.dstHost)); err != nil {
		panic(err)
	}
	p, pt := buildPath(s.path, rng)
	sl.Path, sl.PathType = p, pt
	buf := gopacket.NewSerializeBuffer()
	must := func(err error) {
		if err != nil {
			panic(err)
		}
	}
	pl := gopacket.Payload(s.payload)
	must(pl.SerializeTo(buf, serOpts))
	switch s.l4 {
	case "udp":
		sl.NextHdr = slayers.L4UDP
		var ul slayers.UDP
		ul.SrcPort, ul.DstPort = s.sport, s.dport
		ul.SetNetworkLayerForChecksum(&sl)
		must(ul.SerializeTo(buf, serOpts))
		var unk *slayers.EndToEndOption
		if s.ext == "optBefore" || s.ext == "optAfter" {
			// an option of a type nobody knows (not padding, authenticator or receive timestamp)
			unk = &slayers.EndToEndOption{OptType: slayers.OptionType(200 + rng.Intn(40)), OptData: randBytes(rng, 6)} // fixed length: bit sweeps rely on one layout per case shape
		}
		if s.auth == nil && unk != nil {
			e2e := slayers.EndToEndExtn{}
			e2e.NextHdr = slayers.L4UDP
			e2e.Options = []*slayers.EndToEndOption{unk}
			must(e2e.SerializeTo(buf, serOpts))
			sl.NextHdr = slayers.End2EndClass
		}
		if s.auth != nil {
			opt := &slayers.EndToEndOption{OptType: slayers.OptTypeAuthenticator, OptData: make([]byte, optDataLen),
				OptAlign: [2]uint8{4, 2}}
			binary.BigEndian.PutUint32(opt.OptData[0:], s.auth.spi)
			opt.OptData[4] = s.auth.algo
			opt.OptData[5] = 0
			opt.OptData[6] = byte(s.auth.ts >> 40)
			opt.OptData[7] = byte(s.auth.ts >> 32)
			binary.BigEndian.PutUint32(opt.OptData[8:], uint32(s.auth.ts))
			_, err := spao.ComputeAuthCMAC(spao.MACInput{Key: s.auth.key, Header: slayers.PacketAuthOption{EndToEndOption: opt},
				ScionLayer: &sl, PldType: slayers.L4UDP, Pld: buf.Bytes()}, make([]byte, spao.MACBufferSize), opt.OptData[12:])
			must(err)
			e2e := slayers.EndToEndExtn{}
			e2e.NextHdr = slayers.L4UDP
			e2e.Options = []*slayers.EndToEndOption{opt}
			if s.ext == "optBefore" {
				e2e.Options = []*slayers.EndToEndOption{unk, opt}
			} else if s.ext == "optAfter" {
				e2e.Options = []*slayers.EndToEndOption{opt, unk}
			}
			must(e2e.SerializeTo(buf, serOpts))
			sl.NextHdr = slayers.End2EndClass
		}
	case "echo", "tr", "scmpx":
		sl.NextHdr = slayers.L4SCMP
		var sc slayers.SCMP
		switch s.l4 {
		case "echo":
			sc.TypeCode = slayers.CreateSCMPTypeCode(slayers.SCMPTypeEchoRequest, 0)
		case "tr":
			sc.TypeCode = slayers.CreateSCMPTypeCode(slayers.SCMPTypeTracerouteRequest, 0)
		default:
			// any other SCMP message: errors, replies, unassigned types
			ts := []slayers.SCMPType{slayers.SCMPTypeDestinationUnreachable, slayers.SCMPTypePacketTooBig,
				slayers.SCMPTypeParameterProblem, slayers.SCMPTypeEchoReply, slayers.SCMPTypeTracerouteReply, 127, 200, 255}
			sc.TypeCode = slayers.CreateSCMPTypeCode(ts[rng.Intn(len(ts))], slayers.SCMPCode(rng.Intn(3)))
		}
		sc.SetNetworkLayerForChecksum(&sl)
		must(sc.SerializeTo(buf, serOpts))
	case "l4x":
		sl.NextHdr = slayers.L4TCP
	default:
		panic("l4 " + s.l4)
	}
	must(sl.SerializeTo(buf, serOpts))
	return append([]byte{}, buf.Bytes()...)
}

// ------------------------------------------------------------------- layout

type layout struct {
	hdrLen   int // SCION header
	addrLen  int
	pathOff  int
	pathType path.Type
	hasE2E   bool
	optData  int // offset of the authenticator option's data (28 bytes), -1 if none
	l4Off    int
	numINF   int
	segLen   [3]int
}

func layoutOf(w []byte) layout {
	l := layout{optData: -1}
	l.hdrLen = int(w[5]) * 4
	l.pathType = path.Type(w[8])
	al := func(t byte) int { return (int(t&0x3) + 1) * 4 }
	l.addrLen = 16 + al(w[9]>>4) + al(w[9])
	l.pathOff = 12 + l.addrLen
	l.l4Off = l.hdrLen
	if l.pathType == scion.PathType {
		meta := binary.BigEndian.Uint32(w[l.pathOff:])
		l.segLen = [3]int{int(meta>>12) & 0x3f, int(meta>>6) & 0x3f, int(meta) & 0x3f}
		for i := 0; i < 3; i++ {
			if l.segLen[i] > 0 {
				l.numINF = i + 1
			}
		}
	}
	if slayers.L4ProtocolType(w[4]) == slayers.End2EndClass {
		l.hasE2E = true
		extLen := (int(w[l.hdrLen+1]) + 1) * 4
		l.l4Off = l.hdrLen + extLen
		for o := l.hdrLen + 2; o < l.l4Off; {
			t := slayers.OptionType(w[o])
			if t == slayers.OptTypePad1 {
				o++
				continue
			}
			n := int(w[o+1])
			if t == slayers.OptTypeAuthenticator && n == optDataLen {
				l.optData = o + 2
				break
			}
			o += 2 + n
		}
	}
	return l
}

// bit positions (byte*8 + bit) of a tamper class in a serialized packet
func region(w []byte, class string) []int {
	l := layoutOf(w)
	var r []int
	bits := func(off int, mask byte) {
		for b := 0; b < 8; b++ {
			if mask&(1<<b) != 0 {
				r = append(r, off*8+b)
			}
		}
	}
	rng := func(from, to int) {
		for o := from; o < to; o++ {
			bits(o, 0xff)
		}
	}
	hdrCovered := func() {
		bits(0, 0x03) // traffic class bits 5..4
		bits(1, 0xff) // traffic class bits 3..0, flow id 19..16
		rng(2, 4)     // flow id 15..0
	}
	switch class {
	case "macFlip":
		rng(l.optData+12, l.optData+28)
	case "tsFlip":
		rng(l.optData+6, l.optData+12)
	case "rsvFlip":
		rng(l.optData+5, l.optData+6)
	case "spiFlip":
		rng(l.optData, l.optData+4)
	case "algoFlip":
		rng(l.optData+4, l.optData+5)
	case "covHdr":
		hdrCovered()
	case "covPath":
		if l.pathType != scion.PathType {
			hdrCovered()
			break
		}
		o := l.pathOff + 4
		for i := 0; i < l.numINF; i++ {
			rng(o, o+2)   // flags, RSV
			rng(o+4, o+8) // timestamp
			o += 8
		}
		for i := 0; i < l.numINF; i++ {
			for j := 0; j < l.segLen[i]; j++ {
				rng(o+1, o+12) // expiry, interfaces, MAC
				o += 12
			}
		}
	case "covPld":
		rng(l.l4Off+6, l.l4Off+8) // UDP checksum
		rng(l.l4Off+9, len(w))    // payload without its first byte (LI, VN, mode)
	case "uncovFlip":
		bits(0, 0x0c) // traffic class bits 7..6
		if l.pathType == scion.PathType {
			o := l.pathOff + 4
			for i := 0; i < l.numINF; i++ {
				rng(o+2, o+4) // SegID
				o += 8
			}
			for i := 0; i < l.numINF; i++ {
				for j := 0; j < l.segLen[i]; j++ {
					rng(o, o+1) // hop field flags
					o += 12
				}
			}
		}
	default:
		panic("region " + class)
	}
	return r
}

func flip(w []byte, bit int) { w[bit/8] ^= 1 << uint(bit%8) }

// puts a hop-by-hop extension header (one PadN option) in front of whatever
// follows the SCION header
func insertHBH(w []byte) []byte {
	hl := int(w[5]) * 4
	r := append([]byte{}, w[:hl]...)
	r = append(r, w[4], 0, byte(slayers.OptTypePadN), 0) // NextHdr, ExtLen = 0 (4 bytes), PadN of 2 bytes
	r[4] = byte(slayers.HopByHopClass)
	binary.BigEndian.PutUint16(r[6:], binary.BigEndian.Uint16(w[6:])+4)
	return append(r, w[hl:]...)
}

// removes the end-to-end extension header of a SCION/UDP packet
func stripE2E(w []byte) []byte {
	l := layoutOf(w)
	if !l.hasE2E {
		return w
	}
	ext := l.l4Off - l.hdrLen
	r := append([]byte{}, w[:l.hdrLen]...)
	r[4] = w[l.hdrLen] // NextHdr of the extension
	binary.BigEndian.PutUint16(r[6:], binary.BigEndian.Uint16(w[6:])-uint16(ext))
	return append(r, w[l.l4Off:]...)
}

// ---------------------------------------------------------------- examination

type parsed struct {
	ok      bool
	sl      slayers.SCION
	e2e     slayers.EndToEndExtn
	ul      slayers.UDP
	sc      slayers.SCMP
	layers  []gopacket.LayerType
	last    gopacket.LayerType
	hasE2E  bool
	authOpt *slayers.EndToEndOption
	vep     []int // set by authState: epochs under whose key the MAC verifies
}

func parse(w []byte) *parsed {
	p := &parsed{}
	var hbh slayers.HopByHopExtnSkipper
	parser := gopacket.NewDecodingLayerParser(slayers.LayerTypeSCION, &p.sl, &hbh, &p.e2e, &p.ul, &p.sc)
	parser.IgnoreUnsupported = true
	p.layers = make([]gopacket.LayerType, 0, 4)
	if err := parser.DecodeLayers(w, &p.layers); err != nil || len(p.layers) == 0 {
		return p
	}
	p.ok = true
	p.last = p.layers[len(p.layers)-1]
	for _, lt := range p.layers {
		if lt == slayers.LayerTypeEndToEndExtn {
			p.hasE2E = true
			if o, err := p.e2e.FindOption(slayers.OptTypeAuthenticator); err == nil {
				p.authOpt = o
			}
		}
	}
	return p
}

// authenticator as found on the wire: presence, SPI / algorithm class and
// whether the MAC verifies (SPAO computation of scionproto's library under
// the all-zero mock key) over the packet as it is
func (p *parsed) authState(w *world) (state, spi, algo string, macok bool) {
	if p.authOpt == nil {
		return "absent", "-", "-", false
	}
	d := p.authOpt.OptData
	if len(d) != optDataLen {
		return "malformed", "-", "-", false
	}
	switch binary.BigEndian.Uint32(d) {
	case spiClient:
		spi = "client"
	case spiServer:
		spi = "server"
	default:
		spi = "other"
	}
	algo = "other"
	if d[4] == algCMAC {
		algo = "cmac"
	}
	if p.last != slayers.LayerTypeSCIONUDP {
		return "bad", spi, algo, false
	}
	// the host-to-host key of the datagram as it is: a request (and anything that is
	// not a response) travels client -> server, a response server -> client
	key := zeroKey
	verifies := p.verifies
	if w != nil && w.keyFn != nil {
		src, ok1 := netip.AddrFromSlice(p.sl.RawSrcAddr)
		dst, ok2 := netip.AddrFromSlice(p.sl.RawDstAddr)
		if !ok1 || !ok2 {
			return "bad", spi, algo, false
		}
		srvIA, cliIA, srvHost, cliHost := p.sl.DstIA, p.sl.SrcIA, dst, src
		if spi == "server" {
			srvIA, cliIA, srvHost, cliHost = p.sl.SrcIA, p.sl.DstIA, src, dst
		}
		key = w.keyFn(srvIA, cliIA, srvHost, cliHost)
		if w.keyEp != nil {
			lo, hi := w.epRange(cliIA)
			for e := lo - 1; e <= hi+1; e++ {
				if verifies(w.keyEp(srvIA, cliIA, srvHost, cliHost, e)) {
					p.vep = append(p.vep, e)
				}
			}
		}
	}
	if verifies(key) {
		return "ok", spi, algo, true
	}
	return "bad", spi, algo, false
}

// the MAC of the packet's authenticator verifies under key (scionproto's SPAO computation)
func (p *parsed) verifies(key []byte) bool {
	if p.authOpt == nil || len(p.authOpt.OptData) != optDataLen {
		return false
	}
	mac := make([]byte, 16)
	_, err := spao.ComputeAuthCMAC(spao.MACInput{Key: key, Header: slayers.PacketAuthOption{EndToEndOption: p.authOpt},
		ScionLayer: &p.sl, PldType: slayers.L4UDP, Pld: p.e2e.Payload}, make([]byte, spao.MACBufferSize), mac)
	return err == nil && subtle.ConstantTimeCompare(mac, p.authOpt.OptData[12:]) == 1
}

// recomputes the MAC of the packet's authenticator in place (optionally after
// replacing the SPI)
func remac(w []byte, spi uint32, key []byte) {
	p := parse(w)
	if !p.ok || p.authOpt == nil || len(p.authOpt.OptData) != optDataLen {
		panic("remac: no authenticator")
	}
	binary.BigEndian.PutUint32(p.authOpt.OptData[0:], spi)
	_, err := spao.ComputeAuthCMAC(spao.MACInput{Key: key, Header: slayers.PacketAuthOption{EndToEndOption: p.authOpt},
		ScionLayer: &p.sl, PldType: slayers.L4UDP, Pld: p.e2e.Payload}, make([]byte, spao.MACBufferSize), p.authOpt.OptData[12:])
	if err != nil {
		panic(err)
	}
}

// port numbers -> model labels
type portMap struct {
	cp, srv, oth int
	ias          map[addr.IA]string // per-case ISD-AS labels (key regime), nil: iaC / iaS
}

func (m portMap) ia(ia addr.IA) string {
	if l, ok := m.ias[ia]; ok {
		return l
	}
	return iaLabel(ia)
}

func (m portMap) label(p uint16) string {
	switch int(p) {
	case m.cp:
		return "cp"
	case m.srv:
		return "srv"
	case endhostPort:
		return "eh"
	case m.oth:
		return "oth"
	}
	return "?"
}

// projects a serialized SCION packet to model units
func (w *world) project(mode string, wire []byte, pm portMap) (adgram, *parsed) {
	d := adgram{L4: "undec", Sia: "?", Dia: "?", Sh: "?", Dh: "?", Sp: "-", Dp: "-", Path: emptyPath, Pl: "-", Ext: "e2e",
		Auth: "absent", Aspi: "-", Aalgo: "-", To: "-", From: "-", Ul: "-", Vep: []int{}}
	p := parse(wire)
	if !p.ok {
		return d, p
	}
	d.Sia, d.Dia = pm.ia(p.sl.SrcIA), pm.ia(p.sl.DstIA)
	d.Sh, d.Sfam = w.hostLabel(mode, p.sl.RawSrcAddr)
	d.Dh, d.Dfam = w.hostLabel(mode, p.sl.RawDstAddr)
	d.Path = projectPath(p.sl.Path)
	switch p.last {
	case slayers.LayerTypeSCIONUDP:
		d.L4 = "udp"
		d.Sp, d.Dp = pm.label(p.ul.SrcPort), pm.label(p.ul.DstPort)
	case slayers.LayerTypeSCMP:
		switch p.sc.TypeCode.Type() {
		case slayers.SCMPTypeEchoRequest:
			d.L4 = "echo"
		case slayers.SCMPTypeTracerouteRequest:
			d.L4 = "tr"
		case slayers.SCMPTypeEchoReply:
			d.L4 = "echoRep"
		case slayers.SCMPTypeTracerouteReply:
			d.L4 = "trRep"
		default:
			d.L4 = "scmpx"
		}
	default:
		d.L4 = "l4x"
	}
	d.Auth, d.Aspi, d.Aalgo, _ = p.authState(w)
	d.Vep = append(d.Vep, p.vep...)
	d.Ext = "e2e"
	for _, lt := range p.layers {
		if lt == slayers.LayerTypeHopByHopExtn {
			d.Ext = "hbh"
		}
	}
	if p.hasE2E && d.Ext == "e2e" {
		seenAuth := false
		for _, o := range p.e2e.Options {
			switch o.OptType {
			case slayers.OptTypePad1, slayers.OptTypePadN, optTS:
			case slayers.OptTypeAuthenticator:
				seenAuth = true
			default:
				if seenAuth {
					d.Ext = "optAfter"
				} else {
					d.Ext = "optBefore"
				}
			}
		}
	}
	if p.hasE2E {
		if _, err := p.e2e.FindOption(optTS); err == nil {
			d.TsOpt = true
		}
	}
	return d, p
}

func (p *parsed) l4Payload() []byte {
	switch p.last {
	case slayers.LayerTypeSCIONUDP:
		return p.ul.Payload
	case slayers.LayerTypeSCMP:
		return p.sc.Payload
	}
	return nil
}

func isNtpResp(pl []byte) bool { return len(pl) >= 48 && pl[0]&7 == 4 }

func udpAddr(ip net.IP, port int) *net.UDPAddr { return &net.UDPAddr{IP: ip, Port: port} }

func mustEq(a, b []byte, what string) {
	if !bytes.Equal(a, b) {
		panic(fmt.Sprintf("%s: % x != % x", what, a, b))
	}
}
