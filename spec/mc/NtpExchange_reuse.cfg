SPECIFICATION HSpec
CONSTANTS
  MaxAttempts = 5
  MaxDup = 1
  Thetas <- ThetasGen
  Gap = 12
  ItemCap = 8
  ReusePorts = TRUE
  StrictGap = FALSE
  FwdStamps <- FwdNone
INVARIANTS SameExchange HalfRTT PrevConsistent NoPanic
