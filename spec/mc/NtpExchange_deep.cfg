SPECIFICATION Spec
CONSTANTS
  MaxAttempts = 3
  MaxDup = 1
  Thetas <- ThetasTwo
  Gap = 12
  ItemCap = 2
  ReusePorts = FALSE
  StrictGap = FALSE
  FwdStamps <- FwdNone
INVARIANTS SameExchange HalfRTT PrevConsistent NoPanic
