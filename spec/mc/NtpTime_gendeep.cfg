SPECIFICATION Spec
CONSTANTS
  NsPerSec = 1000
  FracUnits = 4096
  EraSecs = 64
  Epoch <- EpochScaled
  ForwardOnlyEraUnfold = FALSE
  WholeSecondUnfold = FALSE
  RefSecs <- RefCls
  RefNs <- RefNsGen
  Offs <- OffAll
  NsVals <- NsGenDp
INVARIANTS Emit
