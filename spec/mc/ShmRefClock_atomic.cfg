SPECIFICATION Spec
CONSTANTS
  WriterKind = "proto"
  Mode = 1
  NSamples = 2
  MaxCalls = 3
  MaxRetries = 2
  DlKinds <- DlBoth
  ReadOrder <- AddrOrder
  AtomicAttempt = TRUE
  RecordHist = FALSE
  SModes <- ModesSmall
  SValids <- ValidsSmall
  SPairs <- PairsSmall
  SCounts = {7}
INVARIANTS X03Shm
