SPECIFICATION Spec
CONSTANTS
  KPn = 1
  KPd = 1
  KIn = 0
  KId = 1
  G = 4
  Thr = 4
  FMax = 20
  Offs <- OffsFull
  Perturb <- PertSmall
  K0s <- K0sSmall
  MaxLen = 4
  StepWritesFreq = FALSE
INVARIANTS X03Pi PaGhost DecompNoStep
