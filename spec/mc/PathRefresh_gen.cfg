SPECIFICATION SpecGen
CONSTANTS
  P = 3
  DstLists <- DL1
  Dsts <- Dsts12
  IAs <- IA1
  MaxN = 1
  Delays <- D0
  Horizon = 12
  MaxUpd = 9
  KeepOnFail = FALSE
  Dedup = FALSE
  GenLen = 6
INVARIANTS Emit
