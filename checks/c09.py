"""C09 - servers answer exactly the valid client requests, once, to the sender.

spec/Listener.tla (pipeline of runIPServer / runSCIONServer + ValidateRequest +
reply header/addressing)  <->  the real listeners on loopback (harness/c09).

 1. TLC decides the property section on the specification: the complete
    first-byte x length x trailer x transport product for one listener
    (Listener_exh), two listeners and a forged source address (Listener_pair;
    thorough: Listener_pairdeep and, with two forged datagrams, Listener_deep).
 2. spec -> code: TLC enumerates the cases (Listener_gen*.cfg, Emit) and the
    forged-source cases (Listener_genpair*.cfg).
 3. the Go driver sends each of them to StartIPServer / StartSCIONServer.
 4. code -> spec: ListenerTrace.tla, monitor (= the property section on the
    recorded events; decides) then strict (= the pipeline's prediction; DRIFT).

The reply is a function of the datagram AND of the circumstances of its
arrival; Listener.tla carries them as state (sections 3a, 3b) and the
environment enumerates them:
  * how the listener was started (conf): "sw" without an interface name,
    "hw" with one (hardware timestamping on an interface that has none: no
    receive-timestamp control message, no transmit timestamp);
  * the class the server's timestamp store is in when the request arrives
    (store): client unknown / known with k exchanges / request referring to an
    exchange on record / store full with the oldest item evictable or not.
TLC combines them with the key datagrams; the driver brings each about on the
real listeners (second listener pair started with the loopback interface's
name; store put into the class through the `verif` hooks and inspected) and
the same monitors judge the records.
  * the sender's source port class (SrcPorts): ephemeral / 123 / another
    privileged port / the addressed listener's port number on the sender's own
    address. TLC combines the classes with all 256 first bytes and the shapes;
    the driver binds the sending socket to that port (a port that cannot be
    bound makes the case unobserved, never a violation).

VERIF_C09_CORRUPT=<kind> corrupts one recorded field before validation
(negative control of the binding): drop_reply | dup_reply | reply_mode |
reply_stratum | swap_path | pair_count.
"""
import os, threading
import vlib


def _par(jobs):
    """run callables concurrently; re-raise the first exception"""
    res, errs = [None] * len(jobs), []

    def w(i, f):
        try:
            res[i] = f()
        except BaseException as e:  # noqa
            errs.append(e)
    ts = [threading.Thread(target=w, args=(i, f)) for i, f in enumerate(jobs)]
    for t in ts:
        t.start()
    for t in ts:
        t.join()
    if errs:
        raise errs[0]
    return res


def _sig(inv, r):
    if r is None:
        return "C09 %s ?" % inv
    if r["k"] == "pair":
        return "C09 %s pair %s" % (inv, r["tp"])
    if r["k"] in ("stage", "anc", "port"):
        return "C09 %s %s %s%s" % (inv, r["k"], r["stage"], "" if r.get("conf", "sw") == "sw" else " listener=" + r["conf"])
    b = r["b0"]
    ln = r["len"]
    lc = "<48" if ln < 48 else "48" if ln == 48 else ">48"
    # the circumstances of arrival, when they are not the plain ones
    env = (("" if r["conf"] == "sw" else " listener=" + r["conf"]) + ("" if r["store"] == "asis" else " store=" + r["store"])
           + ("" if r.get("sp", "eph") == "eph" else " sport=" + r["sp"]))
    if r["n"] == 0 and inv in ("ToSender", "ReplyHeader", "MRawReverse"):
        # only the sentinel's reply can be meant
        return "C09 %s sentinel-reply %s%s%s" % (inv, r["tp"], (" hosts=%s>%s" % (r["sc"]["st"], r["sc"]["dt"])) if r["tp"] == "scion" else "", env)
    if r["sn"] != 1 and r["n"] == r["exp"] and not inv.startswith("S"):
        # the case itself was handled as the statement demands; the well-formed
        # request that followed it on the same listener socket got no reply
        return "C09 %s sentinel-after %s len%s tr=%s%s" % (inv, r["tp"], lc, r["tr"], env)
    fam = (" hosts=%s>%s" % (r["sc"]["st"], r["sc"]["dt"])) if r["tp"] == "scion" and r["sc"]["st"] + r["sc"]["dt"] != "v4v4" else ""
    return "C09 %s %s%s len%s tr=%s li=%d vn=%d mode=%d%s" % (inv, r["tp"], fam, lc, r["tr"], b >> 6, (b >> 3) & 7, b & 7, env)


def _corrupt(recs, kind):
    """negative control: change one recorded field"""
    for r in recs:
        if r["k"] == "case" and r["n"] == 1 and r["id"] >= 0 and (kind != "swap_path" or r["pk"] == "s3"):
            if kind == "drop_reply":
                r["out"], r["n"] = [], 0
            elif kind == "dup_reply":
                r["out"], r["n"] = r["out"] * 2, 2
            elif kind == "reply_mode":
                r["out"][0]["b0"] = 0x23
            elif kind == "reply_stratum":
                r["out"][0]["st"] = 2
            elif kind == "swap_path":
                r["out"][0]["sc"]["path"] = r["sc"]["path"]
            else:
                continue
            return
    for r in recs:
        if r["k"] == "pair" and kind == "pair_count":
            r["arecv"] += 2
            return
    raise vlib.Inconclusive("corruption %s not applicable" % kind)


# store classes the environment of Listener_gen.cfg / Listener_gendeep.cfg brings
# about (ListenerMC!StoresQuick, Listener!StoreClassNames) and what they mean
STORES_Q = ["new", "k1", "k7", "k8", "il1", "il8", "full_evict", "full_stuck", "full_k3"]
# source port classes other than "eph" (Listener!SrcPortNames)
PORTS = ["p123", "priv", "lport"]
STORES_T = ["new"] + ["k%d" % i for i in range(1, 9)] + ["il%d" % i for i in range(1, 9)] + ["full_evict", "full_stuck", "full_k3"]


def run(ctx):
    q = ctx.quick
    ctx.specdir()
    # 1 + 2: design-level model checking and case generation, concurrently
    jobs = [lambda: ctx.tlc("ListenerMC", "Listener_exh.cfg" if q else "Listener_exhall.cfg", workers=6, timeout=900),
            lambda: ctx.tlc("ListenerMC", "Listener_pair.cfg", workers=3, timeout=600),
            lambda: ctx.tlc("ListenerMC", "Listener_gen.cfg" if q else "Listener_gendeep.cfg",
                            workers=1, timeout=600, tag="gen"),
            lambda: ctx.tlc("ListenerMC", "Listener_genpair.cfg" if q else "Listener_genpairdeep.cfg",
                            workers=1, timeout=600, tag="genpair")]
    # histories of three datagrams on one listener socket (HistoryIndependence), and
    # the proof that the invariant is not vacuous: the variant that restores the
    # receive buffer only after a served request must violate it
    jobs += [lambda: ctx.tlc("ListenerMC", "Listener_hist.cfg", workers=2, timeout=600),
             lambda: ctx.tlc("ListenerMC", "Listener_f_stalebuf.cfg", workers=2, timeout=600, allow_violation=True,
                             tag="f_stalebuf")]
    # histories of two datagrams under every circumstance of arrival (listener
    # configuration x store class x ancillary data), the store evolving in between
    jobs += [lambda: ctx.tlc("ListenerMC", "Listener_env.cfg", workers=2, timeout=600)]
    if not q:
        jobs += [lambda: ctx.tlc("ListenerMC", "Listener_deep.cfg", workers=3, timeout=900),
                 lambda: ctx.tlc("ListenerMC", "Listener_pairdeep.cfg", workers=3, timeout=900)]
    res = _par(jobs)
    for r in res:
        ctx.log("TLC %s: %d distinct states, %.1fs" % (r["cfg"], r["distinct"], r["wall_s"]))
    if res[5]["violated"] != "HistoryIndependence":
        raise vlib.Inconclusive("self-check: the stale-buffer variant of Listener.tla does not violate HistoryIndependence")
    cases = ctx.emitted(res[2]["out"])
    pairs = ctx.emitted(res[3]["out"])
    if len(cases) < 30000 or len(pairs) < 300 or {c["fam"] for c in cases} != {"44", "46", "64", "66"}:
        raise vlib.Inconclusive("case generator produced only %d cases / %d pair cases" % (len(cases), len(pairs)))
    # vacuity self-check on the circumstances of arrival (judged on what the
    # SPECIFICATION generated): every listener configuration x store class must
    # come with requests the model answers and with datagrams it drops, on both
    # transports; the classes must mean what this check reports about them
    stores = STORES_Q if q else STORES_T
    envgen = {}
    for c in cases:
        e = envgen.setdefault((c["conf"], c["store"]), {"ip": [0, 0], "scion": [0, 0]})
        e[c["tp"]][0 if c["exp"] else 1] += 1
    for conf in ("sw", "hw"):
        for st in ["asis"] + stores:
            e = envgen.get((conf, st))
            if not e or min(e["ip"] + e["scion"]) < 4:
                raise vlib.Inconclusive("generated cases do not exercise listener=%s store=%s on both transports with "
                                        "answered and dropped datagrams: %s" % (conf, st, e))
    if set(st for _, st in envgen) != set(["asis"] + stores):
        raise vlib.Inconclusive("unexpected store classes generated: %s" % sorted(set(st for _, st in envgen)))
    clsdef = {c["store"]: c["cls"] for c in cases}
    if (clsdef["full_stuck"] != {"k": 0, "il": False, "full": True, "fill": "fresh"}
            or clsdef["full_evict"] != {"k": 0, "il": False, "full": True, "fill": "old"}
            or clsdef["il8"] != {"k": 8, "il": True, "full": False, "fill": "none"}
            or any(c["anc"] != ("none" if c["conf"] == "hw" else "ts") for c in cases)
            or not any(c["org"] == "rx" for c in cases)):
        raise vlib.Inconclusive("store classes / ancillary data of the generated cases are not what Listener.tla defines")
    n_env = sum(1 for c in cases if c["store"] != "asis" or c["conf"] != "sw")
    n_store = sum(1 for c in cases if c["store"] != "asis")
    n_hw = sum(1 for c in cases if c["conf"] == "hw")
    # vacuity self-check: every stage of the pipeline at which the model drops a
    # datagram, and acceptance, must occur among the generated cases on both transports
    stages = {"none", "ntp.DecodePacket", "nts.DecodePacket:errNoUniqueID", "nts.DecodePacket:errNoAuthenticator",
              "nts.DecodePacket:errUnexpectedExtHdrLength", "nts.DecodePacket:errShortUniqueID",
              "EncryptedServerCookie.Decode", "FirstCookie", "provider.Get", "EncryptedServerCookie.Decrypt", "nts.ProcessRequest", "ntp.ValidateRequest"}
    for tp in ("ip", "scion"):
        seen = {c["drop"] for c in cases if c["tp"] == tp}
        if seen != stages:
            raise vlib.Inconclusive("generated %s cases do not exercise the stages %s" % (tp, sorted(stages ^ seen)))
    # vacuity self-check on the sender's source port (SPEC side): every class other
    # than "eph" must come, on both transports, with each of the 8 valid first bytes
    # as a 48-byte request and as a valid NTS request (answered by the model), with
    # datagrams the model drops, and from the endpoint the class means
    VALID_B0 = {8, 19, 27, 35, 200, 211, 219, 227}
    portgen = {}
    for c in cases:
        if c["sp"] != "eph":
            e = portgen.setdefault((c["sp"], c["tp"]), {"ans48": set(), "ansnts": set(), "dropped": 0, "n": 0, "p": set()})
            e["n"] += 1
            e["p"].add(c["src"]["p"] if c["tp"] == "ip" else c["sc"]["sp"])
            if c["exp"]:
                e["ans48" if c["len"] == 48 else "ansnts"].add(c["b0"])
            else:
                e["dropped"] += 1
    for sp in PORTS:
        for tp in ("ip", "scion"):
            e = portgen.get((sp, tp))
            meant = {"lport": {"ip": "ntp", "scion": "sntp"}[tp]}.get(sp, sp)
            if not e or e["ans48"] != VALID_B0 or e["ansnts"] != VALID_B0 or e["dropped"] < 200 or e["p"] != {meant}:
                raise vlib.Inconclusive("generated cases do not exercise source port class %s over %s with every valid first "
                                        "byte (48 bytes and NTS) and with dropped datagrams: %s" % (sp, tp, e))
    if set(sp for sp, _ in portgen) != set(PORTS) or any(c["src"]["p"] != "eph" for c in cases if c["sp"] == "eph"):
        raise vlib.Inconclusive("unexpected source port classes generated: %s" % sorted(set(sp for sp, _ in portgen)))
    n_port = sum(e["n"] for e in portgen.values())
    cp, pp = ctx.path("cases.ndjson"), ctx.path("pairs.ndjson")
    vlib.write_ndjson(cp, cases)
    vlib.write_ndjson(pp, pairs)

    # 3: the real listeners
    trace, out = ctx.godriver("c09", "TestC09", cases=cp, env={"VERIF_PAIRS": pp}, timeout=900)
    recs = vlib.read_ndjson(trace)
    ncase = sum(1 for r in recs if r["k"] == "case")
    npair = sum(1 for r in recs if r["k"] == "pair")
    stage_recs = [r for r in recs if r["k"] == "stage"]
    obs = [r for r in recs if r["k"] != "stage"]
    ctx.log("driver: %d case records (%d cases), %d pair records (%d pair cases)" % (ncase, len(cases), npair, len(pairs)))
    if not recs:
        raise vlib.Inconclusive("driver recorded nothing:\n" + out[-2000:])
    anc_recs = [r for r in recs if r["k"] == "anc"]
    port_recs = {r["stage"]: r for r in recs if r["k"] == "port"}
    obs = [r for r in obs if r["k"] not in ("anc", "port")]
    retried = sum(1 for r in recs if r["k"] == "case" and r["tries"] > 1)
    if retried:
        ctx.notes.append("%d cases needed more than one attempt (sentinel reply not seen within 2 s)" % retried)
    kind = os.environ.get("VERIF_C09_CORRUPT")
    if kind:
        _corrupt(recs, kind)
        ctx.notes.append("trace corrupted on purpose: " + kind)
    # the driver stops early only after recording why: sentinels that were not
    # answered (cases) or run-away traffic between the two servers (pairs)
    complete = all(r["sn"] == 1 for r in recs if r["k"] == "case")
    calm = all(r["arecv"] + r["brecv"] <= 2 for r in recs if r["k"] == "pair")
    reps = 1 if q else 2
    # + preflight requests; cases whose source port could not be bound here are
    # unobserved (counted by the driver, never judged)
    n_unbound = sum(r["unbound"] for r in port_recs.values())
    want = reps * (len(cases) - n_store) + n_store + 4 - n_unbound
    if (complete and ncase < want) or (complete and calm and npair < len(pairs)):
        raise vlib.Inconclusive("driver stopped early without an observation that explains it (%d/%d, %d/%d)"
                                % (ncase, want, npair, len(pairs)))
    # the circumstances on the implementation side: did the driver bring them about?
    envobs = {}
    for r in recs:
        if r["k"] == "case" and r["obs"]:
            e = envobs.setdefault((r["conf"], r["store"]), [0, 0, 0])
            e[0] += 1
            e[1] += r["pre"] == {k: clsdef[r["store"]][k] for k in ("k", "full", "fill")}
            e[2] += r["post_k"] >= 0
    hw_anc = [r for r in anc_recs if r["conf"] == "hw"]
    sw_anc = [r for r in anc_recs if r["conf"] == "sw"]
    if complete:
        for conf in ("sw", "hw"):
            for st in stores:
                e = envobs.get((conf, st), [0, 0, 0])
                if e[1] == 0:
                    raise vlib.Inconclusive("the driver could not put the timestamp store into class %s (listener=%s): "
                                            "%d records, none inspected in that class" % (st, conf, e[0]))
        if not hw_anc or hw_anc[0]["logged"] == 0:
            raise vlib.Inconclusive("the listeners started with an interface name never missed a receive timestamp here: "
                                    "the ancillary-data class 'none' was not exercised (%s)" % hw_anc)
    if sw_anc and sw_anc[0]["logged"]:
        ctx.notes.append("the kernel omitted the receive timestamp of %d of %d datagrams sent to the listeners started "
                         "without an interface name" % (sw_anc[0]["logged"], sw_anc[0]["sent"]))
    # the sender's source port on the implementation side: which classes could be bound
    if complete and set(port_recs) != set(PORTS):
        raise vlib.Inconclusive("the driver did not report on the source port classes %s" % sorted(set(PORTS) ^ set(port_recs)))
    port_obs = {}
    for r in recs:
        if r["k"] == "case" and r.get("sp", "eph") != "eph":
            port_obs[r["sp"]] = port_obs.get(r["sp"], 0) + 1
    for sp, pr in sorted(port_recs.items()):
        if pr["unbound"]:
            ctx.notes.append("source port class %s: %d of %d generated cases UNOBSERVED, the port could not be bound here (%s)"
                             % (sp, pr["unbound"], pr["predicted"], pr["why"]))
        if pr["logged"] != port_obs.get(sp, 0):
            raise vlib.Inconclusive("source port class %s: the driver reports %d records, the trace has %d"
                                    % (sp, pr["logged"], port_obs.get(sp, 0)))
    unobs = sum(e[0] - e[2] for e in envobs.values())
    if unobs:
        ctx.notes.append("%d store-class records without post-state (updateTXTimestamp not seen within 100 ms)" % unobs)
    ctx.log("circumstances: %d generated cases with a store class, %d addressed to listeners started with an interface name; "
            "%d records inspected in their class" % (n_store, n_hw, sum(e[1] for e in envobs.values())))

    # 4: monitor decides; strict reports drift. A violation ends a TLC run, so the
    # records with the same structural signature are set aside and the rest is
    # validated again (a few rounds: enough to name the distinct ways it fails).
    # the trace module reads "trace.ndjson"; the two validations use separate
    # spec directories so that they can run side by side
    def mon_and_strict(rs):
        sd = ctx.path("spec_strict")
        if not os.path.isdir(sd):
            import shutil
            shutil.copytree(ctx.specdir(), sd)
        pm = ctx.path("mon.ndjson")
        vlib.write_ndjson(pm, rs)
        # common case: one run with the monitor's and the strict invariants together;
        # only if that fails are they run separately to tell VIOLATION from DRIFT
        a = ctx.validate("ListenerTrace", "ListenerTrace_all.cfg", pm, timeout=900, workers=6)
        if a[0]:
            return a, a

        def strict():
            # same machinery as ctx.validate, in the second directory
            c2 = _Sub(ctx, sd)
            return c2.validate("ListenerTrace", "ListenerTrace_strict.cfg", pm, timeout=900, workers=4)
        return _par([lambda: ctx.validate("ListenerTrace", "ListenerTrace_mon.cfg", pm, timeout=900, workers=4),
                     strict])

    cur = recs
    nval = 0
    drift_done = False
    for rnd in range(3):
        (ok, l, inv, tout), (sok, sl, sinv, sout) = mon_and_strict(cur)
        if not sok and not drift_done:
            bad = cur[sl - 1] if sl else None
            ctx.drift.append("%s: record differs from Listener.tla's prediction: %s" % (sinv, _brief(bad)))
            drift_done = True
        if ok:
            nval = len(cur)
            break
        if l is None:
            raise vlib.Inconclusive("monitor failed without a trace position:\n" + tout[-1500:])
        bad = cur[l - 1]
        sig = _sig(inv, bad)
        ctx.violation(sig, "real listener violates %s: %s" % (inv, _brief(bad)), bad)
        ctx.log("monitor: %s" % sig)
        cur = [r for r in cur if _sig(inv, r) != sig]
    valid = [r for r in recs if r["k"] == "case" and r["n"] > 0]
    ctx.cov.update(
        evaluations=len(recs),
        distinct_nontrivial=len({(r["k"], r["tp"], r["b0"], r["len"], r["tr"], r["pk"], r.get("fam", ""), r["src"]["h"],
                                  r.get("conf", ""), r.get("store", ""), r["src"]["p"]) for r in obs}),
        rule="every first payload byte 0..255 x {0,1,47,48,49,75,76,1024,2048 and each trailer class's natural length} "
             "x 18 trailer classes (none, <28 bytes, unknown fields, uid only, no uid, no cookie, valid NTS, valid NTS with "
             "placeholders, bad tag, wrong key, altered header, unknown cookie key, altered cookie, data after authenticator, "
             "field length < 4, short uid, undecodable cookie, nonce length != 16) x {IP, SCION} (TLC-enumerated from "
             "Listener.tla; other bytes random per seed); SCION: path kinds {empty, 1, 2, 2 mid-path, 3 segments} x host "
             "address types {v4>v4, v6>v6, v4>v6, v6>v4} (%s); each case is followed on the same socket by a well-formed "
             "48- or 252-byte request (two-datagram history per record); plus forged-source datagrams between two servers "
             "(%s first bytes x 3 shapes x {IP, SCION} x 2 directions); "
             "circumstances of arrival: listener started without / with an interface name (receive-timestamp control "
             "message present / absent, transmit timestamp read / lost) x store class {left as is, %s} (client unknown, "
             "known with k exchanges, request referring to an exchange on record, 2^20 items with the oldest evictable / "
             "not evictable / client known) x %s first bytes x {47, 48, valid NTS 252, unauthentic NTS 252} x {IP, SCION}%s; "
             "sender's source port: ephemeral (everything above) and {123, another privileged port (per seed), the "
             "addressed listener's port number on the sender's own address} x all 256 first bytes x {47, 48, valid NTS 252, "
             "unauthentic NTS 252} x {IP, SCION (underlay and SCION/UDP source port)}; "
             "distinct = distinct (kind, transport, first byte, length, trailer class, path kind, address types, source "
             "host, listener configuration, store class, source port)"
             % ("non-empty paths and non-v4 hosts with 27 key first bytes" if q else "non-v4 hosts with 27 key first bytes",
                "27 key" if q else "all 256", ", ".join(stores), "12 key" if q else "27 key",
                "" if q else "; listener started with an interface name x all 256 first bytes"),
        traces_validated_against_impl=nval, exhaustive=True,
        replies_observed=len(valid),
        records_per_predicted_stage={st: sum(1 for r in obs if r["drop"] == st) for st in sorted(stages)},
        stage_log_counts={r["stage"] + ("" if r["conf"] == "sw" else " listener=" + r["conf"]): [r["logged"], r["predicted"]]
                          for r in stage_recs},
        generated_cases_per_listener_and_store={
            "%s/%s" % k: {"answered_by_model": v["ip"][0] + v["scion"][0], "dropped_by_model": v["ip"][1] + v["scion"][1]}
            for k, v in sorted(envgen.items())},
        records_in_store_class={"%s/%s" % k: {"records": v[0], "inspected_in_class": v[1], "post_state_seen": v[2]}
                                for k, v in sorted(envobs.items())},
        no_rx_timestamp_logged={r["conf"]: [r["logged"], r["sent"]] for r in anc_recs},
        generated_cases_per_source_port={"%s/%s" % k: {"cases": v["n"], "answered_by_model": len(v["ans48"]) + len(v["ansnts"]),
                                                       "dropped_by_model": v["dropped"]} for k, v in sorted(portgen.items())},
        records_per_source_port={sp: {"records": pr["logged"], "generated": pr["predicted"], "unbound": pr["unbound"],
                                      "port": pr["port"]} for sp, pr in sorted(port_recs.items())},
        samples=[_brief(r) for r in (valid[:2] + [r for r in recs if r["k"] == "pair"][:2] + obs[-1:])])
    ctx.notes.append(
        "circumstances of arrival (spec side): Listener.tla generated %d cases beyond the plain circumstances: %d with a "
        "store class (%d classes x 2 listener configurations; %d of them with a full store, %d requests referring to an "
        "exchange on record) and %d addressed to listeners started with an interface name; the model answers %d of them. "
        "Implementation side: %d records were inspected in their class before the case, %d of %d datagrams reached the "
        "interface-name listeners without a receive timestamp."
        % (n_env, n_store, len(stores), sum(1 for c in cases if c["cls"]["full"] and c["store"] != "asis"),
           sum(1 for c in cases if c["il"]), n_hw, sum(c["exp"] for c in cases if c["store"] != "asis" or c["conf"] != "sw"),
           sum(e[1] for e in envobs.values()), hw_anc[0]["logged"] if hw_anc else 0, hw_anc[0]["sent"] if hw_anc else 0))
    ctx.notes.append(
        "sender's source port (spec side): Listener.tla generated %d cases sent from a port other than an ephemeral one "
        "(%s; each class x 256 first bytes x 4 shapes x {IP, SCION}); the model answers %d of them (8 valid first bytes x "
        "{48 bytes, valid NTS} per class and transport). Implementation side: %d records (%s), %d cases unobserved because "
        "the port could not be bound."
        % (n_port, ", ".join("%s %d" % (sp, sum(e["n"] for k, e in portgen.items() if k[0] == sp)) for sp in PORTS),
           sum(c["exp"] for c in cases if c["sp"] != "eph"), sum(port_obs.values()),
           ", ".join("%s port %s: %d" % (sp, pr["port"] or "of the listener", pr["logged"]) for sp, pr in sorted(port_recs.items())),
           n_unbound))
    ctx.assumptions += [
        "source port classes: 123 and one other privileged port per seed (200 + 37*seed mod 800) need CAP_NET_BIND_SERVICE; "
        "the sending workers of these cases are hosts of their own (one loopback address each) so that the same port can be "
        "bound by all of them; over SCION the underlay source port and the SCION/UDP source port are the same port (an end "
        "host's socket); a listener that itself runs on port 123 with a sender on port 123 of another address is the class "
        "'lport' with the harness's listener ports (the listeners here run on free ports)",
        "listener configuration 'hw' is brought about by starting the listeners with the loopback interface's name "
        "(localHost.Zone): hardware timestamping on an interface without hardware clock; a sporadically missing "
        "timestamp on a listener started without an interface name is explored by TLC but cannot be forced on the "
        "real socket; truncated control data cannot occur (oob holds udp.TimestampLen() bytes and the timestamp is the "
        "only control message the listener's socket options enable)",
        "a store class is brought about through the `verif` hooks of core/server (VerifHandleRequest / "
        "VerifUpdateTXTimestamp / VerifRemove; 2^20 filler clients with receive times one hour ahead, one filler one "
        "hour back for the evictable class) immediately before each attempt and verified by inspection under the "
        "store's lock; classes that need a full store run on one worker",
        "a datagram counts as the listener's answer to a case iff it reaches the sending socket before the reply to the "
        "sentinel request sent from the same socket right after the case (same 4-tuple => same SO_REUSEPORT listener, FIFO on loopback)",
        "the abstraction is complete for the decisions of the pinned pipeline: bytes that no stage looks at are random per seed",
        "since the decoder fixes in /repo the trailer classes include extension fields with Length < 4, short unique "
        "identifiers, undecodable cookies and nonce lengths != 16 (clean rejections; on older trees they kill the listener "
        "and the check reports INCONCLUSIVE)",
        "SPAO-authenticated SCION requests, SCMP and the forwarding branch of the SCION loop are out of scope (C13)",
        "datagrams with bytes after the NTS authenticator are recorded but not judged (the statement is silent on them)",
        "pair experiment: 'total datagrams ever sent' is read from the servers' own received-packet counters after the "
        "counters have been quiet for 6 ms"]


def _brief(r):
    if r is None:
        return "?"
    if r["k"] in ("stage", "anc", "port"):
        return r
    if r["k"] == "pair":
        return {k: r[k] for k in ("k", "tp", "b0", "len", "tr", "src", "dst", "arecv", "brecv", "asrv", "bsrv", "exp")}
    d = {k: r[k] for k in ("k", "id", "tp", "b0", "len", "tr", "pk", "src", "n", "slen", "sn", "tries", "exp", "drop", "conf", "store")}
    if r["obs"]:
        d.update(pre=r["pre"], post_k=r["post_k"], il=r["il"])
    d["out"] = [{k: o[k] for k in ("b0", "st", "len", "src", "echo", "org", "raw_ok")} for o in r["out"]]
    if r["tp"] == "scion":
        d["sc"] = r["sc"]
        for i, o in enumerate(r["out"]):
            d["out"][i]["sc"] = o["sc"]
    return d


class _Sub:
    """ctx.validate against a second copy of the spec directory (vlib's Ctx
    always uses <scratch>/spec; two TLC runs reading different trace.ndjson
    files must not share it)."""

    def __init__(self, ctx, d):
        self.ctx, self.d = ctx, d

    def validate(self, module, cfg, trace_path, timeout=900, workers=4):
        import shutil, subprocess, tempfile, time, re
        shutil.copy(trace_path, os.path.join(self.d, "trace.ndjson"))
        meta = tempfile.mkdtemp(prefix="meta-", dir=self.ctx.scratch)
        cmd = ["timeout", str(timeout), "java", "-XX:+UseSerialGC", "-Xmx6g", "-Xss64m", "-Djava.io.tmpdir=" + meta, "-cp",
               "/opt/veriftools/tla/tla2tools.jar:/opt/veriftools/tla/CommunityModules-deps.jar",
               "tlc2.TLC", "-metadir", meta, "-config", cfg, "-noGenerateSpecTE", "-workers", str(workers),
               "-deadlock", module]
        t = time.time()
        p = subprocess.run(cmd, cwd=self.d, stdout=subprocess.PIPE, stderr=subprocess.STDOUT, text=True, errors="replace")
        shutil.rmtree(meta, ignore_errors=True)
        out = p.stdout
        if p.returncode == 124:
            raise vlib.Inconclusive("TLC timeout on %s/%s" % (module, cfg))
        m = re.findall(r"(\d+) states generated, (\d+) distinct states found", out)
        self.ctx.tlc_runs.append(dict(module=module, cfg=cfg, generated=int(m[-1][0]) if m else 0,
                                      distinct=int(m[-1][1]) if m else 0, wall_s=round(time.time() - t, 2),
                                      tag="trace:" + cfg))
        mv = re.search(r"Invariant (\S+) is violated", out)
        if mv:
            return False, self.ctx.trace_state_l(out), mv.group(1), out
        if p.returncode == 0 and "Model checking completed. No error has been found" in out:
            return True, None, None, out
        raise vlib.Inconclusive("TLC failed on %s/%s (rc=%s):\n%s" % (module, cfg, p.returncode, "\n".join(out.splitlines()[-40:])))
