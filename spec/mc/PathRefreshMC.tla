--------------------------- MODULE PathRefreshMC ---------------------------
(***************************************************************************)
(* Model-checking wrapper for PathRefresh.tla (X02).                       *)
(*   SpecExh : the specification as is; property section decided.          *)
(*   SpecGen : the same transition relation with the sequence of events in *)
(*             `hist` (exhaustive at bounded length / `-simulate`); the    *)
(*             driver replays the clock steps and the callers' calls on    *)
(*             the real Pather and hands the update scripts, in order, to  *)
(*             the scripted daemon.  The generator never lets a daemon     *)
(*             call return exactly on a tick (the order of two timers that *)
(*             fire at one instant is not determined).                     *)
(***************************************************************************)
EXTENDS PathRefresh, Json

CONSTANTS GenLen
VARIABLES evs, pick
allvars == <<now, dstList, phase, pc, wake, cur, nextTick, tickBuf, localIA, paths, nupd, t0, ret,
             allow, keep, effIA, lastStart, lastEnd, evs, pick>>

MCInit == Init /\ evs = << >> /\ pick = 0
SpecExh == MCInit /\ [][Next /\ UNCHANGED <<evs, pick>>]_allvars

APathsFromLastRefresh == [][PathsFromLastRefresh']_allvars
ALocalIACurrent       == [][LocalIACurrent']_allvars
ANotTooRare           == [][NotTooRare']_allvars
ACountBound           == [][CountBound']_allvars

Ev(op, d, s) == [op |-> op, ph |-> phase, d |-> d, t |-> now', dst |-> ret'.dst, ids |-> ret'.ids,
                 ia |-> ret'.ia, u |-> ret'.u, s |-> s]
OffGrid(s) == (phase = "run" /\ s.d > 0) => (now + s.d - t0) % P # 0
GenStep ==
  \/ \E d \in 1 .. Horizon : Advance(d) /\ evs' = Append(evs, Ev("adv", d, NoScript))
  \/ \E s \in Scripts(dstList) : OffGrid(s) /\ BeginUpdate(s) /\ evs' = Append(evs, Ev("upd", 0, s))
  \/ Wake(FALSE) /\ evs' = Append(evs, Ev("wake", 0, NoScript))
  \/ \E dst \in Dsts : Get(dst) /\ evs' = Append(evs, Ev("get", 0, NoScript))
  \/ GetIA /\ evs' = Append(evs, Ev("ia", 0, NoScript))
GenNext == Len(evs) < GenLen /\ GenStep
SpecGen == MCInit /\ [][GenNext /\ UNCHANGED pick]_allvars
Case == [kind |-> "pather", p |-> P, dl |-> dstList, h |-> evs]
LastIsCall == Len(evs) > 0 /\ evs[Len(evs)].op \in {"get", "ia"}
Emit == (Len(evs) = GenLen /\ LastIsCall) => PrintT(<<"CASE", ToJson(Case)>>)

SimDone == 99
SimNext ==
  \/ Len(evs) < GenLen /\ GenStep /\ pick' = 0
  \/ /\ Len(evs) = GenLen /\ pick # SimDone /\ pick' = SimDone
     /\ UNCHANGED <<now, dstList, phase, pc, wake, cur, nextTick, tickBuf, localIA, paths, nupd, t0, ret,
                    allow, keep, effIA, lastStart, lastEnd, evs>>
SpecSim == MCInit /\ [][SimNext]_allvars
EmitSim == pick = SimDone => PrintT(<<"CASE", ToJson(Case)>>)

\* ---- constant sets
DL12   == {<<1, 2>>}
DL1    == {<<1>>}
DL11   == {<<1, 1>>}
DL121  == {<<1, 2, 1>>}
DLAll  == {<<1>>, <<1, 2>>, <<1, 1>>, <<1, 2, 1>>}
DLNoDup == {<<1>>, <<1, 2>>}
DLDup == {<<1, 1>>, <<1, 2, 1>>}
Dsts12 == {1, 2}
Dsts123 == {1, 2, 3}
IA1 == {1}
IA12 == {1, 2}
D0 == {0}
D04 == {0, 4}
D024 == {0, 2, 4}
D027 == {0, 2, 7}
D0247 == {0, 1, 2, 4, 7}
=============================================================================
