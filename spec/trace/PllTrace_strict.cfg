SPECIFICATION TSpec
INVARIANTS StrictReport
