package x02

// Stand-alone reproduction of the two observations about scion.Pather
// (no TLC, no case file):
//
//	cd /verif/harness && go1.26 test -tags verif -vet=off -count=1 -v -run TestX02Repro \
//	    -overlay <overlay.json written by `bin/check X02 --keep` into its scratch dir> ./x02

import (
	"context"
	"testing"
	"testing/synctest"
	"time"

	"github.com/scionproto/scion/pkg/addr"
	"github.com/scionproto/scion/pkg/daemon"

	"example.com/scion-time/net/scion"
)

func TestX02Repro(t *testing.T) {
	// (1) two configured servers in one AS: timeservice.go passes the IA twice
	synctest.Test(t, func(t *testing.T) {
		d := &pathDaemon{start: time.Now(), dl: []int{1, 1}, quiet: true,
			scripts: []pscript{{Ia: 1, Per: []pper{{N: 2}, {N: 2}}}}}
		scion.VerifDaemonConnector = func(ctx context.Context, a string) daemon.Connector { return d }
		defer func() { scion.VerifDaemonConnector = nil }()
		p := scion.StartPather(context.Background(), quietLog(), "scripted", []addr.IA{dstIA[1], dstIA[1]})
		ids, _ := idsOf(p.Paths(dstIA[1]))
		t.Logf("dstIAs=[A A], the daemon delivers 2 paths per lookup: Paths(A) returns %d paths %v", len(ids), ids)
		d.shutdown()
	})
	// (2) one failed path lookup drops the paths of the previous refresh
	synctest.Test(t, func(t *testing.T) {
		d := &pathDaemon{start: time.Now(), dl: []int{1}, quiet: true,
			scripts: []pscript{{Ia: 1, Per: []pper{{N: 2}}}, {Ia: 1, Per: []pper{{Fail: true}}}, {Lfail: true, Per: []pper{{}}}}}
		scion.VerifDaemonConnector = func(ctx context.Context, a string) daemon.Connector { return d }
		defer func() { scion.VerifDaemonConnector = nil }()
		p := scion.StartPather(context.Background(), quietLog(), "scripted", []addr.IA{dstIA[1]})
		ids, _ := idsOf(p.Paths(dstIA[1]))
		t.Logf("t=0s  after the first refresh:                    Paths(A) = %v", ids)
		time.Sleep(16 * time.Second)
		synctest.Wait()
		ids, _ = idsOf(p.Paths(dstIA[1]))
		t.Logf("t=16s after a refresh whose path lookup failed:   Paths(A) = %v", ids)
		d.shutdown()
	})
}
