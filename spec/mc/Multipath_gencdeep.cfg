SPECIFICATION Spec
CONSTANTS
  MaxClients = 3
  MaxPaths = 3
  ThetaVecs <- Theta3
  AllCompletions = TRUE
  FW = 8
  MaxRounds = 1
  MaxRefresh = 1
  PrivateSlice = TRUE
  KeepHist = FALSE
  CheckRand = FALSE
  RandWMax = 4
  CheckUnif = FALSE
  UnifNMax = 0
INVARIANTS Emit TypeOK TableIntact Distinct StickyKept ElseResetWithFilter Participants LaunchedAreParticipants OneValuePerParticipant NoPathError ResetExactlyNonSticky
