----------------------------- MODULE DrkeyCache -----------------------------
(***************************************************************************)
(* The DRKey fetcher / cache of net/scion/fetcher.go (+ drkey.go)          *)
(*   Fetcher{dc, haks map[addr.IA]drkey.HostASKey}, NewFetcher,            *)
(*   Fetcher.FetchHostASKey, Fetcher.FetchHostHostKey, useMockKeys.   *)
(* Extension X02 of the specification (no listed property).                *)
(*                                                                         *)
(* What the code does:                                                     *)
(*   - one cache slot per *destination IA* (meta.DstIA) for host-AS keys;  *)
(*     the slot is replaced iff it is empty, its epoch does not contain    *)
(*     the requested validity instant (cppki.Validity.Contains: inclusive  *)
(*     at both ends), or ProtoId / SrcIA / DstIA / SrcHost differ;         *)
(*   - a replacement asks the daemon once (DRKeyGetHostASKey); on error    *)
(*     the daemon's (zero) key and the error are returned and the slot is  *)
(*     left as it was; on success the key is stored under *its own* DstIA; *)
(*   - host-host keys are never cached: one daemon call per request;       *)
(*   - USE_MOCK_KEYS=true: no daemon call at all, the key is synthesised   *)
(*     with epoch [now-6h, now+6h] and an all-zero key value.              *)
(* The type has no lock.  The server creates one Fetcher per goroutine;    *)
(* the client side shares one Fetcher between all SCION clients but only   *)
(* calls FetchHostHostKey, which touches no Fetcher state.                 *)
(*                                                                         *)
(* Time is in model units; validity instants and epochs are absolute       *)
(* instants of the same scale; `now` is only read in mock mode.            *)
(***************************************************************************)
EXTENDS Integers, FiniteSets, TLC

CONSTANTS Metas,      \* host-AS metadata callers may present: [proto, src, dst, host]
          DHosts,     \* destination hosts of host-host requests
          Vals,       \* validity instants callers may ask for
          E,          \* epoch length at the daemon: epoch k = [k*E, (k+1)*E]
          NEpochs,    \* the daemon knows epochs 0 .. NEpochs-1
          MockModes,  \* subset of BOOLEAN: values of USE_MOCK_KEYS considered
          H6,         \* 6 h (half length of a mock epoch)
          Gaps,       \* clock steps (mock mode only; the cache never reads the clock otherwise)
          Horizon,    \* the clock is not advanced beyond this instant
          MaxCalls    \* bound on the number of daemon calls (model checking only)

VARIABLES
  mock,    \* useMockKeys (fixed at process start)
  now,     \* time.Now()
  haks,    \* Fetcher.haks: slot (an IA) |-> key
  calls,   \* number of calls the daemon has received so far (serial of the last one)
  ret,     \* what the last call returned, and what the daemon saw meanwhile
  last     \* history: dst |-> key of the latest successful FetchHostASKey return for dst

impl == <<mock, now, haks, calls>>
vars == <<mock, now, haks, calls, ret, last>>

Fail    == 0 - 1      \* scripted daemon reply: error
NoReply == 0 - 2      \* the daemon is not asked

ZeroKey == [proto |-> 0, src |-> 0, dst |-> 0, host |-> 0, dhost |-> 0, nb |-> 0, na |-> 0, ser |-> 0]

\* drkey.Epoch.Contains = cppki.Validity.Contains: !t.Before(NotBefore) && !t.After(NotAfter)
Contains(k, t) == ~(t < k.nb) /\ ~(t > k.na)

Put(f, i, x) == [j \in DOMAIN f \cup {i} |-> IF j = i THEN x ELSE f[j]]

\* the (honest) daemon: a key for exactly the requested metadata whose epoch
\* contains the requested instant.  Adjacent epochs share their boundary
\* instant, so at a boundary either may be served.  ser identifies the call.
EpochsFor(v) == {k \in 0 .. NEpochs - 1 : k * E <= v /\ v <= (k + 1) * E}
Replies(v)   == {Fail} \cup EpochsFor(v)
AllReplies   == {Fail, NoReply} \cup (0 .. NEpochs - 1)
DaemonKey(m, dh, k, ser) ==
  [proto |-> m.proto, src |-> m.src, dst |-> m.dst, host |-> m.host, dhost |-> dh,
   nb |-> k * E, na |-> (k + 1) * E, ser |-> ser]
\* USE_MOCK_KEYS: epoch now -+ 6 h, Key left zero
MockKey(m, dh) ==
  [proto |-> m.proto, src |-> m.src, dst |-> m.dst, host |-> m.host, dhost |-> dh,
   nb |-> now - H6, na |-> now + H6, ser |-> 0]

\* caller-side history: the key last handed out for m.dst is still applicable
HistHit(m, v) ==
  /\ m.dst \in DOMAIN last
  /\ LET k == last[m.dst] IN
       k.proto = m.proto /\ k.src = m.src /\ k.host = m.host /\ k.nb <= v /\ v <= k.na
HistKey(m) == IF m.dst \in DOMAIN last THEN last[m.dst] ELSE ZeroKey

RetOf(op, m, dh, v, err, k, ncalls, nfail, rp, hit, hk) ==
  [op |-> op, proto |-> m.proto, src |-> m.src, dst |-> m.dst, host |-> m.host, dhost |-> dh,
   v |-> v, t |-> now, err |-> err,
   kproto |-> k.proto, ksrc |-> k.src, kdst |-> k.dst, khost |-> k.host, kdhost |-> k.dhost,
   nb |-> k.nb, na |-> k.na, ser |-> k.ser,
   ncalls |-> ncalls,                         \* daemon calls made during this call
   nfail |-> nfail,                           \* ... of which failed
   cser |-> IF ncalls > 0 THEN calls + ncalls ELSE 0,   \* serial of the last of them
   rp |-> rp,
   hit |-> hit, hnb |-> hk.nb, hna |-> hk.na, hser |-> hk.ser]
NoRet == RetOf("none", [proto |-> 0, src |-> 0, dst |-> 0, host |-> 0], 0, 0, FALSE, ZeroKey, 0, 0, NoReply, FALSE, ZeroKey)
KeyOfRet(r) == [proto |-> r.kproto, src |-> r.ksrc, dst |-> r.kdst, host |-> r.khost, dhost |-> r.kdhost,
                nb |-> r.nb, na |-> r.na, ser |-> r.ser]

(***************************************************************************)
(* Actions                                                                 *)
(***************************************************************************)
Init ==
  /\ mock \in MockModes
  /\ now = 0
  /\ haks = << >>          \* NewFetcher: empty map
  /\ calls = 0
  /\ ret = NoRet
  /\ last = << >>

Advance(d) ==
  /\ d > 0 /\ now + d <= Horizon
  /\ now' = now + d
  /\ ret' = NoRet
  /\ UNCHANGED <<mock, haks, calls, last>>

\* Fetcher.FetchHostASKey(ctx, meta) with meta.Validity = v; rp is what the
\* daemon answers if it is asked
HostAS(m, v, rp) ==
  LET ok      == m.dst \in DOMAIN haks
      hak     == IF ok THEN haks[m.dst] ELSE ZeroKey
      expired == ok /\ ~Contains(hak, v)
      need    == ~ok \/ expired \/ hak.proto # m.proto \/ hak.src # m.src
                 \/ hak.dst # m.dst \/ hak.host # m.host
      hit     == HistHit(m, v)
      hk      == HistKey(m)
  IN
  /\ rp \in (IF need /\ ~mock THEN Replies(v) ELSE {NoReply})
  /\ calls < MaxCalls
  /\ IF ~need
     THEN /\ UNCHANGED <<haks, calls>>
          /\ ret' = RetOf("has", m, 0, v, FALSE, hak, 0, 0, rp, hit, hk)
     ELSE IF mock
     THEN LET k == MockKey(m, 0) IN
          /\ haks' = Put(haks, k.dst, k)
          /\ UNCHANGED calls
          /\ ret' = RetOf("has", m, 0, v, FALSE, k, 0, 0, rp, hit, hk)
     ELSE IF rp = Fail
     THEN /\ calls' = calls + 1
          /\ UNCHANGED haks                       \* err != nil: nothing stored
          /\ ret' = RetOf("has", m, 0, v, TRUE, ZeroKey, 1, 1, rp, hit, hk)   \* hak overwritten by the daemon's zero value
     ELSE LET k == DaemonKey(m, 0, rp, calls + 1) IN
          /\ calls' = calls + 1
          /\ haks' = Put(haks, k.dst, k)          \* f.haks[hak.DstIA] = hak
          /\ ret' = RetOf("has", m, 0, v, FALSE, k, 1, 0, rp, hit, hk)
  /\ last' = IF ret'.err THEN last ELSE Put(last, m.dst, KeyOfRet(ret'))
  /\ UNCHANGED <<mock, now>>

\* Fetcher.FetchHostHostKey: no cache
HostHost(m, dh, v, rp) ==
  /\ rp \in (IF mock THEN {NoReply} ELSE Replies(v))
  /\ calls < MaxCalls
  /\ IF mock
     THEN /\ UNCHANGED calls
          /\ ret' = RetOf("hh", m, dh, v, FALSE, MockKey(m, dh), 0, 0, rp, FALSE, ZeroKey)
     ELSE IF rp = Fail
     THEN /\ calls' = calls + 1
          /\ ret' = RetOf("hh", m, dh, v, TRUE, ZeroKey, 1, 1, rp, FALSE, ZeroKey)
     ELSE /\ calls' = calls + 1
          /\ ret' = RetOf("hh", m, dh, v, FALSE, DaemonKey(m, dh, rp, calls + 1), 1, 0, rp, FALSE, ZeroKey)
  /\ UNCHANGED <<mock, now, haks, last>>

Next ==
  \/ \E d \in Gaps : Advance(d)
  \/ \E m \in Metas, v \in Vals, rp \in AllReplies : HostAS(m, v, rp)
  \/ \E m \in Metas, dh \in DHosts, v \in Vals, rp \in AllReplies : HostHost(m, dh, v, rp)

Spec == Init /\ [][Next]_vars

(***************************************************************************)
(* Implementation invariants (strict trace validation, model checking)     *)
(***************************************************************************)
TypeOK ==
  /\ mock \in BOOLEAN /\ now \in 0 .. Horizon /\ calls \in 0 .. MaxCalls
  /\ \A s \in DOMAIN haks : haks[s].dst = s /\ haks[s].nb < haks[s].na /\ haks[s].ser <= calls
\* with an honest daemon the cache holds exactly the keys last handed out
CacheIsLast == haks = last

(***************************************************************************)
(* Property section (X02 / DRKey).  Only what a caller and the daemon can  *)
(* observe: the request, the returned (key, error), the daemon calls made  *)
(* meanwhile (count, failures, serial) and the caller's own history `last` *)
(* (ret.hit / ret.h*: the key last returned for this destination is for    *)
(* the same protocol, source and host and its epoch contains the requested *)
(* instant).  Assumption: the daemon is honest (see DaemonKey).            *)
(***************************************************************************)
IsCall == ret.op \in {"has", "hh"}
\* a returned key is valid at the requested instant (mock keys are valid
\* around the wall clock only, whatever instant was asked for)
KeyValidAtRequest ==
  (IsCall /\ ~ret.err /\ (~mock \/ (ret.t - H6 <= ret.v /\ ret.v <= ret.t + H6))) =>
     (ret.nb <= ret.v /\ ret.v <= ret.na)
\* ... and belongs to the requested protocol, IAs and hosts
KeyForRequest ==
  (IsCall /\ ~ret.err) =>
     /\ ret.kproto = ret.proto /\ ret.ksrc = ret.src /\ ret.kdst = ret.dst
     /\ ret.khost = ret.host /\ ret.kdhost = ret.dhost
\* a cached host-AS key is reused, without asking the daemon, exactly while it
\* is valid for the requested instant and the metadata is unchanged ...
ReuseWhileValid ==
  (ret.op = "has" /\ ret.hit) =>
     /\ ret.ncalls = 0 /\ ~ret.err
     /\ ret.nb = ret.hnb /\ ret.na = ret.hna /\ ret.ser = ret.hser
\* ... otherwise exactly one refetch happens (none with mock keys), and the
\* key returned is the one just fetched
RefetchOnce ==
  (ret.op = "has" /\ ~ret.hit) =>
     /\ ret.ncalls = (IF mock THEN 0 ELSE 1)
     /\ (~ret.err /\ ~mock) => ret.ser = ret.cser
\* the daemon's error is returned (and only then is there an error) ...
ErrorReturned ==
  IsCall => (ret.err <=> (ret.ncalls > 0 /\ ret.nfail = ret.ncalls))
\* ... and no key - in particular no stale cached key - is returned in its place
NoKeyOnError ==
  (IsCall /\ ret.err) =>
     /\ ret.ser = 0 /\ ret.nb = 0 /\ ret.na = 0
     /\ ret.kproto = 0 /\ ret.ksrc = 0 /\ ret.kdst = 0 /\ ret.khost = 0 /\ ret.kdhost = 0
\* (an error is not cached: `last` is unchanged by a failed call, so RefetchOnce
\* obliges the next call for the same metadata to ask the daemon again)
\* USE_MOCK_KEYS: the daemon is never contacted, the epoch is now -+ 6 h when made
MockNoDaemon == (IsCall /\ mock) => (ret.ncalls = 0 /\ ~ret.err /\ ret.ser = 0)
MockEpoch    == (IsCall /\ mock /\ ~ret.hit) => (ret.nb = ret.t - H6 /\ ret.na = ret.t + H6)
\* host-host keys: at most one daemon call per request
HostHostOneCall == ret.op = "hh" => ret.ncalls <= 1
=============================================================================
