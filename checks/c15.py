"""C15 - multipath SCION measurement: distinct paths, sticky interleaved paths,
uniform selection of the rest, fault-tolerant midpoint over one value per
participant, error without paths.

spec/Multipath.tla <-> core/client/client.go MeasureClockOffsetSCION,
base/crypto/crypto.go Sample/RandIntn, and - for the rounds that draw from one
path table - net/scion/pather.go Pather.Paths/update as used by timeservice.go
ntpReferenceClockSCION.MeasureClockOffset (harness/c15).

The scripted daemon behind the Pather is injected with `go test -overlay`: the
overlay adds net/scion/hooks_verif_c15.go (harness/c15/overlay) and a copy of
daemon.go in which NewDaemonConnector is renamed; nothing under the repository
is touched."""
import itertools, json, math, os, random, re, threading
import vlib

U32 = 1 << 32
# the monitor clauses of spec/trace/MultipathTrace_mon.cfg
MON_INVARIANTS = ["RDistinct", "RStickyKept", "RElseReset", "RParticipants", "RFtm", "RNoPathError",
                  "RWordRange", "RUniformRounds", "RUniformSample"]


# the property-section invariants of spec/Multipath.tla
SPEC_PROPERTY = {"Distinct", "StickyKept", "ElseResetWithFilter", "Participants", "LaunchedAreParticipants",
                 "OneValuePerParticipant", "NoPathError"}


def overlay(ctx):
    repo = os.path.abspath(vlib.REPO)
    src = os.path.join(repo, "net", "scion", "daemon.go")
    try:
        text = open(src).read()
    except OSError as e:
        raise vlib.Inconclusive("cannot read %s: %s" % (src, e))
    if text.count("func NewDaemonConnector(") != 1:
        raise vlib.Inconclusive("net/scion/daemon.go: NewDaemonConnector not found exactly once; the overlay of "
                                "harness/c15 needs attention")
    renamed = ctx.path("daemon_c15.go")
    open(renamed, "w").write(text.replace("func NewDaemonConnector(", "func newDaemonConnectorOrig("))
    hook = os.path.join(vlib.HARNESS, "c15", "overlay", "hooks_verif_c15.go.txt")
    ov = ctx.path("overlay.json")
    json.dump({"Replace": {src: renamed, os.path.join(repo, "net", "scion", "hooks_verif_c15.go"): hook}}, open(ov, "w"))
    return ov


def mirror_drift(ctx):
    """harness/c15 repeats the two statements of ntpReferenceClockSCION.MeasureClockOffset
    (timeservice.go) that connect the Pather to MeasureClockOffsetSCION.  If that function no
    longer contains them the mirror may be stale: reported as DRIFT, never as a verdict."""
    try:
        text = open(os.path.join(os.path.abspath(vlib.REPO), "timeservice.go")).read()
    except OSError as e:
        ctx.drift.append("timeservice.go not readable (%s): the harness' copy of MeasureClockOffset is unchecked" % e)
        return
    m = re.search(r"func \(c \*ntpReferenceClockSCION\) MeasureClockOffset\(.*?\n}\n", text, re.S)
    body = re.sub(r"\s+", "", m.group(0)) if m else ""
    want = ["ps=c.pather.Paths(c.remoteAddr.IA)",
            "returnclient.MeasureClockOffsetSCION(ctx,c.log,c.ntpcs[:],c.localAddr,c.remoteAddr,ps)"]
    if not all(w in body for w in want):
        ctx.drift.append("timeservice.go ntpReferenceClockSCION.MeasureClockOffset no longer reads `ps = "
                         "c.pather.Paths(c.remoteAddr.IA)` / `return client.MeasureClockOffsetSCION(ctx, c.log, "
                         "c.ntpcs[:], c.localAddr, c.remoteAddr, ps)`: harness/c15 (runRound) mirrors these statements")


def lcm_upto(n):
    l = 1
    for i in range(2, n + 1):
        l = l * i // math.gcd(l, i)
    return l


def consuming(k, n):
    """moduli (i+1) of Sample's draws that read a word (RandIntn(1) reads none)"""
    return [i + 1 for i in range(k, n) if i + 1 >= 2]


def rng_of(v, k, n):
    """the RandIntn results Sample(k, n) obtains from word residues v"""
    r, it = [], iter(v)
    for i in range(k, n):
        r.append(0 if i + 1 < 2 else next(it) % (i + 1))
    return r


def cfg_key(c):
    return (c["nc"], tuple(c["offered"]), tuple(c["mode"]))


class Builder:
    def __init__(self, ctx):
        self.ctx = ctx
        self.rnd = random.Random(ctx.seed * 7919 + (0 if ctx.quick else 1))
        self.out = []
        self.gid = 0
        self.nid = 0
        self.nsid = 0
        self.ngroups = 0

    def v_for(self, rng, k, n, L):
        v = []
        for i, j in zip(range(k, n), rng):
            if i + 1 >= 2:
                v.append(j + (i + 1) * self.rnd.randrange(L // (i + 1)))
        return v

    def round(self, case, v, L, script=None, g=(0, 0, 0), exp_off=True, rej=None, emit=True, stale=False):
        nc = case["nc"]
        self.nid += 1
        if script is None:
            script = [dict(fail=0, rank=0) for _ in range(nc)]
        fk = [self.rnd.randrange(4) if m == 0 else 0 for m in case["mode"]]
        if rej is None:
            rej = [1 if self.rnd.random() < 0.1 else 0 for _ in v]
        r = dict(
            kind="round", id=self.nid, gid=g[0], gpos=g[1], glen=g[2], L=L, D=len(v), v=v, rej=rej,
            nc=nc, offered=case["offered"], mode=case["mode"], fresh_kind=fk, theta=case["theta"],
            script=script, exp_stale=stale,
            exp=dict(asg=case["asg"], resets=case["resets"], rng=case["rng"], err=case["err"],
                     off=case["off"] if exp_off else -999))
        if emit:
            self.out.append(r)
        return r

    def session(self, events, last_v=None, last_L=None, g=(0, 0, 0), fixed=False):
        """A behaviour of several rounds on one path table (events as TLC emitted them: refreshes and
        rounds).  last_v: word residues of the last round (a member of a uniformity group); fixed: the
        scripted words of the other rounds contain no rejected ones (identical in every member)."""
        self.nsid += 1
        evs, stale = [], False
        last = max(i for i, e in enumerate(events) if e["ev"] == "round")
        for i, e in enumerate(events):
            if e["ev"] == "refresh":
                evs.append(dict(kind="refresh", offered=e["offered"]))
                stale = False
                continue
            n = e["k"] + len(e["rng"])
            if i == last and last_v is not None:
                r = self.round(e, list(last_v), last_L, g=g, rej=[0] * len(last_v), emit=False, stale=stale)
            else:
                L = lcm_upto(max(n, 1))
                v = self.v_for(e["rng"], e["k"], n, L)
                r = self.round(e, v, L, rej=[0] * len(v) if fixed else None, emit=False, stale=stale)
            evs.append(r)
            stale = stale or e["dirty"]
        self.out.append(dict(kind="session", sid=self.nsid, events=evs))

    def sample(self, k, n, v, L, g=(0, 0, 0)):
        # (no rejected words inside uniformity groups: the enumeration must stay
        # uniform whatever the sampler's acceptance test is)
        rej = [0 for _ in v] if g[0] else [1 if self.rnd.random() < 0.3 else 0 for _ in v]
        self.out.append(dict(kind="sample", gid=g[0], gpos=g[1], glen=g[2], L=L, D=len(v), v=list(v),
                             rej=rej, k=k, n=n))

    def word(self, n, words):
        self.out.append(dict(kind="word", n=n, words=[w % U32 for w in words]))


def script_of(case, rnd, allow_drop):
    """responder script realising the completion order / outcomes of a TLC case"""
    nc = case["nc"]
    sc = [dict(fail=0, rank=0) for _ in range(nc)]
    for rank, (c, ok) in enumerate(case["order"]):
        sc[c - 1]["rank"] = rank
        if not ok:
            sc[c - 1]["fail"] = 2 if (allow_drop and rnd.random() < 0.5) else 1
    for c, o in enumerate(case["outcome"]):
        if o == "late":
            sc[c]["fail"] = 2  # never answered: the context ends the round
    return sc


def exercising(events):
    """Specification side: does this behaviour contain a round that starts, without a refresh in between,
    after a round that selected in place (its working slice was overwritten)?  Returns the number of
    such rounds, and of those the ones with a client in interleaved mode on an offered path / with
    more candidate paths than clients to serve."""
    n = sticky = surplus = 0
    stale = False
    for e in events:
        if e["ev"] == "refresh":
            stale = False
            continue
        if stale:
            n += 1
            if any(m != 0 and m in e["offered"] for m in e["mode"]):
                sticky += 1
            if len(e["rng"]) > 0 and e["k"] >= 1:
                surplus += 1
        stale = stale or e["dirty"]
    return n, sticky, surplus


def round_key(e):
    return (e["nc"], tuple(e["mode"]), tuple(e["rng"]))


def build_sessions(ctx, b, ses, sim):
    """(f) rounds that share a path table: TLC's multi-round behaviours (ses: every behaviour of two
    rounds after one refresh at <= 2 clients, <= 3 paths; sim: random behaviours of up to four rounds
    with a refresh anywhere at <= 3 clients, <= 4 paths)."""
    q = ctx.quick
    rnd = b.rnd
    n0 = len(b.out)
    ex = [x for x in ses if exercising(x)[0] > 0]
    rest = [x for x in ses if exercising(x)[0] == 0]
    if q:
        chosen = rnd.sample(ex, min(len(ex), 320)) + rnd.sample(rest, min(len(rest), 60))
    else:
        chosen = ses
    for x in chosen:
        b.session(x)
    for x in sim:
        b.session(x)
    n_single = len(b.out) - n0
    # uniformity groups on the second round: the first round (fixed) selected in place, the second one's
    # words range over all tuples
    idx = {}
    for x in ex:
        r1, r2 = x[1], x[2]
        key = (tuple(r1["offered"]), round_key(r1), r2["nc"], tuple(r2["mode"]))
        idx.setdefault(key, {})[tuple(r2["rng"])] = x
    cands = []
    for key, m in idx.items():
        any2 = next(iter(m.values()))[2]
        k = any2["k"]
        n = k + len(any2["rng"])
        if k >= 1 and n > k and len(m) * math.factorial(k) == math.factorial(n):
            cands.append((key, k, n))
    cands.sort()
    want = 30 if q else 600
    ngr = 0
    for key, k, n in rnd.sample(cands, min(len(cands), want)):
        L = lcm_upto(n)
        mods = consuming(k, n)
        tuples = list(itertools.product(range(L), repeat=len(mods)))
        b.gid += 1
        b.ngroups += 1
        ngr += 1
        for pos, v in enumerate(tuples):
            x = idx[key][tuple(rng_of(v, k, n))]
            b.session(x, last_v=v, last_L=L, g=(b.gid, pos + 1, len(tuples)), fixed=True)
    made = b.out[n0:]
    return dict(sessions=len(made), session_singles=n_single, session_groups=ngr,
                session_rounds=sum(1 for c in made for e in c["events"] if e["kind"] == "round"),
                session_refreshes=sum(1 for c in made for e in c["events"] if e["kind"] == "refresh"),
                stale_rounds=sum(1 for c in made for e in c["events"] if e["kind"] == "round" and e["exp_stale"]))


def build_cases(ctx, gen, genc, ses, sim):
    q = ctx.quick
    b = Builder(ctx)
    rnd = b.rnd
    # ---- index TLC's rounds by configuration and rng
    by_cfg = {}
    for c in gen:
        by_cfg.setdefault(cfg_key(c), {})[tuple(c["rng"])] = c
    cfgs = sorted(by_cfg)
    # ---- (a) every configuration: one rng sequence (quick) / all of them (thorough)
    for key in cfgs:
        m = by_cfg[key]
        seqs = sorted(m)
        pick = [rnd.choice(seqs)] if q else seqs
        for r in pick:
            c = m[r]
            n = c["k"] + len(c["rng"])
            L = lcm_upto(max(n, 1))
            b.round(c, b.v_for(c["rng"], c["k"], n, L), L)
    n_single = len(b.out)
    # ---- (b) uniformity groups: all word tuples over 0..L-1 for a configuration
    classes = {}
    for key in cfgs:
        any_case = next(iter(by_cfg[key].values()))
        k = any_case["k"]
        n = k + len(any_case["rng"])
        if k >= 1 and n > k:
            classes.setdefault((n, k), []).append(key)
    budget = 900 if q else 40000
    per_class = {}
    for (n, k) in sorted(classes):
        size = lcm_upto(n) ** len(consuming(k, n))
        if q and size > 200:
            continue
        want = max(1, min(len(classes[(n, k)]), (budget // max(1, len(classes))) // size))
        per_class[(n, k)] = rnd.sample(classes[(n, k)], want)
    for (n, k), keys in sorted(per_class.items()):
        L = lcm_upto(n)
        mods = consuming(k, n)
        for key in keys:
            b.gid += 1
            b.ngroups += 1
            tuples = list(itertools.product(range(L), repeat=len(mods)))
            for pos, v in enumerate(tuples):
                c = by_cfg[key][tuple(rng_of(v, k, n))]
                b.round(c, list(v), L, g=(b.gid, pos + 1, len(tuples)), rej=[0] * len(v))
    n_group = len(b.out) - n_single
    # ---- (c) completion orders / failures / cancellation (TLC's genc cases)
    want_c = 260 if q else 6000
    max_slow = 14 if q else 150
    pool = [c for c in genc if c["order"] or c["cancelled"]]
    rnd.shuffle(pool)
    slow = 0
    taken = 0
    for c in pool:
        if taken >= want_c:
            break
        is_slow = c["cancelled"]
        sc = script_of(c, rnd, allow_drop=slow < max_slow)
        if any(s["fail"] == 2 for s in sc):
            if slow >= max_slow:
                continue
            slow += 1
        n = c["k"] + len(c["rng"])
        L = lcm_upto(max(n, 1))
        b.round(c, b.v_for(c["rng"], c["k"], n, L), L, script=sc)
        taken += 1
    n_compl = taken
    # ---- (d) crypto.Sample directly: complete word enumerations (uniformity groups)
    nmax = 4 if q else 5
    for n in range(0, nmax + 1):
        L = lcm_upto(max(n, 1))
        for k in range(0, n + 2):
            kk = min(k, n)
            mods = consuming(kk, n)
            size = L ** len(mods)
            if kk == 0 or size > (2000 if q else 4000):
                # no selection to count (or too large): a few single calls
                for _ in range(6):
                    b.sample(k, n, [rnd.randrange(L) for _ in mods], L)
                continue
            b.gid += 1
            b.ngroups += 1
            tuples = list(itertools.product(range(L), repeat=len(mods)))
            for pos, v in enumerate(tuples):
                b.sample(k, n, v, L, g=(b.gid, pos + 1, len(tuples)))
    if not q:
        for (k, n) in ((5, 6), (4, 6)):
            L = lcm_upto(n)
            mods = consuming(k, n)
            b.gid += 1
            b.ngroups += 1
            tuples = list(itertools.product(range(L), repeat=len(mods)))
            for pos, v in enumerate(tuples):
                b.sample(k, n, v, L, g=(b.gid, pos + 1, len(tuples)))
    # ---- (e) RandIntn on boundary words
    ns = list(range(1, 70)) + [rnd.randrange(70, 1 << 15) for _ in range(40 if q else 400)]
    ns += [(1 << 15) - 1, 1 << 15, (1 << 16) + 1, (1 << 31) - 1, (1 << 31) - 2, (1 << 30) + 1, 3 << 29, 1000000007]
    for n in ns:
        t = U32 % n
        b.word(n, [t - 1, t, t + 1] if t >= 1 else [t, t + 1])
        b.word(n, [0, U32 - 1])
        b.word(n, [t, U32 - 1])
        b.word(n, [t + 1])
        b.word(n, [rnd.randrange(U32) for _ in range(6)] + [U32 - 2])
    # ---- (f) several rounds on one path table
    sstats = build_sessions(ctx, b, ses, sim)
    stats = dict(configurations=len(cfgs), single_rounds=n_single, group_rounds=n_group, groups=b.ngroups,
                 completion_rounds=n_compl, sample_calls=sum(1 for x in b.out if x["kind"] == "sample"),
                 randintn_calls=sum(1 for x in b.out if x["kind"] == "word"))
    stats.update(sstats)
    return b.out, stats


def count_uniform_from_cases(gen):
    """The counting statement on TLC's complete state graph: for every
    configuration the emitted terminal states carry every rng sequence once
    (weight prod 1/(i+1) each); every k-subset of the free candidates must be
    reached by the same number of them."""
    by_cfg = {}
    for c in gen:
        by_cfg.setdefault(cfg_key(c), []).append(c)
    checked = 0
    for key, cs in by_cfg.items():
        k = cs[0]["k"]
        n = k + len(cs[0]["rng"])
        if len(cs) * math.factorial(k) != math.factorial(n):
            raise vlib.Inconclusive("TLC emitted %d rng sequences for %s, expected %d" %
                                    (len(cs), key, math.factorial(n) // math.factorial(k)))
        kept = {c for c in range(key[0]) if key[2][c] != 0 and cs[0]["resets"][c] == 0}
        counts = {}
        for c in cs:
            ch = frozenset(c["asg"][i] for i in range(key[0]) if i not in kept and c["asg"][i] != 0)
            counts[ch] = counts.get(ch, 0) + 1
        if len(counts) != math.comb(n, k) or len(set(counts.values())) != 1:
            raise vlib.Inconclusive("specification-level: selection not uniform for %s: %s" % (key, counts))
        checked += 1
    return checked


def corrupt(ctx, recs):
    """Negative control of the binding itself (never set in normal runs):
    VERIF_C15_CORRUPT=ret|asg|freset|uniform|word falsifies one recorded field
    after the driver ran; the monitor must then reject the trace."""
    what = os.environ.get("VERIF_C15_CORRUPT")
    if not what:
        return
    rounds = [r for r in recs if r["kind"] == "round"]
    if what == "ret":
        r = next(x for x in rounds if sum(1 for a in x["asg"] if a) >= 2 and x["err"] == "none")
        r["ret"] += 2
    elif what == "asg":
        r = next(x for x in rounds if sum(1 for a in x["asg"] if a) >= 2)
        i, j = [c for c, a in enumerate(r["asg"]) if a][:2]
        r["asg"][j] = r["asg"][i]
        r["probed"][j] = [r["asg"][i]]
    elif what == "freset":
        r = next(x for x in rounds if any(m != 0 and m not in x["offered"] for m in x["mode"]))
        c = next(c for c, m in enumerate(r["mode"]) if m != 0 and m not in r["offered"])
        r["freset"][c] = 0
    elif what == "uniform":
        # swap the selection of one round of a group for another one's
        g = [x for x in rounds if x["gid"] and x["glen"] >= 6]
        a = g[0]
        b = next(x for x in g if x["gid"] == a["gid"] and x["asg"] != a["asg"])
        a["asg"], a["probed"] = list(b["asg"]), [list(p) for p in b["probed"]]
    elif what == "word":
        r = next(x for x in recs if x["kind"] == "word" and x["n"] == 5)
        r["res"] = 5
    else:
        raise vlib.Inconclusive("unknown VERIF_C15_CORRUPT=%s" % what)
    ctx.notes.append("NEGATIVE CONTROL: recorded field %s was falsified after the run" % what)
    ctx.log("negative control: falsified %s" % what)


def run(ctx):
    q = ctx.quick
    res = {}
    errs = []

    def bg(name, f):
        def w():
            try:
                res[name] = f()
            except BaseException as e:  # re-raised in the main thread
                errs.append(e)
        t = threading.Thread(target=w)
        t.start()
        return t

    ctx.specdir()
    ov = overlay(ctx)
    nsim = 120 if q else 3000
    # 1. design level (the TLC runs are independent of /repo; run side by side)
    # (quick: Multipath_tab.cfg contains Multipath_exh.cfg - its first round - and is run in its place)
    ths = [
        bg("exh", lambda: ctx.tlc("MultipathMC", "Multipath_tab.cfg" if q else "Multipath_deep.cfg",
                                  workers=4 if q else 6, timeout=300 if q else 1500, tag="exh")),
        bg("gen", lambda: ctx.tlc("MultipathMC", "Multipath_gen.cfg", workers=1, timeout=300, tag="gen")),
        bg("genc", lambda: ctx.tlc("MultipathMC", "Multipath_genc.cfg" if q else "Multipath_gencdeep.cfg",
                                   workers=1, timeout=300 if q else 900, tag="genc")),
        bg("rand", lambda: ctx.tlc("MultipathMC", "Multipath_rand.cfg" if q else "Multipath_randdeep.cfg",
                                   workers=1, timeout=300 if q else 900, tag="rand")),
        # rounds that share a path table: exhaustive (refreshes anywhere between the rounds): "exh" (quick) /
        # "tab" (thorough); the generators of multi-round behaviours (all of two rounds at small scope; random deep ones) ...
        bg("ses", lambda: ctx.tlc("MultipathMC", "Multipath_ses.cfg", workers=1, timeout=300, tag="ses")),
        bg("sim", lambda: ctx.tlc("MultipathMC", "Multipath_sim.cfg", workers=1, timeout=300 if q else 900, tag="sim",
                                  simulate="num=%d" % nsim, depth=200)),
        # ... and the specification-level control: a working slice that aliases the table breaks the property
        bg("alias", lambda: ctx.tlc("MultipathMC", "Multipath_alias.cfg", workers=1, timeout=300, tag="alias",
                                    allow_violation=True)),
        # warm the Go build cache meanwhile
        bg("warm", lambda: ctx.gotest("c15", "NoSuchTest", timeout=900, extra=["-overlay", ov])),
    ]
    if not q:
        ths.append(bg("tab", lambda: ctx.tlc("MultipathMC", "Multipath_tabdeep.cfg", workers=4, timeout=1500, tag="tab")))
        ths.append(bg("deep2", lambda: (ctx.tlc("MultipathMC", "Multipath_deep2.cfg", workers=4, timeout=1500, tag="deep2"),
                                        ctx.tlc("MultipathMC", "Multipath_deep3.cfg", workers=4, timeout=1500, tag="deep3"))))
    for t in ths:
        t.join()
    if errs:
        raise errs[0]
    if q:
        res["tab"] = res["exh"]
    ctx.log("TLC: exh %s states, gen %d, genc %d; RandIntn/reservoir counting ASSUMEs hold" %
            ("(see shared path table)" if q else res["exh"]["distinct"], res["gen"]["distinct"], res["genc"]["distinct"]))
    gen = ctx.emitted(res["gen"]["out"])
    genc = ctx.emitted(res["genc"]["out"])
    if len(gen) < 5000 or len(genc) < 5000:
        raise vlib.Inconclusive("case generators produced only %d / %d rounds" % (len(gen), len(genc)))
    ctx.log("TLC: shared path table exhaustive %d states; generator of two-round behaviours %d states" %
            (res["tab"]["distinct"], res["ses"]["distinct"]))
    if res["alias"]["violated"] not in SPEC_PROPERTY:
        raise vlib.Inconclusive("Multipath_alias.cfg (working slice = the table's array) should violate the property "
                                "section in the second round; TLC reported %s" % res["alias"]["violated"])
    ses = ctx.emitted(res["ses"]["out"], marker="SES")
    sim = ctx.emitted(res["sim"]["out"], marker="SES")
    # vacuity guard, specification side: the generated behaviours must contain rounds that start after an
    # in-place selection on the same table (the only ones on which sharing the table can show)
    ex_ses = [exercising(x) for x in ses]
    ex_sim = [exercising(x) for x in sim]
    n_ex = sum(1 for e in ex_ses if e[0]) + sum(1 for e in ex_sim if e[0])
    if len(ses) < 10000 or len(sim) < nsim or sum(1 for e in ex_ses if e[0]) < 2000 or \
            sum(1 for e in ex_ses if e[1]) < 300 or sum(1 for e in ex_ses if e[2]) < 300 or sum(1 for e in ex_sim if e[0]) < nsim // 4:
        raise vlib.Inconclusive("multi-round generators: %d + %d behaviours, %d with a round after an in-place selection "
                                "on the same table" % (len(ses), len(sim), n_ex))
    ctx.log("multi-round behaviours from TLC: %d exhaustive (2 rounds), %d simulated; %d contain a round after an in-place "
            "selection on the same table (sticky client on an offered path there: %d, more paths than clients to serve: %d)"
            % (len(ses), len(sim), n_ex, sum(1 for e in ex_ses + ex_sim if e[1]), sum(1 for e in ex_ses + ex_sim if e[2])))
    ncfg = count_uniform_from_cases(gen)
    ctx.log("uniformity counted on TLC's terminal states: %d configurations, every k-subset equally often" % ncfg)
    rc, wout = res["warm"]
    if rc != 0:
        raise vlib.Inconclusive("harness does not build:\n" + wout[-3000:])

    # 2. spec -> code
    cases, stats = build_cases(ctx, gen, genc, ses, sim)
    if stats["stale_rounds"] < 300:
        raise vlib.Inconclusive("driver input has only %d rounds that follow an in-place selection on the same table"
                                % stats["stale_rounds"])
    cp = ctx.path("cases.ndjson")
    vlib.write_ndjson(cp, cases)
    ctx.log("driver input: %s" % stats)
    dto = 600 if q else 3000
    # the driver gets 60 % of its time as a wall budget: on a tree whose rounds end only with their
    # context it stops early and says so; what it recorded until then is real behaviour and is judged,
    # the cut itself is never a verdict (no violation in the prefix -> inconclusive, as a timeout was)
    trace, out = ctx.godriver("c15", "TestC15", cases=cp, timeout=dto, extra=["-overlay", ov],
                              env={"VERIF_BUDGET_S": str(dto * 6 // 10)})
    recs = vlib.read_ndjson(trace)
    cut = [r for r in recs if r.get("kind") == "cutoff"]
    recs = [r for r in recs if r.get("kind") != "cutoff"]
    nexp = sum(1 for c in cases if c["kind"] != "session") + stats["session_rounds"]
    if cut:
        # incomplete uniformity groups say nothing about frequencies: leave them out
        have = {}
        for r in recs:
            if r.get("gid"):
                have[r["gid"]] = have.get(r["gid"], 0) + 1
        recs = [r for r in recs if not r.get("gid") or have[r["gid"]] == r.get("glen", have[r["gid"]])]
        ctx.log("driver stopped at its wall budget after %s of %s cases (%d records kept)"
                % (cut[0].get("done"), cut[0].get("total"), len(recs)))
    elif len(recs) != nexp:
        raise vlib.Inconclusive("driver produced %d records, %d expected" % (len(recs), nexp))
    # the members of a uniformity group are consecutive in the validated trace (the rounds before the
    # judged one of a multi-round member carry no group id and stay where they are)
    order = sorted(range(len(recs)), key=lambda i: (0, i, 0) if not recs[i].get("gid") else (1, recs[i]["gid"], recs[i]["gpos"]))
    recs = [recs[i] for i in order]
    mirror_drift(ctx)
    rounds = [r for r in recs if r["kind"] == "round"]
    unj = sum(1 for r in rounds if not r["judged"])
    if unj > max(3, len(rounds) // 100):
        raise vlib.Inconclusive("%d of %d rounds had measurement noise above the grid tolerance" % (unj, len(rounds)))
    tabr = [r for r in rounds if r["src"] == "pather"]
    stale_seen = sum(1 for r in tabr if r["exp_stale"])
    ctx.log("driver: %d records (%d rounds, %d not judged for noise); %d rounds drew from a Pather's table, %d of them "
            "after an in-place selection of an earlier round on the same table" % (len(recs), len(rounds), unj, len(tabr), stale_seen))

    corrupt(ctx, recs)
    # 3. code -> spec: monitor decides, strict reports drift.  A violation ends a
    # TLC run; the offending record (its whole group) is cut out and the rest is
    # validated again, so one finding does not hide the others.
    pp = ctx.path("cur.ndjson")
    vlib.write_ndjson(pp, recs)
    invs = MON_INVARIANTS[:]
    nval = len(recs)
    while invs:
        cfgname = "MultipathTrace_mon.cfg"
        if len(invs) != len(MON_INVARIANTS):
            cfgname = "MultipathTrace_mon_%d.cfg" % len(invs)
            with open(os.path.join(ctx.specdir(), cfgname), "w") as f:
                f.write("SPECIFICATION TSpec\nINVARIANTS %s\n" % " ".join(invs))
        ok, l, inv, tout = ctx.validate("MultipathTrace", cfgname, pp, timeout=900)
        if ok:
            break
        if not l or inv not in invs:
            raise vlib.Inconclusive("monitor failed without a usable trace position (%s):\n%s" % (inv, tout[-2000:]))
        bad = recs[l - 1]
        # input class: a round that drew from a Pather's table after earlier rounds on the same table
        cls = " shared-path-table" if bad.get("src") == "pather" and bad.get("since", 0) > 0 else ""
        ctx.violation("C15 %s %s%s" % (inv, bad["kind"], cls),
                      "recorded %s violates %s: %s" % (bad["kind"], inv,
                                                      {k: bad[k] for k in bad if not k.startswith("exp_")}), bad)
        nval -= 1
        invs.remove(inv)   # one witness per clause; go on with the other clauses
    if cut and not ctx.violations:
        raise vlib.Inconclusive("driver used its wall budget after %s of %s cases and the rounds recorded until then "
                                "satisfy the property section" % (cut[0].get("done"), cut[0].get("total")))
    if not ctx.violations:
        ok, l, inv, tout = ctx.validate("MultipathTrace", "MultipathTrace_strict.cfg", pp, timeout=900)
        if not ok:
            ctx.drift.append("record %s is not what Multipath.tla computes (%s)" %
                             (recs[l - 1] if l else "?", inv))
    kinds = {}
    for r in recs:
        kinds[r["kind"]] = kinds.get(r["kind"], 0) + 1
    distinct = len({(r["nc"], tuple(r["offered"]), tuple(r["mode"]), tuple(r["exp_rng"]), tuple(r["scripted"]))
                    for r in rounds})
    ctx.cov.update(
        evaluations=len(recs), distinct_nontrivial=distinct, exhaustive=True,
        rule="rounds enumerated by TLC (<= 3 clients, <= 4 offered paths with repeated fingerprints, every "
             "client fresh / interleaved on an offered, shared or withdrawn fingerprint, every RandIntn result "
             "sequence; completion orders, failures and cancellation for <= 3 paths) replayed on the real "
             "MeasureClockOffsetSCION over loopback responders with crypto/rand.Reader scripted; quick: one rng "
             "sequence per configuration plus complete word enumerations (uniformity groups) for sampled "
             "configurations, thorough: all; plus crypto.Sample word enumerations and RandIntn boundary words; "
             "plus behaviours of several rounds that draw from one path table (TLC: every behaviour of two rounds "
             "after a refresh at <= 2 clients, <= 3 paths - quick: a sample, thorough: all - and simulated "
             "behaviours of up to 4 rounds with a refresh anywhere at <= 3 clients, <= 4 paths), replayed with "
             "every round's slice obtained from a real scion.Pather (StartPather / update against a scripted "
             "daemon) as timeservice.go does, judged against the daemon's answer at the last refresh, incl. "
             "uniformity groups on the round after an in-place selection; "
             "distinct = distinct (configuration, rng, failure script)",
        traces_validated_against_impl=nval, records_by_kind=kinds, driver_input=stats,
        unjudged_rounds=unj,
        shared_table=dict(spec_behaviours_two_rounds=len(ses), spec_behaviours_simulated=len(sim),
                          spec_behaviours_with_round_after_inplace_selection=n_ex,
                          replayed_behaviours=stats["sessions"], replayed_rounds_from_pather=len(tabr),
                          replayed_rounds_after_inplace_selection=stale_seen,
                          replayed_refreshes=stats["session_refreshes"], uniformity_groups=stats["session_groups"]),
        samples=[rounds[0], rounds[len(rounds) // 2], rounds[-1]] +
                [r for r in recs if r["kind"] == "sample"][:1] + [r for r in recs if r["kind"] == "word"][:2])
    ctx.notes.append(
        "dimension 'where the offered paths come from': Multipath.tla keeps the Pather's table across rounds "
        "(Refresh/PathsDone replace it, Call takes the round's slice from it). Specification side: TLC explored %d "
        "states of rounds sharing a table with refreshes in between (TableIntact and the property section hold), "
        "the control with the working slice aliasing the table violates %s; generated behaviours: %d of two rounds "
        "(exhaustive at <= 2 clients, <= 3 paths) + %d simulated (<= 4 rounds, <= 3 clients, <= 4 paths); %d of them "
        "contain a round that starts after an in-place selection (swap-remove / reservoir overwrite) of an earlier "
        "round on the same table, %d with a sticky client on an offered path in that round, %d with more candidate "
        "paths than clients to serve. Replayed: %d behaviours, %d rounds drawn from a real scion.Pather, %d of them "
        "after an in-place selection on the same table, %d refreshes, %d uniformity groups on such rounds."
        % (res["tab"]["distinct"], res["alias"]["violated"], len(ses), len(sim), n_ex,
           sum(1 for e in ex_ses + ex_sim if e[1]), sum(1 for e in ex_ses + ex_sim if e[2]),
           stats["sessions"], len(tabr), stale_seen, stats["session_refreshes"], stats["session_groups"]))
    ctx.assumptions += [
        "rounds that share a path table: the harness repeats the two statements of ntpReferenceClockSCION."
        "MeasureClockOffset (ps = c.pather.Paths(ia); MeasureClockOffsetSCION(..., ps)) instead of calling that "
        "method of package main (a DRIFT line is printed when timeservice.go no longer contains them); the Pather "
        "is the repository's, its daemon is scripted (go test -overlay renames NewDaemonConnector, VerifRefresh "
        "calls update); clients are new objects in every round (several reference clocks share a table)",
        "the 2^-31 bound at word size 32 is inferred: TLC counts RandIntn's accepted words exhaustively for W = 4..8 "
        "(quick) / 4..9 (thorough) (every residue q or q-1 words, only residue t short), the real RandIntn is "
        "compared with the W = 32 instance of the same formula on boundary words (t-1, t, t+1, 0, 2^32-1) only",
        "uniformity on the real code is a counting statement: complete enumerations of word tuples that are uniform "
        "modulo lcm(1..n) are fed through the scripted reader and every k-subset must be selected equally often",
        "a participant whose measurement fails contributes the zero value (the slot of ms it never filled)",
        "responders are harness goroutines answering through the real server handler on clocks real+theta "
        "(process clock shifted by -16 s so that negative thetas are representable); offsets are mapped to "
        "half-second model units with 200 ms tolerance, rounds above it are retried and otherwise not judged",
        "clients are put into interleaved mode with the verif projection setter, not by three real exchanges",
    ]
