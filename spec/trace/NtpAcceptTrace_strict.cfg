SPECIFICATION TSpec
INVARIANTS SReaction
