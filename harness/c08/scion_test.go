package c08

import (
	"bytes"
	"encoding/binary"
	"fmt"
	"net"
	"strings"
	"time"
)

func ip4(s string) []byte { return net.ParseIP(s).To4() }

// ----------------------------------------------------------------- scsrv
func (l *lane) scRequestPayload(g *dgram) ([]byte, []byte) {
	hdr, _ := ntpRequest(l.rng, g.B0)
	if g.B0 == "na" {
		hdr[0] = 0x23
	}
	mark := rndBytes(l.rng, 8)
	copy(hdr[40:48], mark) // transmit timestamp = the reply's origin timestamp
	if g.Sz == "s47" {
		// too short for an NTP packet; the marker stays inside
		return hdr[8:47], mark
	}
	return hdr, mark
}

func (l *lane) runScSrv(tc *tcase, c *acase, out emitter) {
	r := rec{Id: tc.Id, Kind: "scsrv", Cls: "abstract", C: tc.C, Lane: l.id}
	if err := l.ensureSrv(); err != nil {
		r.Outcome, r.Detail = "stall", err.Error()
		out.Emit(r)
		return
	}
	g := &c.Rs[0]
	port := scSrvPort
	if g.Cp == "eh" {
		port = scEndhostPort
	}
	conn, err := net.DialUDP("udp4", &net.UDPAddr{IP: net.ParseIP(l.fakeIP)}, &net.UDPAddr{IP: net.ParseIP(l.srvIP), Port: port})
	if err != nil {
		r.Outcome, r.Detail = "stall", err.Error()
		out.Emit(r)
		return
	}
	defer conn.Close()
	l.drainUDP(l.scFwd)
	pl, markC := l.scRequestPayload(g)
	dport := uint16(scSrvPort)
	switch g.Dp {
	case "endhost":
		dport = scEndhostPort
	case "other":
		dport = 31001 // the harness listens there on its own address: a forwarded datagram is seen
	}
	prm := scParams{srcIA: scIA, dstIA: scIA, srcHost: ip4(l.fakeIP), dstHost: ip4(l.srvIP),
		srcPort: uint16(conn.LocalAddr().(*net.UDPAddr).Port), dstPort: dport, payload: pl, fwdHost: ip4(l.fakeIP)}
	if g.Dp == "other" {
		prm.dstHost = ip4(l.fakeIP) // the forwarder sends to (destination host, destination port)
	}
	b := scBytes(l.rng, g, prm)
	spl, markS := l.scRequestPayload(&dgram{B0: "v4c", Sz: "s48"})
	sg := dgram{Da: "t0l4", Sa: "t0l4", Pt: "empty", Ext: "none", L4: "udp", Ul: "ok"}
	sprm := prm
	sprm.dstHost, sprm.dstPort, sprm.payload = ip4(l.srvIP), scSrvPort, spl
	sb := scBytes(l.rng, &sg, sprm)
	bst, br, died := l.burstBefore(tc, "scsrv", g.Bu, l.burstSCION(b, port))
	if died {
		out.Emit(br)
		return
	}
	r.Bsent, r.Bval, r.Bans, r.Baddr, r.Bms = int(bst.sent), int(bst.val), int(bst.ans), int(bst.addr), bst.ms
	conn.Write(b)
	conn.Write(sb)
	var gotC, gotS bool
	read := func(d time.Duration) {
		buf := make([]byte, 16384)
		end := time.Now().Add(d)
		for time.Now().Before(end) && !gotS {
			conn.SetReadDeadline(time.Now().Add(15 * time.Millisecond))
			n, err := conn.Read(buf)
			if err != nil {
				if l.srv.exited() {
					return
				}
				continue
			}
			if bytes.Contains(buf[:n], markS) {
				gotS = true
			} else if bytes.Contains(buf[:n], markC) {
				gotC = true
			}
		}
	}
	read(200 * time.Millisecond)
	for i := 0; i < 2 && !gotS && !l.srv.exited(); i++ {
		conn.Write(sb)
		read(250 * time.Millisecond)
	}
	if gotS {
		// a forwarded copy of the crafted datagram?
		buf := make([]byte, 16384)
		for {
			l.scFwd.SetReadDeadline(time.Now().Add(3 * time.Millisecond))
			n, _, err := l.scFwd.ReadFromUDP(buf)
			if err != nil {
				break
			}
			// the forwarded copy of the crafted datagram carries this socket's port as UDP source port
			if sp, _, ok := scParse(buf[:n]); bytes.Contains(buf[:n], markC) || (ok && sp == prm.srcPort && g.Dp == "other") {
				gotC = true
			}
		}
		r.Sentinel = true
		r.Outcome = map[bool]string{true: "served", false: "dropped"}[gotC]
		out.Emit(r)
		return
	}
	r.Hex = hexHead(b)
	if l.srv.exited() || l.srv.waitExit(100*time.Millisecond) {
		r.Outcome = "child_died"
		r.Sig, r.Detail = crashSignature(l.srv.stderr())
		if r.Sig == "" {
			r.Outcome, r.Detail = "stall", "child exited without a Go crash dump: "+tail(l.srv.stderr(), 400)
		}
		l.srv = nil
		out.Emit(r)
		return
	}
	spin := l.srv.spinning(100*time.Millisecond) || l.srv.spinning(100*time.Millisecond)
	if !spin {
		conn.Write(sb)
		read(1500 * time.Millisecond)
		if gotS {
			r.Sentinel, r.Hex = true, ""
			r.Outcome = map[bool]string{true: "served", false: "dropped"}[gotC]
			out.Emit(r)
			return
		}
	}
	if !l.controlAnswered() {
		r.Outcome, r.Detail = "stall", "SCION sentinel unanswered and NTP control unanswered"
		l.srv.kill()
		l.srv = nil
		out.Emit(r)
		return
	}
	dump := l.srv.dumpAndKill()
	r.Outcome, r.Sig = "hang", spinSignature(dump)
	r.Detail = fmt.Sprintf("same 4-tuple unanswered 4x, IP listener answered, spinning=%v", spin)
	l.srv = nil
	out.Emit(r)
}

// ----------------------------------------------------------------- sccli
func (l *lane) scCliOnce(c *acase) (res clientRes, state, sig, detail string) {
	res, state, sig, detail = l.scCliOnceD(c, 150)
	if timedOut(res, state) && !planSilent(c) {
		res, state, sig, detail = l.scCliOnceD(c, 600)
	}
	return
}

func (l *lane) scCliOnceD(c *acase, deadline int) (res clientRes, state, sig, detail string) {
	l.drainUDP(l.scHop)
	done := make(chan struct{})
	l.scHop.SetReadDeadline(time.Now().Add(time.Duration(deadline+200) * time.Millisecond))
	go func() {
		defer close(done)
		buf := make([]byte, 16384)
		n, from, err := l.scHop.ReadFromUDP(buf)
		if err != nil {
			return
		}
		cport, pl, ok := scParse(buf[:n])
		if !ok || len(pl) < 48 {
			return
		}
		req := pl[len(pl)-48:]
		for j := range c.Rs {
			g := &c.Rs[j]
			if g.Sz == "none" {
				break
			}
			np := l.cliResponse(&dgram{Sz: "s48", Org: g.Org, Meta: g.Meta, Ts: g.Ts}, req, false, nil)
			if g.Sz == "s47" {
				np = np[:47]
			}
			prm := scParams{srcIA: scIA, dstIA: scIA, srcHost: ip4(l.fakeIP), dstHost: from.IP.To4(),
				srcPort: scSrvPort, dstPort: cport, payload: np}
			l.scHop.WriteToUDP(scBytes(l.rng, g, prm), from)
		}
	}()
	res, state, sig, detail = l.cliCall(clientCmd{Op: "scion", SPAO: c.Auth == "yes", Local: l.cliIP, Remote: l.fakeIP,
		Port: scSrvPort, NextHop: fmt.Sprintf("%s:%d", l.fakeIP, 31000), DeadlineMs: deadline})
	l.scHop.SetReadDeadline(time.Now())
	<-done
	return
}

var goodScCli = acase{Kind: "sccli", Auth: "no", Rs: []dgram{{Sz: "s48", Sc: "ok", Da: "t0l4", Sa: "t0l4", Pt: "empty",
	Ext: "none", L4: "udp", Ul: "ok", Ia: "ok", Org: "match", Meta: "ok", Ts: "ok"}}}

func (l *lane) runScCli(tc *tcase, c *acase, out emitter) {
	r := rec{Id: tc.Id, Kind: "sccli", Cls: "abstract", C: tc.C, Lane: l.id}
	res, state, sig, detail := l.scCliOnce(c)
	r.Outcome, r.Sig, r.Detail = outcomeOf(res, state), sig, detail
	if state == "returned" {
		r.Detail = res.Err
	}
	// MeasureClockOffsetSCION gives up at its deadline even when the goroutine in the receive path never
	// comes back: a child that keeps burning CPU after the call has returned has a receive loop that
	// stopped making progress
	// (a short first look -- most children are idle --, then the two long ones that decide)
	if state == "returned" && !res.Ok && l.cli != nil && !l.cli.exited() && l.cli.spinning(40*time.Millisecond) &&
		l.cli.spinning(100*time.Millisecond) && l.cli.spinning(100*time.Millisecond) {
		dump := l.cli.dumpAndKill()
		l.cli = nil
		r.Outcome, r.Sig = "hang", spinSignature(dump)
		r.Detail = "the call returned at its deadline, the receive path keeps spinning"
	}
	if r.Outcome == "served" || r.Outcome == "dropped" {
		var res2 clientRes
		var state2 string
		for k := 0; k < 2 && !r.Sentinel; k++ {
			res2, state2, _, _ = l.scCliOnce(&goodScCli)
			r.Sentinel = state2 == "returned" && res2.Ok
			if state2 != "returned" {
				break
			}
		}
		l.sentinelLastResort(&r, res2, state2, func() (clientRes, string) {
			x, s, _, _ := l.scCliOnceD(&goodScCli, 2400)
			return x, s
		})
	}
	out.Emit(r)
}

var _ = binary.BigEndian
var _ = strings.Contains
