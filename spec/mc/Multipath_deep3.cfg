SPECIFICATION Spec
CONSTANTS
  MaxClients = 4
  MaxPaths = 4
  ThetaVecs <- Theta1
  AllCompletions = FALSE
  FW = 8
  CheckRand = FALSE
  RandWMax = 4
  CheckUnif = FALSE
  UnifNMax = 0
INVARIANTS TypeOK Distinct StickyKept ElseResetWithFilter Participants LaunchedAreParticipants OneValuePerParticipant NoPathError ResetExactlyNonSticky
