------------------------------ MODULE SysClock ------------------------------
(***************************************************************************)
(* X04 - the last link of the clock-discipline chain: how the time service *)
(* acts on the Linux system clock.                                         *)
(*                                                                         *)
(*   driver/clocks/sysclk_linux.go         SystemClock: Epoch, Step,       *)
(*                                         Adjust + its timer goroutine    *)
(*   core/sync/adjustments/sys_linux.go    SysAdjustment.Do                *)
(*   base/unixutil                         TimevalFromNsec,                *)
(*                                         ScaledPPMFromFreq               *)
(*                                                                         *)
(* Both act on the kernel only through clock_adjtime(CLOCK_REALTIME).  The *)
(* kernel is modelled by what that call can see and change: the frequency  *)
(* register (the last ADJ_FREQUENCY command; Linux additionally clamps it  *)
(* to +-500 ppm, which no code modelled here reads back), the status word, *)
(* the last phase-offset command (ADJ_OFFSET, honoured only in PLL mode),  *)
(* the number of time steps (ADJ_SETOFFSET) and CLOCK_REALTIME itself,     *)
(* which the timer goroutines sleep on (timerfd, TFD_TIMER_ABSTIME).       *)
(*                                                                         *)
(* One action per critical section of the Go code:                         *)
(*   Adjust     under c.mu: supersede, panic on a negative duration, round *)
(*              the duration down to whole seconds (minimum 1 s), write    *)
(*              frequency + offset/duration, install the adjustment, start *)
(*              the timer goroutine (sleep(duration), then TimerFire)      *)
(*   TimerFire  under c.mu: write afterFreq iff this goroutine's           *)
(*              adjustment is still c.adjustment (pointer identity)        *)
(*   Step       under c.mu: if c.adjustment # nil write its afterFreq and  *)
(*              clear it; set the offset; epoch++                          *)
(*   ReadEpoch  under c.mu                                                 *)
(*   DoStep     SysAdjustment.Do, |offset| > 500 ms: one clock_adjtime     *)
(*   DoRead, DoWrite   SysAdjustment.Do otherwise: two clock_adjtime calls *)
(*              (read-modify-write of the status word, not atomic)         *)
(*   Advance    time passes                                                *)
(*                                                                         *)
(* Units.  Time, durations and the offsets of Adjust/Step are integers in  *)
(* quanta of 1/QPS s.  Frequencies are integers in frequency units; an     *)
(* offset of one quantum spread over one second is G units, so Adjust      *)
(* writes  frequency + offset * G / seconds.  The Go code computes this in *)
(* float64 and truncates to scaled ppm (unixutil.ScaledPPMFromFreq); with  *)
(* QPS * G a power of two <= 2^22, QPS a power of two <= 2^9 and           *)
(* offset * G divisible by the seconds every intermediate value is exactly *)
(* representable and one frequency unit is 65536e6 / (QPS * G) scaled ppm  *)
(* (harness/x04 uses this embedding; other inputs are judged with the      *)
(* tolerance of one scaled ppm on the real values).  The offsets of        *)
(* SysAdjustment.Do are integers in 1/DPS s (real: DPS = 10^9).            *)
(***************************************************************************)
EXTENDS Integers, Sequences, FiniteSets

CONSTANTS
  QPS,        \* quanta per second (SystemClock part)
  G,          \* frequency units per (quantum / second)
  DPS,        \* offset units per second of SysAdjustment.Do
  Variant,    \* "code": the code as it is; what-ifs: "noident" (timer goroutine without the identity
              \* test), "steplazy" (Step does not restore afterFreq), "clearfire" (repair: the timer
              \* goroutine clears c.adjustment after restoring), "noepoch" (Step forgets epoch++)
  AdjOffs, AdjDurs, AdjFreqs,   \* arguments of Adjust
  StepOffs,                     \* arguments of Step
  Deltas,                       \* time advances (quanta)
  DoOffs, DoStats,              \* arguments of Do and status words found in the kernel
  MaxOps,     \* calls (Adjust, Step, Epoch, Do) per history
  MaxAdv,     \* time advances per history
  DoAtomic,   \* TRUE: nothing happens between the two clock_adjtime calls of Do
  KeepHist    \* TRUE: record the history (generators)

VARIABLES
  kfreq,     \* kernel: frequency register (frequency units)
  kfset,     \* kernel: the register has been written
  kstatus,   \* kernel: status word, the set of its bit numbers
  koff,      \* kernel: last phase-offset command accepted (1/DPS s)
  ksteps,    \* kernel: number of time steps applied
  now,       \* kernel: CLOCK_REALTIME (quanta)
  epoch,     \* c.epoch
  cur,       \* c.adjustment: 0 = nil, otherwise the identity of the adjustment
  after,     \* afterFreq of every adjustment allocated so far (identity = index)
  timers,    \* timer goroutines in flight: [adj |-> identity, exp |-> expiry]
  dead,      \* a call panicked
  dotx,      \* SysAdjustment.Do between its two calls: the timex buffer
  act,       \* the last completed action: inputs, kernel calls made, results
  pmon, mon, \* ghost: observer state of the property section before / after it
  nops, nadv,
  hist

vars == <<kfreq, kfset, kstatus, koff, ksteps, now, epoch, cur, after, timers, dead, dotx, act, pmon, mon, nops, nadv, hist>>

\* ------------------------------------------------------------------ helpers
Abs(x) == IF x < 0 THEN -x ELSE x
\* Go's / and % truncate toward zero (b > 0)
TDiv(a, b) == IF a >= 0 THEN a \div b ELSE -((-a) \div b)
TRem(a, b) == a - b * TDiv(a, b)

\* unixutil.TimevalFromNsec at `ups` units per second: sec := n / ups; n = n % ups;
\* if n < 0 { sec -= 1; n += ups }.  (With ADJ_NANO the tv_usec field holds the sub-second part.)
Timeval(n, ups) ==
  LET s == TDiv(n, ups)
      r == TRem(n, ups)
  IN IF r < 0 THEN [sec |-> s - 1, usec |-> r + ups] ELSE [sec |-> s, usec |-> r]

\* Adjust: duration = duration / time.Second * time.Second; if duration == 0 { duration = time.Second }
\* (whole seconds, for d >= 0)
RoundDur(d) == LET w == TDiv(d, QPS) IN IF w = 0 THEN 1 ELSE w

\* frequency + offset.Seconds() / duration.Seconds()  (exact when rd divides o * G; the Go value is the
\* float64 result truncated to scaled ppm, at most one scaled ppm away from the exact one)
Divisible(o, rd) == (o * G) % rd = 0
AdjFreq(f, o, rd) == f + (o * G) \div rd

\* status word (include/uapi/linux/timex.h)
PLL == 0
FREQHOLD == 7
NANO == 13
RONLY == 8 .. 15            \* unixSTA_RONLY = 65280
StatusBits == 0 .. 15
\* tx.Status |= STA_PLL; |= STA_NANO; &= ^unixSTA_RONLY; &= ^STA_FREQHOLD
StatusWritten(rd) == ((rd \cup {PLL, NANO}) \ RONLY) \ {FREQHOLD}
Thr == DPS \div 2            \* 500 ms

\* clock_adjtime calls as the kernel sees them
CFreq(v)    == [m |-> "freq", v |-> v, sec |-> 0, usec |-> 0, st |-> {}]           \* modes = ADJ_FREQUENCY
CSet(tv)    == [m |-> "setoffset", v |-> 0, sec |-> tv.sec, usec |-> tv.usec, st |-> {}] \* ADJ_SETOFFSET|ADJ_NANO
CRead(st)   == [m |-> "read", v |-> 0, sec |-> 0, usec |-> 0, st |-> st]           \* modes = 0; st: status returned
COff(v, st) == [m |-> "offset", v |-> v, sec |-> 0, usec |-> 0, st |-> st]         \* ADJ_OFFSET|ADJ_STATUS|ADJ_NANO

NoIn == [off |-> 0, dur |-> 0, freq |-> 0, k |-> 0, d |-> 0, st |-> {}]
MkAct(a, in, calls, panic, armed, deadline, ep, nw) ==
  [a |-> a, off |-> in.off, dur |-> in.dur, freq |-> in.freq, k |-> in.k, d |-> in.d, st |-> in.st,
   calls |-> calls, panic |-> panic, armed |-> armed, deadline |-> deadline, ep |-> ep, clk |-> nw]
NoAct == MkAct("none", NoIn, << >>, FALSE, 0, 0, 0, 0)
NoTx  == [on |-> FALSE, off |-> 0, st |-> {}]

(***************************************************************************)
(* Observer of the property section: what somebody who sees only the calls *)
(* made on the SystemClock (with their arguments), the timer expiries (and *)
(* which Adjust call each timer belongs to) and the clock_adjtime calls    *)
(* knows.  An adjustment is PENDING from its Adjust call until the first   *)
(* of: its timer fires, a Step, a later Adjust.                            *)
(***************************************************************************)
Mon0 == [pend |-> 0,        \* the pending adjustment (index of its Adjust call), 0 = none
         nadj |-> 0,        \* Adjust calls so far
         aft  |-> 0,        \* the `frequency` argument (afterFreq) of the last one
         afts |-> << >>,    \* ... of all of them
         rest |-> << >>,    \* per adjustment: frequency writes by its timer and by Steps that found it last
         nstep |-> 0,       \* Step calls so far
         kf |-> 0, kfw |-> FALSE,    \* the frequency register: last ADJ_FREQUENCY value seen
         clk |-> 0,         \* CLOCK_REALTIME after the last action
         crashed |-> FALSE] \* a call panicked

FreqCalls(calls) == SelectSeq(calls, LAMBDA c : c.m = "freq")
MonNext(m, a) ==
  LET fc == FreqCalls(a.calls)
      m1 == [m EXCEPT !.kf = IF Len(fc) > 0 THEN fc[Len(fc)].v ELSE m.kf,
                      !.kfw = m.kfw \/ Len(fc) > 0,
                      !.clk = a.clk]
  IN CASE a.a = "adjust" /\ a.panic -> [m1 EXCEPT !.crashed = TRUE, !.pend = 0]
       [] a.a = "adjust" -> [m1 EXCEPT !.pend = m.nadj + 1, !.nadj = m.nadj + 1, !.aft = a.freq,
                                       !.afts = Append(m.afts, a.freq), !.rest = Append(m.rest, 0)]
       [] a.a = "fire" -> [m1 EXCEPT !.pend = IF a.k = m.pend THEN 0 ELSE m.pend,
                                     !.rest = IF a.k \in 1 .. m.nadj THEN [m.rest EXCEPT ![a.k] = @ + Len(fc)] ELSE m.rest]
       [] a.a = "step" -> [m1 EXCEPT !.pend = 0, !.nstep = m.nstep + 1,
                                     !.rest = IF m.nadj > 0 THEN [m.rest EXCEPT ![m.nadj] = @ + Len(fc)] ELSE m.rest]
       [] OTHER -> m1

\* -------------------------------------------------------------------- actions
Init ==
  /\ kfreq = 0 /\ kfset = FALSE /\ kstatus = {} /\ koff = 0 /\ ksteps = 0 /\ now = 0
  /\ epoch = 0 /\ cur = 0 /\ after = << >> /\ timers = {} /\ dead = FALSE /\ dotx = NoTx
  /\ act = NoAct /\ pmon = Mon0 /\ mon = Mon0 /\ nops = 0 /\ nadv = 0 /\ hist = << >>

Finish(a) ==
  /\ act' = a
  /\ pmon' = mon
  /\ mon' = MonNext(mon, a)
  /\ hist' = IF KeepHist THEN Append(hist, a) ELSE hist

\* a new call may start: nothing panicked, and (DoAtomic) no Do is between its two kernel calls
CallOk == ~dead /\ (DoAtomic => ~dotx.on) /\ nops < MaxOps

(* func (c *SystemClock) Adjust(offset, duration time.Duration, frequency float64)         *)
Adjust(o, d, f) ==
  /\ CallOk
  /\ nops' = nops + 1
  /\ IF d < 0
     THEN \* c.adjustment = nil precedes the panic; the deferred Unlock runs
          /\ cur' = 0 /\ dead' = TRUE
          /\ UNCHANGED <<kfreq, kfset, after, timers>>
          /\ Finish(MkAct("adjust", [NoIn EXCEPT !.off = o, !.dur = d, !.freq = f], << >>, TRUE, 0, 0, epoch, now))
     ELSE LET rd == RoundDur(d)
              w  == AdjFreq(f, o, rd)
              id == Len(after) + 1
              dl == now + rd * QPS
          IN /\ kfreq' = w /\ kfset' = TRUE                              \* setFrequency(frequency + offset/duration)
             /\ cur' = id /\ after' = Append(after, f)                   \* c.adjustment = &adjustment{...}
             /\ timers' = timers \cup {[adj |-> id, exp |-> dl]}         \* go func(){ sleep(adj.duration); ... }
             /\ dead' = dead
             /\ Finish(MkAct("adjust", [NoIn EXCEPT !.off = o, !.dur = d, !.freq = f], <<CFreq(w)>>, FALSE, 1, dl, epoch, now))
  /\ UNCHANGED <<kstatus, koff, ksteps, now, epoch, dotx, nadv>>

(* the goroutine started by Adjust, after sleep(): adj.clock.mu.Lock();                     *)
(* if adj == adj.clock.adjustment { setFrequency(log, adj.afterFreq) }                      *)
TimerFire(t) ==
  /\ t \in timers /\ t.exp <= now
  /\ DoAtomic => ~dotx.on
  /\ timers' = timers \ {t}
  /\ LET writes == IF Variant = "noident" THEN TRUE ELSE t.adj = cur
     IN /\ IF writes
           THEN /\ kfreq' = after[t.adj] /\ kfset' = TRUE
                /\ cur' = IF Variant = "clearfire" /\ t.adj = cur THEN 0 ELSE cur
           ELSE UNCHANGED <<kfreq, kfset, cur>>
        /\ Finish(MkAct("fire", [NoIn EXCEPT !.k = t.adj], IF writes THEN <<CFreq(after[t.adj])>> ELSE << >>,
                        FALSE, 0, 0, epoch, now))
  /\ UNCHANGED <<kstatus, koff, ksteps, now, epoch, after, dead, dotx, nops, nadv>>

(* func (c *SystemClock) Step(offset time.Duration)                                         *)
Step(o) ==
  /\ CallOk
  /\ nops' = nops + 1
  /\ LET restore == cur # 0 /\ Variant # "steplazy"
         calls == (IF restore THEN <<CFreq(after[cur])>> ELSE << >>) \o <<CSet(Timeval(o, QPS))>>
         ep == IF Variant = "noepoch" THEN epoch ELSE epoch + 1
     IN /\ kfreq' = IF restore THEN after[cur] ELSE kfreq
        /\ kfset' = (kfset \/ restore)
        /\ cur' = 0
        /\ ksteps' = ksteps + 1
        /\ now' = now + o                       \* the timers sleep on the clock that is stepped
        /\ epoch' = ep
        /\ Finish(MkAct("step", [NoIn EXCEPT !.off = o], calls, FALSE, 0, 0, ep, now + o))
  /\ UNCHANGED <<kstatus, koff, after, timers, dead, dotx, nadv>>

(* func (c *SystemClock) Epoch() uint64                                                     *)
ReadEpoch ==
  /\ CallOk
  /\ nops' = nops + 1
  /\ Finish(MkAct("epoch", NoIn, << >>, FALSE, 0, 0, epoch, now))
  /\ UNCHANGED <<kfreq, kfset, kstatus, koff, ksteps, now, epoch, cur, after, timers, dead, dotx, nadv>>

Advance(d) ==
  /\ nadv < MaxAdv
  /\ DoAtomic => ~dotx.on
  /\ nadv' = nadv + 1
  /\ now' = now + d
  /\ Finish(MkAct("advance", [NoIn EXCEPT !.d = d], << >>, FALSE, 0, 0, epoch, now + d))
  /\ UNCHANGED <<kfreq, kfset, kstatus, koff, ksteps, epoch, cur, after, timers, dead, dotx, nops>>

(* func (a *SysAdjustment) Do(offset time.Duration); st: the status word found in the       *)
(* kernel (set by whoever ran before).  Any call with ADJ_NANO switches the kernel to       *)
(* nanosecond resolution (STA_NANO).  A step by Do moves CLOCK_REALTIME as well; `now` is   *)
(* kept in quanta and Do is not combined with pending timers in the generated schedules, so *)
(* the spec leaves `now` alone here.                                                        *)
DoStep(o, st) ==
  /\ CallOk /\ ~dotx.on /\ Abs(o) > Thr
  /\ nops' = nops + 1
  /\ kstatus' = st \cup {NANO}
  /\ ksteps' = ksteps + 1
  /\ Finish(MkAct("do", [NoIn EXCEPT !.off = o, !.st = st], <<CSet(Timeval(o, DPS))>>, FALSE, 0, 0, epoch, now))
  /\ UNCHANGED <<kfreq, kfset, koff, now, epoch, cur, after, timers, dead, dotx, nadv>>

DoRead(o, st) ==                                   \* first clock_adjtime: modes = 0
  /\ CallOk /\ ~dotx.on /\ Abs(o) <= Thr
  /\ nops' = nops + 1
  /\ kstatus' = st
  /\ dotx' = [on |-> TRUE, off |-> o, st |-> st]
  /\ UNCHANGED <<kfreq, kfset, koff, ksteps, now, epoch, cur, after, timers, dead, act, pmon, mon, nadv, hist>>

DoWrite ==                                         \* second clock_adjtime: ADJ_OFFSET|ADJ_STATUS|ADJ_NANO
  /\ dotx.on
  /\ LET sw == StatusWritten(dotx.st)
         ks == ((kstatus \cap RONLY) \cup (sw \ RONLY)) \cup {NANO}
     IN /\ kstatus' = ks
        /\ koff' = IF PLL \in ks THEN dotx.off ELSE koff
        /\ Finish(MkAct("do", [NoIn EXCEPT !.off = dotx.off, !.st = dotx.st], <<CRead(dotx.st), COff(dotx.off, sw)>>,
                        FALSE, 0, 0, epoch, now))
  /\ dotx' = NoTx
  /\ UNCHANGED <<kfreq, kfset, ksteps, now, epoch, cur, after, timers, dead, nops, nadv>>

CONSTANT EpochReads
Next ==
  \/ \E o \in AdjOffs, d \in AdjDurs, f \in AdjFreqs : Adjust(o, d, f)
  \/ \E o \in StepOffs : Step(o)
  \/ EpochReads /\ ReadEpoch
  \/ \E t \in timers : TimerFire(t)
  \/ \E d \in Deltas : Advance(d)
  \/ \E o \in DoOffs, st \in DoStats : DoStep(o, st) \/ DoRead(o, st)
  \/ DoWrite

Spec == Init /\ [][Next]_vars

(***************************************************************************)
(* PROPERTY SECTION (our own statement of what this layer is for).  The    *)
(* clauses speak about one action a (inputs, the clock_adjtime calls it    *)
(* made in order, panic, timers armed, Epoch() afterwards) and the         *)
(* observer state before (m) and after (m2) it - nothing else.             *)
(*                                                                         *)
(*  TemporaryOnly     whenever no adjustment is pending (timer fired or    *)
(*                    Step) the frequency register holds the afterFreq of  *)
(*                    the last Adjust: the offset-cancelling term never    *)
(*                    outlives its duration                                *)
(*  SupersededSilent  a timer of a superseded or cleared adjustment makes  *)
(*                    no kernel call                                       *)
(*  Restore           the timer of the pending adjustment makes exactly    *)
(*                    one call: ADJ_FREQUENCY with its afterFreq           *)
(*  EpochCountsSteps  Epoch() = number of Step calls; Adjust and timers    *)
(*                    never change it                                      *)
(*  StepOrder         Step with a pending adjustment writes its afterFreq  *)
(*                    and then sets the offset (ADJ_SETOFFSET|ADJ_NANO,    *)
(*                    normalised timeval); without one it sets the offset  *)
(*                    (a preceding rewrite of the last afterFreq is        *)
(*                    tolerated here, see AtMostOneRestore)                *)
(*  FrequencyFormula  Adjust makes exactly one call, ADJ_FREQUENCY with    *)
(*                    frequency + offset / duration', duration' = the      *)
(*                    duration rounded down to whole seconds, at least     *)
(*                    1 s; a negative duration panics before any call      *)
(*  Duration          Adjust arms exactly one timer, for now + duration';  *)
(*                    nothing else arms timers                             *)
(*  Quiet             Epoch() and the passing of time make no kernel call  *)
(*  SysAdjustment     |offset| > 500 ms: exactly one call,                 *)
(*                    ADJ_SETOFFSET|ADJ_NANO with the normalised timeval;  *)
(*                    otherwise exactly two: a read and                    *)
(*                    ADJ_OFFSET|ADJ_STATUS|ADJ_NANO with offset and       *)
(*                    status = (status read | PLL | NANO) minus read-only  *)
(*                    bits minus FREQHOLD                                  *)
(*  AtMostOneRestore  (OBSERVATION - does not hold for the code as it is)  *)
(*                    the afterFreq of an adjustment is written at most    *)
(*                    once, by its timer or by Step.  The timer goroutine  *)
(*                    leaves c.adjustment in place, so a Step after the    *)
(*                    expiry writes it a second time.                      *)
(* Nothing is claimed about the actions after a panic.                     *)
(***************************************************************************)
TemporaryOnlyP(m2) == (m2.nadj > 0 /\ m2.pend = 0 /\ ~m2.crashed) => (m2.kfw /\ m2.kf = m2.aft)
SupersededSilentP(m, a) == (a.a = "fire" /\ a.k # m.pend) => a.calls = << >>
RestoreP(m, a) == (a.a = "fire" /\ a.k = m.pend /\ a.k \in 1 .. m.nadj) => a.calls = <<CFreq(m.afts[a.k])>>
EpochCountsStepsP(a, m2) == a.ep = m2.nstep
StepOrderP(m, a) ==
  a.a = "step" =>
    LET S == CSet(Timeval(a.off, QPS))
    IN IF m.pend # 0 THEN a.calls = <<CFreq(m.aft), S>>
       ELSE a.calls = <<S>> \/ (m.nadj > 0 /\ a.calls = <<CFreq(m.aft), S>>)
FrequencyFormulaP(a) ==
  a.a = "adjust" =>
    IF a.dur < 0 THEN a.panic /\ a.calls = << >>
    ELSE /\ ~a.panic
         /\ Len(a.calls) = 1
         /\ a.calls[1].m = "freq"
         /\ Divisible(a.off, RoundDur(a.dur)) => a.calls[1] = CFreq(AdjFreq(a.freq, a.off, RoundDur(a.dur)))
DurationP(m, a) ==
  IF a.a = "adjust" /\ a.dur >= 0 THEN a.armed = 1 /\ a.deadline = m.clk + RoundDur(a.dur) * QPS
  ELSE a.armed = 0
QuietP(a) == a.a \in {"epoch", "advance"} => a.calls = << >>
SysAdjustmentP(a) ==
  a.a = "do" =>
    IF Abs(a.off) > Thr THEN a.calls = <<CSet(Timeval(a.off, DPS))>>
    ELSE /\ Len(a.calls) = 2
         /\ a.calls[1] = CRead(a.calls[1].st)
         /\ a.calls[2] = COff(a.off, StatusWritten(a.calls[1].st))
AtMostOneRestoreP(m2) == \A i \in 1 .. Len(m2.rest) : m2.rest[i] <= 1

ClauseNames == <<"TemporaryOnly", "SupersededSilent", "Restore", "EpochCountsSteps", "StepOrder",
                 "FrequencyFormula", "Duration", "Quiet", "SysAdjustment">>
\* nothing is claimed about what happens after a call has panicked (the process is gone)
Holds(c, m, a, m2) ==
  m.crashed \/
  CASE c = "TemporaryOnly"    -> TemporaryOnlyP(m2)
    [] c = "SupersededSilent" -> SupersededSilentP(m, a)
    [] c = "Restore"          -> RestoreP(m, a)
    [] c = "EpochCountsSteps" -> EpochCountsStepsP(a, m2)
    [] c = "StepOrder"        -> StepOrderP(m, a)
    [] c = "FrequencyFormula" -> FrequencyFormulaP(a)
    [] c = "Duration"         -> DurationP(m, a)
    [] c = "Quiet"            -> QuietP(a)
    [] c = "SysAdjustment"    -> SysAdjustmentP(a)

\* on the specification (TLC): one invariant per clause
TemporaryOnly    == TemporaryOnlyP(mon)
SupersededSilent == SupersededSilentP(pmon, act)
Restore          == RestoreP(pmon, act)
EpochCountsSteps == EpochCountsStepsP(act, mon)
StepOrder        == StepOrderP(pmon, act)
FrequencyFormula == FrequencyFormulaP(act)
Duration         == DurationP(pmon, act)
Quiet            == QuietP(act)
SysAdjustment    == SysAdjustmentP(act)
AtMostOneRestore == AtMostOneRestoreP(mon)
X04 == \A i \in 1 .. Len(ClauseNames) : Holds(ClauseNames[i], pmon, act, mon)

(***************************************************************************)
(* Facts about the specification itself (decided by TLC, not judged on the *)
(* code): the observer's notions agree with the implementation's state,    *)
(* and the end-to-end effect of the slew branch of Do on the kernel.       *)
(***************************************************************************)
\* a pending adjustment is c.adjustment; the register is what the observer believes; one goroutine per adjustment
Ghost ==
  /\ mon.pend # 0 => cur = mon.pend
  /\ mon.kf = kfreq /\ mon.kfw = kfset /\ mon.clk = now /\ mon.nadj = Len(after) /\ mon.afts = after
  /\ cur \in 0 .. Len(after)
  /\ \A t \in timers : t.adj \in 1 .. Len(after)
  /\ \A t1, t2 \in timers : t1.adj = t2.adj => t1 = t2
  /\ mon.pend # 0 => \E t \in timers : t.adj = mon.pend
\* after an uninterrupted slew by Do the kernel is in PLL mode without FREQHOLD, has accepted the offset,
\* and no other status bit changed (STA_NANO is switched on by ADJ_NANO)
SlewEffective ==
  (act.a = "do" /\ Abs(act.off) <= Thr /\ ~dotx.on /\ DoAtomic) =>
     /\ PLL \in kstatus /\ FREQHOLD \notin kstatus /\ koff = act.off
     /\ kstatus \ {PLL, FREQHOLD, NANO} = act.st \ {PLL, FREQHOLD, NANO}
=============================================================================
