SPECIFICATION FairSpec
CONSTANTS
  MaxClocks = 3
  Rounds = 1
  DVals = {1, 2, 3}
  Overlap = TRUE
  Hist = FALSE
  Fault = "norestore"
INVARIANTS ByDeadline ExactlyOncePrefix InTimeCounted NoStuckLeak SecondCallRefused CounterRestored
PROPERTIES NoLeak
