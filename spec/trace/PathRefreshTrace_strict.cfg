SPECIFICATION StrSpec
INVARIANTS SExplained STime SExpected
