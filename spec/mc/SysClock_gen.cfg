SPECIFICATION GenSpec
CONSTANTS
  QPS = 512
  G = 8192
  DPS = 1000000000
  Variant = "code"
  AdjOffs <- OffsA1
  AdjDurs <- DursA2
  AdjFreqs <- FreqsA2
  StepOffs <- StepsA2
  Deltas <- DeltaA2
  DoOffs <- None
  DoStats <- None
  MaxOps = 1000
  MaxAdv = 1000
  DoAtomic = TRUE
  KeepHist = TRUE
  EpochReads = TRUE
  MaxLen = 4
INVARIANTS Emit
