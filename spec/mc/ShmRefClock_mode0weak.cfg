SPECIFICATION Spec
CONSTANTS
  WriterKind = "proto"
  Mode = 0
  NSamples = 2
  MaxCalls = 2
  MaxRetries = 1
  DlKinds <- DlBoth
  ReadOrder <- AddrOrder
  AtomicAttempt = FALSE
  RecordHist = FALSE
  SModes <- ModesSmall
  SValids <- ValidsSmall
  SPairs <- PairsSmall
  SCounts = {7}
INVARIANTS X03ShmWeak NoDoubleUse
