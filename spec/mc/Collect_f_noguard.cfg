SPECIFICATION FairSpec
CONSTANTS
  MaxClocks = 3
  Overlap = TRUE
  Fault = "noguard"
INVARIANTS ByDeadline ExactlyOncePrefix InTimeCounted NoStuckLeak SecondCallRefused CounterRestored
PROPERTIES NoLeak
