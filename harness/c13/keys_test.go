// Key regime "drkey" (no USE_MOCK_KEYS): the host-to-host key is a function of
// (server ISD-AS, client ISD-AS, server host, client host). Each worker runs one
// REAL listener loop (server.VerifRunSCIONServer: runSCIONServer with
// scion.NewFetcher over a DRKey daemon of the harness) and replays the
// sequences TLC enumerated from ScionAuth.tla (ScionAuth_genkeys*.cfg): requests
// whose MAC was computed under the key of this pair / another server host /
// another client host / another ISD-AS, in orders that first fill the listener's
// key cache with another host's key. The real SCIONClient (DRKey fetcher over the
// same daemon) measures against the same listener through the relay.
//
// Time: the daemon's keys have validity epochs (ScionAuth.tla: clock, EpochOf); the
// sequences say in which epoch each request arrives and which epoch's key its MAC was
// computed with; see runSeq for how an epoch boundary is placed between two requests.
package c13

import (
	"context"
	"crypto/sha256"
	"log/slog"
	"math/rand"
	"net"
	"net/netip"
	"os"
	"strconv"
	"sync"
	"sync/atomic"
	"testing"
	"time"

	"github.com/prometheus/client_golang/prometheus"
	"github.com/scionproto/scion/pkg/addr"
	"github.com/scionproto/scion/pkg/daemon"
	"github.com/scionproto/scion/pkg/drkey"
	"github.com/scionproto/scion/pkg/drkey/generic"
	"github.com/scionproto/scion/pkg/scrypto/cppki"

	"example.com/scion-time/core/server"
	"example.com/scion-time/core/timebase"
	"example.com/scion-time/driver/clocks"
	"example.com/scion-time/net/ntske"

	"verif/harness/internal/vio"
)

const protoTS = 123 // DRKey protocol number of the time service (ScionAuth.tla!DRKeyProtocolTS)

// host-AS key of (server IA, client IA, server host) in key epoch ep: what a
// control service would derive; here a hash of the metadata and the epoch
func hostASKey(proto drkey.Protocol, srvIA, cliIA addr.IA, srvHost string, ep int) drkey.Key {
	h := sha256.Sum256([]byte("c13|" + proto.String() + "|" + srvIA.String() + "|" + cliIA.String() + "|" + srvHost +
		"|" + strconv.Itoa(ep)))
	var k drkey.Key
	copy(k[:], h[:])
	return k
}

func hostHostKey(proto drkey.Protocol, srvIA, cliIA addr.IA, srvHost, cliHost string, ep int) drkey.Key {
	k, err := (&generic.Deriver{Proto: proto}).DeriveHostHost(cliHost, hostASKey(proto, srvIA, cliIA, srvHost, ep))
	if err != nil {
		panic(err)
	}
	return k
}

// The harness's DRKey daemon: only the two calls net/scion/drkey.go makes.
// Keys have validity epochs (ScionAuth.tla: time and key epochs): per client
// ISD-AS the daemon keeps the epoch boundaries B_1 < B_2 < ...; epoch k consists
// of the instants B_k .. B_(k+1) - 1 ns (epoch 0 begins long before B_1, the
// last one ends long after its beginning), every epoch has its own keys, and a
// request for instant t is answered with the key and the validity of the epoch
// that contains t. An ISD-AS without boundaries has one epoch, 0.
// A boundary is laid down before any key of the epoch it ends is handed out.
type keyDaemon struct {
	daemon.Connector
	hostAS   atomic.Int64 // DRKeyGetHostASKey calls
	hostHost atomic.Int64
	mu       sync.Mutex
	base     time.Time
	bounds   map[addr.IA][]time.Time
}

const farAway = 24 * time.Hour

func newKeyDaemon() *keyDaemon {
	return &keyDaemon{base: time.Now().Round(0), bounds: map[addr.IA][]time.Time{}}
}

// lays down boundary B_k of the client ISD-AS (k = 1, 2, ... in order)
func (d *keyDaemon) setBound(ia addr.IA, k int, t time.Time) {
	d.mu.Lock()
	defer d.mu.Unlock()
	b := d.bounds[ia]
	if k != len(b)+1 || (len(b) > 0 && !t.After(b[len(b)-1])) {
		panic("epoch boundaries out of order")
	}
	d.bounds[ia] = append(b, t.Round(0))
}

func (d *keyDaemon) forget(ia addr.IA) {
	d.mu.Lock()
	delete(d.bounds, ia)
	d.mu.Unlock()
}

// highest epoch number of the client ISD-AS
func (d *keyDaemon) lastEpoch(ia addr.IA) int {
	d.mu.Lock()
	defer d.mu.Unlock()
	return len(d.bounds[ia])
}

// the epoch that contains t
func (d *keyDaemon) epochAt(ia addr.IA, t time.Time) (int, drkey.Epoch) {
	d.mu.Lock()
	defer d.mu.Unlock()
	return epochIn(d.base, d.bounds[ia], t)
}

func epochIn(base time.Time, b []time.Time, t time.Time) (int, drkey.Epoch) {
	k := 0
	for k < len(b) && !t.Before(b[k]) {
		k++
	}
	first := base
	if len(b) > 0 {
		first = b[0]
	}
	v := cppki.Validity{NotBefore: first.Add(-farAway), NotAfter: first.Add(farAway)}
	if k > 0 {
		v.NotBefore = b[k-1]
		v.NotAfter = b[k-1].Add(farAway)
	}
	if k < len(b) {
		v.NotAfter = b[k].Add(-time.Nanosecond)
	}
	return k, drkey.Epoch{Validity: v}
}

func (d *keyDaemon) DRKeyGetHostASKey(ctx context.Context, meta drkey.HostASMeta) (drkey.HostASKey, error) {
	d.hostAS.Add(1)
	ep, epoch := d.epochAt(meta.DstIA, meta.Validity)
	return drkey.HostASKey{ProtoId: meta.ProtoId, Epoch: epoch, SrcIA: meta.SrcIA, DstIA: meta.DstIA,
		SrcHost: meta.SrcHost, Key: hostASKey(meta.ProtoId, meta.SrcIA, meta.DstIA, meta.SrcHost, ep)}, nil
}

func (d *keyDaemon) DRKeyGetHostHostKey(ctx context.Context, meta drkey.HostHostMeta) (drkey.HostHostKey, error) {
	d.hostHost.Add(1)
	ep, epoch := d.epochAt(meta.DstIA, meta.Validity)
	return drkey.HostHostKey{ProtoId: meta.ProtoId, Epoch: epoch, SrcIA: meta.SrcIA, DstIA: meta.DstIA,
		SrcHost: meta.SrcHost, DstHost: meta.DstHost,
		Key: hostHostKey(meta.ProtoId, meta.SrcIA, meta.DstIA, meta.SrcHost, meta.DstHost, ep)}, nil
}

// the key functions of the packet examiner (pkt_test.go) over this daemon
func (d *keyDaemon) bind(w *world) {
	w.keyEp = func(srvIA, cliIA addr.IA, srvHost, cliHost netip.Addr, ep int) []byte {
		k := hostHostKey(protoTS, srvIA, cliIA, srvHost.String(), cliHost.String(), ep)
		return k[:]
	}
	w.keyFn = func(srvIA, cliIA addr.IA, srvHost, cliHost netip.Addr) []byte {
		ep, _ := d.epochAt(cliIA, time.Now())
		return w.keyEp(srvIA, cliIA, srvHost, cliHost, ep)
	}
	w.epRange = func(cliIA addr.IA) (int, int) { return 0, d.lastEpoch(cliIA) }
}

// one step of a sequence as printed by ScionAuthMC!EmitSeq
type kstep struct {
	Sia    string `json:"sia"`
	Sh     string `json:"sh"`
	Dh     string `json:"dh"`
	Ak     string `json:"ak"`
	At     int    `json:"at"`
	Ep     int    `json:"ep"`
	Pos    int    `json:"pos"`
	Cst    string `json:"cst"`
	Macok  bool   `json:"macok"`
	Asked  bool   `json:"asked"`
	Exp    bool   `json:"exp"`
	Fetch  bool   `json:"fetch"`
	Wact   string `json:"wact"`
	Wauthd bool   `json:"wauthd"`
}

type kcase struct {
	T     string  `json:"t"` // "seq" | "e2e"
	Elen  int     `json:"elen"`  // seq: instants per epoch in the generating configuration
	Scale string  `json:"scale"` // seq, fetcher level: length of an epoch ("" = not replayed at that level)
	Steps []kstep `json:"steps"`
	// e2e
	Rm string `json:"rm"`
}

var iaSeq atomic.Uint64

func otherOf(x string) string {
	switch x {
	case "S":
		return "D"
	case "D":
		return "S"
	case "C":
		return "C2"
	case "C2":
		return "C"
	case "iaC":
		return "iaC2"
	case "iaC2":
		return "iaC"
	}
	return x
}

// Replays one sequence at the live listener. Model epochs are realised as epochs of
// the harness's DRKey daemon for the sequence's (fresh) client ISD-AS numbers: when the
// first datagram of an epoch is about to be sent and a later one arrives in a later
// epoch, the end of the current epoch is laid down `gap` ahead (so that the key handed
// out for it carries its true validity) and the datagrams of later epochs wait for
// their boundary to pass. The listener takes the kernel's receive time; the epoch a
// datagram was received in is known when the daemon's epoch is the same before it is
// sent and after the listener has answered the sentinel behind it (otherwise: amb).
// late: a datagram could not be sent within its epoch (the sequence stops there).
func (h *harness) runSeq(id int, c *kcase, kd *keyDaemon, rng *rand.Rand, gap time.Duration) (recs []*rec, late bool) {
	const mode = "server"
	// fresh client ISD-AS numbers: the listener's cache holds nothing for them
	n := iaSeq.Add(2)
	ias := map[string]addr.IA{"iaS": iaS,
		"iaC":  addr.MustIAFrom(1, addr.AS(0xff0000010000+n)),
		"iaC2": addr.MustIAFrom(1, addr.AS(0xff0000010001+n))}
	defer kd.forget(ias["iaC"])
	defer kd.forget(ias["iaC2"])
	pm := portMap{srv: h.w.srvPort, oth: -1, ias: map[addr.IA]string{}}
	for l, ia := range ias {
		pm.ias[ia] = l
	}
	P := h.listen(h.w.ipP)
	defer P.Close()
	pm.cp = 31000 + rng.Intn(1000)
	dst := udpAddr(h.w.ipS[mode], h.w.srvPort)
	var lastBound time.Time
	for i := range c.Steps {
		st := &c.Steps[i]
		r := &rec{K: "key", ID: id, Seq: id, Step: i + 1, Sub: -1, Rsub: -1, Mode: mode, Ak: st.Ak, Pl0: "ntp", Outs: []adgram{},
			Rm: "-", Cli: "-", WFetch: st.Fetch, WExp: st.Exp, WAct: st.Wact, At: st.At, Pos: st.Pos, Cst: st.Cst, WMacOK: st.Macok,
			Scale: "-"}
		first := i == 0 || st.Ep > c.Steps[i-1].Ep
		if first && i > 0 {
			// the boundaries up to this epoch were laid down at the first datagram of the previous one
			time.Sleep(time.Until(lastBound.Add(gap / 8)))
		}
		if first {
			inEpoch, next := 0, -1
			for j := i; j < len(c.Steps) && next < 0; j++ {
				if c.Steps[j].Ep == st.Ep {
					inEpoch++
				} else {
					next = c.Steps[j].Ep
				}
			}
			if next >= 0 {
				b := time.Now().Add(gap + time.Duration(inEpoch)*gap/4)
				for k := st.Ep + 1; k <= next; k++ {
					kd.setBound(ias["iaC"], k, b)
					kd.setBound(ias["iaC2"], k, b)
					lastBound = b
					b = b.Add(2 * time.Millisecond) // (epochs nobody arrives in are short)
				}
			}
		}
		// the tuple and the epoch whose key the MAC is computed with
		ksia, ksh, kdh, kep := st.Sia, st.Sh, st.Dh, st.Ep
		switch st.Ak {
		case "keyOtherSrv":
			kdh = otherOf(kdh)
		case "keyOtherCli":
			ksh = otherOf(ksh)
		case "keyOtherIA":
			ksia = otherOf(ksia)
		case "keyPrevEpoch":
			kep--
		case "keyNextEpoch":
			kep++
		case "valid":
		default:
			panic("ak " + st.Ak)
		}
		key := hostHostKey(protoTS, iaS, ias[ksia], h.w.host(mode, kdh, 4).String(), h.w.host(mode, ksh, 4).String(), kep)
		s := &pktSpec{srcIA: ias[st.Sia], dstIA: iaS, srcHost: h.w.host(mode, st.Sh, 4), dstHost: h.w.host(mode, st.Dh, 4),
			sport: uint16(pm.cp), dport: uint16(h.w.srvPort), path: emptyPath, l4: "udp", payload: ntpRequest(0x23, h.tag(), rng),
			flow: uint32(rng.Intn(1 << 20)), auth: &authSpec{spi: spiClient, algo: algCMAC, key: key[:]}}
		wire := build(s, rng)
		q, qp := h.w.project(mode, wire, pm)
		q.Ul, q.Pl = "srv", "ntp"
		r.HasAuth = q.Auth != "absent"
		r.Expected = q.Aspi == "client" && q.Aalgo == "cmac"
		lo := layoutOf(wire)
		reqPath := typedPath{lo.pathType, append([]byte{}, wire[lo.pathOff:lo.hdrLen]...)}
		reqPl := append([]byte{}, qp.l4Payload()...)
		swire, mark := h.sentinelFor(mode, P, rng)
		before := kd.hostAS.Load()
		eb, _ := kd.epochAt(ias[st.Sia], time.Now())
		if eb != st.Ep {
			return recs, true // too late for this datagram's epoch
		}
		P.WriteToUDP(wire, dst)
		P.WriteToUDP(swire, dst)
		P.SetReadDeadline(time.Now().Add(sentinelWait))
		buf := make([]byte, 16384)
		for r.Sn == 0 && len(r.Outs) < 16 {
			nb, from, err := P.ReadFromUDP(buf)
			if err != nil {
				break
			}
			b := append([]byte{}, buf[:nb]...)
			if isSentinelReply(b, mark) {
				r.Sn = 1
				break
			}
			r.Outs = append(r.Outs, h.observe(mode, b, from, "prev", pm, reqPl, reqPl[40:48], reqPath, reqPath, "ntp"))
		}
		ea, _ := kd.epochAt(ias[st.Sia], time.Now())
		r.Ep, r.Amb = eb, ea != eb
		// "verifies under the host-to-host key": under the key of the epoch of arrival
		inEp := func(d *adgram) {
			if d.Auth == "ok" || d.Auth == "bad" {
				d.Auth = "bad"
				for _, e := range d.Vep {
					if e == r.Ep {
						d.Auth = "ok"
					}
				}
			}
		}
		inEp(&q)
		for j := range r.Outs {
			inEp(&r.Outs[j])
		}
		r.Q = q
		r.MacOK = q.Auth == "ok"
		r.Fetches = int(kd.hostAS.Load() - before)
		r.Tries = 1
		recs = append(recs, r)
		if r.Sn == 0 || r.Amb {
			break // the rest of the sequence would meet an unknown cache
		}
	}
	return recs, false
}

// The real client measures before and after an epoch boundary of its ISD-AS: the first
// exchange leaves the key of the ending epoch in the listener's cache, the second one is
// made with the new epoch's key on both sides (the client asks the daemon for its transmit
// time, the listener for its receive time). An exchange during which the boundary passed
// is marked (amb) and not judged.
func (h *harness) runE2EEpoch(id int, c *kcase, kd *keyDaemon, rng *rand.Rand, gap time.Duration) []*rec {
	tc := &tcase{T: "e2e", Mode: "server", Ul: "srv", L4: "udp", Dp: "srv", Dh: "S", Sfam: 4, Dfam: 4,
		Path: emptyPath, Pl: "ntp", Ak: "valid", Ext: "e2e", Rext: "e2e", Cauth: true, Rm: c.Rm}
	// a client ISD-AS of its own: the boundary is laid down before any of its keys is handed out
	tc.cia = addr.MustIAFrom(1, addr.AS(0xff0000010000+iaSeq.Add(2)))
	defer kd.forget(tc.cia)
	b := time.Now().Add(2 * gap)
	kd.setBound(tc.cia, 1, b)
	eb, _ := kd.epochAt(tc.cia, time.Now())
	r1 := h.runE2EOne(id, tc, -1, -1, rng).r
	ea, _ := kd.epochAt(tc.cia, time.Now())
	r1.Ep, r1.Amb, r1.Cst = eb, ea != eb, "cold"
	time.Sleep(time.Until(b.Add(gap / 8)))
	r2 := h.runE2EOne(id, tc, -1, -1, rng).r
	r2.Ep, _ = kd.epochAt(tc.cia, time.Now())
	r2.Cst = "prevEpoch"
	if r1.Amb || r1.Sn != 1 {
		r2.Cst = "-"
	}
	return []*rec{r1, r2}
}

func TestC13Keys(t *testing.T) {
	if v := os.Getenv("USE_MOCK_KEYS"); v == "true" || v == "TRUE" {
		t.Fatal("USE_MOCK_KEYS must not be set for the key-regime driver")
	}
	cases := vio.ReadCases[kcase](t)
	out := vio.Create(t)
	defer out.Close()
	timebase.RegisterClock(clocks.NewSystemClock(slog.New(slog.DiscardHandler), clocks.UnknownDrift))
	hsh := uint32(os.Getpid())*2654435761 ^ uint32(time.Now().UnixNano())
	base := net.IPv4(127, byte(1+(hsh>>8)%250), byte(hsh>>16), 0).To4()
	mk := func(last byte) net.IP { ip := append(net.IP{}, base...); ip[3] = last; return ip }
	w0 := world{ipS: map[string]net.IP{"server": mk(1), "dispatcher": mk(2)}, ipC: mk(3), ipP: mk(4), ipD: mk(5), ipC2: mk(6)}
	log := slog.New(slog.DiscardHandler)
	if os.Getenv("C13_LOG") != "" {
		log = slog.New(slog.NewTextHandler(os.Stderr, &slog.HandlerOptions{Level: slog.LevelDebug}))
	}
	const workers = 12
	hs := make([]*harness, workers)
	kds := make([]*keyDaemon, workers)
	for w := 0; w < workers; w++ {
		// one real listener loop per worker: its own socket, fetcher and key cache
		conn, err := net.ListenUDP("udp4", &net.UDPAddr{IP: w0.ipS["server"]})
		if err != nil {
			t.Fatal(err)
		}
		if portOf(conn) == endhostPort {
			w--
			conn.Close()
			continue
		}
		kd := newKeyDaemon()
		h := &harness{w: w0, dc: kd, grace: 3 * time.Millisecond}
		kd.bind(&h.w)
		h.w.srvPort = portOf(conn)
		// the loop registers its counters on the default registerer when it starts
		prometheus.DefaultRegisterer = prometheus.NewRegistry()
		go server.VerifRunSCIONServer(context.Background(), log, conn, h.w.srvPort, 0, kd, ntske.NewProvider())
		P := h.listen(h.w.ipP)
		swire, mark := h.sentinelFor("server", P, rand.New(rand.NewSource(int64(w))))
		up := false
		for try := 0; try < 50 && !up; try++ {
			P.WriteToUDP(swire, udpAddr(h.w.ipS["server"], h.w.srvPort))
			for _, x := range drain(P, 100*time.Millisecond) {
				up = up || isSentinelReply(x.b, mark)
			}
		}
		P.Close()
		if !up {
			t.Logf("C13K records=0 seq=0 e2e=0 lost=1 aborted=1")
			return
		}
		hs[w], kds[w] = h, kd
	}
	prometheus.DefaultRegisterer = prometheus.NewRegistry()

	var wg sync.WaitGroup
	var lost, nseq, nstep, ne2e, nlate, ngaveup atomic.Int64
	for w := 0; w < workers; w++ {
		wg.Add(1)
		go func(w int) {
			defer wg.Done()
			rng := rand.New(rand.NewSource(vio.Seed()*1000 + int64(w)))
			for i := w; i < len(cases); i += workers {
				if lost.Load() > 24 {
					return
				}
				c := &cases[i]
				var rs []*rec
				if c.T == "e2eep" {
					rs = hs[w].runE2EEpoch(i, c, kds[w], rng, 60*time.Millisecond)
					ne2e.Add(int64(len(rs)))
				} else if c.T == "e2e" {
					tc := &tcase{T: "e2e", Mode: "server", Ul: "srv", L4: "udp", Dp: "srv", Dh: "S", Sfam: 4, Dfam: 4,
						Path: emptyPath, Pl: "ntp", Ak: "valid", Ext: "e2e", Rext: "e2e", Cauth: true, Rm: c.Rm}
					r := hs[w].runE2EOne(i, tc, -1, -1, rng).r
					rs = []*rec{r}
					ne2e.Add(1)
				} else {
					// a sequence that fell behind its epochs is run again with longer epochs
					gap := 60 * time.Millisecond
					for try := 0; ; try++ {
						part, late := hs[w].runSeq(i, c, kds[w], rng, gap)
						rs = append(rs, part...)
						if !late {
							break
						}
						nlate.Add(1)
						if try == 2 {
							ngaveup.Add(1)
							break
						}
						gap *= 3
					}
					nseq.Add(1)
					nstep.Add(int64(len(rs)))
				}
				for _, r := range rs {
					if r.Sn != 1 {
						lost.Add(1)
					}
					out.Emit(r)
				}
			}
		}(w)
	}
	wg.Wait()
	t.Logf("C13K records=%d seq=%d e2e=%d lost=%d aborted=0 late=%d gaveup=%d", nstep.Load()+ne2e.Load(), nseq.Load(), ne2e.Load(),
		lost.Load(), nlate.Load(), ngaveup.Load())
}
