SPECIFICATION Spec
CONSTANTS
  Servers = {"A"}
  B0s <- B0Env2
  Shapes <- ShapesEnv2
  Vias <- ViasEnv
  MaxInject = 2
  Spoof = FALSE
  Confs <- ConfsAll
  Stores <- StoresEnv2
  Ancs <- AncsAll
  SrcPorts <- SrcPortsTwo
  RestoreAtTop = TRUE
CONSTRAINTS EnvSecond
INVARIANTS ReplyIffValid ExactlyOne ToSender ReplyHeader NeverAnswersReply BoundedTraffic HistoryIndependence StoreSane
