SPECIFICATION Spec
CONSTANTS
  W = 6
  MaxN = 3
  K = 2
  Bands <- Bands2
  Far <- FarHi
  Variants <- VarDur
  Shared = TRUE
  SortedInputs = FALSE
INVARIANTS CContain
