package c03

// What the client did with a datagram the harness handed to its socket, learned
// WITHOUT the client's log: from the measurement call itself (it returned /
// its goroutines are parked again), from the wire (the client's next request
// arrived; the socket the datagram went to is gone / has been read empty) and
// from the client's exported seams (its measurements.Filter, the verif hook
// VerifPrev). Log records with the names known today are only classified for an
// optional cross-check (strict section); their absence changes nothing.

import (
	"fmt"
	"net/netip"
	"strings"
	"sync"
	"time"

	"example.com/scion-time/core/client"
	"example.com/scion-time/net/ntp"

	"verif/harness/c03/react"
)

// ------------------------------------------------------------------ filter

// FilterCall: one invocation of the client's filter = one accepted exchange,
// with the four timestamps the client combined.
type FilterCall struct {
	T0, T1, T2, T3 time.Time
	Off            time.Duration // what the filter returned: the repository's ntp.ClockOffset of the four
}

// RecFilter is a pass-through measurements.Filter that records its calls.
type RecFilter struct {
	mu    sync.Mutex
	calls []FilterCall
}

func (f *RecFilter) Do(t0, t1, t2, t3 time.Time) time.Duration {
	off := ntp.ClockOffset(t0, t1, t2, t3)
	f.mu.Lock()
	f.calls = append(f.calls, FilterCall{t0, t1, t2, t3, off})
	f.mu.Unlock()
	return off
}
func (f *RecFilter) Reset() {}

// Take returns the calls recorded since the last Take.
func (f *RecFilter) Take() []FilterCall {
	if f == nil {
		return nil
	}
	f.mu.Lock()
	defer f.mu.Unlock()
	c := f.calls
	f.calls = nil
	return c
}

// ---------------------------------------------------------------- arrivals

// TakeArrival: the next request of the client already off the wire, if any.
func (n *Net) TakeArrival() (Arrival, bool) {
	if n.stash != nil {
		a := *n.stash
		n.stash = nil
		return a, true
	}
	select {
	case a := <-n.Arrivals:
		return a, true
	default:
		return Arrival{}, false
	}
}

// WaitArrival waits for the client's next request (d at most); done reports
// that the running call returned instead.
func (n *Net) WaitArrival(d time.Duration) (a Arrival, ok, done bool) {
	if a, ok := n.TakeArrival(); ok {
		return a, true, false
	}
	var cur chan MeasureResult = n.cur // nil channel: never ready
	select {
	case a := <-n.Arrivals:
		return a, true, false
	case r := <-cur:
		n.cur, n.Last = nil, r
		// a request sent before the return is on the wire already
		if a, ok := n.TakeArrival(); ok {
			n.stash = &a
		}
		return Arrival{}, false, true
	case <-time.After(d):
		return Arrival{}, false, false
	}
}

// DropArrivals forgets requests nobody is going to answer.
func (n *Net) DropArrivals() {
	for {
		if _, ok := n.TakeArrival(); !ok {
			return
		}
	}
}

func (n *Net) HasArrival() bool { return n.stash != nil || len(n.Arrivals) > 0 }

// ---------------------------------------------------------------- reaction

// Reaction of the client to one delivered datagram.
type Reaction struct {
	Got   string // ok | skip | error | ignored | panic
	Why   string // ignored: "nocall" (no call was running) | "deadline" (the call returned without a measurement at its deadline) | "pending" (the client's next request is out already) | "closed" (no socket at the address) | "unread" (nobody read it)
	Final bool   // the measurement call returned (n.Last is its result)
	// lower / upper bound (harness clock = client clock) of the instant the client's
	// socket took the datagram in: handed to the kernel .. evidence of the reaction seen
	Del, Seen time.Time
	Calls     []FilterCall     // filter invocations during the attempt
	ByRet     bool             // ok because the call returned a measurement time-stamped in [Del, Seen]
	ByPrev    bool             // ok because the client's interleaved state carries a receive time in [Del, Seen]
	Prev      client.VerifPrev // the client's interleaved state after the reaction (attempt ended only)
	Log       string           // class according to log records with the known names ("" = none seen)
	LogRecs   reaction
	Settle    time.Duration // waited for the call to park before the delivery
	Polls     int           // rounds of looking for evidence after it
}

// slackIn: x in [lo, hi], both bounds widened by slack
func slackIn(x, lo, hi time.Time) bool {
	return !x.Before(lo.Add(-slack)) && !x.After(hi.Add(slack))
}

const (
	settleMax  = 30 * time.Millisecond  // waiting for the call to park before a delivery (best effort)
	unreadMax  = 300 * time.Millisecond // a datagram nobody reads for so long is "ignored"
	lastResort = 40 * time.Millisecond  // read empty, socket open, goroutine states unusable: skip after this
)

// parkedNow: every goroutine of the running call is blocked (one of them in
// network I/O) and no request of it is on its way to the harness.
func (n *Net) parkedNow() (parked, present bool) {
	p, present := n.callParked()
	if !p {
		return false, present
	}
	return !n.HasArrival(), present
}

// callParked: as parkedNow, but requests already off the wire do not matter.
func (n *Net) callParked() (parked, present bool) {
	s := react.Goroutines()
	p, present := s.Parked(n.root)
	if !p {
		return false, present
	}
	if st, ok := s.State(n.rl.Load()); !ok || !strings.HasPrefix(st, "IO wait") {
		return false, present // the reader of the network endpoint holds (or is about to hold) a datagram
	}
	return true, present
}

// Watch hands a datagram to the socket at dst with send (which returns a lower
// bound of the instant the datagram entered the kernel) and decides, from
// causal evidence only, what the client did with it.
func (n *Net) Watch(dst netip.AddrPort, send func() (time.Time, error)) (Reaction, error) {
	var r Reaction
	if !n.Calling() {
		// no call is running: nobody can read the datagram
		del, err := send()
		r.Got, r.Why, r.Del, r.Seen = "ignored", "nocall", del, time.Now()
		return r, err
	}
	if n.HasArrival() {
		// a request of the client is waiting to be taken up by the schedule: the attempt
		// the datagram was meant for is over already, and the next arrival could not
		// be told from this one
		del, err := send()
		r.Got, r.Why, r.Del, r.Seen = "ignored", "pending", del, time.Now()
		return r, err
	}
	// before: let the call park (it has then finished reading its transmit
	// timestamp), so that the socket's receive accounting is stable
	t0 := time.Now()
	for {
		if p, present := n.callParked(); p || !present || time.Since(t0) > settleMax {
			break
		}
		time.Sleep(100 * time.Microsecond)
	}
	r.Settle = time.Since(t0)
	st, err := react.UDPSure(dst, n.N.addr())
	if err != nil {
		return r, err
	}
	before := st[0]
	if n.Poll(); !n.Calling() {
		// the call returned while the harness was getting ready (its deadline)
		del, err := send()
		r.Got, r.Why, r.Del, r.Seen = "ignored", "nocall", del, time.Now()
		return r, err
	}
	n.Filter.Take() // (nothing is expected here)
	n.logClass()    // forget log records of earlier events
	del, err := send()
	if err != nil {
		return r, err
	}
	r.Del = del
	if !before.Open {
		r.Got, r.Why, r.Seen = "ignored", "closed", time.Now()
		return r, nil
	}
	start := time.Now()
	var emptySince, unreadSince time.Time
	sleep := 30 * time.Microsecond
	for {
		r.Polls++
		// a new request of the client: the attempt is over
		if a, ok := n.TakeArrival(); ok {
			n.stash = &a
			r.Seen = time.Now()
			break
		}
		n.Poll()
		if !n.Calling() {
			if a, ok := n.TakeArrival(); ok { // sent before the return
				n.stash = &a
			}
			r.Final, r.Seen = true, time.Now()
			break
		}
		// the socket the datagram went to: gone (or not listed in this reading: no
		// conclusion, the attempt's end shows as a new request or as the return of
		// the call), still holding the datagram, or read empty
		tRead := time.Now() // (a reading of /proc/net/udp can take long when the host has many sockets)
		st, err := react.UDP(dst, n.N.addr())
		if err != nil {
			return r, err
		}
		switch {
		case !st[0].Open || st[0].Inode != before.Inode:
		case st[0].RxQ > before.RxQ:
			// still in the socket: "ignored" only if seen so in readings that BEGAN unreadMax apart
			emptySince = time.Time{}
			if unreadSince.IsZero() {
				unreadSince = time.Now()
			} else if tRead.Sub(unreadSince) > unreadMax {
				n.Poll()
				if n.Calling() && !n.HasArrival() {
					r.Got, r.Why, r.Seen = "ignored", "unread", time.Now()
					return r, nil
				}
			}
		case st[1].RxQ == 0:
			unreadSince = time.Time{}
			// read, socket still there, nothing on its way to the harness: if the
			// call is parked again it has dealt with the datagram and keeps waiting
			if emptySince.IsZero() {
				emptySince = time.Now()
			}
			p, present := n.parkedNow()
			if present && (p || time.Since(emptySince) > lastResort) {
				// decide only if the picture has not changed meanwhile
				st2, err := react.UDP(dst)
				if err != nil {
					return r, err
				}
				n.Poll()
				if n.Calling() && !n.HasArrival() && st2[0].Open && st2[0].Inode == before.Inode && st2[0].RxQ <= before.RxQ {
					r.Got, r.Seen = "skip", time.Now()
					r.Calls = n.Filter.Take()
					r.Log, r.LogRecs = n.logClass()
					return r, nil
				}
			}
		}
		if time.Since(start) > n.Timeout+3*time.Second {
			return r, fmt.Errorf("no evidence of what the client did with a datagram for %v", time.Since(start))
		}
		time.Sleep(sleep)
		if sleep < 500*time.Microsecond {
			sleep += sleep / 2
		}
	}
	// the attempt is over: with a measurement or with an error?
	r.Calls = n.Filter.Take()
	r.Prev = n.T.Prev()
	r.Log, r.LogRecs = n.logClass()
	if r.Final && n.Last.Err != nil && strings.HasPrefix(n.Last.Err.Error(), "PANIC") {
		r.Got = "panic"
		return r, nil
	}
	if r.Final && n.Last.Err == nil && !n.Last.Ts.IsZero() && slackIn(n.Last.Ts, r.Del, r.Seen) {
		r.ByRet = true
	}
	if r.Prev.Reference != "" && r.Prev.CRxTime != (ntp.Time64{}) &&
		slackIn(ntp.TimeFromTime64(r.Prev.CRxTime, r.Seen), r.Del, r.Seen) {
		r.ByPrev = true
	}
	switch {
	case len(r.Calls) > 0 || r.ByRet || r.ByPrev:
		r.Got = "ok"
	case r.Final && !r.Seen.Before(n.started.Add(n.Timeout)):
		// the call returned without a measurement at or after its deadline: whether the
		// datagram or the deadline ended it cannot be told
		r.Got, r.Why = "ignored", "deadline"
	default:
		r.Got = "error"
	}
	return r, nil
}

// logClass: what the log records with the names known today say about the
// datagram (optional; "" when none of them was seen).
func (n *Net) logClass() (string, reaction) {
	var r reaction
	eval, fail, skip := false, false, false
	for {
		select {
		case lr := <-n.Logs:
			switch lr.Msg {
			case "received response":
				r.received = lr
			case "evaluated response":
				r.eval, eval = lr, true
			case "failed to measure clock offset":
				fail = true
			case "received packet with unexpected type or structure", "received packet from unexpected source",
				"failed to decode packet payload", "failed to decode NTS packet", "failed to process NTS packet",
				"received packet to unexpected destination", "failed to handle packet", "failed to decode packet",
				"failed to authenticate packet":
				skip = true
			}
			continue
		default:
		}
		break
	}
	switch {
	case eval:
		return "ok", r
	case fail:
		return "error", r
	case skip:
		return "skip", r
	}
	return "", r
}
