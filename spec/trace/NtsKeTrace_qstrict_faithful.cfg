SPECIFICATION TSpec
CONSTANTS
  Transport = "quic"
  ResidueAfterFailure = TRUE
  ShortCookieRead = TRUE
  DialResetsData = FALSE
  Alpns = {}
  Alphabet = {}
  CutRecs = {}
  MaxRecs = 0
  MaxDials = 0
  MaxCalls = 0
  MaxStore = 0
PROPERTIES StrictProp
POSTCONDITION Consumed
