SPECIFICATION TSpec
INVARIANTS SOne SGroundTruth SAct SReply SResp SClient SClientLog SNoStray SKey SFKey
