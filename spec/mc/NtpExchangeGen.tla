--------------------------- MODULE NtpExchangeGen ---------------------------
(***************************************************************************)
(* Schedule generator for the C03/C05 network harness (tlc -simulate).     *)
(* One random, weighted choice among the enabled moves per step; every     *)
(* step is a step of NtpExchange!Next.  The history lists the moves in a   *)
(* form the harness can execute: datagrams are named by (kind, exchange,   *)
(* copy) and, for responses, the server handling instance h.               *)
(***************************************************************************)
EXTENDS NtpExchange, Json
VARIABLE hist
ThetasGen == {0, 40, -40}
FwdNone == {"none"}
FwdAll == {"none", "inside", "before", "after", "bad"}
\* the transport a schedule is meant for: only a SCION end host has a forwarder
Tr == IF FwdStamps = {"none"} THEN "ip" ELSE "scion"
\* weighted draw of what the forwarder attached to a delivered response
FwdW == <<"none", "inside", "inside", "before", "before", "after", "bad">>

Pick(S) == RandomElement(S)
Name(m) == IF m.kind = "req" THEN [kind |-> "req", ex |-> m.ex, copy |-> m.copy]
           ELSE [kind |-> "resp", ex |-> m.ex, copy |-> m.copy, h |-> m.h]

Reqs  == {m \in net : m.kind = "req"}
Resps == {m \in net : m.kind = "resp" /\ pend # NoReq /\ m.sock = pend.sock}

\* weighted move table: <<weight class, move>>
Moves ==
     (IF pend = NoReq /\ attempts < MaxAttempts THEN {<<"send">>} ELSE {})
  \cup (IF pend = NoReq /\ prev.ref /\ now - prev.cTx.v <= Gap THEN {<<"idle">>} ELSE {})
  \cup (IF spend = {} THEN {<<"theta">>} ELSE {})
  \cup {<<"srecv", m>> : m \in Reqs} \cup {<<"dropq", m>> : m \in Reqs} \cup {<<"dupq", m>> : m \in {x \in Reqs : dups < MaxDup /\ x.copy = 0}}
  \cup {<<"stx", p>> : p \in spend}
  \cup {<<"crecv", m>> : m \in Resps} \cup {<<"dropr", m>> : m \in Resps} \cup {<<"dupr", m>> : m \in {x \in Resps : dups < MaxDup /\ x.copy = 0}}
  \cup (IF pend # NoReq THEN {<<"timeout">>} ELSE {})

Weight(mv) == CASE mv[1] = "send" -> 8 [] mv[1] = "idle" -> 1 [] mv[1] = "theta" -> 2
                [] mv[1] = "srecv" -> 8 [] mv[1] = "dropq" -> 1 [] mv[1] = "dupq" -> 2
                [] mv[1] = "stx" -> 8 [] mv[1] = "crecv" -> 8 [] mv[1] = "dropr" -> 1 [] mv[1] = "dupr" -> 2
                [] mv[1] = "timeout" -> 1

\* draw with probability proportional to the weight: pick a threshold class first
\* (the bound of the draw mentions a variable on purpose: TLC expands a top-level
\* \E over a constant set once, at start-up, which would freeze the draw)
GNext ==
  \E w \in {Pick(1 .. (IF now >= 0 THEN 8 ELSE 7))} :
    LET cand == {mv \in Moves : Weight(mv) >= w} IN
    /\ cand # {}
    /\ \E mv \in {Pick(cand)}, lost \in {Pick(1 .. 4) = 1},
          fi \in {Pick({i \in 1 .. Len(FwdW) : FwdW[i] \in FwdStamps /\ now >= 0})} :
         CASE mv[1] = "send"    -> ClientSend /\ hist' = Append(hist, [a |-> "send", ex |-> attempts + 1])
           [] mv[1] = "idle"    -> Idle /\ hist' = Append(hist, [a |-> "idle"])
           [] mv[1] = "theta"   -> ThetaChange /\ hist' = Append(hist, [a |-> "theta", t |-> theta'])
           [] mv[1] = "srecv"   -> ServerRecv(mv[2]) /\ hist' = Append(hist, [a |-> "srecv", m |-> Name(mv[2]), h |-> hcount + 1])
           [] mv[1] = "dropq"   -> NetDrop(mv[2]) /\ hist' = Append(hist, [a |-> "drop", m |-> Name(mv[2])])
           [] mv[1] = "dupq"    -> NetDup(mv[2]) /\ hist' = Append(hist, [a |-> "dup", m |-> Name(mv[2])])
           [] mv[1] = "stx"     -> ServerTx(mv[2], lost) /\ hist' = Append(hist, [a |-> "stx", h |-> mv[2].h, lost |-> lost])
           [] mv[1] = "crecv"   -> ClientRecv(mv[2], FwdW[fi]) /\ hist' = Append(hist, [a |-> "crecv", m |-> Name(mv[2]), res |-> res'.kind, fw |-> FwdW[fi]])
           [] mv[1] = "dropr"   -> NetDrop(mv[2]) /\ hist' = Append(hist, [a |-> "drop", m |-> Name(mv[2])])
           [] mv[1] = "dupr"    -> NetDup(mv[2]) /\ hist' = Append(hist, [a |-> "dup", m |-> Name(mv[2])])
           [] mv[1] = "timeout" -> ClientTimeout /\ hist' = Append(hist, [a |-> "timeout"])

HInit == Init /\ hist = <<[a |-> "net", tr |-> Tr]>>
HSpec == HInit /\ [][GNext]_<<vars, hist>>
\* a schedule is complete when the client has used its attempts and is idle
Done == attempts = MaxAttempts /\ pend = NoReq
Emit == Done => PrintT(<<"CASE", ToJson(hist)>>)
\* stop the walk once the schedule has been emitted
StopWhenDone == ~Done
=============================================================================
