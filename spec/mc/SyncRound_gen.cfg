SPECIFICATION Spec
CONSTANTS
  W = 8
  NRef = 3
  NPeer = 2
  Vals <- ValsGen
  Cfgs <- CfgsGen
  MaxRound = 3
  FailKinds <- AllFails
  AnyOrder = TRUE
  Canon = FALSE
  Elapse <- ElapseAll
  OutcomeVecs <- GenVecs
  Arrivals <- GenArrivals
INVARIANTS EmitRun Bound
