--------------------------- MODULE NtpTimeTrace ---------------------------
(***************************************************************************)
(* Validation of what the real ntp.Time64FromTime / ntp.TimeFromTime64 did *)
(* (harness/c04) against NtpTime.tla.  Records are independent; positions  *)
(* 1..Len(Trace) are visited as a 16-ary tree so that TLC's workers share  *)
(* the load.                                                               *)
(*                                                                         *)
(* A recorded time is the digit sequence <<hi, lo, ns>>: seconds relative  *)
(* to the reference second = hi * 2^16 + lo (0 <= lo < 2^16), nanosecond   *)
(* within the second -- an exact, order-preserving image of the 64-bit     *)
(* value in 32-bit integers.                                               *)
(*   monitor (NtpTimeTrace_mon.cfg): the property section of NtpTime       *)
(*   strict  (NtpTimeTrace_strict.cfg): the real results equal the         *)
(*           transcription at the real constants (evaluated by the driver's*)
(*           parametric evaluator); _strictws.cfg / _strictfwd.cfg: the    *)
(*           same for the whole-second / forward-only era unfolding (only  *)
(*           used to word a DRIFT line)                                    *)
(*   eval    (NtpTimeTrace_eval.cfg): that evaluator equals NtpTime's      *)
(*           operators on the complete table at the scaled constants       *)
(***************************************************************************)
EXTENDS Integers, Sequences, TLC, Json

VARIABLE l

\* property operators at the real nanosecond radix (the other constants are not
\* used by them and cannot be represented in 32 bits)
P == INSTANCE NtpTime WITH NsPerSec <- 1000000000, FracUnits <- 1, EraSecs <- 2, Epoch <- 0,
       ForwardOnlyEraUnfold <- FALSE, WholeSecondUnfold <- FALSE, RefSecs <- {}, RefNs <- {}, Offs <- {}, NsVals <- {},
       t0 <- <<0, 0>>, t <- << >>
\* the transcription at the constants of NtpTimeMC
S == INSTANCE NtpTime WITH NsPerSec <- 1000, FracUnits <- 4096, EraSecs <- 64, Epoch <- -33,
       ForwardOnlyEraUnfold <- FALSE, WholeSecondUnfold <- FALSE, RefSecs <- {}, RefNs <- {}, Offs <- {}, NsVals <- {},
       t0 <- <<0, 0>>, t <- << >>

Trace == ndJsonDeserialize("trace.ndjson")
N == Len(Trace)

TInit == l = 0
TNext == \E j \in 1 .. 16 : l' = 16 * l + j /\ l' <= N
TSpec == TInit /\ [][TNext]_l

R == Trace[l]
IsRT  == l > 0 /\ R.k = "rt"
IsAgg == l > 0 /\ R.k = "agg"
IsEv  == l > 0 /\ R.k = "eval"

HI == 32768      \* 2^31 s in units of 2^16 s
\* NtpTime!Judged for <<hi, lo, ns>> times relative to the reference second: the
\* window -2^31 s <= t - t0 < 2^31 s for the reference as given (sub-second part rn)
JudgedT(x, rn) == P!Between(x, <<-HI, 0, rn>>, <<HI, 0, rn>>)

\* ------------------------------------------------------------- monitor
\* clause 1: back within one nanosecond of t (d = back - t in ns, clamped to +-10^9)
RWithin1ns  == (IsRT /\ JudgedT(R.t, R.rn)) => P!Within1ns(R.d)
\* clause 2: never later
RNeverLater == (IsRT /\ JudgedT(R.t, R.rn)) => P!NeverLater(R.t, R.b)
\* clause 3: order preserved (pt is the preceding time of the same reference)
ROrder      == (IsRT /\ JudgedT(R.t, R.rn) /\ JudgedT(R.pt, R.rn)) => P!OrderKept(R.pt, R.t, R.pb, R.b)
\* dense sweep blocks (consecutive sub-second values n0 .. n1-1 of one second; the
\* window is convex, so a block is judged when its two ends are): extreme differences
\* and the number of adjacent pairs whose order was not preserved; pinv = 1 iff the
\* nanosecond before the block (pt) came back later than the block's first value
RAgg        == (IsAgg /\ JudgedT(<<R.sec[1], R.sec[2], R.n0>>, R.rn) /\ JudgedT(<<R.sec[1], R.sec[2], R.n1 - 1>>, R.rn)) =>
                 /\ P!Within1ns(R.mind) /\ P!Within1ns(R.maxd)
                 /\ R.maxd <= 0
                 /\ R.inversions = 0
                 /\ (JudgedT(R.pt, R.rn) => R.pinv = 0)
\* the clamped difference agrees with the digit images (guards the abstraction step;
\* a failure is a harness fault, not a verdict)
RConsistent == IsRT => /\ (R.d = 0 <=> R.b = R.t)
                       /\ (R.d <= 0 <=> P!TLeq(R.b, R.t))
                       /\ P!TLeq(R.pt, R.t)

\* -------------------------------------------------------------- strict
SEncode          == IsRT => (R.ds32 = 0 /\ R.dfrac = 0)
SDecodeRepaired  == IsRT => R.b = R.br      \* the specification's default
SDecodeWholeSec  == IsRT => R.b = R.bw      \* WholeSecondUnfold = TRUE
SDecodeFaithful  == IsRT => R.b = R.bf      \* ForwardOnlyEraUnfold = TRUE
SAggRepaired     == IsAgg => (R.misenc = 0 /\ R.misr = 0)
SAggWholeSec     == IsAgg => (R.misenc = 0 /\ R.misw = 0)
SAggFaithful     == IsAgg => (R.misenc = 0 /\ R.misf = 0)

\* ---------------------------------------------------------------- eval
EvalIsSpec == IsEv =>
  LET tt == <<R.r + R.o, R.n>>
      rr == <<R.r, R.rn>>
      x  == S!Encode(tt)
  IN /\ R.s32 = x.seconds /\ R.frac = x.fraction /\ R.nsec = S!Nsec(x.fraction)
     /\ R.bf = S!DecodeWith(x, rr, TRUE, TRUE)[1] - R.r
     /\ R.bw = S!DecodeWith(x, rr, FALSE, TRUE)[1] - R.r
     /\ R.br = S!DecodeWith(x, rr, FALSE, FALSE)[1] - R.r
=============================================================================
