---------------------------- MODULE FiltersTrace ----------------------------
(***************************************************************************)
(* Validation of what the real LuckyPacketFilter / NtimedFilter did        *)
(* (harness/c17) against Filters.tla.  The trace is a concatenation of     *)
(* histories; "lnew" / "nnew" start a fresh filter, "ngroup" starts a new  *)
(* group of Ntimed runs over the same concrete samples.                    *)
(*                                                                         *)
(* Every event drives the specification's own actions (the *Core actions   *)
(* of Filters.tla) with the recorded inputs, so the specification's state  *)
(* (win, lout, navg, nout, ...) is its prediction and the ghosts (lastn,   *)
(* since) are what the property section talks about.                       *)
(*                                                                         *)
(* An "ns" record is one call of the real NtimedFilter.Do together with    *)
(* what the clock saw of it: q, the values its Epoch() reads returned, and *)
(* ks, for every clock step that landed inside the call the number of      *)
(* reads made before it.  It is replayed through the specification's own   *)
(* actions NDoCall, NDoTest, NDoReset, NDoBody, with NStepInDo fired at    *)
(* the recorded places (l advances when the call returns).  The ghosts of  *)
(* the property section (since, amb, and from them nout.cands) are driven  *)
(* by the recorded calls, steps and returns only.  The group's reference   *)
(* runs (fresh filter, no clock step) come first and fill memo.            *)
(*   monitor (FiltersTrace_mon.cfg): the clauses of C17 on the recorded    *)
(*       outputs, using the ghosts and the recorded inputs only            *)
(*   strict (FiltersTrace_strict.cfg): the recorded outputs / observable   *)
(*       state are exactly what the specification computes                 *)
(***************************************************************************)
EXTENDS Integers, Sequences, FiniteSets, TLC, Json

CONSTANT TraceFile   \* name of the ndjson file (the check validates shards in parallel)

Which == "trace"
Caps == {}
Picks == {}
UnconfToo == FALSE
Offs == {}
Rtds == {}
DistinctOnly == FALSE
Clk0s == {}
MaxEv == 0
FilterAverage == 20
Classes == {}
StepAt == {}
MaxInDo == 0

VARIABLES cap, kcfg, pick, win, lout, lastn, navg, fepoch, clk, dep, nout, since, amb, pc, rd, stp, hist,
          l,     \* position in the trace
          memo   \* Ntimed: sequence of samples seen since the last reset / clock step |-> output, per group
INSTANCE Filters

Trace == ndJsonDeserialize(TraceFile)
N == Len(Trace)
Empty == [x \in {} |-> << >>]
\* (own tuples: TLC cannot prime a tuple defined inside the instantiated module)
LV == <<cap, kcfg, pick, win, lout, lastn>>
NV == <<navg, fepoch, clk, dep, nout, since, amb, pc, rd, stp>>

TInit == l = 0 /\ hist = << >> /\ LIdle /\ NIdle /\ memo = Empty

\* the next recorded clock step inside the call being replayed is due: its place
\* (number of reads before it) is reached, or the specification makes no further read
Due(e) ==
  IF Len(stp) < Len(e.ks) THEN (e.ks[Len(stp) + 1] <= rd \/ pc = "body") ELSE FALSE

\* the output function "samples seen since |-> output": filled by the first run
\* that shows a sequence under an unambiguous reading (the references come first)
Learn(cs, o) ==
  IF Cardinality(cs) = 1
  THEN LET c == CHOOSE x \in cs : TRUE
       IN IF c \in DOMAIN memo THEN memo ELSE (c :> o) @@ memo
  ELSE memo

NDoReplay(e) ==
  IF pc = "idle" THEN NDoCallCore /\ UNCHANGED <<l, memo>>
  ELSE IF Due(e) THEN NStepInDoCore /\ UNCHANGED <<l, memo>>
  ELSE IF pc = "test" THEN NDoTestCore /\ UNCHANGED <<l, memo>>
  ELSE IF pc = "reset" THEN NDoResetCore /\ UNCHANGED <<l, memo>>
  ELSE /\ NDoBodyCore(e.id, e.fl, e.fh)
       /\ memo' = Learn(nout'.cands, e.o)
       /\ l' = l + 1

TNext ==
  /\ l < N
  /\ UNCHANGED hist
  /\ LET e == Trace[l + 1] IN
     IF e.ev = "ns" THEN NDoReplay(e) /\ UNCHANGED LV
     ELSE
     /\ l' = l + 1
     /\ CASE e.ev = "lnew"   -> LNew(e.cap, e.k) /\ UNCHANGED <<NV, memo>>
          [] e.ev = "ls"     -> LSampleCore(e.off * e.sc, e.rtd) /\ UNCHANGED <<NV, memo>>
          [] e.ev = "lr"     -> LResetCore /\ UNCHANGED <<NV, memo>>
          [] e.ev = "ngroup" -> memo' = Empty /\ UNCHANGED <<LV, NV>>
          [] e.ev = "nnew"   -> NNew(e.clk) /\ UNCHANGED <<LV, memo>>
          [] e.ev = "nr"     -> NResetCore /\ UNCHANGED <<LV, memo>>
          [] e.ev = "ne"     -> NEpochCore /\ UNCHANGED <<LV, memo>>
TSpec == TInit /\ [][TNext]_<<LV, NV, hist, l, memo>>

R == Trace[l]
IsLS == l > 0 /\ R.ev = "ls"
IsNS == l > 0 /\ R.ev = "ns" /\ pc = "idle"      \* (pc # "idle": the next call is being replayed)

\* ------------------------------------------------------------- monitor
\* lucky packet: the returned value is the median offset of the k lowest-delay
\* samples among the last N (pairwise distinct delays), k capped at N
RRule ==
  (IsLS /\ cap > 0 /\ DistinctRtd(lastn)) => RuleHolds(R.out, lastn, cap, kcfg)
\* unconfigured: the raw offset
RUnconf ==
  (IsLS /\ cap = 0) => R.out = Last(lastn).off
\* Ntimed: raw offset (right sign, float rounding) while fewer than four
\* samples have been seen since the last reset / clock step and whenever the
\* sample certainly lies within the learned bounds - under every allowed reading
\* of "seen since" (nout.cands; more than one only if a clock step landed inside a
\* Do; R.inb is decided against the largest reading and holds for the smaller ones)
RRawWhen ==
  IsNS => (((\A c \in nout.cands : Len(c) <= 3) \/ R.inb) => R.err <= R.tol)
\* Ntimed: the output is a function of the samples seen since the last reset
\* / clock step / creation, under some allowed reading (same samples since =>
\* bitwise the same output as the fresh filter that saw only them)
RHistIndep ==
  IsNS => ((\A c \in nout.cands : c \in DOMAIN memo) => (\E c \in nout.cands : memo[c] = R.o))

\* -------------------------------------------------------------- strict
SLucky ==
  IsLS => /\ R.out = lout.v
          /\ R.wobs => /\ R.woff = [i \in DOMAIN win |-> win[i].off]
                       /\ R.wrtd = [i \in DOMAIN win |-> win[i].rtd]
SLReset ==
  (l > 0 /\ R.ev = "lr" /\ R.wobs) => R.woff = << >>
SNtimed ==
  (IsNS /\ R.logok) => /\ R.br = nout.br
                       /\ nout.raw => R.err <= R.tol
\* one Epoch() read for the test, one more inside the Reset it triggers
SNReads ==
  IsNS => Len(R.q) = nout.rd
SNState ==
  (l > 0 /\ R.ev \in {"ns", "nr", "ne"} /\ pc = "idle") =>
     /\ R.clk = clk
     /\ R.nobs => (R.navg = navg /\ R.fep = fepoch)
=============================================================================
