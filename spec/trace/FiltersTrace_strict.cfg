SPECIFICATION TSpec
CONSTANTS
  TraceFile = "trace.ndjson"
INVARIANTS SLucky SLReset SNtimed SNState
