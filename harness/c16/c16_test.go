// C16 driver: for every scenario enumerated by TLC from spec/Collect.tla
// (number of clocks, per-clock completion time relative to the deadline,
// ok/err outcome) the REAL (*ReferenceClockClient).MeasureClockOffsets runs
// in a testing/synctest bubble against scripted reference clocks, called the
// way core/sync/sync.go measureOffsetToRefClks calls it (context.WithTimeout,
// cancel after return).  Observed, in model units: virtual return time, the
// result slice (pre-filled with sentinels), goroutines of core/client left
// behind after every scripted clock has returned, what happened to a second
// call on the same collector (while the first is blocked / after it returned).
// One record per distinct (scenario, phase, observation) with its count;
// validated by spec/trace/CollectTrace.tla.
package c16

import (
	"context"
	"errors"
	"fmt"
	"math/rand"
	"os"
	"runtime"
	"strings"
	"sync/atomic"
	"testing"
	"testing/synctest"
	"time"

	"example.com/scion-time/core/client"
	"example.com/scion-time/core/measurements"

	"verif/harness/internal/vio"
)

const (
	unit     = time.Second // one model time unit
	deadline = 2           // model units (Collect!D)
	never    = 4           // Collect!Never
)

type tcase struct {
	ID int      `json:"id"`
	N  int      `json:"n"`
	D  []int    `json:"d"`
	O  []string `json:"o"`
}

// record layout consumed by CollectTrace.tla
type rec struct {
	ID       int      `json:"id"`
	N        int      `json:"n"`
	D        []int    `json:"d"`
	O        []string `json:"o"`
	Phase    string   `json:"phase"`    // "none" | "during" | "after": when the second call was issued
	Returned bool     `json:"returned"` // the call came back within 10 units
	Rt       int      `json:"rt"`       // virtual return time in whole units, rounded down (-1: not returned)
	Late     bool     `json:"late"`     // raw: elapsed virtual time > timeout passed to context.WithTimeout
	Ms       []int    `json:"ms"`       // result slice at return: 0 sentinel intact, k: clock k's successful result, -k: clock k's error result, 99: anything else
	Stable   bool     `json:"stable"`   // slice unchanged between return and quiescence
	Calls    int      `json:"calls"`    // scripted measurement calls that returned by the end
	Leaked   int      `json:"leaked"`   // goroutines with core/client frames left after all clocks returned
	ExitDead bool     `json:"exitdead"` // synctest: "main bubble goroutine has exited but blocked goroutines remain"
	Refused  bool     `json:"refused"`  // second call panicked with the guard's message
	P2Other  bool     `json:"p2other"`  // second call panicked with something else
	MainPan  bool     `json:"mainpan"`  // first call panicked
	Hung     bool     `json:"hung"`     // given up after hungAfter of real time (then Returned is false)
	Count    int      `json:"count"`    // how many repetitions showed exactly this observation
	Note     string   `json:"note"`     // free text (panic messages, leaked stacks); not read by the monitor
}

var (
	tsBase      = time.Date(2031, 3, 4, 5, 6, 7, 0, time.UTC)
	errScripted = errors.New("scripted clock failure")
	errSentinel = errors.New("sentinel")
)

const guardMsg = "too many reference clock offset measurements in progress"

func valTs(k int) time.Time      { return tsBase.Add(time.Duration(k) * time.Hour) }
func valOff(k int) time.Duration { return time.Duration(k)*time.Millisecond + 7 }
func sentinel(x int) measurements.Measurement {
	return measurements.Measurement{
		Timestamp: tsBase.Add(-time.Duration(x+1) * time.Minute),
		Offset:    -time.Duration(x+1)*time.Microsecond - 3,
		Error:     errSentinel,
	}
}

type clock struct {
	k      int // 1-based
	d      int
	ok     bool
	yields int
	calls  *atomic.Int32
}

func (c *clock) MeasureClockOffset(ctx context.Context) (time.Time, time.Duration, error) {
	defer c.calls.Add(1)
	if c.d == never {
		<-ctx.Done()
		for range c.yields {
			runtime.Gosched()
		}
		return valTs(c.k), valOff(c.k), ctx.Err()
	}
	time.Sleep(time.Duration(c.d) * unit) // ignores ctx
	for range c.yields {
		runtime.Gosched()
	}
	if c.ok {
		return valTs(c.k), valOff(c.k), nil
	}
	return valTs(c.k), valOff(c.k), errScripted
}

func decode(n int, x int, m measurements.Measurement) int {
	s := sentinel(x)
	if m.Timestamp.Equal(s.Timestamp) && m.Offset == s.Offset && m.Error == errSentinel {
		return 0
	}
	for k := 1; k <= n; k++ {
		if m.Timestamp.Equal(valTs(k)) && m.Offset == valOff(k) {
			if m.Error == nil {
				return k
			}
			return -k
		}
	}
	return 99
}

// goroutines of the caller's synctest bubble that are inside, or were started
// by, package core/client (stack headers of bubbled goroutines read
// "goroutine N [state, synctest bubble B]:")
func clientGoroutines() (int, string) {
	own := make([]byte, 4096)
	own = own[:runtime.Stack(own, false)]
	hdr, _, _ := strings.Cut(string(own), "\n")
	tag := ""
	if p := strings.Index(hdr, "synctest bubble "); p >= 0 {
		tag = strings.TrimRight(hdr[p:], "]:")
	}
	buf := make([]byte, 1<<20)
	buf = buf[:runtime.Stack(buf, true)]
	cnt := 0
	var where []string
	for _, g := range strings.Split(string(buf), "\n\n") {
		h, rest, _ := strings.Cut(g, "\n")
		if tag != "" && !strings.Contains(h, tag+"]") && !strings.Contains(h, tag+",") {
			continue
		}
		if strings.Contains(rest, "example.com/scion-time/core/client.") {
			cnt++
			l, _, _ := strings.Cut(rest, "\n")
			where = append(where, strings.TrimSpace(h)+" "+strings.TrimSpace(l))
		}
	}
	return cnt, strings.Join(where, "; ")
}

func callRecover(f func()) (panicked bool, msg string) {
	defer func() {
		if r := recover(); r != nil {
			panicked = true
			msg = fmt.Sprint(r)
		}
	}()
	f()
	return
}

// hungAfter is the real time after which a round is given up: virtual time
// only advances when every goroutine of the bubble is blocked, so a call that
// spins keeps the whole bubble (and this driver) from ever finishing.  The
// round is then recorded as not returned and the process exits with code 3.
const hungAfter = 30 * time.Second

func runOnce(t *testing.T, c tcase, phase string, rng *rand.Rand, out *vio.Out) (r rec) {
	wd := time.AfterFunc(hungAfter, func() {
		h := rec{ID: c.ID, N: c.N, D: c.D, O: c.O, Phase: phase, Rt: -1, Late: true, Ms: make([]int, c.N),
			Stable: true, Count: 1, Hung: true,
			Note: fmt.Sprintf("call still running after %v of real time: virtual time cannot advance, a goroutine is spinning", hungAfter)}
		if phase == "during" {
			h.Refused = true // not what this record is about
		}
		out.Emit(&h)
		out.Close()
		os.Exit(3)
	})
	defer wd.Stop()
	r = rec{ID: c.ID, N: c.N, D: c.D, O: c.O, Phase: phase, Rt: -1, Ms: []int{}, Count: 1}
	if r.D == nil {
		r.D = []int{}
	}
	if r.O == nil {
		r.O = []string{}
	}
	yields := make([]int, c.N)
	for k := range yields {
		yields[k] = rng.Intn(3)
	}
	mainYields := rng.Intn(3)
	var notes []string
	suspect, confirmed := 0, 0
	body := func(t *testing.T) {
		var coll client.ReferenceClockClient
		var calls atomic.Int32
		g0 := runtime.NumGoroutine()
		clks := make([]client.ReferenceClock, c.N)
		for k := range clks {
			clks[k] = &clock{k: k + 1, d: c.D[k], ok: c.O[k] == "ok", yields: yields[k], calls: &calls}
		}
		ms := make([]measurements.Measurement, c.N)
		for x := range ms {
			ms[x] = sentinel(x)
		}
		atReturn := make([]measurements.Measurement, c.N)
		start := time.Now()
		var elapsed time.Duration
		done := make(chan struct{})
		go func() { // as sync.measureOffsetToRefClks
			defer close(done)
			ctx, cancel := context.WithTimeout(context.Background(), deadline*unit)
			defer cancel()
			for range mainYields {
				runtime.Gosched()
			}
			p, msg := callRecover(func() { coll.MeasureClockOffsets(ctx, clks, ms) })
			elapsed = time.Since(start)
			copy(atReturn, ms)
			if p {
				r.MainPan = true
				notes = append(notes, "first call panicked: "+msg)
			}
		}()
		synctest.Wait() // the first call is blocked in its select (or has returned when n = 0)
		if phase == "during" {
			select {
			case <-done: // the first call is already over: this is a later call, not an overlapping one
				r.Phase = "after"
			default:
			}
			p, msg := callRecover(func() { coll.MeasureClockOffsets(context.Background(), nil, nil) })
			r.Refused = p && msg == guardMsg
			r.P2Other = p && msg != guardMsg
			if r.P2Other {
				notes = append(notes, "second call panicked: "+msg)
			}
		}
		select {
		case <-done:
			r.Returned = true
		case <-time.After(10 * unit):
		}
		if r.Returned {
			r.Late = elapsed > deadline*unit
			// floor: exact for "d[k] <= rt" with whole-unit completion times;
			// lateness is judged on the raw value (Late)
			r.Rt = min(int(elapsed/unit), 9)
			r.Ms = make([]int, c.N)
			for x := range atReturn {
				r.Ms[x] = decode(c.N, x, atReturn[x])
			}
		} else {
			r.Late = true
			r.Ms = make([]int, c.N) // nothing is claimed about the slice of a call that has not returned
		}
		// let every scripted clock return (the latest one at 3 units; the
		// "never" ones at ctx.Done, i.e. at 2 units at the latest)
		time.Sleep(20*unit - time.Since(start))
		synctest.Wait()
		r.Calls = int(calls.Load())
		r.Stable = true
		if r.Returned {
			for x := range ms {
				if decode(c.N, x, ms[x]) != r.Ms[x] {
					r.Stable = false
				}
			}
		}
		// goroutines of core/client still present: counted as the growth of
		// the process's goroutine count over the call (nothing else runs in
		// this test binary), confirmed by stack inspection for the first
		// few occurrences and otherwise by synctest's bubble-exit check
		if d := runtime.NumGoroutine() - g0; d > 0 {
			suspect = d
			if scans < maxScans {
				scans++
				var where string
				confirmed, where = clientGoroutines()
				notes = append(notes, "left behind: "+where)
			} else {
				confirmed = -1
			}
		}
		if phase == "after" {
			p, msg := callRecover(func() { coll.MeasureClockOffsets(context.Background(), nil, nil) })
			r.Refused = p && msg == guardMsg
			r.P2Other = p && msg != guardMsg
			if p {
				notes = append(notes, "later call panicked: "+msg)
			}
			synctest.Wait()
		}
	}
	func() {
		defer func() {
			if e := recover(); e != nil {
				msg := fmt.Sprint(e)
				if strings.Contains(msg, "deadlock:") {
					r.ExitDead = true
					notes = append(notes, "bubble exit: "+msg)
					return
				}
				panic(e)
			}
		}()
		synctest.Test(t, body)
	}()
	switch {
	case suspect > 0 && confirmed > 0:
		r.Leaked = confirmed
	case suspect > 0 && confirmed < 0 && r.ExitDead:
		r.Leaked = suspect
	case suspect > 0:
		notes = append(notes, fmt.Sprintf("goroutine count grew by %d but no goroutine of core/client was found", suspect))
	}
	r.Note = strings.Join(notes, " | ")
	return r
}

// Goroutines that the code under test leaves blocked can never be released
// (they wait on a channel private to the call) and stay in the process.
const (
	maxScans    = 40  // stack inspections per driver run
	maxDeadRuns = 150 // after that many leaking rounds the campaign stops early
)

var scans int

func key(r *rec) string {
	return fmt.Sprint(r.ID, r.Phase, r.Returned, r.Rt, r.Late, r.Ms, r.Stable, r.Calls, r.Leaked, r.ExitDead,
		r.Refused, r.P2Other, r.MainPan)
}

func TestC16(t *testing.T) {
	cases := vio.ReadCases[tcase](t)
	out := vio.Create(t)
	defer out.Close()
	rng := vio.Rand()
	reps := 60
	if vio.Thorough() {
		reps = 500
	}
	if s := envInt("VERIF_C16_REPS"); s > 0 {
		reps = s
	}
	runs, nrec, dead := 0, 0, 0
	for _, c := range cases {
		seen := map[string]*rec{}
		var order []string
		for rep := 0; rep < reps; rep++ {
			phase := [...]string{"none", "during", "after", "none"}[rep%4]
			if phase == "during" && c.N == 0 {
				phase = "none" // a call without clocks never blocks
			}
			r := runOnce(t, c, phase, rng, out)
			runs++
			if r.ExitDead || r.Leaked != 0 {
				dead++
				rep = reps // the scenario has shown what it shows
			}
			k := key(&r)
			if p, ok := seen[k]; ok {
				p.Count++
			} else {
				seen[k] = &r
				order = append(order, k)
			}
		}
		for _, k := range order {
			out.Emit(seen[k])
			nrec++
		}
		if dead >= maxDeadRuns {
			t.Logf("C16 stopped early: %d rounds left goroutines behind", dead)
			break
		}
	}
	t.Logf("C16 runs=%d records=%d scenarios=%d reps=%d", runs, nrec, len(cases), reps)
	if nrec == 0 {
		t.Fatal("no record produced")
	}
}

func envInt(name string) int {
	var v int
	fmt.Sscan(os.Getenv(name), &v)
	return v
}
