"""Shared machinery for /verif/bin/check.

Every property check is a Python module checks/cNN.py with a function
run(ctx) that (1) model-checks the property's TLA+ module(s) with TLC,
(2) lets TLC generate cases/behaviours, (3) runs the Go driver against
/repo's working tree (build tag `verif`) which replays them on the real
code and records an ndjson trace, (4) validates that trace with TLC against
the trace specification (monitor mode decides; strict mode only reports
DRIFT), (5) matches violations against known_findings.json and (6) writes
the evidence file.

Exit codes: 0 held / only known findings; 1 violation (printed as
`VIOLATION property=<id> replay=<path>`); 2 inconclusive (tool failure).
"""
import json, os, re, shutil, subprocess, sys, tempfile, time, hashlib

ROOT = os.path.dirname(os.path.dirname(os.path.abspath(__file__)))
SPEC = os.path.join(ROOT, "spec")
HARNESS = os.path.join(ROOT, "harness")
REPO = os.environ.get("VERIF_REPO", "/repo")
GO = os.environ.get("VERIF_GO", "go1.26")
NCPU = os.cpu_count() or 4


class Inconclusive(Exception):
    pass


def goenv():
    e = dict(os.environ)
    e.update(GOFLAGS="-mod=mod", GOPROXY="off", GOSUMDB="off",
             GOTOOLCHAIN="local", CGO_ENABLED=e.get("CGO_ENABLED", "1"))
    return e


class Ctx:
    def __init__(self, pid, tier, seed):
        self.pid = pid
        self.tier = tier
        self.seed = seed
        self.t0 = time.time()
        self.scratch = tempfile.mkdtemp(prefix="verif-%s-" % pid.lower())
        self.violations = []   # dicts: {sig, what, replay}
        self.known = []        # matched known findings
        self.drift = []
        self.tlc_runs = []     # summaries
        self.cov = {}          # evidence coverage dict (filled by the check)
        self.assumptions = []
        self.notes = []
        self.quick = tier == "quick"

    # ------------------------------------------------------------ utilities
    def log(self, *a):
        print("[%s %6.1fs]" % (self.pid, time.time() - self.t0), *a, flush=True)

    def path(self, *p):
        return os.path.join(self.scratch, *p)

    def cleanup(self):
        shutil.rmtree(self.scratch, ignore_errors=True)

    # ------------------------------------------------------------------ TLC
    def specdir(self):
        d = self.path("spec")
        if not os.path.isdir(d):
            os.makedirs(d)
            for sub in ("", "mc", "trace"):
                sd = os.path.join(SPEC, sub)
                for f in os.listdir(sd):
                    if f.endswith((".tla", ".cfg")):
                        shutil.copy(os.path.join(sd, f), d)
        return d

    def private_specdir(self):
        """A private copy of the spec directory (for TLC runs in parallel threads)."""
        src = self.specdir()
        d = tempfile.mkdtemp(prefix="spec-", dir=self.scratch)
        for f in os.listdir(src):
            if f.endswith((".tla", ".cfg")):
                shutil.copy(os.path.join(src, f), d)
        return d

    def validate_parallel(self, module, cfg, chunk_paths, jobs=4, workers=2, timeout=900):
        """Monitor-validate several trace chunks concurrently. Returns a list of
        (ok, l, invariant, out) in the order of chunk_paths."""
        from concurrent.futures import ThreadPoolExecutor
        self.specdir()
        dirs = [self.private_specdir() for _ in range(min(jobs, len(chunk_paths)))]
        import queue
        free = queue.Queue()
        for d in dirs:
            free.put(d)

        def one(path):
            d = free.get()
            try:
                r = self.tlc(module, cfg, workers=workers, timeout=timeout, files={"trace.ndjson": path},
                             allow_violation=True, tag="trace:" + cfg, specdir=d)
                if r["violated"]:
                    return False, self.trace_state_l(r["out"]), r["violated"], r["out"]
                return True, None, None, r["out"]
            finally:
                free.put(d)
        with ThreadPoolExecutor(max_workers=len(dirs)) as ex:
            return list(ex.map(one, chunk_paths))

    def tlc(self, module, cfg, workers=None, timeout=600, extra=(), files=None,
            simulate=None, depth=None, deadlock=False, coverage=False,
            allow_violation=False, tag=None, heap=None, stack=None, specdir=None):
        """Run TLC on spec/<module>.tla with config <cfg> (file name in spec/mc
        or spec/trace). Returns dict(ok, out, generated, distinct, violated,
        err). Raises Inconclusive on tool failure/timeouts."""
        d = specdir or self.specdir()
        for name, src in (files or {}).items():
            dst = os.path.join(d, name)
            if os.path.abspath(src) != os.path.abspath(dst):
                shutil.copy(src, dst)
        meta = tempfile.mkdtemp(prefix="meta-", dir=self.scratch)
        # measured here: SerialGC is the fastest for the small models (ParallelGC
        # with many GC threads burns system time); big runs pass heap= explicitly
        cmd = ["timeout", str(timeout), "java"]
        if heap:
            cmd += ["-XX:+UseParallelGC", "-XX:ParallelGCThreads=4", "-Xmx" + heap]
        else:
            cmd += ["-XX:+UseSerialGC", "-Xmx6g"]
        cmd.append("-Xss" + (stack or "64m"))
        cmd.append("-Djava.io.tmpdir=" + meta)   # SANY unpacks its standard modules there
        cmd += ["-cp", "/opt/veriftools/tla/tla2tools.jar:/opt/veriftools/tla/CommunityModules-deps.jar",
                "tlc2.TLC", "-metadir", meta, "-config", cfg, "-noGenerateSpecTE"]
        cmd += ["-workers", str(workers or 8)]
        if not deadlock:
            cmd.append("-deadlock")
        if coverage:
            cmd += ["-coverage", "1"]
        if simulate:
            cmd += ["-simulate", simulate]
            cmd += ["-seed", str(self.seed)]
        if depth:
            cmd += ["-depth", str(depth)]
        cmd += list(extra)
        cmd.append(module)
        t = time.time()
        p = subprocess.run(cmd, cwd=d, stdout=subprocess.PIPE, stderr=subprocess.STDOUT,
                           text=True, errors="replace")
        out = p.stdout
        shutil.rmtree(meta, ignore_errors=True)
        r = dict(module=module, cfg=cfg, rc=p.returncode, out=out, wall_s=round(time.time() - t, 2),
                 generated=0, distinct=0, violated=None, ok=False, tag=tag or cfg)
        m = re.findall(r"(\d+) states generated, (\d+) distinct states found", out)
        if m:
            r["generated"], r["distinct"] = int(m[-1][0]), int(m[-1][1])
        m = re.search(r"Invariant (\S+) is violated", out)
        if m:
            r["violated"] = m.group(1)
        m2 = re.search(r"Action property (\S+) is violated|Temporal properties were violated|"
                       r"property (\S+) (?:is|was) violated", out)
        if m2 and not r["violated"]:
            r["violated"] = m2.group(1) or m2.group(2) or "temporal"
        if re.search(r"Deadlock reached", out) and not r["violated"]:
            r["violated"] = "Deadlock"
        if "The postcondition" in out and "violated" in out and not r["violated"]:
            r["violated"] = "POSTCONDITION"
        r["ok"] = (p.returncode == 0 and "Model checking completed. No error has been found" in out) or \
                  (simulate and p.returncode == 0 and r["violated"] is None and "Error:" not in out)
        if p.returncode == 124:
            raise Inconclusive("TLC timeout on %s/%s after %ss" % (module, cfg, timeout))
        if not r["ok"] and r["violated"] is None:
            tail = "\n".join(out.splitlines()[-40:])
            raise Inconclusive("TLC failed on %s/%s (rc=%s):\n%s" % (module, cfg, p.returncode, tail))
        if r["violated"] and not allow_violation:
            tail = "\n".join(out.splitlines()[-60:])
            raise Inconclusive("specification-level violation of %s in %s/%s (not a verdict about the code; "
                               "the spec or its bounds need attention):\n%s" % (r["violated"], module, cfg, tail))
        self.tlc_runs.append({k: r[k] for k in ("module", "cfg", "generated", "distinct", "wall_s", "tag")})
        return r

    @staticmethod
    def emitted(out, marker="CASE"):
        """Lines printed by PrintT(<<"CASE", ToJson(x)>>) -> list of python objects."""
        res = []
        pat = re.compile(r'^<<"%s", "(.*)">>$' % re.escape(marker))
        for line in out.splitlines():
            m = pat.match(line.strip())
            if m:
                s = m.group(1).encode().decode("unicode_escape") if "\\" in m.group(1) else m.group(1)
                res.append(json.loads(s))
        return res

    @staticmethod
    def trace_state_l(out):
        """Value of variable l in the last state TLC printed (trace position)."""
        m = re.findall(r"^/?\\?\s*l = (\d+)\s*$", out, re.M)
        if not m:
            m = re.findall(r"\bl = (\d+)", out)
        return int(m[-1]) if m else None

    # ---------------------------------------------------------------- Go
    def gotest(self, pkg, run, env=None, timeout=900, race=False, tags="verif", count=1, extra=()):
        """go test -tags verif -run <run> ./<pkg> in the harness module, built
        against /repo's working tree. Returns (rc, output)."""
        ensure_harness()
        cmd = ["timeout", str(timeout), GO, "test", "-tags", tags, "-count", str(count), "-vet=off",
               "-timeout", "%ds" % (timeout + 30), "-run", run]
        if race:
            cmd.append("-race")
        if REPO != "/repo":
            cmd.append("-modfile=" + alt_modfile())
        cmd += list(extra)
        cmd.append("./" + pkg)
        e = goenv()
        e["VERIF_SEED"] = str(self.seed)
        e["VERIF_TIER"] = self.tier
        e["VERIF_SCRATCH"] = self.scratch
        e.update(env or {})
        p = subprocess.run(cmd, cwd=HARNESS, env=e, stdout=subprocess.PIPE, stderr=subprocess.STDOUT,
                           text=True, errors="replace")
        if p.returncode == 124:
            raise Inconclusive("go driver %s timed out after %ss" % (pkg, timeout))
        return p.returncode, p.stdout

    def godriver(self, pkg, run, out_name="trace.ndjson", cases=None, **kw):
        """Run a driver that reads VERIF_IN (ndjson cases) and writes VERIF_OUT.
        A driver failure that is not itself a recorded observation is
        inconclusive, never a violation."""
        env = dict(kw.pop("env", {}) or {})
        outp = self.path(out_name)
        if os.path.exists(outp):
            os.remove(outp)
        env["VERIF_OUT"] = outp
        if cases is not None:
            env["VERIF_IN"] = cases
        rc, out = self.gotest(pkg, run, env=env, **kw)
        if rc != 0:
            tail = "\n".join(out.splitlines()[-60:])
            raise Inconclusive("go driver %s/%s failed (rc=%d):\n%s" % (pkg, run, rc, tail))
        if not os.path.exists(outp):
            raise Inconclusive("go driver %s/%s wrote no trace:\n%s" % (pkg, run, out[-2000:]))
        return outp, out

    # ------------------------------------------------------ trace validation
    def validate(self, module, cfg, trace_path, trace_name="trace.ndjson", timeout=900, workers=4,
                 extra_files=None, heap=None):
        """Monitor-mode validation. Returns (ok, l, invariant, out)."""
        files = {trace_name: trace_path}
        files.update(extra_files or {})
        r = self.tlc(module, cfg, workers=workers, timeout=timeout, files=files,
                     allow_violation=True, tag="trace:" + cfg, heap=heap)
        if r["violated"]:
            return False, self.trace_state_l(r["out"]), r["violated"], r["out"]
        return True, None, None, r["out"]

    # ------------------------------------------------------------- verdicts
    def violation(self, sig, what, replay_obj):
        """Record a violation observed on the real code. sig is the structural
        signature matched against known_findings.json."""
        kf = match_known(self.pid, sig)
        if kf is not None:
            if not any(k["sig"] == kf["sig"] for k in self.known):
                self.known.append(dict(sig=kf["sig"], what=kf["what"]))
            return
        os.makedirs(os.path.join(ROOT, "replays", self.pid), exist_ok=True)
        h = hashlib.sha1(json.dumps(replay_obj, sort_keys=True, default=str).encode()).hexdigest()[:10]
        rp = os.path.join(ROOT, "replays", self.pid, "%s-%s.json" % (re.sub(r"[^A-Za-z0-9_.-]+", "_", sig)[:60], h))
        with open(rp, "w") as f:
            json.dump(dict(property=self.pid, signature=sig, what=what, seed=self.seed, tier=self.tier,
                           case=replay_obj), f, indent=1, default=str)
        if len(self.violations) < 50:
            self.violations.append(dict(sig=sig, what=what, replay=rp))

    def finish(self, level="model_checking"):
        cov = self.cov
        cov.setdefault("states", sum(r["distinct"] for r in self.tlc_runs if not r["tag"].startswith("trace:")))
        cov.setdefault("transitions", sum(r["generated"] for r in self.tlc_runs if not r["tag"].startswith("trace:")))
        cov.setdefault("traces_validated_against_impl", 0)
        cov.setdefault("samples", [])
        cov["tlc_runs"] = self.tlc_runs
        cov["drift"] = self.drift[:20]
        cov["known_findings_matched"] = self.known
        cov["notes"] = self.notes
        ev = dict(property_id=self.pid, tier=self.tier, seed=self.seed, level=level, coverage=cov,
                  assumptions=self.assumptions, wall_s=round(time.time() - self.t0, 2),
                  violations=len(self.violations))
        # runs against another tree than /repo (VERIF_REPO: seeded / property-preserving changes in a
        # scratch worktree) keep their evidence apart; evidence/<id>.json describes /repo only
        evdir = os.path.join(ROOT, "evidence") if REPO == "/repo" else os.path.join(ROOT, "evidence", "alt")
        os.makedirs(evdir, exist_ok=True)
        with open(os.path.join(evdir, self.pid + ".json"), "w") as f:
            json.dump(ev, f, indent=1, default=str)
        for d in self.drift[:20]:
            print("DRIFT property=%s %s" % (self.pid, d))
        for k in self.known:
            print("KNOWN-FINDING: property=%s %s [%s]" % (self.pid, k["what"], k["sig"]))
        for v in self.violations:
            print("%s: %s" % (v["sig"], v["what"]))
            print("VIOLATION property=%s replay=%s" % (self.pid, v["replay"]))
        return 1 if self.violations else 0


_known = None


def known_findings():
    global _known
    if _known is None:
        with open(os.path.join(ROOT, "known_findings.json")) as f:
            _known = json.load(f)
    return _known


def match_known(pid, sig):
    for k in known_findings().get("open", []):
        if k["property"] == pid and re.fullmatch(k["sig"], sig):
            return k
    return None


_harness_ready = False


def ensure_harness():
    """go.sum must mirror /repo's (the harness module replaces the repo module)."""
    global _harness_ready
    if _harness_ready:
        return
    src = os.path.join(REPO, "go.sum")
    dst = os.path.join(HARNESS, "go.sum")
    base = os.path.join(HARNESS, "go.sum.extra")
    data = open(src).read()
    if os.path.exists(base):
        data += open(base).read()
    if not os.path.exists(dst) or open(dst).read() != data:
        with open(dst, "w") as f:
            f.write(data)
    _harness_ready = True


_alt = None


def alt_modfile():
    """VERIF_REPO=<worktree>: build the harness against a scratch copy of the
    repository (negative controls, seeded changes) without touching /repo."""
    global _alt
    if _alt is None:
        d = tempfile.mkdtemp(prefix="verif-mod-")
        import atexit
        atexit.register(shutil.rmtree, d, True)
        gm = open(os.path.join(HARNESS, "go.mod")).read().replace("=> /repo", "=> " + os.path.abspath(REPO))
        open(os.path.join(d, "go.mod"), "w").write(gm)
        data = open(os.path.join(REPO, "go.sum")).read()
        extra = os.path.join(HARNESS, "go.sum.extra")
        if os.path.exists(extra):
            data += open(extra).read()
        open(os.path.join(d, "go.sum"), "w").write(data)
        _alt = os.path.join(d, "go.mod")
    return _alt


def read_ndjson(path):
    res = []
    with open(path) as f:
        for line in f:
            line = line.strip()
            if line:
                res.append(json.loads(line))
    return res


def write_ndjson(path, recs):
    with open(path, "w") as f:
        for r in recs:
            f.write(json.dumps(r, separators=(",", ":")) + "\n")


def main(argv):
    import argparse, importlib
    ap = argparse.ArgumentParser()
    ap.add_argument("pid")
    ap.add_argument("--tier", default=os.environ.get("VERIF_TIER", "quick"), choices=["quick", "thorough"])
    ap.add_argument("--replay")
    ap.add_argument("--keep", action="store_true")
    a = ap.parse_args(argv)
    pid = a.pid.upper()
    try:
        seed = int(os.environ.get("VERIF_SEED", "1"))
    except ValueError:
        seed = 1
    sys.path.insert(0, os.path.join(ROOT, "checks"))
    ctx = Ctx(pid, a.tier, seed)
    rc = 2
    try:
        mod = importlib.import_module(pid.lower())
        if a.replay:
            want = json.load(open(a.replay))
            if hasattr(mod, "replay"):
                rc = mod.replay(ctx, want)
            else:
                # generic replay: re-run the check and look for the same signature
                mod.run(ctx)
                ctx.finish()
                again = [v for v in ctx.violations if v["sig"] == want.get("signature")]
                print("replay of %s: signature %s" % (a.replay, "REPRODUCED" if again else "not reproduced"))
                rc = 1 if again else 0
        else:
            mod.run(ctx)
            rc = ctx.finish()
    except Inconclusive as e:
        print("INCONCLUSIVE property=%s: %s" % (pid, e))
        rc = 2
    finally:
        if a.keep:
            print("scratch kept at", ctx.scratch)
        else:
            ctx.cleanup()
    print("%s tier=%s seed=%d -> exit %d (%.1fs)" % (pid, a.tier, seed, rc, time.time() - ctx.t0))
    return rc
