SPECIFICATION Spec
CONSTANTS
  Servers = {"A"}
  B0s <- B0All
  Shapes <- ShapesAll
  Vias <- ViasAll
  MaxInject = 1
  Spoof = FALSE
  Confs <- ConfsAll
  Stores <- StoresAll
  Ancs <- AncsAll
  SrcPorts <- SrcPortsAll
  RestoreAtTop = TRUE
CONSTRAINTS EnvDeep PortsExh
INVARIANTS ReplyIffValid ExactlyOne ToSender ReplyHeader NeverAnswersReply BoundedTraffic HistoryIndependence StoreSane
