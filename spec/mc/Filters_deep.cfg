SPECIFICATION Spec
CONSTANTS
  Which = "lucky"
  Caps = {1, 2, 3}
  Picks = {1, 2, 3}
  UnconfToo = TRUE
  Offs <- OffsDeep
  Rtds = {1, 2, 3, 4, 5}
  DistinctOnly = FALSE
  Clk0s = {0, 1}
  MaxEv = 8
  FilterAverage = 20
  Classes <- ClassesAll
  StepAt = {}
  MaxInDo = 0
  EmitMinInDo = 0
VIEW View
INVARIANTS DoEqualsRule UnconfiguredRaw ResetEmpties WindowIsLastN TypeOK
