SPECIFICATION TSpec
INVARIANTS Report
