SPECIFICATION TSpec
INVARIANTS Sound Complete CookieBinding AuthenticOnly RDirectionsDistinct
