package c08

import (
	"bufio"
	"fmt"
	"io"
	"os"
	"os/exec"
	"regexp"
	"strconv"
	"strings"
	"sync"
	"syscall"
	"time"
)

// proc is one child process running real scion-time code.
type proc struct {
	mode   string
	cmd    *exec.Cmd
	stdin  io.WriteCloser
	lines  chan string // stdout lines
	mu     sync.Mutex
	errbuf []byte // tail of stderr
	seqs   map[string]int
	done   chan struct{} // closed when the process has exited
	werr   error
}

const errTail = 1 << 16

func startProc(mode string, env ...string) (*proc, error) {
	exe, err := os.Executable()
	if err != nil {
		return nil, err
	}
	cmd := exec.Command(exe, "-test.run=^$")
	cmd.Env = append(os.Environ(), "C08_CHILD="+mode, "GOTRACEBACK=single", "GOMAXPROCS=4")
	cmd.Env = append(cmd.Env, env...)
	cmd.SysProcAttr = &syscall.SysProcAttr{Pdeathsig: syscall.SIGKILL}
	stdin, err := cmd.StdinPipe()
	if err != nil {
		return nil, err
	}
	stdout, err := cmd.StdoutPipe()
	if err != nil {
		return nil, err
	}
	stderr, err := cmd.StderrPipe()
	if err != nil {
		return nil, err
	}
	if err := cmd.Start(); err != nil {
		return nil, err
	}
	p := &proc{mode: mode, cmd: cmd, stdin: stdin, lines: make(chan string, 64), done: make(chan struct{}),
		seqs: map[string]int{}}
	var wg sync.WaitGroup
	wg.Add(2)
	go func() {
		defer wg.Done()
		sc := bufio.NewScanner(stdout)
		sc.Buffer(make([]byte, 1<<16), 1<<20)
		for sc.Scan() {
			p.lines <- sc.Text()
		}
	}()
	go func() {
		defer wg.Done()
		rd := bufio.NewReaderSize(stderr, 1<<16)
		for {
			line, err := rd.ReadBytes('\n')
			if len(line) > 0 {
				p.mu.Lock()
				p.noteLine(line)
				p.errbuf = append(p.errbuf, line...)
				if len(p.errbuf) > 2*errTail {
					p.errbuf = append([]byte(nil), p.errbuf[len(p.errbuf)-errTail:]...)
				}
				p.mu.Unlock()
			}
			if err != nil {
				return
			}
		}
	}()
	go func() {
		wg.Wait()
		p.werr = cmd.Wait()
		close(p.done)
	}()
	select {
	case l := <-p.lines:
		if l != "READY" {
			p.kill()
			return nil, fmt.Errorf("child %s: unexpected first line %q; stderr: %s", mode, l, p.stderr())
		}
	case <-p.done:
		return nil, fmt.Errorf("child %s exited during start-up: %v; stderr: %s", mode, p.werr, p.stderr())
	case <-time.After(20 * time.Second):
		p.kill()
		return nil, fmt.Errorf("child %s did not become ready; stderr: %s", mode, p.stderr())
	}
	return p, nil
}

var reSeq = regexp.MustCompile(`received request.*SequenceID:(\d+)`)

// noteLine remembers the CSPTP listener's "received request" debug lines (the
// CSPTP server never answers, so its log is the only sign that a request
// reached the end of the loop body). Called with p.mu held.
func (p *proc) noteLine(line []byte) {
	if m := reSeq.FindSubmatch(line); m != nil {
		p.seqs[string(m[1])]++
	}
}

func (p *proc) sawSeq(id int) bool {
	p.mu.Lock()
	defer p.mu.Unlock()
	return p.seqs[strconv.Itoa(id)] > 0
}

func (p *proc) clearSeqs() {
	p.mu.Lock()
	p.seqs = map[string]int{}
	p.mu.Unlock()
}

func (p *proc) stderr() string {
	p.mu.Lock()
	defer p.mu.Unlock()
	return string(p.errbuf)
}

func (p *proc) exited() bool {
	select {
	case <-p.done:
		return true
	default:
		return false
	}
}

// waitExit waits up to d for the process to exit.
func (p *proc) waitExit(d time.Duration) bool {
	select {
	case <-p.done:
		return true
	case <-time.After(d):
		return false
	}
}

func (p *proc) kill() {
	if p == nil || p.cmd == nil || p.cmd.Process == nil {
		return
	}
	p.cmd.Process.Kill()
	select {
	case <-p.done:
	case <-time.After(5 * time.Second):
	}
}

// cpuTicks returns utime+stime of the child in clock ticks (USER_HZ = 100).
func (p *proc) cpuTicks() int64 {
	b, err := os.ReadFile(fmt.Sprintf("/proc/%d/stat", p.cmd.Process.Pid))
	if err != nil {
		return -1
	}
	s := string(b)
	i := strings.LastIndexByte(s, ')')
	if i < 0 {
		return -1
	}
	f := strings.Fields(s[i+1:])
	if len(f) < 13 {
		return -1
	}
	ut, _ := strconv.ParseInt(f[11], 10, 64)
	st, _ := strconv.ParseInt(f[12], 10, 64)
	return ut + st
}

// spinning reports whether the child burns CPU (>= 35% of one core, the machine may be busy) during d.
func (p *proc) spinning(d time.Duration) bool {
	a := p.cpuTicks()
	t0 := time.Now()
	time.Sleep(d)
	b := p.cpuTicks()
	el := time.Since(t0).Seconds()
	if a < 0 || b < 0 {
		return false
	}
	return float64(b-a)/100.0 >= 0.35*el
}

// hotThread returns the thread of the child that used most CPU during d (0 if none did).
func (p *proc) hotThread(d time.Duration) int {
	pid := p.cmd.Process.Pid
	read := func() map[int]int64 {
		res := map[int]int64{}
		ents, err := os.ReadDir(fmt.Sprintf("/proc/%d/task", pid))
		if err != nil {
			return res
		}
		for _, e := range ents {
			tid, err := strconv.Atoi(e.Name())
			if err != nil {
				continue
			}
			b, err := os.ReadFile(fmt.Sprintf("/proc/%d/task/%d/stat", pid, tid))
			if err != nil {
				continue
			}
			s := string(b)
			i := strings.LastIndexByte(s, ')')
			if i < 0 {
				continue
			}
			f := strings.Fields(s[i+1:])
			if len(f) < 13 {
				continue
			}
			ut, _ := strconv.ParseInt(f[11], 10, 64)
			st, _ := strconv.ParseInt(f[12], 10, 64)
			res[tid] = ut + st
		}
		return res
	}
	a := read()
	time.Sleep(d)
	b := read()
	best, bestd := 0, int64(0)
	for tid, v := range b {
		if dv := v - a[tid]; dv > bestd {
			best, bestd = tid, dv
		}
	}
	return best
}

// dumpAndKill asks the Go runtime of the child for its goroutine stacks: SIGQUIT is delivered to
// the thread that burns CPU, so that the goroutine running there is printed with its stack (a
// goroutine running on another thread than the one handling the signal has none in the dump).
// Waits for the dump and makes sure the process is gone.
func (p *proc) dumpAndKill() string {
	p.mu.Lock()
	n := len(p.errbuf)
	p.mu.Unlock()
	if tid := p.hotThread(30 * time.Millisecond); tid != 0 {
		if err := syscall.Tgkill(p.cmd.Process.Pid, tid, syscall.SIGQUIT); err != nil {
			p.cmd.Process.Signal(syscall.SIGQUIT)
		}
	} else {
		p.cmd.Process.Signal(syscall.SIGQUIT)
	}
	if !p.waitExit(3 * time.Second) {
		p.kill()
	}
	s := p.stderr()
	if strings.Contains(s, "c08 watchdog") {
		return "fatal error: c08 watchdog: out of memory"
	}
	if i := strings.LastIndex(s, "SIGQUIT: quit"); i >= 0 {
		return s[i:]
	}
	if n <= len(s) {
		return s[n:]
	}
	return s
}

var (
	reFrame      = regexp.MustCompile(`(?m)^([A-Za-z0-9_][^\s]*)\([^()]*\)\n\t`)
	reDigits     = regexp.MustCompile(`\d+`)
	rePanic      = regexp.MustCompile(`(?m)^(panic: .*|fatal error: .*)$`)
	reFatalKnown = regexp.MustCompile(`concurrent map [a-z ]+[a-z]|all goroutines are asleep - deadlock!|stack overflow|unlock of unlocked mutex`)
	reGorHead    = regexp.MustCompile(`(?m)^goroutine \d+ (?:gp=\S+ m=\S+ (?:mp=\S+ )?)?\[([^\]]*)\]:$`)
)

// crashSignature extracts a structural signature from a Go crash dump: the
// panic message with numbers removed and the innermost frames that belong to
// scion-time (plus the innermost non-runtime frame if it is foreign, e.g. the
// AEAD that refuses the nonce).
func crashSignature(dump string) (sig, msg string) {
	m := rePanic.FindString(dump)
	if m == "" {
		return "", ""
	}
	msg = m
	if i := strings.Index(msg, " [recovered]"); i >= 0 {
		msg = msg[:i]
	}
	if strings.HasPrefix(msg, "fatal error:") {
		// the runtime writes "fatal error: " and the message separately; a log record of another goroutine
		// may land in between
		if i := strings.Index(msg, "time="); i >= 0 {
			msg = strings.TrimSpace(msg[:i])
		}
		if msg == "fatal error:" {
			if k := reFatalKnown.FindString(dump); k != "" {
				msg = "fatal error: " + k
			}
		}
	}
	if strings.Contains(dump, "c08 watchdog") || strings.Contains(msg, "out of memory") || strings.Contains(msg, "cannot allocate memory") {
		return "oom", msg
	}
	norm := reDigits.ReplaceAllString(msg, "N")
	// the goroutine that panicked is the first one printed after the message
	i := strings.Index(dump, m)
	rest := dump[i+len(m):]
	if j := reGorHead.FindStringIndex(rest); j != nil {
		rest = rest[j[1]:]
		if k := reGorHead.FindStringIndex(rest); k != nil {
			rest = rest[:k[0]]
		}
	}
	frames := stackFuncs(rest)
	return norm + " @ " + strings.Join(pickFrames(frames), " < "), msg
}

func stackFuncs(stack string) []string {
	var res []string
	for _, m := range reFrame.FindAllStringSubmatch(stack, -1) {
		f := m[1]
		// generic instantiation suffix and closure numbering are not structural
		f = strings.TrimSuffix(f, "[...]")
		if strings.HasPrefix(f, "panic") || strings.HasPrefix(f, "runtime.") || strings.HasPrefix(f, "created by") {
			continue
		}
		res = append(res, f)
	}
	return res
}

func short(f string) string {
	f = strings.TrimPrefix(f, "example.com/scion-time/")
	f = strings.TrimPrefix(f, "github.com/")
	return f
}

// ownFrames: the scion-time frames of a stack, innermost first, without goroutine wrappers.
func ownFrames(frames []string) []string {
	var own []string
	for _, f := range frames {
		if strings.HasPrefix(f, "example.com/scion-time/") && !strings.Contains(f, ".gowrap") {
			own = append(own, short(f))
		}
	}
	return own
}

// condense keeps the innermost frame and the two outermost ones (the receive loop and what it called).
func condense(own []string) []string {
	if len(own) <= 3 {
		return own
	}
	return []string{own[0], "..", own[len(own)-2], own[len(own)-1]}
}

func pickFrames(frames []string) []string {
	var res []string
	if len(frames) > 0 && !strings.HasPrefix(frames[0], "example.com/scion-time/") {
		res = append(res, short(frames[0])) // innermost foreign frame, e.g. the AEAD that refuses the nonce
	}
	return append(res, condense(ownFrames(frames))...)
}

// spinSignature finds, in a SIGQUIT dump, the goroutine that is running in
// scion-time code (the non-advancing loop).
func spinSignature(dump string) string {
	idx := reGorHead.FindAllStringSubmatchIndex(dump, -1)
	best := ""
	for n, loc := range idx {
		state := dump[loc[2]:loc[3]]
		end := len(dump)
		if n+1 < len(idx) {
			end = idx[n+1][0]
		}
		body := dump[loc[1]:end]
		if !strings.HasPrefix(state, "running") && !strings.HasPrefix(state, "runnable") {
			continue
		}
		var fs []string
		for _, f := range stackFuncs(body) {
			if !strings.HasSuffix(f, ".unpack") {
				fs = append(fs, f)
			}
		}
		own := condense(ownFrames(fs))
		if len(own) > 0 {
			s := strings.Join(own, " < ")
			if best == "" || strings.Contains(s, "nts.") {
				best = s
			}
		}
	}
	return best
}
