SPECIFICATION TSpec
INVARIANTS SRequest SOutcome
