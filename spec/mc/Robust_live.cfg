SPECIFICATION FairSpec
CONSTANTS
  Kinds <- KindsAll
  MaxExt = 2
  MaxExtCli = 2
  MaxKe = 1
  MaxCases = 2
  ScDev = 1
  MaxHist = 2
  Bursts = {"vn", "vk", "mix"}
  Wide = FALSE
  ExtLenZeroLoops = FALSE
  NonceLenUnchecked = FALSE
  CookieDecodeUnchecked = FALSE
  PacketOverflowUnchecked = FALSE
  ShortUniqueIdEchoed = FALSE
  CsptpShortDatagram = FALSE
  ScionReverseUnchecked = FALSE
  ScionAddrLenUnchecked = FALSE
  ScionAuthOptUnchecked = FALSE
  ScionMacErrPanics = FALSE
  ScionTsOptUnchecked = FALSE
  ScionTsOptTrusted = FALSE
  CmsgLenUnchecked = FALSE
INVARIANTS TypeOK OutcomeConsistent NeverDead NoSpin EveryIterationAdvances SentinelNotLost
PROPERTIES Progress SentinelServed
