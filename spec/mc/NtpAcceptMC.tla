---------------------------- MODULE NtpAcceptMC ----------------------------
EXTENDS NtpAccept, Json
Done == state \in {"ok", "error", "timeout"}
\* a case = the datagrams that were queued, in order (the consumed prefix with the
\* specification's reaction, plus whatever was not consumed)
Emit == Done => PrintT(<<"CASE", ToJson([il |-> il, seen |-> hist, rest |-> queue, outcome |-> state])>>)

(***************************************************************************)
(* Pair cases: a representative skipped datagram first (it uses up the     *)
(* client's one retry), then every datagram exactly one field away from    *)
(* the genuine response, then the genuine response.  The code takes        *)
(* different paths once the retry is spent (every "skip" becomes a         *)
(* terminal error - or must), so each acceptance clause is exercised in    *)
(* that state as well.                                                     *)
(***************************************************************************)
Single(i) == {d \in Datagram : Dist(d, Genuine(i)) = 1}
SkipReps(i) == {[Genuine(i) EXCEPT !.len = "short"], [Genuine(i) EXCEPT !.origin = "other"]}
PairInit ==
  /\ il \in BOOLEAN
  /\ retries = 0 /\ state = "waiting" /\ last = Genuine(FALSE) /\ hist = << >>
  /\ queue \in {<<r, d, Genuine(il)>> : r \in SkipReps(il), d \in Single(il)}
PairSpec == PairInit /\ [][Recv \/ Timeout]_vars
=============================================================================
