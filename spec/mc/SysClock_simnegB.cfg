SPECIFICATION SimSpec
CONSTANTS
  QPS = 4
  G = 262144
  DPS = 1000000000
  Variant = "code"
  AdjOffs <- OffsB
  AdjDurs <- DursBneg
  AdjFreqs <- FreqsB
  StepOffs <- StepsB
  Deltas <- DeltaB
  DoOffs <- None
  DoStats <- None
  MaxOps = 1000
  MaxAdv = 1000
  DoAtomic = TRUE
  KeepHist = TRUE
  EpochReads = FALSE
  MaxLen = 10
INVARIANTS Emit
