// C13 driver: every abstract datagram enumerated by TLC (spec/ScionAuth.tla,
// ScionAuth_gen.cfg) is concretised with scionproto's slayers / spao packages
// and sent to the REAL SCION listeners (server.StartSCIONServer and
// server.StartSCIONDispatcher) on loopback; every end-to-end case
// (ScionAuth_gene2e.cfg) is run with the REAL SCIONClient against the real
// server through a harness relay that plays the network. What comes out, and
// where, is recorded in model units for ScionAuthTrace.tla (monitor + strict).
//
// Who is who on the wire (all 127.a.b.x, a.b drawn per process):
//
//	S  .1  StartSCIONServer     (server port + 30041)      "server" mode
//	S' .2  StartSCIONDispatcher (30041 only)               "dispatcher" mode
//	C  .3  the SCION source host (requester); the harness binds C:cp so that a
//	       reply sent to the SCION source instead of the previous hop is seen
//	P  .4  the previous hop: the socket every datagram is sent from
//	D  .5  another end host (forward target); the harness binds D:30041 and D:<server port>
//
// "Nothing came out" is decided by order, not by a time-out: the case is followed,
// from the same socket, by a sentinel (same 4-tuple => same SO_REUSEPORT listener
// goroutine => handled in order).
//
// The listeners run in this process; if a listener goroutine panics the test
// binary dies and the check reports INCONCLUSIVE (crash sites are C08's).
package c13

import (
	"bytes"
	"context"
	"encoding/binary"
	"log/slog"
	"math/rand"
	"net"
	"os"
	"sync"
	"sync/atomic"
	"testing"
	"time"

	"github.com/prometheus/client_golang/prometheus"
	"github.com/scionproto/scion/pkg/addr"
	"github.com/scionproto/scion/pkg/daemon"
	"github.com/scionproto/scion/pkg/slayers"
	"github.com/scionproto/scion/pkg/slayers/path"

	"example.com/scion-time/core/server"
	"example.com/scion-time/core/timebase"
	"example.com/scion-time/driver/clocks"
	"example.com/scion-time/net/ntske"

	"verif/harness/internal/vio"
)

// a case as printed by ScionAuthMC!Emit / EmitE2E (checks/c13.py adds t, sweep)
type tcase struct {
	T     string `json:"t"`     // "req" | "e2e"
	Sweep bool   `json:"sweep"` // every bit of the tamper class instead of one drawn bit
	Mode  string `json:"mode"`
	Ul    string `json:"ul"`
	L4    string `json:"l4"`
	Dp    string `json:"dp"`
	Dh    string `json:"dh"`
	Sfam  int    `json:"sfam"`
	Dfam  int    `json:"dfam"`
	Path  apath  `json:"path"`
	Pl    string `json:"pl"`
	Ak    string `json:"ak"`
	Ext   string `json:"ext"`  // extension header chain of the request
	Rext  string `json:"rext"` // e2e: ... of the response as handed to the client
	// e2e
	Cauth bool   `json:"cauth"`
	Rm    string `json:"rm"`
	cia   addr.IA // e2e, key regime with epochs: the client's ISD-AS (0: iaC)
}

// record layout consumed by ScionAuthTrace.tla
type rec struct {
	K        string   `json:"k"` // "req" | "e2e" | "stray"
	ID       int      `json:"id"`
	Sub      int      `json:"sub"` // tampered bit (byte*8+bit), -1 if none
	Mode     string   `json:"mode"`
	Ak       string   `json:"ak"`
	Pl0      string   `json:"pl0"`      // payload class as built (before tampering)
	Q        adgram   `json:"q"`        // the datagram as it arrived at the listener
	HasAuth  bool     `json:"hasauth"`  // it carries an authenticator option
	Expected bool     `json:"expected"` // ... with the request SPI and the CMAC algorithm
	MacOK    bool     `json:"macok"`    // ... whose MAC verifies over the datagram as it arrived
	Sn       int      `json:"sn"`       // the sentinel was answered (the listener is past the case)
	Tries    int      `json:"tries"`
	Outs     []adgram `json:"outs"`  // everything the listener sent because of it
	Undel    bool     `json:"undel"` // a forward would go to an IPv6 underlay address (not reachable from the IPv4 socket)
	// end-to-end cases
	Cauth     bool   `json:"cauth"`
	Rm        string `json:"rm"`
	Rext      string `json:"rext"`
	Rsub      int    `json:"rsub"`
	Delivered bool   `json:"delivered"` // a response was handed to the client
	RHasAuth  bool   `json:"rhasauth"`  // the response as delivered: authenticator present,
	RExpected bool   `json:"rexpected"` // response SPI and CMAC,
	RMacOK    bool   `json:"rmacok"`    // MAC verifies
	Cli       string `json:"cli"`       // "accept" | "refuse" | "other" | "-"  (from the return of the client's call, see e2e_test.go)
	CliLog    string `json:"clilog"`    // optional: "verified" | "unauth" | "reject" | "other" according to the client's log; "" = no known record seen
	CliErr    string `json:"clierr"`
	// key-regime sequences (k = "key"): position, what the DRKey daemon saw, and what
	// ScionAuth.tla's behaviour says for this step
	Seq     int    `json:"seq"`
	Step    int    `json:"step"`
	Fetches int    `json:"fetches"` // host-AS key requests that reached the daemon because of this datagram
	WFetch  bool   `json:"wfetch"`
	WExp    bool   `json:"wexp"`
	WAct    string `json:"wact"`
	// time / key epochs (key regime)
	At     int    `json:"at"`     // the specification's instant of arrival
	Pos    int    `json:"pos"`    // ... its position in its epoch (0 = NotBefore, 2 = NotAfter)
	Cst    string `json:"cst"`    // ... and what the specification's cache holds when it arrives
	Ep     int    `json:"ep"`     // epoch (the DRKey daemon's numbering) that contains the receive instant
	Amb    bool   `json:"amb"`    // an epoch boundary passed while the datagram was under way: not judged
	WMacOK bool   `json:"wmacok"` // the specification's MacOK(req, ReqKey(req)) for this step
	// fetcher level (k = "fkey")
	Scale    string `json:"scale"`    // length of an epoch
	Accepted bool   `json:"accepted"` // the MAC verifies under the key derived from what the fetcher handed out
	Fep      int    `json:"fep"`      // epoch of the host-AS key the fetcher handed out (-9: no epoch's key)
	InEp     bool   `json:"inep"`     // ... whose Epoch contains the instant asked for
}

type rx struct {
	b    []byte
	from *net.UDPAddr
}

// a harness socket that is shared by all cases (D:30041, D:<server port>)
type shared struct {
	conn   *net.UDPConn
	mu     sync.Mutex
	byTag  map[string][]rx
	strays []rx
}

func tagOf(pl []byte) (string, bool) {
	if len(pl) >= 48 && pl[40] == 0xC1 && pl[41] == 0x3D {
		return string(pl[40:48]), true
	}
	if len(pl) >= 8 && pl[0] == 0xC1 && pl[1] == 0x3D {
		return string(pl[0:8]), true
	}
	return "", false
}

func newShared(t testing.TB, ip net.IP, port int) *shared {
	c, err := net.ListenUDP("udp4", udpAddr(ip, port))
	if err != nil {
		t.Fatalf("cannot bind %v:%d: %v", ip, port, err)
	}
	s := &shared{conn: c, byTag: map[string][]rx{}}
	go func() {
		buf := make([]byte, 16384)
		for {
			n, from, err := c.ReadFromUDP(buf)
			if err != nil {
				return
			}
			b := append([]byte{}, buf[:n]...)
			p := parse(b)
			tag, ok := "", false
			if p.ok {
				tag, ok = tagOf(p.l4Payload())
			}
			s.mu.Lock()
			if ok {
				s.byTag[tag] = append(s.byTag[tag], rx{b, from})
			} else {
				s.strays = append(s.strays, rx{b, from})
			}
			s.mu.Unlock()
		}
	}()
	return s
}

func (s *shared) take(tag string) []rx {
	s.mu.Lock()
	defer s.mu.Unlock()
	r := s.byTag[tag]
	delete(s.byTag, tag)
	return r
}

type harness struct {
	w     world
	dc    daemon.Connector // the client's DRKey source (nil: mock keys)
	dEh   *shared
	dSrv  *shared
	seq   atomic.Uint64
	grace time.Duration
}

func freePort(t testing.TB, ip net.IP) int {
	for {
		c, err := net.ListenUDP("udp4", &net.UDPAddr{IP: ip})
		if err != nil {
			t.Fatalf("cannot bind %v: %v", ip, err)
		}
		p := c.LocalAddr().(*net.UDPAddr).Port
		c.Close()
		if p != endhostPort {
			return p
		}
	}
}

func setup(t testing.TB) *harness {
	timebase.RegisterClock(clocks.NewSystemClock(slog.New(slog.DiscardHandler), clocks.UnknownDrift))
	// private loopback addresses: nothing else on this machine talks to them
	hsh := uint32(os.Getpid())*2654435761 ^ uint32(time.Now().UnixNano())
	base := net.IPv4(127, byte(1+(hsh>>8)%250), byte(hsh>>16), 0).To4()
	mk := func(last byte) net.IP { ip := append(net.IP{}, base...); ip[3] = last; return ip }
	h := &harness{grace: 3 * time.Millisecond}
	h.w = world{ipS: map[string]net.IP{"server": mk(1), "dispatcher": mk(2)}, ipC: mk(3), ipP: mk(4), ipD: mk(5)}
	h.w.srvPort = freePort(t, h.w.ipS["server"])
	log := slog.New(slog.DiscardHandler)
	if os.Getenv("C13_LOG") != "" {
		log = slog.New(slog.NewTextHandler(os.Stderr, &slog.HandlerOptions{Level: slog.LevelDebug}))
	}
	ctx := context.Background()
	// the listeners register their counters with promauto on the default
	// registerer: one registry per listener
	prometheus.DefaultRegisterer = prometheus.NewRegistry()
	server.StartSCIONServer(ctx, log, "", &net.UDPAddr{IP: h.w.ipS["server"], Port: h.w.srvPort}, 0, ntske.NewProvider())
	prometheus.DefaultRegisterer = prometheus.NewRegistry()
	server.StartSCIONDispatcher(ctx, log, &net.UDPAddr{IP: h.w.ipS["dispatcher"], Port: h.w.srvPort})
	prometheus.DefaultRegisterer = prometheus.NewRegistry()
	h.dEh = newShared(t, h.w.ipD, endhostPort)
	h.dSrv = newShared(t, h.w.ipD, h.w.srvPort)
	return h
}

// ------------------------------------------------------------------ payloads

func (h *harness) tag() []byte {
	b := make([]byte, 8)
	binary.BigEndian.PutUint64(b, 0xC13D<<48|h.seq.Add(1)&0xffffffffffff)
	return b
}

// the sentinel's mark (never equal to a case's tag)
func (h *harness) mark() []byte {
	b := make([]byte, 8)
	binary.BigEndian.PutUint64(b, 0xA55A<<48|h.seq.Add(1)&0xffffffffffff)
	return b
}

func ntpRequest(lvm byte, tx []byte, rng *rand.Rand) []byte {
	b := make([]byte, 48)
	b[0] = lvm
	b[2] = byte(rng.Intn(12)) // poll
	copy(b[40:], tx)
	copy(b[32:], tx) // receive == transmit: basic mode for certain
	return b
}

func (h *harness) payload(l4, pl string, tag []byte, rng *rand.Rand) []byte {
	switch l4 {
	case "udp":
		switch pl {
		case "ntp":
			return ntpRequest(0x23, tag, rng)
		case "badreq":
			return ntpRequest(0x24, tag, rng) // mode 4: not a request
		case "short":
			return append(append([]byte{}, tag...), randBytes(rng, 12)...)
		}
	case "echo", "scmpx":
		// identifier, sequence number, data
		return append(append(randBytes(rng, 4), tag...), randBytes(rng, rng.Intn(24))...)
	case "tr":
		// identifier, sequence number, ISD-AS, interface
		return append(append(randBytes(rng, 4), tag...), randBytes(rng, 8)...)
	case "l4x":
		return append(append([]byte{}, tag...), randBytes(rng, 24)...)
	}
	panic("payload " + l4 + "/" + pl)
}

func tamperedPl(pl string) string {
	if pl == "ntp" {
		return "ntp'"
	}
	return "data'"
}

// -------------------------------------------------------------- tampering

var flipClasses = map[string]bool{"macFlip": true, "covHdr": true, "covPath": true, "covPld": true, "tsFlip": true,
	"rsvFlip": true, "uncovFlip": true, "spiFlip": true, "algoFlip": true}

// applies tamper class k to an authenticated packet; returns the flipped bit
func tamper(w []byte, k string, sub int, rng *rand.Rand) int {
	if !flipClasses[k] {
		return -1
	}
	bits := region(w, k)
	if sub < 0 {
		sub = bits[rng.Intn(len(bits))]
	}
	flip(w, sub)
	return sub
}

// --------------------------------------------------------------- one case

const (
	maxTries     = 3
	sentinelWait = 1200 * time.Millisecond
)

// a fresh socket on an ephemeral port that is neither the end-host port nor
// (a number equal to) the server port, so that port labels are unambiguous
func (h *harness) listen(ip net.IP) *net.UDPConn {
	for {
		c, err := net.ListenUDP("udp4", &net.UDPAddr{IP: ip})
		if err != nil {
			panic(err)
		}
		if p := portOf(c); p != endhostPort && p != h.w.srvPort {
			return c
		}
		c.Close()
	}
}

func portOf(c *net.UDPConn) int { return c.LocalAddr().(*net.UDPAddr).Port }

type typedPath struct {
	t path.Type
	b []byte
}

// classification of a datagram that came out, relative to the request
func (h *harness) observe(mode string, b []byte, from *net.UDPAddr, to string, pm portMap, reqPl []byte, reqTx []byte,
	reqPath, revPath typedPath, qpl string) adgram {
	o, p := h.w.project(mode, b, pm)
	o.To = to
	o.From = "?"
	if from.IP.Equal(h.w.ipS[mode]) {
		switch from.Port {
		case endhostPort:
			o.From = "eh"
		case h.w.srvPort:
			o.From = "srv"
		}
	}
	if !p.ok {
		return o
	}
	pl := p.l4Payload()
	switch {
	case bytes.Equal(pl, reqPl):
		o.Pl = qpl
	case o.L4 == "udp" && isNtpResp(pl):
		o.Pl = "ntpResp"
	default:
		o.Pl = "changed"
	}
	lo := layoutOf(b)
	pb := b[lo.pathOff:lo.hdrLen]
	want := reqPath
	if (o.L4 == "udp" && o.Pl == "ntpResp") || o.L4 == "echoRep" || o.L4 == "trRep" {
		want = revPath
	}
	o.RawOK = lo.pathType == want.t && bytes.Equal(pb, want.b)
	o.Echo = o.Pl == "ntpResp" && len(reqTx) == 8 && bytes.Equal(pl[24:32], reqTx)
	return o
}

func (h *harness) sentinelFor(mode string, P *net.UDPConn, rng *rand.Rand) (wire []byte, mark []byte) {
	mark = h.mark()
	s := &pktSpec{srcIA: iaC, dstIA: iaS, srcHost: v4(h.w.ipP), dstHost: v4(h.w.ipS[mode]), path: emptyPath, flow: 1}
	if mode == "server" {
		s.l4, s.sport, s.dport = "udp", uint16(portOf(P)), uint16(h.w.srvPort)
		s.payload = ntpRequest(0x23, mark, rng)
	} else {
		s.l4 = "echo"
		s.payload = append(append([]byte{0, 0, 0, 0}, mark...), 0, 0, 0, 0)
	}
	return build(s, rng), mark
}

func isSentinelReply(b []byte, mark []byte) bool {
	p := parse(b)
	if !p.ok {
		return false
	}
	pl := p.l4Payload()
	switch p.last {
	case slayers.LayerTypeSCIONUDP:
		return len(pl) >= 48 && bytes.Equal(pl[24:32], mark)
	case slayers.LayerTypeSCMP:
		return len(pl) >= 12 && bytes.Equal(pl[4:12], mark)
	}
	return false
}

func drain(c *net.UDPConn, d time.Duration) []rx {
	var r []rx
	buf := make([]byte, 16384)
	c.SetReadDeadline(time.Now().Add(d))
	for len(r) < 16 {
		n, from, err := c.ReadFromUDP(buf)
		if err != nil {
			break
		}
		r = append(r, rx{append([]byte{}, buf[:n]...), from})
	}
	return r
}

func (h *harness) runCase(id int, c *tcase, sub int, rng *rand.Rand) *rec {
	r := &rec{K: "req", ID: id, Sub: -1, Rsub: -1, Mode: c.Mode, Ak: c.Ak, Pl0: c.Pl, Outs: []adgram{}, Rm: "-", Cli: "-"}
	lip := h.w.ipS[c.Mode]
	for try := 1; try <= maxTries; try++ {
		r.Tries = try
		r.Outs, r.Sn = []adgram{}, 0
		P := h.listen(h.w.ipP)
		var C, F *net.UDPConn
		pm := portMap{srv: h.w.srvPort, cp: 31000 + rng.Intn(1000), oth: -1}
		if c.Sfam == 4 {
			C = h.listen(h.w.ipC)
			pm.cp = portOf(C)
		}
		dport := 0
		if c.L4 == "udp" {
			switch {
			case c.Dp == "eh":
				dport = endhostPort
			case c.Dp == "srv" && c.Mode == "server":
				dport = h.w.srvPort
			default:
				// "another port": a fresh socket of the harness on the destination host
				fip := lip
				if c.Dh == "D" {
					fip = h.w.ipD
				}
				F = h.listen(fip)
				dport = portOf(F)
				if c.Dp == "srv" {
					pm.srv = dport // dispatcher: the "server port" is just another port
				} else {
					pm.oth = dport
				}
			}
		}
		tag := h.tag()
		s := &pktSpec{srcIA: iaC, dstIA: iaS, srcHost: h.w.host(c.Mode, "C", c.Sfam), dstHost: h.w.host(c.Mode, c.Dh, c.Dfam),
			sport: uint16(pm.cp), dport: uint16(dport), path: c.Path, l4: c.L4, payload: h.payload(c.L4, c.Pl, tag, rng),
			flow: uint32(rng.Intn(1 << 20)), tc: uint8(rng.Intn(256)), ext: c.Ext}
		if c.Ak != "absent" {
			s.auth = &authSpec{spi: spiClient, algo: algCMAC, ts: uint64(rng.Int63()) & 0xffffffffffff, key: zeroKey}
			switch c.Ak {
			case "spiOther":
				s.auth.spi = spiServer
			case "wrongKey":
				s.auth.key = otherKey
			}
		}
		wire := build(s, rng)
		qpl := c.Pl
		r.Sub = tamper(wire, c.Ak, sub, rng)
		if c.Ak == "covPld" {
			qpl = tamperedPl(c.Pl)
		}
		if c.Ext == "hbh" {
			wire = insertHBH(wire)
		}
		q, qp := h.w.project(c.Mode, wire, pm)
		if !qp.ok {
			panic("the harness built an undecodable packet")
		}
		q.Ul, q.Pl = c.Ul, qpl
		if c.L4 == "scmpx" {
			q.L4 = "scmpx" // (the message may be a reply type, which the projection names)
		}
		if c.L4 == "udp" && c.Ak != "absent" && q.Ext != c.Ext {
			panic("extension chain built: " + q.Ext + ", wanted: " + c.Ext)
		}
		q.Ext = c.Ext
		r.Q = q
		r.HasAuth = q.Auth != "absent"
		r.Expected = q.Aspi == "client" && q.Aalgo == "cmac"
		r.MacOK = q.Auth == "ok"
		r.Undel = c.Dfam == 6
		lo := layoutOf(wire)
		reqPath := typedPath{lo.pathType, append([]byte{}, wire[lo.pathOff:lo.hdrLen]...)}
		var revPath typedPath
		revPath.t, revPath.b = reversedPathBytes(reqPath.t, reqPath.b)
		reqPl := append([]byte{}, qp.l4Payload()...)
		var reqTx []byte
		if c.L4 == "udp" && len(reqPl) >= 48 {
			reqTx = reqPl[40:48]
		}
		ulport := h.w.srvPort
		if c.Ul == "eh" {
			ulport = endhostPort
		}
		dst := udpAddr(lip, ulport)
		swire, mark := h.sentinelFor(c.Mode, P, rng)
		if _, err := P.WriteToUDP(wire, dst); err != nil {
			panic(err)
		}
		if _, err := P.WriteToUDP(swire, dst); err != nil {
			panic(err)
		}
		P.SetReadDeadline(time.Now().Add(sentinelWait))
		buf := make([]byte, 16384)
		for r.Sn == 0 && len(r.Outs) < 16 {
			n, from, err := P.ReadFromUDP(buf)
			if err != nil {
				break
			}
			b := append([]byte{}, buf[:n]...)
			if isSentinelReply(b, mark) {
				r.Sn = 1
				break
			}
			r.Outs = append(r.Outs, h.observe(c.Mode, b, from, "prev", pm, reqPl, reqTx, reqPath, revPath, qpl))
		}
		if C != nil {
			for _, x := range drain(C, h.grace) {
				r.Outs = append(r.Outs, h.observe(c.Mode, x.b, x.from, "src", pm, reqPl, reqTx, reqPath, revPath, qpl))
			}
			C.Close()
		}
		if F != nil {
			for _, x := range drain(F, h.grace) {
				r.Outs = append(r.Outs, h.observe(c.Mode, x.b, x.from, "dst", pm, reqPl, reqTx, reqPath, revPath, qpl))
			}
			F.Close()
		}
		for i, sh := range []*shared{h.dEh, h.dSrv} {
			for _, x := range sh.take(string(tag)) {
				to := "other"
				if c.Dh == "D" && ((i == 0 && c.Dp == "eh") || (i == 1 && c.Dp == "srv")) {
					to = "dst"
				}
				r.Outs = append(r.Outs, h.observe(c.Mode, x.b, x.from, to, pm, reqPl, reqTx, reqPath, revPath, qpl))
			}
		}
		P.Close()
		if r.Sn == 1 {
			break
		}
	}
	return r
}

// ----------------------------------------------------------------------- test

func TestC13(t *testing.T) {
	if os.Getenv("USE_MOCK_KEYS") != "true" {
		t.Fatal("USE_MOCK_KEYS=true must be set in the environment (net/scion reads it at start-up)")
	}
	cases := vio.ReadCases[tcase](t)
	out := vio.Create(t)
	defer out.Close()
	h := setup(t)

	// preflight: a plain request must be answered, an SCMP echo must be answered
	// by the dispatcher; otherwise every case would run into the sentinel time-out
	pre := []tcase{
		{T: "req", Mode: "server", Ul: "srv", L4: "udp", Dp: "srv", Dh: "S", Sfam: 4, Dfam: 4, Path: emptyPath, Pl: "ntp", Ak: "absent", Ext: "e2e"},
		{T: "req", Mode: "dispatcher", Ul: "eh", L4: "echo", Dp: "-", Dh: "S", Sfam: 4, Dfam: 4, Path: emptyPath, Pl: "data", Ak: "absent", Ext: "e2e"},
	}
	for i := range pre {
		r := h.runCase(-1-i, &pre[i], -1, vio.Rand())
		out.Emit(r)
		if r.Sn != 1 {
			t.Logf("C13 preflight %d: the sentinel was not answered (recorded)", i)
			t.Logf("C13 records=%d req=0 e2e=0 lost=1 aborted=1", i+1)
			return
		}
	}

	type job struct {
		id  int
		c   *tcase
		sub int
	}
	var jobs []job
	for i := range cases {
		c := &cases[i]
		if c.T == "req" && c.Sweep && flipClasses[c.Ak] {
			// every bit of the class: the layout depends only on the case's shape
			probe := h.probeWire(c)
			for _, b := range region(probe, c.Ak) {
				jobs = append(jobs, job{i, c, b})
			}
			continue
		}
		jobs = append(jobs, job{i, c, -1})
	}
	const workers = 12
	var wg sync.WaitGroup
	var lost, nreq, ne2e atomic.Int64
	for w := 0; w < workers; w++ {
		wg.Add(1)
		go func(w int) {
			defer wg.Done()
			rng := rand.New(rand.NewSource(vio.Seed()*1000 + int64(w)))
			for i := w; i < len(jobs); i += workers {
				if lost.Load() > 24 {
					return // the listener is gone or deaf; the check reports it
				}
				j := jobs[i]
				var rs []*rec
				if j.c.T == "e2e" {
					rs = h.runE2E(j.id, j.c, rng)
					ne2e.Add(int64(len(rs)))
				} else {
					rs = []*rec{h.runCase(j.id, j.c, j.sub, rng)}
					nreq.Add(1)
				}
				for _, r := range rs {
					if r.Sn != 1 {
						lost.Add(1)
					}
					out.Emit(r)
				}
			}
		}(w)
	}
	wg.Wait()
	// anything that reached the shared sockets and belongs to no case
	time.Sleep(5 * time.Millisecond)
	nstray := 0
	for i, sh := range []*shared{h.dEh, h.dSrv} {
		sh.mu.Lock()
		rest := sh.strays
		for _, v := range sh.byTag {
			rest = append(rest, v...)
		}
		sh.mu.Unlock()
		for _, x := range rest {
			mode := "server"
			if x.from.IP.Equal(h.w.ipS["dispatcher"]) {
				mode = "dispatcher"
			} else if !x.from.IP.Equal(h.w.ipS["server"]) {
				continue // not from a listener under test
			}
			o := h.observe(mode, x.b, x.from, "other", portMap{srv: h.w.srvPort, cp: -1, oth: -1}, nil, nil, typedPath{}, typedPath{}, "-")
			o.To = "srvD"
			if i == 0 {
				o.To = "ehD"
			}
			r := &rec{K: "stray", ID: nstray, Sub: -1, Rsub: -1, Mode: mode, Ak: "-", Pl0: "-", Q: o, Outs: []adgram{o}, Sn: 1, Rm: "-", Cli: "-"}
			out.Emit(r)
			nstray++
		}
	}
	t.Logf("C13 records=%d req=%d e2e=%d stray=%d lost=%d aborted=0", len(pre)+int(nreq.Load()+ne2e.Load())+nstray,
		nreq.Load(), ne2e.Load(), nstray, lost.Load())
}

// a packet of the case's shape, only to learn where its fields are
func (h *harness) probeWire(c *tcase) []byte {
	rng := rand.New(rand.NewSource(1))
	s := &pktSpec{srcIA: iaC, dstIA: iaS, srcHost: h.w.host(c.Mode, "C", c.Sfam), dstHost: h.w.host(c.Mode, c.Dh, c.Dfam),
		sport: 1, dport: 2, path: c.Path, l4: c.L4, payload: h.payload(c.L4, c.Pl, make([]byte, 8), rng),
		auth: &authSpec{spi: spiClient, key: zeroKey}, ext: c.Ext}
	return build(s, rng)
}
