----------------------------- MODULE ListenerMC -----------------------------
EXTENDS Listener, Json

\* the statement's quantifier: all 256 first bytes x lengths x trailing data
B0All  == 0 .. 255
Lens   == {0, 1, 47, 48, 49, 75, 76, 1024, 2048}
EnvTrailers == TrailerNames \ {"nts_resp"}
\* every trailer class at its natural length and, padded, at the listed lengths
ShapesAll == {sh \in (Lens \cup {NatLen(c) : c \in EnvTrailers}) \X EnvTrailers :
                /\ ShapeOK(sh[1], sh[2])
                /\ (sh[1] \in Lens \/ sh[1] = NatLen(sh[2]))}
\* <<transport, path kind, host address types>>
ViasAll   == {<<"ip", "empty", "44">>} \cup {<<"scion", k, f>> : k \in PathKinds, f \in Fams}

\* the valid first bytes and their near misses (one field off), the reply byte
B0Key == {8, 19, 27, 35, 200, 211, 219, 227,
          36, 228, 11, 16, 3, 43, 59, 99, 163, 32, 33, 34, 37, 38, 39, 0, 255, 24, 75}
ShapesPair == {<<47, "none">>, <<48, "none">>, <<252, "nts_ok">>, <<252, "nts_badmac">>}
ViasPair   == {<<"ip", "empty", "44">>, <<"scion", "empty", "44">>, <<"scion", "s2", "64">>}
ShapesDeep == {<<48, "none">>, <<252, "nts_ok">>, <<49, "short">>}
ViasDeep   == {<<"ip", "empty", "44">>, <<"scion", "s1", "46">>}
B0Deep     == {8, 35, 227, 36, 228, 11, 32, 163}
ViasGenPair == {<<"ip", "empty", "44">>, <<"scion", "empty", "44">>}
ShapesGenPair == {<<47, "none">>, <<48, "none">>, <<252, "nts_ok">>}
\* histories of three datagrams on one listener socket
B0Hist     == {35, 36}
ShapesHist == {<<1, "none">>, <<48, "none">>, <<252, "nts_ok">>, <<76, "garbage">>}
ViasHist   == {<<"ip", "empty", "44">>, <<"scion", "empty", "44">>}

\* --- the circumstances of arrival (listener configuration, store class, ancillary data)
ConfsAll   == ConfNames
ConfsSw    == {"sw"}
AncsAll    == AncNames
AncsTs     == {"ts"}            \* the generators: a missing timestamp is brought about by the configuration "hw"
StoresNone == {"asis"}
StoresQuick == {"asis", "new", "k1", "k7", "k8", "il1", "il8", "full_evict", "full_stuck", "full_k3"}
StoresAll  == StoreClassNames
\* they are combined with these datagrams: the valid first bytes, the reply byte and
\* three near misses; 47 / 48 bytes, a valid and an unauthentic NTS request; IP and SCION
B0Env      == {8, 19, 27, 35, 200, 211, 219, 227, 36, 11, 99, 163}
ShapesEnv  == {<<47, "none">>, <<48, "none">>, <<252, "nts_ok">>, <<252, "nts_badmac">>}
ViasEnv    == {<<"ip", "empty", "44">>, <<"scion", "empty", "44">>}
\* histories of two datagrams under every circumstance
B0Env2     == {35, 36}
ShapesEnv2 == {<<48, "none">>, <<252, "nts_ok">>}
StoresEnv2 == {"asis", "new", "k8", "il1", "full_evict", "full_stuck"}

\* the second datagram meets the store as the first one and its own client's
\* history left it (the shape of a recorded case: request, then the sentinel)
EnvSecond  == (ninj = 1 /\ draft.stage # "idle") => draft.sc = "asis"

ASSUME Reflection
ASSUME StampNeverDrops
ASSUME HeaderTestExact
ASSUME Cardinality(ShapesAll) = 54

\* quick tier: the full first-byte x shape product over IP and over SCION with
\* the empty path and IPv4 hosts; multi-segment paths with the key first bytes;
\* other host address types with the key first bytes, two path kinds, lengths 48 / 252
Narrow(x) ==
  /\ (x.pk = "empty" \/ x.b0 \in B0Key)
  /\ (x.fam = "44" \/ (x.b0 \in B0Key /\ x.pk \in {"empty", "s2"} /\ x.len \in {48, 252}))
\* thorough tier: everything with IPv4 hosts; other address types with the key first bytes
Wide(x) == x.fam = "44" \/ x.b0 \in B0Key
\* the circumstances other than the plain ones (every listener started without an
\* interface name, store left as it is, timestamp attached) go with the datagrams
\* B0s x ShapesEnv x ViasEnv, B0s = B0Env in the quick tier, B0Key in the thorough one
PlainStart == \A s \in Servers : conf[s] = "sw"
PlainDraft(x) == x.sc = "asis" /\ x.anc = "ts"
EnvPrefix(x, b0s, vias) ==
  /\ (x.stage \notin {"idle", "env"} => x.b0 \in b0s)
  /\ (x.stage \in {"shape", "via", "addr"} => <<x.len, x.tr>> \in ShapesEnv)
  /\ (x.stage \in {"via", "addr"} => <<x.tp, x.pk, x.fam>> \in vias)
EnvQuick == (PlainStart /\ PlainDraft(draft)) \/ EnvPrefix(draft, B0Env, ViasEnv)
\* thorough: a listener started with an interface name sees all 256 first bytes
EnvDeep  == (PlainStart /\ PlainDraft(draft))
            \/ (PlainDraft(draft) /\ EnvPrefix(draft, B0All, ViasEnv))
            \/ EnvPrefix(draft, B0Key, ViasPair)
\* --- the sender's source port class
SrcPortsAll == SrcPortNames
SrcPortsEph == {"eph"}
SrcPortsTwo == {"eph", "p123"}
\* senders on ports other than ephemeral ones go with: all 256 first bytes (LI x
\* version x mode) x {IP, SCION with the empty path and IPv4 hosts} x
\*   TLC (PortExh):     every shape, every circumstance the other constraints admit
\*   generators (PortGen): 47 / 48 bytes, a valid and an unauthentic NTS request,
\*                      plain circumstances
PortExh(x) == x.sp = "eph" \/ <<x.tp, x.pk, x.fam>> \in ViasEnv
PortGen(x) == x.sp = "eph" \/ (/\ <<x.tp, x.pk, x.fam>> \in ViasEnv /\ <<x.len, x.tr>> \in ShapesEnv
                              /\ PlainStart /\ PlainDraft(x))
PortsExh == draft.stage = "addr" => PortExh(draft)
PortsGen == draft.stage = "addr" => PortGen(draft)
GenQuick == (draft.stage \in {"via", "addr"} => Narrow(draft)) /\ EnvQuick
GenDeep  == (draft.stage \in {"via", "addr"} => Wide(draft)) /\ EnvQuick
GenDeepAll == (draft.stage \in {"via", "addr"} => Wide(draft)) /\ EnvDeep
\* pair generator: only forged sources (the others are the ordinary cases)
GenPairQuick == draft.stage \notin {"idle", "env"} => draft.b0 \in B0Key
\* nothing needs to be handled while generating
GenStop == draft.stage # "addr" /\ ninj = 0

Case(x) ==
  LET d == DraftDgram(x)
      st == IF x.sc = "asis" THEN store[x.to] ELSE StoreInClass(x.sc, CID(d))
      cf == conf[x.to]
  IN [tp |-> x.tp, b0 |-> x.b0, len |-> x.len, tr |-> x.tr, pk |-> x.pk, fam |-> x.fam, from |-> x.from, to |-> x.to,
      t |-> Trailer(x.tr), nat |-> NatLen(x.tr), path |-> PathOf(x.pk), sc |-> d.sc,
      \* the sender's source port class and the endpoint it sends from
      sp |-> x.sp, src |-> d.src,
      \* circumstances: listener configuration, store class (and what it means), ancillary data
      conf |-> cf, store |-> x.sc, cls |-> ClassOf(x.sc), il |-> d.il, anc |-> AncAt(cf, x.anc),
      org |-> ReplyOrigin(st, d),
      exp |-> Len(RepliesB(x.to, d, BufCap(x.tp), AncAt(cf, x.anc))),
      drop |-> DropStageB(x.to, d, BufCap(x.tp), AncAt(cf, x.anc))]
\* (TLC evaluates invariants also on states that fail a CONSTRAINT: the guard repeats it)
Emit     == (draft.stage = "addr" /\ EnvQuick /\ PortGen(draft)) => PrintT(<<"CASE", ToJson(Case(draft))>>)
EmitDeep == (draft.stage = "addr" /\ EnvDeep /\ PortGen(draft)) => PrintT(<<"CASE", ToJson(Case(draft))>>)
EmitPair == (draft.stage = "addr" /\ draft.from # Client) => PrintT(<<"CASE", ToJson(Case(draft))>>)
=============================================================================
