"""C05 - clients accept only genuine, matching, authenticated responses."""
import random, vlib


def run(ctx):
    q = ctx.quick
    if not q:
        r = ctx.tlc("NtpAcceptMC", "NtpAccept_exh.cfg", timeout=900, workers=8)
        ctx.log("TLC exhaustive (2 crafted arrivals): %d distinct states" % r["distinct"])
    r2 = ctx.tlc("NtpAcceptMC", "NtpAccept_nts.cfg", timeout=600, workers=8)
    # cases: every single crafted datagram (<= 2 fields away from genuine) before / instead of the genuine one
    g = ctx.tlc("NtpAcceptMC", "NtpAccept_gen1.cfg", workers=1, timeout=600, tag="gen1")
    cases = ctx.emitted(g["out"])
    rng = random.Random(ctx.seed)
    # sequences of two crafted datagrams: random walks in quick, a sample of the
    # complete enumeration in thorough
    gs = ctx.tlc("NtpAcceptMC", "NtpAccept_gen2.cfg", workers=1, timeout=600, simulate="num=%d" % (500 if q else 3000),
                 depth=8, tag="gen2sim")
    two = [c for c in ctx.emitted(gs["out"]) if len(c["seen"]) + len(c["rest"]) >= 2]
    gp = ctx.tlc("NtpAcceptMC", "NtpAccept_genpair.cfg", workers=1, timeout=600, tag="genpair")
    pairs = ctx.emitted(gp["out"])
    if len(pairs) < 50:
        raise vlib.Inconclusive("pair generator produced only %d cases" % len(pairs))
    two = pairs + two
    if q:
        cases = rng.sample(cases, min(len(cases), 500)) + two[:len(pairs) + 200]
    else:
        cases += two
        g2 = ctx.tlc("NtpAcceptMC", "NtpAccept_gen2.cfg", workers=1, timeout=1200, tag="gen2")
        c2 = ctx.emitted(g2["out"])
        cases += rng.sample(c2, min(len(c2), 6000))
    rng.shuffle(cases)
    cp = ctx.path("cases.ndjson")
    vlib.write_ndjson(cp, cases)
    tp, out = ctx.godriver("c03", "^TestC05$", cases=cp, timeout=2400)
    recs = vlib.read_ndjson(tp)
    ctx.log("driver: %d cases, %d datagrams judged, reactions %s" % (
        len(cases), len(recs), {k: sum(1 for x in recs if x["got"] == k) for k in ("ok", "skip", "error", "ignored", "panic")}))
    ok, l, inv, tout = ctx.validate("NtpAcceptTrace", "NtpAcceptTrace_mon.cfg", tp)
    nval = len(cases)
    if not ok:
        bad = recs[l - 1] if l else None
        g0 = dict(src="server", dst="client", l4="udp", len="ok", li=0, vn=4, mode=4, stratum=1, origin="rx" if bad and bad["il"] else "tx", txrx="after", nts="absent")
        dev = sorted(k for k in g0 if bad and bad["d"][k] != g0[k])
        ctx.violation("C05 accepted %s" % "+".join(dev), "client reported an offset on the basis of %s" % bad,
                      {"record": bad, "case": cases[bad["case"]] if bad else None})
        nval = 0
    else:
        ok, l, inv, tout = ctx.validate("NtpAcceptTrace", "NtpAcceptTrace_strict.cfg", tp)
        if not ok:
            ctx.drift.append("%s: %s" % ({"SReaction": "reaction differs from NtpAccept.tla",
                                          "SLog": "the client's log records tell another reaction than the observation"}.get(inv, inv),
                                         recs[l - 1] if l else "?"))
    # the NTS clause on the wire: real NTS client, NTS-KE and NTP servers, crafted
    # responses per NTS deviation class (spec: NtpAccept.tla with Nts = TRUE)
    import c05nts_part
    ncases_nts, nrec_nts, react_nts = c05nts_part.run_nts(ctx)
    ctx.log("NTS driver: %d cases, %d datagrams judged, reactions %s" % (ncases_nts, nrec_nts, react_nts))
    # the state of the NTS association when the poll starts x the outcome of the key exchange it
    # triggers x what then arrives (spec: NtpAcceptAssoc.tla)
    ncases_as, nrec_as = c05nts_part.run_assoc(ctx)
    if not ctx.violations:
        nval += ncases_nts + ncases_as
    ctx.cov.update(traces_validated_against_impl=nval, evaluations=len(recs) + nrec_nts + nrec_as,
                   distinct_nontrivial=len({str(x["d"]) + str(x["il"]) for x in recs}),
                   rule="TLC enumeration of NtpAccept.tla: every datagram at most two fields away from the genuine "
                        "response (source, length, LI, VN, mode, stratum, origin class, transmit-vs-receive), arriving "
                        "before / instead of the genuine response to a basic or interleaved request; concretised by "
                        "mutating the real server's genuine response and delivered to the real IPClient on loopback",
                   samples=recs[:3] + [x for x in recs if x["got"] == "ok"][:2],
                   exhaustive=not q)
    ctx.assumptions += ["IP and SCION clients (same-AS empty path, no SPAO: see C13); the NTS clause is replayed on the "
                        "wire for the IP client (real NTS-KE and NTP servers behind a proxy); for the SCION client only in the association "
                        "driver (genuine / plain / old-keys responses), not with the full space of crafted datagrams",
                        "association driver: the key exchange of both clients runs over TLS against the scripted peer of "
                        "harness/c05nts/kepeer (the SCION client with Fetcher.QUIC.Enabled = false; a key exchange over QUIC/SCION is not "
                        "driven here - the gate in client_scion.go only sees FetchData's error); 'refused' = nothing listens, 'reset' = "
                        "closed before the handshake, 'tlsfail' = the peer speaks TLS 1.2 only, 'noalpn' = handshake without ntske/1, "
                        "'errrec' = error record (sometimes after cookies), 'nocookies', 'truncated' = stream ends inside the message; "
                        "a call that returns no error and the zero time (MeasureClockOffsetSCION after a round of failures) is not "
                        "counted as a reported measurement",
                        "a datagram from the server's address and another port counts as 'from the queried server' "
                        "(the code compares addresses; the statement names no port)",
                        "what the client did with a datagram is decided without its log: ok = the measurement call returned a "
                        "measurement time-stamped within the delivery window of this datagram, or the client's pass-through filter "
                        "was called (half of the clients have one), or its interleaved state (hook VerifPrev) took a receive time "
                        "within that window; error = the attempt ended otherwise (call returned / next request on the wire); skip = "
                        "the datagram was read (/proc/net/udp), the socket is still there and the call's goroutines are parked "
                        "again; log records with today's names are compared in strict mode only, when present"]
