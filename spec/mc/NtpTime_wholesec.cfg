\* spec self-test: the code before fixes/C04-subsecond-window-edge.diff (era chosen from whole
\* seconds only).  TLC must refute RoundTrip / EraOK here (upper end of the window, nsec < nref)
SPECIFICATION Spec
CONSTANTS
  NsPerSec = 1000
  FracUnits = 4096
  EraSecs = 64
  Epoch <- EpochScaled
  ForwardOnlyEraUnfold = FALSE
  WholeSecondUnfold = TRUE
  RefSecs <- RefAll
  RefNs <- RefNsOne
  Offs <- OffAll
  NsVals <- NsFew
INVARIANTS RoundTrip Order RoundTripNs EraOK WellFormed Separable
