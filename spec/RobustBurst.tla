----------------------------- MODULE RobustBurst -----------------------------
(***************************************************************************)
(* C08, the burst dimension: concurrent traffic from many source addresses *)
(* to a listener that runs several receive loops.                          *)
(*                                                                         *)
(* core/server/server_ip.go StartIPServer, server_scion.go StartSCIONServer*)
(* start 8 receive loops per port on SO_REUSEPORT sockets; the kernel      *)
(* hands all datagrams of one 4-tuple to one loop (sock).  Every loop runs *)
(*   read -> decode (malformed: dropped, back to the read)                 *)
(*        -> handleRequest(clientID, ...):  tssMu.Lock; tss[clientID];     *)
(*           an unknown client is inserted; tssMu.Unlock                   *)
(*        -> WriteTo                                                       *)
(*        -> updateTXTimestamp(clientID, ...):  tssMu.Lock; tss[clientID]; *)
(*           the pair is updated in place, or the item is removed when no  *)
(*           updated tx timestamp is available; tssMu.Unlock               *)
(* on the store shared by all loops (core/server/server.go: tss, a Go map).*)
(* The Go runtime aborts the PROCESS ("fatal error: concurrent map read    *)
(* and map write" / "concurrent map writes", not recoverable) when a map   *)
(* access meets a write in progress: a map write is two steps here (the    *)
(* runtime's `writing` flag is mw), a read one step that looks at mw.      *)
(*                                                                         *)
(* The environment sends up to MaxSend datagrams, each from one of NSrcs   *)
(* client addresses, well-formed ("v") or malformed ("m"); comp is the     *)
(* burst so far.  With Run = FALSE only the environment moves: the states  *)
(* are the burst compositions, emitted for the harness (RobustBurstMC),    *)
(* which sends each composition from many sockets in parallel to the real  *)
(* listener child.  The schedule of the real loops cannot be chosen by the *)
(* harness: on the real code the interleavings are sampled, here they are  *)
(* exhaustive at small scope.                                              *)
(***************************************************************************)
EXTENDS Integers, Sequences, FiniteSets, TLC

CONSTANTS
  NLoops,        \* receive loops of the listener
  NSrcs,         \* client addresses
  MaxSend,       \* datagrams of the burst
  LookupLocked,  \* TRUE = as written: updateTXTimestamp looks the client up under tssMu
  Run            \* FALSE: the loops do not run (enumeration of the compositions)

Loops == 1 .. NLoops
Srcs == 1 .. NSrcs

VARIABLES
  sock,    \* source address -> the loop its datagrams reach (0: none sent yet)
  queue,   \* loop -> datagrams received by its socket, not yet read
  pc, cur, \* loop -> where it is, the datagram it works on
  store,   \* client addresses in tss
  mu,      \* the loop that holds tssMu (0: free)
  mw,      \* the loop inside a map write (0: none)
  alive,   \* the process
  comp     \* the burst so far
vars == <<sock, queue, pc, cur, store, mu, mw, alive, comp>>

D(s, c) == [s |-> s, c |-> c]
NoD == D(0, "-")

Init == /\ sock = [s \in Srcs |-> 0]
        /\ queue = [l \in Loops |-> << >>]
        /\ pc = [l \in Loops |-> "read"] /\ cur = [l \in Loops |-> NoD]
        /\ store = {} /\ mu = 0 /\ mw = 0 /\ alive = TRUE /\ comp = << >>

\* the environment: one more datagram; client addresses are taken into use in order (the burst
\* compositions up to renaming); the kernel chooses the socket when an address sends for the first time
Used == {comp[i].s : i \in DOMAIN comp}
Send(s, c) ==
  /\ Len(comp) < MaxSend
  /\ s \in Used \/ (\A t \in Srcs : t < s => t \in Used)
  /\ \E l \in (IF sock[s] # 0 THEN {sock[s]} ELSE IF Run THEN Loops ELSE {1}) :
       /\ sock' = [sock EXCEPT ![s] = l]
       /\ queue' = [queue EXCEPT ![l] = Append(@, D(s, c))]
  /\ comp' = Append(comp, D(s, c))
  /\ UNCHANGED <<pc, cur, store, mu, mw, alive>>

Goto(l, p) == pc' = [pc EXCEPT ![l] = p]
\* tss[clientID] while another goroutine is inside a map write: the runtime aborts the process
MapRead(l) == alive' = (mw \in {0, l})

Step(l) ==
  /\ Run /\ alive
  /\ CASE pc[l] = "read" ->            \* ReadMsgUDPAddrPort, the decoders, ValidateRequest
            /\ queue[l] # << >>
            /\ queue' = [queue EXCEPT ![l] = Tail(@)]
            /\ cur' = [cur EXCEPT ![l] = Head(queue[l])]
            /\ Goto(l, IF Head(queue[l]).c = "m" THEN "read" ELSE "hlock")
            /\ UNCHANGED <<store, mu, mw, alive>>
       [] pc[l] = "hlock" ->           \* handleRequest: tssMu.Lock()
            /\ mu = 0 /\ mu' = l /\ Goto(l, "hlook")
            /\ UNCHANGED <<queue, cur, store, mw, alive>>
       [] pc[l] = "hlook" ->           \* tssi, ok := tss[clientID]
            /\ MapRead(l)
            /\ Goto(l, IF cur[l].s \in store THEN "hunlock" ELSE "hins")
            /\ UNCHANGED <<queue, cur, store, mu, mw>>
       [] pc[l] = "hins" ->            \* tss[tssi.key] = tssi: the write begins
            /\ alive' = (mw = 0) /\ mw' = l /\ Goto(l, "hins2")
            /\ UNCHANGED <<queue, cur, store, mu>>
       [] pc[l] = "hins2" ->           \* ... and ends
            /\ store' = store \cup {cur[l].s} /\ mw' = 0 /\ Goto(l, "hunlock")
            /\ UNCHANGED <<queue, cur, mu, alive>>
       [] pc[l] = "hunlock" ->         \* deferred tssMu.Unlock()
            /\ mu' = 0 /\ Goto(l, "send")
            /\ UNCHANGED <<queue, cur, store, mw, alive>>
       [] pc[l] = "send" ->            \* WriteToUDPAddrPort, ReadTXTimestamp
            /\ Goto(l, IF LookupLocked THEN "ulock" ELSE "ulook")
            /\ UNCHANGED <<queue, cur, store, mu, mw, alive>>
       [] pc[l] = "ulock" ->           \* updateTXTimestamp: tssMu.Lock()
            /\ mu = 0 /\ mu' = l
            /\ Goto(l, IF LookupLocked THEN "ulook" ELSE "uupd")
            /\ UNCHANGED <<queue, cur, store, mw, alive>>
       [] pc[l] = "ulook" ->           \* tssi, ok := tss[clientID]
            /\ MapRead(l)
            /\ Goto(l, IF cur[l].s \in store THEN (IF LookupLocked THEN "uupd" ELSE "ulock")
                       ELSE (IF LookupLocked THEN "uunlock" ELSE "read"))
            /\ UNCHANGED <<queue, cur, store, mu, mw>>
       [] pc[l] = "uupd" ->            \* the tx timestamp is stored, or (none available, last pair) the item removed
            /\ \/ Goto(l, "uunlock") /\ UNCHANGED <<mw, alive>>
               \/ cur[l].s \in store /\ alive' = (mw = 0) /\ mw' = l /\ Goto(l, "udel2")
            /\ UNCHANGED <<queue, cur, store, mu>>
       [] pc[l] = "udel2" ->           \* delete(tss, tssi.key) ends
            /\ store' = store \ {cur[l].s} /\ mw' = 0 /\ Goto(l, "uunlock")
            /\ UNCHANGED <<queue, cur, mu, alive>>
       [] pc[l] = "uunlock" ->
            /\ mu' = 0 /\ Goto(l, "read")
            /\ UNCHANGED <<queue, cur, store, mw, alive>>
  /\ UNCHANGED <<sock, comp>>

Next == (\E s \in Srcs, c \in {"v", "m"} : Send(s, c)) \/ (\E l \in Loops : Step(l))
Spec == Init /\ [][Next]_vars
FairSpec == Spec /\ \A l \in Loops : WF_vars(Step(l))

(***************************************************************************)
(* Property section (C08 on the listener as a whole)                       *)
(***************************************************************************)
\* no traffic, however it is interleaved over the loops, terminates the process
NeverDead == alive
\* no loop stops making progress: whatever it works on is finished and it is back at its read
Progress == \A l \in Loops : (pc[l] # "read") ~> (pc[l] = "read")
\* everything received is read (the next well-formed request on a socket is still answered)
Drained == \A l \in Loops : (queue[l] # << >>) ~> (queue[l] = << >>)

\* why: every map access happens under the lock
MapUnderLock == (mw # 0) => (mu = mw)
TypeOK == /\ mu \in Loops \cup {0} /\ mw \in Loops \cup {0} /\ alive \in BOOLEAN
          /\ store \subseteq Srcs /\ Len(comp) <= MaxSend
          /\ \A l \in Loops : pc[l] \in {"read", "hlock", "hlook", "hins", "hins2", "hunlock", "send", "ulock",
                                          "ulook", "uupd", "udel2", "uunlock"}
=============================================================================
