// C06/C07 driver: the real core/server handleRequest / updateTXTimestamp
// (through the build-tag verif hooks) are stepped through behaviours generated
// by TLC from spec/ServerStore.tla; after every operation the in-lock trace
// hook records the operation, its results and the projection of the store.
// The recorded ndjson traces are validated by spec/trace/ServerStoreTrace.tla.
package c06

import (
	"encoding/json"
	"fmt"
	"math/rand"
	"os"
	"sort"
	"strconv"
	"sync"
	"sync/atomic"
	"testing"
	"time"

	btimebase "example.com/scion-time/base/timebase"
	"example.com/scion-time/core/server"
	"example.com/scion-time/core/timebase"
	"example.com/scion-time/net/ntp"

	"verif/harness/internal/vio"
)

// ---------------------------------------------------------------- time model
var base = time.Date(2024, 1, 1, 0, 0, 0, 500_000_000, time.UTC)

func ut(u int) time.Time { return base.Add(time.Duration(u)) }

const tabLo, tabHi = -16, 1 << 16

var t64tab = func() map[ntp.Time64]int {
	m := make(map[ntp.Time64]int, tabHi-tabLo+1)
	for u := tabLo; u <= tabHi; u++ {
		k := ntp.Time64FromTime(ut(u))
		if _, dup := m[k]; dup {
			panic("Time64FromTime not injective on the model range")
		}
		m[k] = u
	}
	return m
}()

// unit maps a Time64 produced by the server back to model units; anything
// outside the table is reported as -9999 (and makes the monitor fail loudly).
func unit(t ntp.Time64) int {
	if u, ok := t64tab[t]; ok {
		return u
	}
	switch t {
	case mark100:
		return 100
	case mark101:
		return 101
	case noOrigin:
		return -1
	}
	return -9999
}

var (
	mark100  = ntp.Time64{Seconds: 0x11111111, Fraction: 0x100}
	mark101  = ntp.Time64{Seconds: 0x11111111, Fraction: 0x101}
	noOrigin = ntp.Time64{Seconds: 0x22222222, Fraction: 0x1}
)

func t64(u int) ntp.Time64 {
	switch u {
	case 100:
		return mark100
	case 101:
		return mark101
	case -1:
		return noOrigin
	}
	return ntp.Time64FromTime(ut(u))
}

type fakeClock struct{ now atomic.Int64 } // model units

func (c *fakeClock) Epoch() uint64                              { return 0 }
func (c *fakeClock) Now() time.Time                             { return ut(int(c.now.Load())) }
func (c *fakeClock) Drift(d time.Duration) time.Duration        { return 0 }
func (c *fakeClock) Step(time.Duration)                         {}
func (c *fakeClock) Adjust(time.Duration, time.Duration, float64) {}
func (c *fakeClock) Sleep(time.Duration)                        {}

var _ btimebase.SystemClock = (*fakeClock)(nil)

var clk = func() *fakeClock {
	c := &fakeClock{}
	timebase.RegisterClock(c)
	return c
}()

// ------------------------------------------------------------------- records
type pairJ struct {
	Rx int `json:"rx"`
	Tx int `json:"tx"`
}
type reqJ struct {
	Origin int `json:"origin"`
	Rx     int `json:"rx"`
	Tx     int `json:"tx"`
}
type replyJ struct {
	Org int `json:"org"`
	Rx  int `json:"rx"`
	Tx  int `json:"tx"`
}
type postJ struct {
	Store map[string][]pairJ `json:"store"`
	Qval  map[string]int     `json:"qval"`
	Heap  []string           `json:"heap"` // model clients in heap-position order
	Full  bool               `json:"full"` // Heap is the complete real heap array
	N     int                `json:"n"`    // len(tss) minus fillers
}
type event struct {
	Ev     string `json:"ev"` // "reset" | "H" | "U" | "end"
	Seq    int    `json:"seq"`
	L      string `json:"l"`
	C      string `json:"c"`
	Req    reqJ   `json:"req"`
	Rxt0   int    `json:"rxt0"`
	Clk    int    `json:"clk"`
	Rxt    int    `json:"rxt"`  // H: adjusted receive time; U: the exchange reported on
	Txt    int    `json:"txt"`  // H: server transmit time returned to the caller
	Reply  replyJ `json:"reply"`
	T1in   int    `json:"t1in"`
	T1     int    `json:"t1"`
	Lost   bool   `json:"lost"`
	Post   postJ  `json:"post"`
	HeapOK bool   `json:"heap_ok"` // structural check of the real tss/tssQ done in Go (see checkLocal/checkFull)
	SeqSame bool  `json:"seq_same"` // concurrent driver: sequential re-execution gave the same result
	Why    string `json:"why"`
}

type op struct {
	Op   string `json:"op"`
	L    string `json:"l"`
	C    string `json:"c"`
	Req  reqJ   `json:"req"`
	Rxt0 int    `json:"rxt0"`
	Clk  int    `json:"clk"`
	Rxt  int    `json:"rxt"`
	T1in int    `json:"t1in"`
	Lost bool   `json:"lost"`
}

// ----------------------------------------------------------- store projection
var modelClients = []string{"a", "b", "c"}

const fillerPrefix = "f"

func isFiller(k string) bool { return len(k) > 0 && k[0] == 'f' }

var nFillers int

// projectLocked must be called with tssMu held (from the trace hook or VerifLocked).
func projectLocked(full bool) (postJ, bool, string) {
	p := postJ{Store: map[string][]pairJ{}, Qval: map[string]int{}, Heap: []string{}, Full: full}
	ok, why := true, ""
	type hp struct {
		k string
		i int
	}
	var hs []hp
	nmap, nq := server.VerifSizesLocked()
	p.N = nmap - nFillers
	if nmap != nq {
		ok, why = false, fmt.Sprintf("len(tss)=%d len(tssQ)=%d", nmap, nq)
	}
	if nmap > server.VerifTssCap {
		ok, why = false, "more than tssCap clients"
	}
	for _, c := range modelClients {
		it, present := server.VerifLookupLocked(c)
		p.Store[c] = []pairJ{}
		p.Qval[c] = 0
		if !present {
			continue
		}
		for _, pr := range it.Pairs() {
			p.Store[c] = append(p.Store[c], pairJ{unit(pr.Rxt), unit(pr.Txt)})
		}
		p.Qval[c] = unit(it.Qval)
		hs = append(hs, hp{c, it.Qidx})
		// local structure: back pointer, map/heap agreement, parent/children order
		if it.Qidx < 0 || it.Qidx >= nq {
			ok, why = false, "qidx out of range for "+c
			continue
		}
		at, same := server.VerifQueueAtLocked(it.Qidx)
		if at.Key != c || !same {
			ok, why = false, "tssQ[qidx] is not the client's item: "+c
		}
		if it.N < 1 || it.N > server.VerifTssItemCap {
			ok, why = false, "item length out of 1..cap for "+c
		}
		if it.Qidx > 0 {
			par, _ := server.VerifQueueAtLocked((it.Qidx - 1) / 2)
			if it.Qval.Before(par.Qval) {
				ok, why = false, "heap order violated above "+c
			}
		}
		for _, ch := range []int{2*it.Qidx + 1, 2*it.Qidx + 2} {
			if ch < nq {
				chi, _ := server.VerifQueueAtLocked(ch)
				if chi.Qval.Before(it.Qval) {
					ok, why = false, "heap order violated below "+c
				}
			}
		}
	}
	sort.Slice(hs, func(i, j int) bool { return hs[i].i < hs[j].i })
	for _, h := range hs {
		p.Heap = append(p.Heap, h.k)
	}
	if full && len(hs) != nq {
		ok, why = false, "heap holds items that are not model clients"
	}
	return p, ok, why
}

// checkFullLocked walks the complete real heap (including fillers).
func checkFullLocked() (bool, string) {
	nmap, nq := server.VerifSizesLocked()
	if nmap != nq {
		return false, fmt.Sprintf("len(tss)=%d len(tssQ)=%d", nmap, nq)
	}
	for i := 0; i < nq; i++ {
		it, same := server.VerifQueueAtLocked(i)
		if !same || it.Qidx != i {
			return false, fmt.Sprintf("heap position %d: map/back-pointer mismatch (%s)", i, it.Key)
		}
		if i > 0 {
			par, _ := server.VerifQueueAtLocked((i - 1) / 2)
			if it.Qval.Before(par.Qval) {
				return false, fmt.Sprintf("heap order violated at %d", i)
			}
		}
		if it.N < 1 || it.N > server.VerifTssItemCap {
			return false, "item length out of range: " + it.Key
		}
		for _, pr := range it.Pairs() {
			if pr.Rxt.After(it.Qval) {
				return false, "qval older than a stored exchange: " + it.Key
			}
		}
	}
	return true, ""
}

// ------------------------------------------------------------ in-lock tracer
type callInfo struct {
	l          string
	rxt0, clk  int
	t1in       int
	lost       bool
}

type tracer struct {
	mu    sync.Mutex // only for the calls map; events are appended under tssMu
	calls map[*time.Time]callInfo
	evs   []event
	panics []event
	seq   int
	full  bool
}

func (tr *tracer) hook(opk, clientID string, req *ntp.Packet, rxt, txt *time.Time, resp *ntp.Packet) {
	if isFiller(clientID) {
		return
	}
	tr.mu.Lock()
	ci := tr.calls[txt]
	delete(tr.calls, txt)
	tr.mu.Unlock()
	tr.seq++
	e := event{Ev: opk, Seq: tr.seq, L: ci.l, C: clientID, SeqSame: true}
	if opk == "H" {
		e.Req = reqJ{unit(req.OriginTime), unit(req.ReceiveTime), unit(req.TransmitTime)}
		e.Rxt0, e.Clk = ci.rxt0, ci.clk
		e.Rxt, e.Txt = int(rxt.Sub(base)), int(txt.Sub(base))
		e.Reply = replyJ{unit(resp.OriginTime), unit(resp.ReceiveTime), unit(resp.TransmitTime)}
	} else {
		e.Rxt = int(rxt.Sub(base))
		e.T1in, e.Lost = ci.t1in, ci.lost
		e.T1 = int(txt.Sub(base))
	}
	e.Post, e.HeapOK, e.Why = projectLocked(tr.full)
	tr.evs = append(tr.evs, e)
}

func (tr *tracer) register(txt *time.Time, ci callInfo) {
	tr.mu.Lock()
	tr.calls[txt] = ci
	tr.mu.Unlock()
}

func newTracer(full bool) *tracer {
	tr := &tracer{calls: map[*time.Time]callInfo{}, full: full}
	server.VerifTrace = tr.hook
	return tr
}

type pendT struct {
	c        string
	rxt, txt time.Time
	set      bool
}

func doHandle(tr *tracer, l, c string, rq reqJ, rxt0, clkv int) (time.Time, time.Time) {
	var req, resp ntp.Packet
	req.SetVersion(ntp.VersionMax)
	req.SetMode(ntp.ModeClient)
	req.OriginTime, req.ReceiveTime, req.TransmitTime = t64(rq.Origin), t64(rq.Rx), t64(rq.Tx)
	rxt := ut(rxt0)
	var txt time.Time
	tr.register(&txt, callInfo{l: l, rxt0: rxt0, clk: clkv})
	func() {
		defer tr.recovered("H", l, c)
		server.VerifHandleRequest(c, &req, &rxt, &txt, &resp)
	}()
	return rxt, txt
}

// recovered turns a panic inside the real handler into a recorded event (the
// monitor's NoPanic clause fails on it). tssMu may still be held by the
// panicking call only if the code panicked without a deferred unlock; both real
// functions unlock by defer.
func (tr *tracer) recovered(opk, l, c string) {
	if r := recover(); r != nil {
		tr.mu.Lock()
		tr.panics = append(tr.panics, event{Ev: "panic", L: l, C: c, Why: fmt.Sprintf("%s: %v", opk, r), Post: emptyPost(tr.full)})
		tr.mu.Unlock()
	}
}

func doUpdate(tr *tracer, l string, p pendT, t1in int, lost bool) {
	t1 := ut(t1in)
	if lost {
		t1 = p.txt
		t1in = int(p.txt.Sub(base))
	}
	// "lost" is defined by what the caller passes: the software time that
	// handleRequest returned (server_ip.go: txt1 = txt0 on failure)
	lost = t1.Equal(p.txt)
	tr.register(&t1, callInfo{l: l, t1in: t1in, lost: lost})
	func() {
		defer tr.recovered("U", l, p.c)
		server.VerifUpdateTXTimestamp(p.c, p.rxt, &t1)
	}()
}

func prefill(t testing.TB, modelCap int) {
	if modelCap <= 0 {
		return
	}
	want := server.VerifTssCap - modelCap
	far := base.Add(time.Hour)
	for i := nFillers; i < want; i++ {
		var req, resp ntp.Packet
		rxt := far.Add(time.Duration(i))
		var txt time.Time
		server.VerifHandleRequest(fillerPrefix+strconv.Itoa(i), &req, &rxt, &txt, &resp)
	}
	nFillers = want
	var n int
	server.VerifLocked(func() { n, _ = server.VerifSizesLocked() })
	if n != want {
		t.Fatalf("prefill: len(tss)=%d want %d", n, want)
	}
}

// resetStore removes the model clients. If the store is corrupt enough to make
// the removal panic, the corruption has already been recorded (heap_ok=false)
// or is recorded now; the store is then rebuilt from scratch.
func resetStore() (panicked string) {
	defer func() {
		if r := recover(); r != nil {
			panicked = fmt.Sprint(r)
			func() {
				defer func() { recover() }()
				server.VerifReset(isFiller)
			}()
		}
	}()
	for _, c := range modelClients {
		server.VerifRemove(c)
	}
	return ""
}

// TestReplay: VERIF_IN = behaviours (arrays of operations) from TLC;
// VERIF_CAP = model capacity (0: no fillers, the real 2^20 never reached).
func TestReplay(t *testing.T) {
	behaviours := vio.ReadCases[[]op](t)
	out := vio.Create(t)
	defer out.Close()
	modelCap, _ := strconv.Atoi(os.Getenv("VERIF_CAP"))
	clk.now.Store(1 << 20) // fillers are created "now"; irrelevant afterwards
	prefill(t, modelCap)
	tr := newTracer(modelCap == 0)
	nops := 0
	for bi, b := range behaviours {
		if why := resetStore(); why != "" {
			out.Emit(event{Ev: "panic", Why: "removing a client from the store left by the previous behaviour: " + why, Post: emptyPost(modelCap == 0)})
		}
		out.Emit(event{Ev: "reset", HeapOK: true, SeqSame: true, Post: emptyPost(modelCap == 0)})
		tr.evs = tr.evs[:0]
		pend := map[string]pendT{}
		for _, o := range b {
			switch o.Op {
			case "H":
				clk.now.Store(int64(o.Clk))
				rxt, txt := doHandle(tr, o.L, o.C, o.Req, o.Rxt0, o.Clk)
				pend[o.L] = pendT{o.C, rxt, txt, true}
			case "U":
				p := pend[o.L]
				if !p.set {
					t.Fatalf("behaviour updates listener %s without a pending exchange", o.L)
				}
				doUpdate(tr, o.L, p, o.T1in, o.Lost)
				delete(pend, o.L)
			default:
				t.Fatalf("unknown op %q", o.Op)
			}
			nops++
		}
		for _, e := range tr.evs {
			out.Emit(e)
		}
		for _, e := range tr.panics {
			out.Emit(e)
		}
		tr.panics = nil
		// end of behaviour: full structural walk of the real store (incl. the
		// fillers: every 20th behaviour and the last one when pre-filled)
		e := event{Ev: "end", SeqSame: true}
		server.VerifLocked(func() {
			e.Post, e.HeapOK, e.Why = projectLocked(modelCap == 0)
			if e.HeapOK && (modelCap == 0 || bi%20 == 0 || bi == len(behaviours)-1) {
				e.HeapOK, e.Why = checkFullLocked()
			}
		})
		out.Emit(e)
	}
	server.VerifTrace = nil
	t.Logf("replayed %d behaviours, %d operations, cap=%d fillers=%d", len(behaviours), nops, modelCap, nFillers)
}

func emptyPost(full bool) postJ {
	p := postJ{Store: map[string][]pairJ{}, Qval: map[string]int{}, Heap: []string{}, Full: full}
	for _, c := range modelClients {
		p.Store[c] = []pairJ{}
		p.Qval[c] = 0
	}
	return p
}

// TestConcurrent: 16 goroutines (8+8 like the two listener groups) run seeded
// operation mixes on the model clients. The in-lock sequence number gives the
// linearisation order; afterwards the same operations are re-executed
// sequentially in that order on the real code and every result is compared
// (seq_same). VERIF_ROUNDS rounds, each followed by a reset.
func TestConcurrent(t *testing.T) {
	out := vio.Create(t)
	defer out.Close()
	modelCap, _ := strconv.Atoi(os.Getenv("VERIF_CAP"))
	rounds, _ := strconv.Atoi(os.Getenv("VERIF_ROUNDS"))
	if rounds == 0 {
		rounds = 20
	}
	clk.now.Store(1 << 20)
	prefill(t, modelCap)
	seed := vio.Seed()
	const G = 16
	const opsPer = 12
	total := 0
	for r := 0; r < rounds; r++ {
		resetStore()
		tr := newTracer(modelCap == 0)
		// receive times are pairwise distinct within a round (a permutation), some
		// before and some after the clock reading: a later exchange never reuses
		// the receive timestamp of a pending one (known finding C06-aba has its
		// own scenario); collisions are covered by the replay driver
		clkv := 60 + 20*(r%5)
		clk.now.Store(int64(clkv))
		perm := rand.New(rand.NewSource(seed*7919 + int64(r))).Perm(G * opsPer)
		var wg sync.WaitGroup
		start := make(chan struct{})
		for g := 0; g < G; g++ {
			wg.Add(1)
			go func(g int) {
				defer wg.Done()
				rng := rand.New(rand.NewSource(seed*1000003 + int64(r)*101 + int64(g)))
				l := "g" + strconv.Itoa(g)
				var seen []int
				<-start
				for i := 0; i < opsPer; i++ {
					c := modelClients[rng.Intn(len(modelClients))]
					rq := reqJ{Origin: -1, Rx: 100, Tx: 100 + rng.Intn(2)}
					if len(seen) > 0 && rng.Intn(2) == 0 {
						rq.Origin = seen[rng.Intn(len(seen))]
					}
					rxt0 := 3 * perm[g*opsPer+i]
					rxt, txt := doHandle(tr, l, c, rq, rxt0, clkv)
					seen = append(seen, int(rxt.Sub(base)))
					if rng.Intn(3) == 0 {
						doUpdate(tr, l, pendT{c, rxt, txt, true}, 0, true)
					} else {
						doUpdate(tr, l, pendT{c, rxt, txt, true}, int(rxt.Sub(base))-1+rng.Intn(4), false)
					}
				}
			}(g)
		}
		close(start)
		wg.Wait()
		conc := tr.evs
		// sequential re-execution in lock order
		resetStore()
		tr2 := newTracer(modelCap == 0)
		pend2 := map[string]pendT{}
		for _, e := range conc {
			if e.Ev == "H" {
				rxt, txt := doHandle(tr2, e.L, e.C, e.Req, e.Rxt0, e.Clk)
				pend2[e.L] = pendT{e.C, rxt, txt, true}
			} else {
				// same arguments as the concurrent call: (client, rx) as recorded and
				// the same reported value; "lost" follows from the exchange's own txt0
				doUpdate(tr2, e.L, pendT{e.C, ut(e.Rxt), pend2[e.L].txt, true}, e.T1in, false)
			}
		}
		out.Emit(event{Ev: "reset", HeapOK: true, SeqSame: true, Post: emptyPost(modelCap == 0)})
		if len(tr2.evs) != len(conc) && len(tr.panics)+len(tr2.panics) == 0 {
			t.Fatalf("sequential re-execution produced %d events, concurrent run %d", len(tr2.evs), len(conc))
		}
		if len(tr2.evs) != len(conc) {
			conc = nil // a panic was recorded; it is reported below
		}
		for i := range conc {
			a, b := conc[i], tr2.evs[i]
			a.Seq, b.Seq = 0, 0
			ja, _ := json.Marshal(a)
			jb, _ := json.Marshal(b)
			if string(ja) != string(jb) {
				conc[i].SeqSame = false
				conc[i].Why = "sequential re-execution differs: " + string(jb)
			}
			out.Emit(conc[i])
			total++
		}
		for _, e := range append(tr.panics, tr2.panics...) {
			out.Emit(e)
		}
		e := event{Ev: "end", SeqSame: true}
		server.VerifLocked(func() {
			e.Post, e.HeapOK, e.Why = projectLocked(modelCap == 0)
			if e.HeapOK {
				e.HeapOK, e.Why = checkFullLocked()
			}
		})
		out.Emit(e)
	}
	server.VerifTrace = nil
	t.Logf("concurrent: %d rounds, %d events, cap=%d", rounds, total, modelCap)
}
