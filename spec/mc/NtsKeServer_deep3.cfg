SPECIFICATION Spec
CONSTANTS
  Conn <- C3
  MaxLen = 2
  MaxIll = 1
  MaxRot = 2
  Kinds <- KSmall
  Cuts <- CutsAll
  Ends <- EndsHalf
  NCk = 8
  Fault = "none"
INVARIANTS TypeOK OneMessage ErrorIffBad NoEarlyAnswer ResponseShape CookiesSealSession CookiesDistinct KeyCurrent StillServingSafe

