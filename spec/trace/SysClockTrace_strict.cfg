SPECIFICATION TSpec
CONSTANTS
  QPS = 512
  G = 8192
  DPS = 1000000000
INVARIANTS StrictReport
