--------------------------- MODULE SyncRoundTrace ---------------------------
(***************************************************************************)
(* Validation of what the real sync.Run did (harness/c01) against          *)
(* SyncRound.tla.  One record per start-up ("boot") and one per clk.Sleep  *)
(* call ("round"); the records are independent (each carries the offsets   *)
(* the loop logged, the bounded contributions, the adj.Do argument and the *)
(* number of adj.Do calls since the previous Sleep), so positions          *)
(* 1..Len(Trace) are visited as a 16-ary tree.  The variables of SyncRound *)
(* are bound to the recorded projection and                                *)
(*   monitor (SyncRoundTrace_mon.cfg): the property section of SyncRound   *)
(*     is evaluated on them (+ the raw 64-bit inequality, + the Do count   *)
(*     for records whose values have no exact image in model units);       *)
(*   strict (SyncRoundTrace_strict.cfg): the recorded values are the ones  *)
(*     the specification computes (DRIFT only).                            *)
(* The local clock (Sleep returning late, Now() stepped, Epoch advancing)  *)
(* is environment: the driver's fake clock plays the [slp, stp] choice of  *)
(* the generated behaviour and each round record says what the clock did   *)
(* during the Sleep call before it (el, epoch).  The monitor clauses do    *)
(* not mention it - they are simply evaluated on rounds that follow a jump *)
(* as on any other; strict checks that the fake clock played the choice.   *)
(***************************************************************************)
EXTENDS Integers, Sequences, FiniteSets, TLC, Json

W == 8
NRef == 0
NPeer == 0
Vals == {}
MaxRound == 0
FailKinds == {}
AnyOrder == FALSE
Canon == FALSE
Elapse == {}
NoCfg == [nref |-> 1, npeer |-> 1, ri4 |-> 5, pi4 |-> 10, cutoff |-> 8, interval |-> 8,
          timeout |-> 4, drift |-> 2]
Cfgs == {NoCfg}
VARIABLES cfg, phase, round, refSlots, peerSlots, refDone, peerDone, refOff, peerOff,
          refCorr, peerCorr, refOk, peerOk, corr, ndo, adjLog, cur, hist, now, epoch, l
INSTANCE SyncRound

Trace == ndJsonDeserialize("trace.ndjson")
N == Len(Trace)
R == Trace[l]

\* a round record whose model-unit fields are exact images of the real values
Readable(r) == r.k = "round" /\ r.exact /\ r.haslog

TInit == l = 0 /\ Init /\ cfg = NoCfg
TNext ==
  /\ \E j \in 1 .. 16 : l' = 16 * l + j /\ l' <= N
  /\ LET r == Trace[l'] IN
       /\ cfg' = r.cfg
       /\ phase' = IF r.k = "boot" THEN (IF r.refused THEN "panicked" ELSE "measure")
                   \* a hung round (the driver's real-time watchdog gave up waiting for
                   \* clk.Sleep) counts as a round: OneAdjust then sees its Do count
                   ELSE IF Readable(r) \/ r.hung THEN "asleep" ELSE "opaque"
       /\ round' = r.rnd /\ ndo' = r.ndo
       /\ refOff' = r.ro /\ peerOff' = r.po /\ refCorr' = r.rc /\ peerCorr' = r.pc /\ corr' = r.corr
       /\ refOk' = r.rok /\ peerOk' = r.pok
       \* what the fake local clock did during the Sleep call before this round
       \* (a record on its own says nothing about the reading before it)
       /\ now' = r.el /\ epoch' = r.epoch
  /\ UNCHANGED <<refSlots, peerSlots, refDone, peerDone, adjLog, cur, hist>>
TSpec == TInit /\ [][TNext]_<<vars, l>>

\* ------------------------------------------------------------- monitor
\* from SyncRound's property section, on the bound variables:
\*   Bound RefPart PeerPart WithinCutoffContributesNothing SoleContribution
\*   MidpointWhenBoth OneAdjust Refused
\* and, for every record (also those without an exact image):
RRaw       == l > 0 => R.raw_ok
ROneAdjust == (l > 0 /\ R.k = "round") => R.ndo = 1

\* -------------------------------------------------------------- strict
SRefusedExact == (l > 0 /\ R.k = "boot") => (R.refused <=> Panics(R.cfg))
SLogged       == (l > 0 /\ R.k = "round") => R.haslog
SStep == (l > 0 /\ Readable(R)) =>
   /\ R.rc = RefCorrOf(R.cfg, R.ro) /\ R.pc = PeerCorrOf(R.cfg, R.po)
   /\ R.rok = RefOkOf(R.cfg) /\ R.pok = PeerOkOf(R.cfg, R.po)
   /\ R.corr = CorrOf(R.cfg, R.ro, R.po)
\* the behaviour TLC generated predicted exactly these values
SExpected == (l > 0 /\ Readable(R) /\ R.hasexp) =>
   /\ R.ro = R.ero /\ R.po = R.epo /\ R.rc = R.erc /\ R.pc = R.epc /\ R.corr = R.ecorr
\* the fake clock did what the generated behaviour says the environment does:
\* the reading moved by slp + stp half intervals across the Sleep call and the
\* epoch advanced iff the reading was stepped (binding check of the driver)
SClock == (l > 0 /\ R.k = "round" /\ R.hasexp /\ R.rnd > 1) =>
   /\ R.el = ReadingDelta([slp |-> R.eslp, stp |-> R.estp])
   /\ R.slept = R.eslp
=============================================================================
