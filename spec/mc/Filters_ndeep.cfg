SPECIFICATION Spec
CONSTANTS
  Which = "ntimed"
  Caps = {1}
  Picks = {1}
  UnconfToo = FALSE
  Offs = {0}
  Rtds = {1}
  DistinctOnly = FALSE
  Clk0s = {0, 1}
  MaxEv = 26
  FilterAverage = 20
  Classes <- ClassesAll
  StepAt = {0, 1, 2}
  MaxInDo = 4
  EmitMinInDo = 0
VIEW View
INVARIANTS RawWhen HistoryIndependent ResetIsInit RawBothFail NavgCounts ReadsPerDo TypeOK
