SPECIFICATION Spec
CONSTANTS
  W = 6
  MaxN = 3
  K = 3
  Bands <- Bands3
  Far <- FarHi
  Variants <- VarDur
  Shared = FALSE
  SortedInputs = FALSE
INVARIANTS CReturns CContain COwn CReorders CRaceFree
