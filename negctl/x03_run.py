import subprocess, sys, os, re
WT="/tmp/wt-x03"
PI="core/sync/adjustments/pi_linux.go"; RC="driver/shm/refclk.go"; TV="base/unixutil/timeval_linux.go"; FQ="base/unixutil/freq.go"
M=[
 ("N1 pi: step only above (>) the threshold", PI, "offset.Abs() >= c.StepThreshold", "offset.Abs() > c.StepThreshold"),
 ("N2 pi: threshold 0 no longer disables stepping", PI, "if c.StepThreshold != 0 && offset.Abs()", "if offset.Abs()"),
 ("N3 pi: step keeps c.freqAddend (reverted a second time later)", PI, "\t\tc.freqAddend = 0\n\t\tc.freq = 0", "\t\tc.freq = 0"),
 ("N4 pi: proportional term with the wrong sign", PI, "\t\tfreq += c.freqAddend", "\t\tfreq -= c.freqAddend"),
 ("N5 unixutil: TimevalFromNsec without normalisation of negative ns", TV, "if nsec < 0 {", "if false {"),
 ("N6 unixutil: ScaledPPMFromFreq rounds away from zero by one", FQ, "return int64(freq * (65536.0 * 1e6))", "return int64(freq*(65536.0*1e6)) + 2"),
 ("N7 shm: count re-check dropped (racing writer only)", RC, "if (t.mode == 1 && t.count != c.shm.time.count) ||\n\t\t\t!(t.mode", "if !(t.mode"),
 ("N8 shm: valid flag not checked", RC, " || t.valid == 0 {", " {"),
 ("N9 shm: valid not cleared after use", RC, "\t\tc.shm.time.valid = 0\n", ""),
 ("N10 shm: offset with the wrong sign", RC, "offset := clockTime.Sub(receiveTime)", "offset := receiveTime.Sub(clockTime)"),
 ("N11 shm: ns consistency judged on the clock field only", RC, "t.clockTimeStampNSec/1000 == uint32(t.clockTimeStampUSec) &&\n\t\t\tt.receiveTimeStampNSec/1000 == uint32(t.receiveTimeStampUSec) {", "t.clockTimeStampNSec/1000 == uint32(t.clockTimeStampUSec) {"),
 ("N12 shm: unknown modes accepted", RC, "!(t.mode == 0 || t.mode == 1) || ", ""),
 ("N14 pi: slews through the kernel PLL (ADJ_OFFSET) instead of writing the frequency", PI, "\t\t\tModes: unix.ADJ_FREQUENCY,\n\t\t\tFreq:  unixutil.ScaledPPMFromFreq(freq),", "\t\t\tModes:  unix.ADJ_OFFSET | unix.ADJ_NANO,\n\t\t\tOffset: offset.Nanoseconds(),"),
 ("N13 shm: reported time is the clock time stamp", RC, "return receiveTime, offset, nil", "return clockTime, offset, nil"),
]
only=sys.argv[1:]
for name,f,old,new in M:
    if only and name.split()[0] not in only: continue
    subprocess.run(["git","-C",WT,"checkout","--","."],check=True)
    p=os.path.join(WT,f); s=open(p).read()
    assert s.count(old)==1,(name,s.count(old))
    open(p,"w").write(s.replace(old,new))
    r=subprocess.run(["bin/check","X03"],cwd="/verif",env=dict(os.environ,VERIF_REPO=WT),stdout=subprocess.PIPE,stderr=subprocess.STDOUT,text=True)
    lines=[l for l in r.stdout.splitlines() if l.startswith(("X03 ","DRIFT","INCONCLUSIVE","VIOLATION")) or "-> exit" in l]
    print("=== %s -> rc=%d"%(name,r.returncode)); print("\n".join(l[:260] for l in lines[:12])); sys.stdout.flush()
subprocess.run(["git","-C",WT,"checkout","--","."],check=True)
