SPECIFICATION SpecSim
CONSTANTS
  Metas <- MetasGen
  DHosts <- DH2
  Vals <- ValsExh
  E = 2
  NEpochs = 2
  MockModes <- Both
  H6 = 2
  Gaps <- GapsMock
  Horizon = 12
  MaxCalls = 9999
  HHMetas <- MetasHH
  HHVals <- ValsExh
  GenLen = 20
INVARIANTS EmitSim
