"""C05, NTS clause on the wire: "When NTS is enabled the datagram must in addition carry the
request's unique identifier and verify under the server-to-client key; every other datagram
is skipped or yields an error, never an offset."

run_nts(ctx) is called from checks/c05.py:
  TLC enumerates NtpAccept.tla with Nts = TRUE (cfg NtpAccept_nts_gen: every datagram at most
  two fields away from the genuine response, before / instead of it, basic and interleaved
  request); harness/c05nts concretises each abstract datagram from the real server's genuine
  authenticated response (nts absent / wrongUid / badTag / wrongKey / truncated; NTP-level
  deviations re-authenticated under the right key) and delivers it to the real NTS-enabled
  IPClient through the recording proxy; the reaction to each datagram is decided without the
  client's log (harness/c05nts lane.watch: return of the call, next request at the proxy, state of
  the client's socket and goroutine, hooks VerifPrev / Fetcher.VerifData); NtpAcceptTrace judges it
  (monitor: got = "ok" => AcceptX(d, il, TRUE) -> VIOLATION; strict: reaction = NtpAccept's, and
  the log records with today's names - if any were seen - tell the same -> DRIFT).
Returns (n_cases, n_records, reactions).
"""
import random

import vlib

GENUINE = dict(src="server", dst="client", l4="udp", len="ok", li=0, vn=4, mode=4, stratum=1, txrx="after", nts="ok")


def _queue(c):
    return [p[0] for p in c["seen"]] + list(c["rest"])


def _dev(d, il):
    g = dict(GENUINE, origin="rx" if il else "tx")
    return sorted(k for k in g if d[k] != g[k])


def _sig(rec):
    d = rec["d"]
    # an interleaved request also takes origin = tx (basic response): not a deviation
    dev = [k for k in _dev(d, rec["il"]) if k != "nts" and not (k == "origin" and d["origin"] == "tx")]
    return "C05 accepted nts=%s%s" % (d["nts"], "".join("+" + k for k in dev))


def _validate_in(ctx, d, module, cfg, path):
    """ctx.validate in the spec directory d (for validations that run side by side)"""
    r = ctx.tlc(module, cfg, workers=2, timeout=900, files={"trace.ndjson": path}, allow_violation=True, tag="trace:" + cfg, specdir=d)
    if r["violated"]:
        return False, ctx.trace_state_l(r["out"]), r["violated"], r["out"]
    return True, None, None, r["out"]


def _judge_dgrams(ctx, recs, cases, who):
    """monitor: every accepted datagram must satisfy AcceptX(d, il, TRUE); one TLC run reports one
    record - the records of that signature are set aside and the rest is judged again.
    Returns the number of accepted datagrams that violate the clause."""
    left = list(recs)
    nviol = 0
    for _ in range(12):
        pp = ctx.path("nts_left.ndjson")
        vlib.write_ndjson(pp, left)
        ok, l, inv, tout = ctx.validate("NtpAcceptTrace", "NtpAcceptTrace_mon.cfg", pp)
        if ok:
            break
        if not l:
            raise vlib.Inconclusive("NtpAcceptTrace failed without a position:\n" + tout[-1500:])
        bad = left[l - 1]
        sig = _sig(bad)
        same = [x for x in left if x["got"] == "ok" and _sig(x) == sig]
        nviol += len(same)
        ctx.violation(sig, "%s reported an offset on the basis of a datagram with nts=%s (%s), deviating fields %s; "
                           "%d such datagrams accepted%s" % (who, bad["d"]["nts"], bad.get("how", ""), _dev(bad["d"], bad["il"]), len(same),
                                                             "; association %s, key exchange %s, request on the wire %s" %
                                                             (bad["assoc"], bad["ke"], bad.get("reqk")) if "assoc" in bad else ""),
                      {"record": bad, "case": cases[bad["case"]]})
        left = [x for x in left if not (x["got"] == "ok" and _sig(x) == sig)]
    else:
        ctx.notes.append("%s: more than 12 distinct accepted-datagram signatures; the rest is not listed" % who)
    return nviol


def run_nts(ctx):
    q = ctx.quick
    g = ctx.tlc("NtpAcceptMC", "NtpAccept_nts_gen.cfg", workers=1, timeout=600, tag="ntsgen")
    allc = ctx.emitted(g["out"])
    # an IP socket only ever sees UDP datagrams addressed to it
    real = [c for c in allc if _queue(c) and all(d["dst"] == "client" and d["l4"] == "udp" for d in _queue(c))]
    ntsdev = [c for c in real if _queue(c)[0]["nts"] != "ok"]
    rest = [c for c in real if _queue(c)[0]["nts"] == "ok"]
    rng = random.Random(ctx.seed)
    if q:
        rest = rng.sample(rest, min(len(rest), 200))
    # two crafted datagrams before the genuine one (the second meets a client whose retry is used
    # up): spec/mc/NtpAcceptNtsGen.tla, breadth-first over skip-class first x NTS-deviating second
    g2 = ctx.tlc("NtpAcceptNtsGen", "NtpAccept_nts_gen2.cfg", workers=1, timeout=300, tag="ntsgen2")
    two = [c for c in ctx.emitted(g2["out"]) if len(_queue(c)) >= 2]
    if q:
        two = rng.sample(two, min(len(two), 200))
    cases = ntsdev + rest + two
    rng.shuffle(cases)
    kinds = {_queue(c)[0]["nts"] for c in cases}
    if not {"ok", "absent", "wrongUid", "badTag", "wrongKey", "truncated"} <= kinds or len(cases) < 300:
        raise vlib.Inconclusive("NTS case generator: %d cases, kinds %s" % (len(cases), sorted(kinds)))
    cp = ctx.path("cases_nts.ndjson")
    vlib.write_ndjson(cp, cases)
    tp, out = ctx.godriver("c05nts", "^TestC05Nts$", cases=cp, out_name="trace_nts.ndjson", timeout=900)
    recs = vlib.read_ndjson(tp)
    reactions = {k: sum(1 for x in recs if x["got"] == k) for k in ("ok", "skip", "error", "ignored", "panic")}
    per_kind = {}
    for x in recs:
        per_kind.setdefault(x["d"]["nts"], {}).setdefault(x["got"], 0)
        per_kind[x["d"]["nts"]][x["got"]] += 1
    ctx.log("NTS driver: %d cases, %d datagrams judged (%d to interleaved requests), reactions %s; per nts kind %s" %
            (len(cases), len(recs), sum(1 for x in recs if x["il"]), reactions, per_kind))
    if reactions["panic"]:
        ctx.notes.append("NTS driver: %d datagrams made the client panic (C08's subject; not judged here)" % reactions["panic"])

    nviol = _judge_dgrams(ctx, recs, cases, "NTS client")
    # vacuity: every kind was delivered, genuine responses were accepted in both modes
    acc = [x for x in recs if x["got"] == "ok" and x["d"]["nts"] == "ok"]
    if nviol == 0 and (len(recs) < len(cases) or not acc or not any(x["il"] for x in acc) or not any(not x["il"] for x in acc) or
            set(per_kind) != {"ok", "absent", "wrongUid", "badTag", "wrongKey", "truncated"} or
            # delivered after the retry was spent (what the client then does - error, or skip
            # because it allows more retries - is not the guard's business)
            not any(x["pos"] == 1 and x["d"]["nts"] != "ok" for x in recs)):
        raise vlib.Inconclusive("NTS driver coverage incomplete: %s" % per_kind)
    if nviol == 0:
        ok, l, inv, tout = ctx.validate("NtpAcceptTrace", "NtpAcceptTrace_strict.cfg", tp)
        if not ok:
            bad = recs[l - 1] if l else None
            nd = sum(1 for x in recs if x["want"] and x["got"] != "ignored" and x["want"] != x["got"])
            nl = sum(1 for x in recs if x.get("lg") and x["lg"] != x["got"])
            ctx.drift.append("NTS client (%s): %d reactions differ from NtpAccept.tla, %d from what the client's log records "
                             "tell, e.g. %s" % (inv, nd, nl, bad))
    ctx.cov.setdefault("nts", {}).update(cases=len(cases), records=len(recs), reactions=reactions, per_kind=per_kind,
                                         accepted_violating=nviol, samples=recs[:2])
    return len(cases), len(recs), reactions


KE_FAIL = ["refused", "reset", "tlsfail", "noalpn", "errrec", "nocookies", "truncated"]


def _call_sig(r):
    ke = "failed" if r["ke"] in KE_FAIL else r["ke"]
    return "C05 offset without acceptable datagram ke=%s" % ke


def run_assoc(ctx):
    """The association dimension (spec/NtpAcceptAssoc.tla): (association state at the start of the poll)
    x (outcome of the key exchange the poll triggers) x (what then arrives on the NTP socket).
    TLC checks the specification exhaustively (3 arrivals) and generates the cases; harness/c05nts
    TestC05Assoc replays each on the real NTS-enabled IPClient against the scripted key-exchange peer
    (harness/c05nts/kepeer) and the real NTP server behind the proxy.  Monitors: per datagram
    NtpAcceptTrace (got = ok => AcceptX(d, il, TRUE)), per call NtpAcceptAssocTrace (ret = ok => some
    datagram delivered during the call satisfies AcceptX(d, il, TRUE)).  Returns (n_cases, n_records)."""
    q = ctx.quick
    # (the generator configurations check the same invariants; 3 arrivals in the thorough tier)
    g = ctx.tlc("NtpAcceptAssocMC", "NtpAcceptAssoc_gen.cfg" if q else "NtpAcceptAssoc_gen3.cfg", workers=1, timeout=300, tag="assocgen")
    r = g if q else ctx.tlc("NtpAcceptAssocMC", "NtpAcceptAssoc_exh.cfg", workers=4, timeout=300)
    cases = ctx.emitted(g["out"])
    rng = random.Random(ctx.seed + 5)
    rng.shuffle(cases)
    # vacuity on the SPEC side: the generated behaviours exercise the whole product
    combos = {}
    for c in cases:
        combos.setdefault((c["assoc"], c["ke"]), []).append(c)
    want_combos = {(a, k) for a in ("fresh", "drained") for k in ["ok"] + KE_FAIL} | {("cached", "none")}
    answers = lambda c: [p[0]["nts"] for p in c["seen"]] + [d["nts"] for d in c["rest"]]
    per_combo_ok = all({"absent", "wrongKey", "ok"} <= {n for c in cs for n in answers(c)} and any(not answers(c) for c in cs) and
                       (a == "fresh" or {True, False} == {c["il"] for c in cs}) for (a, k), cs in combos.items())
    if set(combos) != want_combos or not per_combo_ok:
        raise vlib.Inconclusive("association case generator incomplete: %s" % {k: len(v) for k, v in combos.items()})
    nfail = sum(1 for c in cases if c["ke"] in KE_FAIL)
    nplain = sum(1 for c in cases if c["ke"] in KE_FAIL and "absent" in answers(c))
    nold = sum(1 for c in cases if c["assoc"] == "drained" and "wrongKey" in answers(c))
    ctx.notes.append("association dimension (NtpAcceptAssoc.tla, %d distinct states exhaustive): %d generated polls = "
                     "{fresh, cached, drained} x {no exchange, ok, %s} x responder answers (<= %d of plain genuine / sealed under "
                     "old keys, then genuine or nothing) x basic/interleaved; %d with a failing key exchange (%d of them followed by a plain "
                     "genuine response), %d with a drained association answered under the previous keys; per (association, exchange): %s" %
                     (r["distinct"], len(cases), ", ".join(KE_FAIL), 2 if q else 3, nfail, nplain, nold,
                      {"%s/%s" % k: len(v) for k, v in sorted(combos.items())}))
    # every poll on the IP client and on the SCION client (same-AS empty path; key exchange over TLS)
    cases = [dict(c, tr=tr) for c in cases for tr in ("ip", "scion")]
    rng.shuffle(cases)
    cp = ctx.path("cases_assoc.ndjson")
    vlib.write_ndjson(cp, cases)
    tp, out = ctx.godriver("c05nts", "^TestC05Assoc$", cases=cp, out_name="trace_assoc.ndjson", timeout=900)
    allrecs = vlib.read_ndjson(tp)
    dg = [x for x in allrecs if x["ev"] == "dgram"]
    calls = [x for x in allrecs if x["ev"] == "call"]
    skips = [x for x in allrecs if x["ev"] == "skip"]
    per = {}
    for x in calls:
        k = "%s %s/%s" % (x["tr"][:-4], x["assoc"], x["ke"] if x["ke"] in ("ok", "none") else "failed")
        per.setdefault(k, {}).setdefault(x["ret"], 0)
        per[k][x["ret"]] += 1
    ctx.log("association driver: %d cases, %d calls, %d datagrams judged, %d cases not set up; calls per association/exchange: %s" %
            (len(cases), len(calls), len(dg), len(skips), per))
    # per call: an offset only if an acceptable datagram was delivered during the call
    # (the first validation of the call records runs beside the one of the datagram records)
    from concurrent.futures import ThreadPoolExecutor
    left = list(calls)
    pp = ctx.path("assoc_calls_left.ndjson")
    vlib.write_ndjson(pp, left)
    ctx.specdir()
    cdir = ctx.private_specdir()
    with ThreadPoolExecutor(max_workers=1) as ex:
        f1 = ex.submit(_validate_in, ctx, cdir, "NtpAcceptAssocTrace", "NtpAcceptAssocTrace_mon.cfg", pp)
        nviol = _judge_dgrams(ctx, dg, cases, "NTS client (association driver)")
        first = f1.result()
    for _ in range(8):
        if not left:
            break
        if first is None:
            vlib.write_ndjson(pp, left)
            first = _validate_in(ctx, cdir, "NtpAcceptAssocTrace", "NtpAcceptAssocTrace_mon.cfg", pp)
        (ok, l, inv, tout), first = first, None
        if ok:
            break
        if not l:
            raise vlib.Inconclusive("NtpAcceptAssocTrace failed without a position:\n" + tout[-1500:])
        bad = left[l - 1]
        sig = _call_sig(bad)
        same = [x for x in left if x["ret"] == "ok" and _call_sig(x) == sig]
        nviol += len(same)
        ctx.violation(sig, "NTS-enabled client returned a measurement from a call (association %s, key exchange %s, requests on the "
                           "wire %s) during which no datagram satisfying the acceptance predicate with NTS was delivered (delivered: %s); "
                           "%d such calls" % (bad["assoc"], bad["ke"], bad["reqs"], [(x["d"]["nts"], x["got"]) for x in bad["ds"]], len(same)),
                      {"record": bad, "case": cases[bad["case"]]})
        left = [x for x in left if not (x["ret"] == "ok" and _call_sig(x) == sig)]
    # vacuity on the driver side (only when nothing was found: a client that is broken in another way
    # may well be unable to reach an association state)
    seen = {(x["tr"], x["assoc"], x["ke"]) for x in calls}
    acc = [x for x in dg if x["got"] == "ok" and x["d"]["nts"] == "ok" and x["phase"] in ("poll", "rest")]
    trs = ("ip-nts", "scion-nts")
    if nviol == 0 and (len(skips) > len(cases) // 10 or not {(t,) + c for t in trs for c in want_combos} <= seen or
                       not {(t, a) for t in trs for a in ("fresh", "drained", "cached")} <= {(x["tr"], x["assoc"]) for x in acc} or
                       not set(trs) <= {x["tr"] for x in dg if x["how"] == "wrongKey:old"} or
                       not set(trs) <= {x["tr"] for x in dg if x["d"]["nts"] == "absent" and x["phase"] == "poll"}):
        raise vlib.Inconclusive("association driver coverage incomplete: %d cases not set up (%s), calls %s" %
                                (len(skips), sorted({x["why"] for x in skips})[:3], per))
    if nviol == 0:
        dp, pp = ctx.path("assoc_dgrams.ndjson"), ctx.path("assoc_calls.ndjson")
        vlib.write_ndjson(dp, dg)
        vlib.write_ndjson(pp, calls)
        # (the two strict validations side by side, each in a private copy of the spec directory)
        with ThreadPoolExecutor(max_workers=2) as ex:
            f2 = ex.submit(_validate_in, ctx, ctx.private_specdir(), "NtpAcceptAssocTrace", "NtpAcceptAssocTrace_strict.cfg", pp)
            ok, l, inv, tout = _validate_in(ctx, ctx.private_specdir(), "NtpAcceptTrace", "NtpAcceptTrace_strict.cfg", dp)
            res2 = f2.result()
        if not ok:
            ctx.drift.append("NTS client, association driver (%s): reaction differs from NtpAccept.tla, e.g. %s" % (inv, dg[l - 1] if l else "?"))
        ok, l, inv, tout = res2
        if not ok:
            bad = calls[l - 1] if l else None
            ctx.drift.append("NTS client, association driver (%s): %s, e.g. %s" % (
                inv, {"SRequest": "requests on the wire differ from NtpAcceptAssoc!Fetch (a request without a cookie, or without NTS fields)",
                      "SOutcome": "outcome of a call differs from NtpAcceptAssoc (failed exchange without an error, or an exchange "
                                  "although cookies were cached)"}.get(inv, inv), bad))
    ctx.cov.setdefault("nts_assoc", {}).update(cases=len(cases), calls=len(calls), datagrams=len(dg), not_set_up=len(skips),
                                               calls_per_assoc_ke=per, accepted_violating=nviol,
                                               samples=[x for x in calls if x["ke"] in KE_FAIL][:1] + [x for x in calls if x["ds"]][:1])
    return len(cases), len(dg) + len(calls)


def run(ctx):
    """stand-alone entry for development: `bin/check c05nts_part` (C05 proper calls run_nts)"""
    ctx.tlc("NtpAcceptMC", "NtpAccept_nts.cfg", timeout=600, workers=8)
    n, k, reactions = run_nts(ctx)
    n2, k2 = run_assoc(ctx)
    n, k = n + n2, k + k2
    ctx.cov.update(traces_validated_against_impl=n, evaluations=k, distinct_nontrivial=k,
                   rule="see checks/c05nts_part.py", samples=ctx.cov["nts"]["samples"])
