SPECIFICATION TSpec
INVARIANTS TMacSoundReq TMacSoundFetcher TMacSoundResp TAuthReply TAuthReplyClient TReplyAddressing TForwardRule TNoStrayToEh
