SPECIFICATION TSpec
INVARIANTS SEqualsSpec SMid
