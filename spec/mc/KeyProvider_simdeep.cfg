SPECIFICATION SpecSim
CONSTANTS
  Day = 24
  Gaps <- GapsSimDeep
  Horizon = 960
  GenLen = 40
INVARIANTS EmitSim
