SPECIFICATION HSpec
CONSTANTS
  PlaceholderTypedAsCookie = FALSE
  SweepPrefixes2 <- NoInts
  SweepBases <- NoInts
  SweepWide = FALSE
  NtsUidLens <- NoInts
  NtsCkLens <- NoInts
  NtsMaxCk = 0
  NtsPhLens <- NoInts
  NtsMaxPh = 0
  NtsPtShapes <- NoInts
  SckLens <- NoInts
  SckNs <- NoInts
  HCodecs <- HAll
  HMaxCalls = 2
  HThreads = 2
  Recycle = FALSE
INVARIANTS HTypeOK PHistRoundTrip PResultsStable
