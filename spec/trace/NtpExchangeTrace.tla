-------------------------- MODULE NtpExchangeTrace --------------------------
(***************************************************************************)
(* Validation of what the real client (core/client IPClient) reported      *)
(* against a scripted network and the real server handler (harness/c03),   *)
(* schedules generated from NtpExchange.tla by NtpExchangeGen.             *)
(* Each "accept" record identifies, from wire fields, the client's         *)
(* interleaved-mode state and kernel timestamps at the harness, the        *)
(* exchange (attempt / server handling) every one of the four combined     *)
(* timestamps belongs to.  Records are independent.                        *)
(***************************************************************************)
EXTENDS Integers, Sequences, TLC, Json

Trace == ndJsonDeserialize("trace.ndjson")
N == Len(Trace)
VARIABLE l
TInit == l = 0
TNext == \E j \in 1 .. 16 : l' = 16 * l + j /\ l' <= N
TSpec == TInit /\ [][TNext]_l
R == Trace[l]
Acc == l > 0 /\ R.ev = "accept"
Abs(x) == IF x < 0 THEN -x ELSE x

\* ---------------------------------------------------------------- monitor (C03)
\* the four timestamps belong to one exchange: t0/t3 to one client attempt,
\* t1/t2 to one server handling of that attempt's request; basic results use the
\* current attempt, interleaved results an earlier (the previously accepted) one
TSameExchange ==
  Acc => /\ R.t0ex # 0 /\ R.t1h # 0
         /\ R.t0ex = R.t1ex /\ R.t3ex = R.t0ex
         /\ R.t1h = R.t2h /\ R.t2r \in {"sTx", "sTx0"}
         /\ R.win0 /\ R.win3
         /\ (R.il => R.t0ex < R.ex) /\ (~R.il => R.t0ex = R.ex)
\* the reported offset IS the NTP offset of those four timestamps
TComputedFromThem == Acc => R.reco
\* and lies within half the reported round-trip delay of the true offset (ns)
THalfRTT == Acc => 2 * Abs(R.err) <= R.rtd + 8

\* the client never panics on what a conformant server and this network send
\* (its only panic site fires when t3 < t0, impossible for timestamps of one exchange)
TNoPanic == (l > 0 /\ R.ev \in {"accept", "recv"}) => R.got # "panic"

\* ----------------------------------------------------------------- strict
\* the client did with each delivered datagram what NtpExchange.tla predicts
SOutcome == (l > 0 /\ R.ev \in {"accept", "recv"} /\ R.want # "" /\ R.got # "ignored") =>
              (R.want = R.got \/ (R.want = "panic" /\ R.got = "error"))
=============================================================================
