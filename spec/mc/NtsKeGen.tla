------------------------------ MODULE NtsKeGen ------------------------------
(***************************************************************************)
(* Behaviour generator for the C20 conformance driver (harness/c20).       *)
(* A history is the sequence of operations on ONE Fetcher:                 *)
(*   [op |-> "fetch", alpn, recs, cut]  a FetchData call together with the *)
(*        script the peer follows if the call dials ("dflt": the model did *)
(*        not dial; the driver keeps a well-formed script ready in case    *)
(*        the real code does)                                              *)
(*   [op |-> "store"]                   a StoreCookie call                 *)
(*   GSpec  exhaustive: every history within the bounds (hist is part of   *)
(*          the state, so TLC visits every script exactly once)            *)
(*   SSpec  for `tlc -simulate`: random walks through the same actions     *)
(*          with RandomElement draws biased towards long, well-formed      *)
(*          messages, so that failures happen late and pools get used up   *)
(* RunAgrees ties the function RunCall (used by the trace specification's  *)
(* strict mode) to the step-by-step actions of NtsKe.                      *)
(***************************************************************************)
EXTENDS NtsKeMC, Json

VARIABLES hist,   \* the history so far
          pre     \* Fetcher.data and session count before the current / last FetchData call

gvars == <<vars, hist, pre>>

Op(a) == [op |-> "fetch", alpn |-> a, recs |-> << >>, cut |-> "none"]
StoreOp == [op |-> "store", alpn |-> "-", recs |-> << >>, cut |-> "none"]
Last == Len(hist)
Snap == [data |-> data, sess |-> sess]

GInit == Init /\ hist = << >> /\ pre = [data |-> Data0, sess |-> 0]

GCached  == FetchCached /\ hist' = Append(hist, Op("dflt")) /\ pre' = Snap
GDial(a) == Dial(a) /\ hist' = Append(hist, Op(a)) /\ pre' = Snap
GLocal   == (CheckAlpn \/ SendRequest \/ Export \/ Finish) /\ UNCHANGED <<hist, pre>>
GClose   == PeerClose /\ UNCHANGED <<hist, pre>>
GRead(r) == ReadRecord(r) /\ hist' = [hist EXCEPT ![Last].recs = Append(@, r)] /\ UNCHANGED pre
GCut(r, w) == /\ ReadCut(r, w)
              /\ hist' = [hist EXCEPT ![Last].recs = Append(@, r), ![Last].cut = w]
              /\ UNCHANGED pre
GStore   == StoreCookie /\ hist' = Append(hist, StoreOp) /\ UNCHANGED pre

GNext ==
  \/ GCached
  \/ \E a \in Alpns : GDial(a)
  \/ GLocal \/ GClose
  \/ \E r \in Alphabet : GRead(r)
  \/ \E r \in CutRecs, w \in {"hdr", "body"} : GCut(r, w)
  \/ GStore

GSpec == GInit /\ [][GNext]_gvars

\* ------------------------------------------------------------ simulation
Pick(S) == RandomElement(S)
PickSeq(s) == s[Pick(1 .. Len(s))]
Likely == <<"np", "a15", "a15", "ck", "ck", "ck", "ck", "sA", "sB", "pA", "pB", "un", "eom", "eom">>

SNext ==
  \/ /\ Idle
     /\ \E k \in {Pick(1 .. 12)} :
          IF data.pool # << >>
          THEN IF k <= 2 /\ ENABLED StoreCookie THEN GStore ELSE GCached
          ELSE IF k = 1 /\ ENABLED StoreCookie THEN GStore
          ELSE \E a \in {IF k <= 9 THEN "ntske/1" ELSE Pick(Alpns)} : GDial(a)
  \/ GLocal
  \/ /\ conn = "reading"
     /\ \E k \in {Pick(1 .. 14)} :
          IF k = 1 THEN GClose
          ELSE IF k = 2
          THEN \E r \in {Pick(CutRecs)}, w \in {Pick({"hdr", "body"})} :
                 IF sv.n < MaxRecs THEN GCut(r, IF HasBody(r) THEN w ELSE "hdr") ELSE GClose
          ELSE \E r \in {IF k <= 6 THEN Pick(Alphabet) ELSE PickSeq(Likely)} :
                 IF sv.n < MaxRecs THEN GRead(r) ELSE GClose

SSpec == GInit /\ [][SNext]_gvars

\* ------------------------------------------------------------- emitters
\* no further FetchData call is possible within the bounds
Done == /\ Idle /\ hist # << >>
        /\ ncalls = MaxCalls \/ (data.pool = << >> /\ ndials = MaxDials)
Emit == Done => PrintT(<<"CASE", ToJson([h |-> hist])>>)

\* the function used by strict trace validation computes what the actions do
RunAgrees ==
  (Idle /\ hist # << >> /\ hist[Last].op = "fetch") =>
     LET r == RunCall(pre.data, pre.sess, hist[Last])
     IN /\ r.ok = ret.ok /\ r.exch = ret.exch
        /\ r.post = data /\ r.ret = ret.data /\ r.sess = sess
=============================================================================
