---------------------------- MODULE NtpAcceptMC ----------------------------
EXTENDS NtpAccept, Json
Done == state \in {"ok", "error", "timeout"}
\* a case = the datagrams that were queued, in order (the consumed prefix with the
\* specification's reaction, plus whatever was not consumed)
Emit == Done => PrintT(<<"CASE", ToJson([il |-> il, seen |-> hist, rest |-> queue, outcome |-> state])>>)
=============================================================================
