------------------------------- MODULE PllMC -------------------------------
EXTENDS Pll, Json

CONSTANT StepDen     \* simulation: an external step lands inside a call at 1 of StepDen allowed places

\* ---- value sets (cfg files cannot hold negative numbers or expressions)
\* offsets: 0, +-0.5 ms, +-1 ms, +-(1 ms + 1 ns), +-large, +-MaxInt64, MinInt64
OffsFull  == {0, 1, -1, 2, -2, 3, -3, 10, -10, 20, -20, -21}
OffsNoMin == {0, 1, -1, 2, -2, 3, -3, 10, -10, 20, -20}
OffsSmall == {0, 2, -3, 10, -21}
OffsSmallNoMin == {0, 2, -3, 10, -20}
\* histories with external steps inside calls (generator, quick tier): the offset / weight classes that decide
OffsIn == {0, 10}
WeightsIn == {3, 4}
\* weights: <= 3 (incl. exactly 3, 0 / denormal, negative), 3 < w < 50, 50 <= w < 150, >= 150, NaN, +Inf, -Inf
WeightsFull  == {2, 3, 4, 49, 50, 149, 150, 0, -5, WNaN, WPosInf, WNegInf}
WeightsSmall == {3, 4, 150, WNaN}
WeightsMid   == {2, 3, 4, 150, WNaN, WPosInf, WNegInf}    \* the specification only distinguishes w > 3
\* advances (ms): 0, < 1 s, 1 s, 2 s, 2 s + 1, 6 s, 6 s + 1, 300 s + 1
AdvsFull  == {0, 500, 1000, 2000, 2001, 6000, 6001, 300001}
AdvsSmall == {0, 500, 2000, 2001, 6001}

\* symbolic proportional term: nothing, tiny, just inside, on, just outside, far outside the clamp
RawMagsFull(b) == {0, 1, b - 1, b, b + 1, 2 * b + 7}
RawMagsOne(b)  == {2 * b + 7}

\* jumps of the reading that come with an external step inside a call (ms):
\* none, short, just beyond the 2 s wait, just beyond the 6 s wait
JumpsSmall == {0, 2001}
JumpsFull  == {0, 500, 2001, 6001}

\* ---- views
\* Sound for the property section: only differences of readings against the
\* thresholds matter; they are capped just above the largest threshold.
\* The last call and its inputs do not influence the future and are left out
\* between calls (the property is checked on every transition, C19Step, not on
\* every distinct state); while a call is in progress everything is kept.
Cap(x) == IF x > 300 * U + 1 THEN 300 * U + 2 ELSE x
ViewCore == <<mode, clkEpoch - epoch, Cap(TSub(now, t0)), TSub(now, t), Cap(TSub(now, estart)),
              TSub(now, nowIn), Len(hist), nin, pc,
              IF pc = "idle" THEN << >>
              ELSE IF pc = "ret" THEN <<nacc, stp>>
              ELSE <<nacc, stp, IF pc = "sw" \/ ReadsNowFirst THEN TSub(now, rnow) ELSE 0,
                     Cap(TSub(now, esIn)), TSub(now, prevLo), cur.modeB, cur.obs>> >>
\* Coverage heuristic for the generator (not a bisimulation): position of the
\* differences relative to the thresholds.
Cls(x) == IF x = 0 THEN 0 ELSE IF x < 2 * U THEN 1 ELSE IF x = 2 * U THEN 2 ELSE IF x < 6 * U THEN 3
          ELSE IF x = 6 * U THEN 4 ELSE IF x <= 300 * U THEN 5 ELSE 6
ViewGen == <<mode, clkEpoch - epoch, Cls(TSub(now, t0)), Cls(TSub(now, estart)), Cls(TSub(now, nowIn)),
             act.k, lastIn.off, lastIn.w, lastIn.modeB, lastIn.obs, Cls(lastIn.dt), Cls(lastIn.since), Cls(lastIn.sinceIn),
             Len(hist), nin, pc,
             IF pc = "idle" THEN << >>
             ELSE <<nacc, stp, Cls(TSub(now, rnow)), Cls(TSub(now, esIn)), cur.modeB, cur.obs, pend.k,
                    cur.adv, cur.sat, cur.bump, cur.off, cur.w>> >>

\* ---- simulation (random behaviour generator, tlc -simulate): one random
\* successor per step; an external step lands at an allowed place with
\* probability 1 / StepDen; a finished history stutters so that every walk
\* reaches the depth.  (The sets given to RandomElement mention a variable:
\* TLC evaluates constant expressions once.)
AdvChoices == Advs \cup (IF AllowSat THEN {-1} ELSE {})
V0 == 0 * Len(hist)
DoCallRand ==
  /\ pc = "idle" /\ Len(hist) < MaxLen
  /\ \E bi \in {RandomElement(1 .. BumpDen + V0)}, adv \in {RandomElement(AdvChoices \cup {x \in {0} : V0 = 1})} :
       Set(FCall(S, [adv |-> IF adv < 0 THEN 0 ELSE adv, sat |-> adv < 0, bump |-> bi = 1]))
DoSwRand ==
  /\ pc = "sw"
  /\ \E off \in {RandomElement(Offs \cup {x \in {0} : V0 = 1})}, w \in {RandomElement(Weights \cup {x \in {0} : V0 = 1})} :
       \E raw \in {RandomElement(Raws(S, off))} :
         LET s1 == FSw(S, off, w, raw)
         IN IF s1.pc = "act" /\ EnvOK(s1) /\ RandomElement(1 .. StepDen + V0) = 1
            THEN \E j \in {RandomElement(Jumps \cup {x \in {0} : V0 = 1})} : Set(FAct(FEnv(s1, j)))
            ELSE SwThenAct(s1)
EnvStepRand == EnvEnabled /\ \E j \in {RandomElement(Jumps \cup {x \in {0} : V0 = 1})} : Set(FEnv(S, j))
NextSim ==
  \/ DoCallRand
  \/ /\ pc # "idle"
     /\ IF EnvEnabled /\ RandomElement(1 .. StepDen + V0) = 1 THEN EnvStepRand
        ELSE DoE1 \/ DoE2 \/ DoNow \/ DoSwRand \/ DoRet
  \/ (pc = "idle" /\ Len(hist) = MaxLen /\ Set([S EXCEPT !.pc = "done"]))     \* (Emit prints once)
  \/ (pc = "done" /\ UNCHANGED vars)
SpecSim == Init /\ [][NextSim]_vars

\* ---- behaviour emitter (spec -> code): complete histories with the expected outputs
Bumps[i \in 0 .. Len(hist)] ==
  IF i = 0 THEN 0
  ELSE Bumps[i - 1] + (IF hist[i].bump THEN 1 ELSE 0) + (IF hist[i].k = "step" THEN 1 ELSE 0) + Len(hist[i].st)
C0 == clkEpoch - Bumps[Len(hist)]     \* the clock epoch at creation
Emit == (pc = "idle" /\ Len(hist) = MaxLen) => PrintT(<<"CASE", ToJson([c0 |-> C0, u |-> hist])>>)
=============================================================================
