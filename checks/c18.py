"""C18 - time-unit conversions for the kernel and CSPTP interfaces are exact and normalised."""
import os, random
import vlib

# monitor invariant -> (clause, function/site) for the structural signature
CLAUSE = {
    "RNormalised": ("normalised-timeval", "unixutil.TimevalFromNsec"),
    "RShiftDrops": ("drop-16-subns-bits", "csptp.DurationFromTimeInterval"),
    "RTsRoundTrip": ("timestamp-roundtrip", "csptp.TimestampFromTime/TimeFromTimestamp"),
    "RTsRevRoundTrip": ("timestamp-roundtrip-rev", "csptp.TimeFromTimestamp/TimestampFromTime"),
    "RPpm": ("scaled-ppm-roundtrip", "unixutil.ScaledPPMFromFreq/FreqFromScaledPPM"),
    "RDrift": ("drift-proportional", "clocks.SystemClock.Drift"),
    "RFormula": ("offset-delay-formulas", "csptp.ClockOffset/MeanPathDelay"),
}
KINDS_OF = {"RNormalised": {"tv"}, "RShiftDrops": {"ci"}, "RTsRoundTrip": {"ts"}, "RTsRevRoundTrip": {"tr"},
            "RPpm": {"pp", "ppsweep"}, "RDrift": {"dr"}, "RFormula": {"fm"},
            "STimeval": {"tv"}, "SShift": {"ci"}, "STimestamp": {"ts"}, "STimeFromTs": {"tr"},
            "SPpm": {"pp", "ppsweep", "fq"}, "SDrift": {"dr"}, "SFormula": {"fm"}}


def input_class(r):
    """structural class of the offending input (not its value)"""
    k = r.get("k")
    src = r.get("src", "-")
    if k in ("tv", "ci"):
        top = (r["nl"] if k == "tv" else r["il"])
        sign = "neg" if any(x < 0 for x in top) else "nonneg"
        return "%s %s" % (sign, src)
    if k == "fm":
        return "%s %s" % ("image" if r.get("img") else "raw64", src)
    return src


def corrupt(recs, what, rng):
    """Negative control on the binding itself (VERIF_C18_CORRUPT=<kind>): damage one
    recorded field of one record of that kind, as a faulty implementation would."""
    idx = [i for i, r in enumerate(recs) if r.get("k") == what and (what != "fm" or r.get("dom"))
           and (what != "ts" or r.get("in48")) and (what != "tr" or r.get("valid")) and (what != "dr" or not r.get("unknown"))]
    if not idx:
        raise vlib.Inconclusive("VERIF_C18_CORRUPT: no %s record" % what)
    r = recs[rng.choice(idx)]
    if what == "tv":
        r["usecl"][0] += 1
    elif what == "ci":
        r["ql"][0] += 1
    elif what == "ts":
        r["bd"][5] ^= 1
    elif what == "tr":
        r["onsr"] += 1
    elif what == "pp":
        r["back"] += 2
    elif what == "dr":
        r["prop_ok"] = False
    elif what == "fm":
        r["offl"][0] += 1
    return r


def apalache(ctx):
    """Spec-level only: the normalisation and the formula identities at the real 64-bit
    constants (unbounded Int with range guards).  A tool problem is a note, a
    counterexample is a specification-level finding (inconclusive), never a verdict."""
    import subprocess, shutil, time
    if not shutil.which("apalache-mc"):
        ctx.notes.append("apalache-mc not available: real-constant lemmas skipped")
        return
    d = ctx.specdir()
    done = 0
    for inv in ("NormalisedAll", "ShiftAll", "FormulaAll"):
        od = ctx.path("apalache-" + inv)
        t = time.time()
        p = subprocess.run(["timeout", "120", "apalache-mc", "check", "--length=0", "--inv=" + inv,
                            "--out-dir=" + od, "UnitConvApa.tla"], cwd=d, stdout=subprocess.PIPE,
                           stderr=subprocess.STDOUT, text=True, errors="replace")
        w = round(time.time() - t, 1)
        if p.returncode == 0 and "The outcome is: NoError" in p.stdout:
            done += 1
            ctx.notes.append("apalache %s at real constants: NoError (%.1fs)" % (inv, w))
        elif "The outcome is: Error" in p.stdout:
            raise vlib.Inconclusive("Apalache found a specification-level counterexample to %s "
                                    "(not a verdict about the code):\n%s" % (inv, p.stdout[-1500:]))
        else:
            ctx.notes.append("apalache %s: no result (rc=%s, %.1fs) - lemma not established in this run" % (inv, p.returncode, w))
    ctx.cov["apalache_lemmas_discharged"] = done


def run(ctx):
    q = ctx.quick
    rng = random.Random(ctx.seed)
    # 1. design level: the property section of UnitConv.tla on the transcribed functions,
    #    every input of the scaled model
    r = ctx.tlc("UnitConvMC", "UnitConv_exh.cfg" if q else "UnitConv_deep.cfg", timeout=900)
    ctx.log("TLC exhaustive (%s): %d distinct states, %.1fs" % (r["cfg"], r["distinct"], r["wall_s"]))
    # 2. spec -> code: TLC enumerates the model's inputs
    g = ctx.tlc("UnitConvMC", "UnitConv_gen.cfg" if q else "UnitConv_gendeep.cfg", workers=1, timeout=900, tag="gen")
    cases = ctx.emitted(g["out"])
    ctx.log("TLC generator (%s): %d cases, %.1fs" % (g["cfg"], len(cases), g["wall_s"]))
    kinds = {c["k"] for c in cases}
    if len(cases) < 10000 or kinds != {"tv", "ci", "ts", "tr", "pp", "fq", "dr", "fm"}:
        raise vlib.Inconclusive("case generator produced %d cases of kinds %s" % (len(cases), sorted(kinds)))
    cp = ctx.path("cases.ndjson")
    vlib.write_ndjson(cp, cases)
    # 3. the real functions at the real constants
    trace, out = ctx.godriver("c18", "TestC18", cases=cp, extra=("-v",))
    recs = vlib.read_ndjson(trace)
    hdr, recs = recs[0], recs[1:]
    if hdr.get("k") != "hdr":
        raise vlib.Inconclusive("driver trace has no header record")
    for line in out.splitlines():
        if "C18 cases=" in line:
            ctx.log("driver:", line.strip())
    if os.environ.get("VERIF_C18_CORRUPT"):
        bad = corrupt(recs, os.environ["VERIF_C18_CORRUPT"], rng)
        ctx.log("negative control: corrupted one recorded field of", bad)
    # 4. code -> spec: the monitor decides, strict reports drift
    nval = 0
    chunk = 80000
    for i in range(0, len(recs), chunk):
        part = recs[i:i + chunk]
        pp = ctx.path("chunk.ndjson")
        vlib.write_ndjson(pp, [hdr] + part)
        # fast path: monitor and strict invariants in one TLC run; any failure is
        # re-examined with the two configurations separately (monitor decides)
        ok, l, inv, tout = ctx.validate("UnitConvTrace", "UnitConvTrace_both.cfg", pp)
        if ok:
            nval += len(part)
            continue
        live = part
        for attempt in range(8):     # one violation per clause: drop that clause's records and look again
            vlib.write_ndjson(pp, [hdr] + live)
            ok, l, inv, tout = ctx.validate("UnitConvTrace", "UnitConvTrace_mon.cfg", pp)
            if ok:
                break
            if not l or l < 2 or inv not in CLAUSE:
                raise vlib.Inconclusive("monitor stopped without a usable position (%s, l=%s):\n%s" % (inv, l, tout[-1500:]))
            bad = live[l - 2]
            clause, site = CLAUSE[inv]
            ctx.violation("C18 %s %s" % (clause, site),
                          "real %s result violates %s (input class: %s): %s" % (site, inv, input_class(bad), bad), bad)
            live = [x for x in live if x["k"] not in KINDS_OF[inv]]
        else:
            raise vlib.Inconclusive("monitor did not converge")
        nval += len(live)
        sl = live
        for attempt in range(8):
            vlib.write_ndjson(pp, [hdr] + sl)
            ok, l, inv, tout = ctx.validate("UnitConvTrace", "UnitConvTrace_strict.cfg", pp)
            if ok:
                break
            if not l or l < 2 or inv not in KINDS_OF:
                ctx.drift.append("strict validation stopped without a usable position (%s)" % inv)
                break
            ctx.drift.append("%s: record %s differs from UnitConv.tla" % (inv, sl[l - 2]))
            sl = [x for x in sl if x["k"] not in KINDS_OF[inv]]
    ctx.log("trace validation: %d of %d records accepted by the monitor, %d violation(s), %d drift note(s)"
            % (nval, len(recs), len(ctx.violations), len(ctx.drift)))
    if not q:
        apalache(ctx)

    def key(x):
        k = x["k"]
        if k == "tv":
            return (k, tuple(x["nl"]))
        if k == "ci":
            return (k, tuple(x["il"]))
        if k == "ts":
            return (k, tuple(x["sd"]), x["nsr"], x["in48"], x["zone"])
        if k == "tr":
            return (k, tuple(x["ib"]), x["insr"])
        if k == "pp":
            return (k, x["sp"])
        if k == "fq":
            return (k, x["num"], x["den"])
        if k == "dr":
            return (k, tuple(x["driftl"]), tuple(x["durl"]))
        if k == "fm":
            return (k, tuple(x["dl"]), tuple(x["thl"]), x["c1"], x["c3"], x["emb"], x["img"])
        return (k,)
    trivial = lambda x: (x["k"] == "ts" and not x["in48"]) or (x["k"] == "tr" and not x["valid"]) or \
        (x["k"] == "dr" and x["unknown"]) or (x["k"] == "fm" and not x["dom"]) or x["k"] == "fq"
    distinct = len({key(x) for x in recs if not trivial(x)})
    per_kind = {}
    for x in recs:
        per_kind[x["k"]] = per_kind.get(x["k"], 0) + 1
    sweep = [x for x in recs if x["k"] == "ppsweep"]
    by = {}
    for x in recs:
        by.setdefault((x["k"], x.get("src")), x)
    ctx.cov.update(
        evaluations=len(recs) + sum(x["count"] for x in sweep), distinct_nontrivial=distinct,
        rule="every input of the scaled model (TLC-enumerated: all W-bit words for TimevalFromNsec and "
             "DurationFromTimeInterval, all 12-bit seconds x nanosecond boundaries, all 3-digit timestamps, all scaled-ppm "
             "values, value grids for Drift and the offset/delay formulas) concretised at the real constants under exact "
             "embeddings (seconds shifts up to +-9.2e9 s, bit windows of the 48-bit seconds, factors 1, 3, 10^9, 2^40+1, "
             "2^(64-W)), plus boundary grids (0, +-1, +-(10^9-1), +-10^9, +-(10^9+1), MinInt64, MaxInt64, 2^48-1 s, ...) and "
             "seeded random 64-bit inputs, plus one sweep over every scaled-ppm value of the kernel's range; distinct = "
             "distinct (function, real input) inside the property's quantifier (expected panics, drift 0, overflowing "
             "formula inputs and the reference-only frequency direction are not counted)",
        traces_validated_against_impl=nval, exhaustive=True, records_per_kind=per_kind,
        samples=list(by.values())[:24])
    ctx.assumptions += [
        "the driver's formatting of 64-bit values as base-1000 limbs / base-256 digits and its math/big guards (usec_in_range, "
        "recomposes, floor_ok, prop_ok, dom) are trusted; the identities themselves are re-decided by TLC on the limbs",
        "float64 clauses (scaled ppm, Drift) are judged only by the statement's tolerance: +-1 unit over |scaled ppm| <= 32768000; "
        "|Drift(d) - d*drift/10^9| <= 1 ns + 2^-49 relative",
        "small scope for the exhaustive TLC runs: 10^3 ns/s, 2^4 sub-units, 12-bit seconds, 14/16-bit words",
        "TimestampFromTime panics outside [0, 2^48) s and drift = clocks.UnknownDrift are outside the property's quantifier",
    ]
