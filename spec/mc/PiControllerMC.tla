--------------------------- MODULE PiControllerMC ---------------------------
EXTENDS PiController, TLC, Json

\* ---- value sets (cfg files cannot hold negative numbers)
\* offsets in quanta around the threshold 4: 0, +-1, +-(Thr-1), +-Thr, +-(Thr+1), far
OffsFull  == {0, 1, -1, 3, -3, 4, -4, 5, -5, 12, -12}
OffsSmall == {0, 1, -3, 4, -4, -5, 12}
PertFull  == {0, 3, -3}
PertSmall == {0, 3}
PertNone  == {0}
K0sFull   == {0, 5, -20, 20}
K0sSmall  == {0, -19}

\* ---- random walks (tlc -simulate): one random input per step
NextSim ==
  \/ /\ Len(hist) < MaxLen
     /\ \E o \in {RandomElement(Offs)}, p \in {RandomElement(Perturb)} : Do([off |-> o, pert |-> p])
  \/ Len(hist) = MaxLen /\ UNCHANGED vars
SpecSim == Init /\ [][NextSim]_vars

\* ---- spec -> code: complete histories with the result the specification computes
K0 == IF Len(hist) = 0 THEN kfreq ELSE base - (LET S[i \in 0 .. Len(hist)] == IF i = 0 THEN 0 ELSE S[i - 1] + hist[i].pert
                                               IN S[Len(hist)])
Emit == Len(hist) = MaxLen =>
          PrintT(<<"CASE", ToJson([kpn |-> KPn, kpd |-> KPd, kin |-> KIn, kid |-> KId, g |-> G, thr |-> Thr,
                                   fmax |-> FMax, k0 |-> K0, u |-> hist])>>)
\* a finished history is one state per distinct (inputs) sequence: no view needed, hist is part of the state
=============================================================================
