\* spec self-test: the OLD code (forward-only era unfolding, before commit 28e9272).
\* TLC must refute RoundTrip / EraOK here; the counterexample is replayed on the real functions
SPECIFICATION Spec
CONSTANTS
  NsPerSec = 1000
  FracUnits = 4096
  EraSecs = 64
  Epoch <- EpochScaled
  ForwardOnlyEraUnfold = TRUE
  WholeSecondUnfold = TRUE
  RefSecs <- RefAll
  RefNs <- RefNsOne
  Offs <- OffAll
  NsVals <- NsFew
INVARIANTS RoundTrip Order RoundTripNs EraOK WellFormed Separable
