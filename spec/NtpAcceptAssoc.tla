--------------------------- MODULE NtpAcceptAssoc ---------------------------
(***************************************************************************)
(* C05, NTS clause: the state of the client's NTS association when a poll  *)
(* starts, and the outcome of the key exchange that the poll triggers.     *)
(*                                                                         *)
(*   core/client/client_ip.go  measureClockOffsetIP                        *)
(*       if c.Auth.Enabled { ntskeData, err = FetchData(ctx);              *)
(*                           if err != nil { return err } ... }            *)
(*   net/ntske/fetcher.go      FetchData: pool empty -> exchangeKeys       *)
(*   (client_scion.go has the same shape under c.Auth.NTSEnabled)          *)
(*                                                                         *)
(* Nts (NTS enabled) is CONFIGURATION: it is an input of every poll and of *)
(* the acceptance predicate, and nothing that happens during a poll - in   *)
(* particular a failing key exchange - changes it.                         *)
(*                                                                         *)
(* One behaviour = one poll:                                               *)
(*   the environment fixes the association state (fresh | cached |         *)
(*   drained) and what whoever sits at the server's address will answer a  *)
(*   request with (queue: plain genuine responses, responses sealed under  *)
(*   the keys of an earlier association, then the genuine response or      *)
(*   nothing);                                                             *)
(*   Fetch: the client takes a cookie, or runs a key exchange whose        *)
(*   outcome the environment chooses (ok, or one of the failures);         *)
(*   only after a cookie was obtained a request goes out and the receive   *)
(*   loop of NtpAccept (Recv / Timeout) consumes the queue.                *)
(***************************************************************************)
EXTENDS NtpAccept

VARIABLES assoc,  \* association when the poll starts
          ke,     \* key exchange of this poll: "pending" | "none" (not needed) | outcome
          req     \* request on the wire: "none" | "nts" | "plain"

avars == <<il, queue, retries, state, last, hist, assoc, ke, req>>

\* fresh:   no key exchange yet (no keys, no cookies)
\* cached:  keys and at least one cookie (no exchange needed)
\* drained: keys of an earlier exchange, but no cookie left
Assocs == {"fresh", "cached", "drained"}
KeFail == {"refused", "reset", "tlsfail", "noalpn", "errrec", "nocookies", "truncated"}
KeOutcomes == {"ok"} \cup KeFail

\* what a responder that holds no valid association can answer with
PlainGenuine(i) == [Genuine(i) EXCEPT !.nts = "absent"]    \* the bare NTP response, everything else right
OldKeys(i)      == [Genuine(i) EXCEPT !.nts = "wrongKey"]  \* sealed under the keys of an earlier association
Answers(i) == IF Nts THEN {PlainGenuine(i), OldKeys(i)} ELSE {}

AInit ==
  /\ assoc \in Assocs
  /\ il \in (IF assoc = "fresh" THEN {FALSE} ELSE BOOLEAN)  \* an interleaved request needs an earlier exchange
  /\ queue = << >> /\ retries = 0 /\ state = "building" /\ last = Genuine(FALSE) /\ hist = << >>
  /\ ke = "pending" /\ req = "none"

\* the responder's plan, fixed before the poll (it does not depend on what the client does)
AddAnswer ==
  /\ state = "building" /\ Len(queue) < MaxArrivals
  /\ \E d \in Answers(il) : queue' = Append(queue, d)
  /\ UNCHANGED <<il, retries, state, last, hist, assoc, ke, req>>
Plan(withGenuine) ==
  /\ state = "building"
  /\ queue' = IF withGenuine THEN Append(queue, Genuine(il)) ELSE queue
  /\ state' = "poll"
  /\ UNCHANGED <<il, retries, last, hist, assoc, ke, req>>

\* FetchData at the start of the poll
ReqOf(a, k) == IF ~Nts THEN "plain" ELSE IF a = "cached" \/ k = "ok" THEN "nts" ELSE "none"
Fetch ==
  /\ state = "poll"
  /\ \E k \in (IF Nts /\ assoc # "cached" THEN KeOutcomes ELSE {"none"}) :
       /\ ke' = k
       /\ req' = ReqOf(assoc, k)
       /\ state' = IF req' = "none" THEN "error" ELSE "waiting"
  /\ UNCHANGED <<il, queue, retries, last, hist, assoc>>

ARecv    == Recv /\ UNCHANGED <<assoc, ke, req>>
ATimeout == Timeout /\ UNCHANGED <<assoc, ke, req>>

ANext == AddAnswer \/ (\E g \in BOOLEAN : Plan(g)) \/ Fetch \/ ARecv \/ ATimeout
ASpec == AInit /\ [][ANext]_avars

\* ------------------------------------------------------------- property C05
\* (OnlyGenuine of NtpAccept, with Nts as configured)
AOnlyGenuine == state = "ok" => AcceptX(last, il, Nts)
\* consequences for this environment (checked by TLC on the specification)
NoOffsetAfterFailedExchange == (ke \in KeFail) => (state # "ok" /\ hist = << >>)
NoPlainRequest == Nts => req # "plain"
=============================================================================
