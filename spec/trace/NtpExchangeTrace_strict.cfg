SPECIFICATION TSpec
INVARIANTS SOutcome SPrevFlag SStampUse SLog
