SPECIFICATION TSpec
INVARIANTS SOutcome
