SPECIFICATION Spec
CONSTANTS
  NLoops = 3
  NSrcs = 3
  MaxSend = 4
  LookupLocked = TRUE
  Run = TRUE
INVARIANTS TypeOK NeverDead MapUnderLock
