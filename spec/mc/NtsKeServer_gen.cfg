SPECIFICATION HSpec
CONSTANTS
  Conn <- C3
  MaxLen = 4
  MaxIll = 1
  MaxRot = 2
  Kinds <- KAll
  Cuts <- CutsAll
  Ends <- EndsAll
  NCk = 8
  Fault = "none"
INVARIANTS Emit OneMessage ErrorIffBad ResponseShape CookiesSealSession CookiesDistinct KeyCurrent

