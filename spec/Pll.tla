-------------------------------- MODULE Pll --------------------------------
(***************************************************************************)
(* The phase-locked-loop clock discipline of                               *)
(*   core/sync/adjustments/pll.go   (NewPLL and Pll.Do(offset, weight))    *)
(* driven through the timebase.SystemClock interface                       *)
(*   base/timebase/sysclk.go        (Epoch, Now, Step, Adjust)             *)
(* whose Linux implementation (driver/clocks/sysclk_linux.go) increments   *)
(* its epoch on every Step.                                                *)
(*                                                                         *)
(* Do holds no lock and the clock is shared with whoever else steps it, so *)
(* one call of Do is a short sequence of actions, one per access to the    *)
(* clock:                                                                  *)
(*   DoCall   the environment advances the clock (and may bump its epoch)  *)
(*            and Do is entered                                            *)
(*   DoE1     `if l.epoch != l.clk.Epoch()`               (first read)     *)
(*   DoE2     `l.epoch = l.clk.Epoch(); l.mode = 0`       (second read)    *)
(*   DoNow    `now := l.clk.Now()`                                         *)
(*   DoSw     the switch on l.mode up to the log record (no clock access)  *)
(*            and `l.clk.Step(measured)` or `l.clk.Adjust(p, d, l.i)`      *)
(*   DoRet    Do returns                                                   *)
(* and the environment action EnvStep - an external step of the clock:     *)
(* epoch + 1, the reading jumps forward - may fire between any two of      *)
(* them (after the nacc-th clock access of the call in progress).  The     *)
(* arguments of Do are not looked at before DoSw; they are chosen there.   *)
(*                                                                         *)
(* Every action is  vars' = F(vars)  for a function F on the record S of   *)
(* all variables, so that spec/trace/PllTrace.tla can run one whole call   *)
(* (with the in-call steps where the harness saw them land) in one step.   *)
(*                                                                         *)
(* Units.  Time is counted in units of 1/U second (U = 1000: ms) plus an   *)
(* "era" counter: an era step is a clock advance of >= 2^63 ns, for which  *)
(* time.Time.Sub saturates (SatDur).  Offsets are model values ordered     *)
(* like the int64 nanosecond values they stand for: OneMs is 1 ms, OffMax  *)
(* is MaxInt64, OffMin = -OffMax-1 is MinInt64 (timemath.Inv saturates     *)
(* there).  The slew p is counted in units of which PB make up 500 ppm of  *)
(* one second (PB = 500000: ns).  The proportional term a*offset is kept   *)
(* symbolic (Raw): any value of the sign of the offset; what the code      *)
(* guarantees, and what the property is about, is the clamp.  The          *)
(* integrator l.i is not modelled (its finiteness is observed, see trace). *)
(***************************************************************************)
EXTENDS Integers, Sequences, TLC

CONSTANTS
  U,            \* time units per second
  OneMs,        \* model offset standing for 1 ms
  OffMax,       \* model offset standing for MaxInt64 ns
  PB,           \* slew units per 500 ppm x 1 s
  SatSecs,      \* whole seconds of a saturated time.Time.Sub (real: 9223372037)
  Advs,         \* clock advances between updates (units)
  Offs,         \* measured offsets (model values)
  Weights,      \* measurement weights (float64: integers, or WNaN / WPosInf / WNegInf)
  AllowSat,     \* BOOLEAN: also saturating advances (>= 2^63 ns)
  BumpDen,      \* an external epoch bump happens for 1 of BumpDen choices
  InitClkEpochs,\* clock epoch at creation of the Pll (Pll.epoch starts at 0)
  MaxLen,       \* bound on the number of updates per history
  RawMags(_),   \* symbolic |a * offset| samples, given the clamp bound
  Jumps,        \* forward jumps of the reading that come with an external step inside a call (units)
  StepAt,       \* numbers k of clock accesses of a call after which an external step may land inside it
  MaxInDo,      \* bound on the number of external steps of a history that land inside a call
  \* switches: FALSE = what pll.go does (since the repairs 3830eca, 3f0dd14),
  \* TRUE = the earlier behaviour, kept so that TLC can show what it breaks
  StepUsesDoubleInv,  \* Step(Inv(Inv(off))): MinInt64 came back as MinInt64+1
  DurationWraps,      \* timemath.Duration(ceil(dt)) overflowed int64 when Sub saturated
  \* switch: FALSE = the order of pll.go (Epoch() is read before Now());
  \* TRUE = Now() is read first (not the code: kept so that TLC can show that
  \* the property section fails on it when a step lands between the two)
  ReadsNowFirst

OffMin == -OffMax - 1

(***************************************************************************)
(* Weights are float64.  Finite ones are modelled by integers; three       *)
(* reserved values stand for NaN, +Inf and -Inf.  Comparisons follow       *)
(* IEEE-754 as Go does: every ordered comparison with NaN is false (so     *)
(* `weight > 3` is false and `weight <= 3` is false too), +Inf is above    *)
(* and -Inf below every finite value.                                      *)
(***************************************************************************)
WNaN    == -999
WPosInf == 998
WNegInf == -998
WGt(w, c) == IF w = WNaN THEN FALSE ELSE IF w = WPosInf THEN TRUE ELSE IF w = WNegInf THEN FALSE ELSE w > c
WLt(w, c) == IF w = WNaN THEN FALSE ELSE IF w = WPosInf THEN FALSE ELSE IF w = WNegInf THEN TRUE ELSE w < c
\* tracking: `if weight < 50 {lo} else if weight < 150 {mid} else {stiffening l.a, l.b}`;
\* NaN and +Inf fail both tests and take the third branch
GainClass(w) == IF WLt(w, 50) THEN "lo" ELSE IF WLt(w, 150) THEN "mid" ELSE "stiff"
NegDur == -1                          \* a negative time.Duration (overflowed conversion)
SatDur == (SatSecs - 1) * U + 1       \* saturated Sub: more than every threshold

Time0 == [e |-> 0, t |-> 0]
TAdd(x, adv, sat) == [e |-> x.e + (IF sat THEN 1 ELSE 0), t |-> x.t + adv]
\* time.Time.Sub; readings are non-decreasing, so a.t >= b.t
TSub(a, b) == IF a.e > b.e THEN SatDur ELSE a.t - b.t

\* timemath.Inv, time.Duration.Abs (both saturate at MinInt64)
Inv(d)   == IF d = OffMin THEN OffMax ELSE -d
GoAbs(d) == IF d = OffMin THEN OffMax ELSE IF d < 0 THEN -d ELSE d
Abs(x)   == IF x < 0 THEN -x ELSE x
Sgn(x)   == IF x < 0 THEN -1 ELSE IF x > 0 THEN 1 ELSE 0
\* math.Ceil(dt) for dt = x/U seconds, x >= 0
CeilSecs(x) == (x + U - 1) \div U
Clamp(p, b) == IF p > b THEN b ELSE IF p < -b THEN -b ELSE p
\* timemath.Duration(d) for whole seconds d, counted in seconds
DurOf(d) == IF d >= SatSecs THEN (IF DurationWraps THEN NegDur ELSE SatSecs - 1) ELSE d

NoAct == [k |-> "none", x |-> 0, p |-> 0, d |-> 0, ffin |-> TRUE]
Last(q) == q[Len(q)]

VARIABLES
  mode, epoch, t0, t,      \* Pll.mode, Pll.epoch, Pll.t0, Pll.t
  now, clkEpoch,           \* the clock: reading, epoch
  estart,                  \* clock side: reading at which the current clock epoch began
  pc,                      \* control point of Do: "idle" | "e1" | "e2" | "now" | "sw" | "act" | "ret"
  nacc,                    \* clock accesses (Epoch, Now, Step, Adjust) made so far by the call in progress
  rnow,                    \* the local `now`: what Now() returned to the call in progress
  pend,                    \* the actuation call the switch decided on, not yet made
  cur,                     \* the call in progress: environment inputs, arguments, mode at entry, epoch change observed
  stp,                     \* external steps that landed inside the call in progress: sequence of [k, j]
                           \*   (after k clock accesses of this call, the reading jumped by j)
  nin,                     \* external steps inside calls so far (bound)
  nowIn, esIn,             \* clock side: reading / start of the clock epoch when the call in progress was entered
  prevLo,                  \* clock side: reading when the previous call was entered
  act,                     \* the actuation call made by the last update
  lastIn,                  \* the last update's inputs and pre-state facts
  hist                     \* history of updates (inputs and expected outputs)

vars == <<mode, epoch, t0, t, now, clkEpoch, estart, pc, nacc, rnow, pend, cur, stp, nin,
          nowIn, esIn, prevLo, act, lastIn, hist>>

NoIn == [off |-> 0, w |-> 0, modeB |-> 0, obs |-> FALSE, since |-> 0, sinceIn |-> 0, dt |-> 0]
NoCur == [adv |-> 0, sat |-> FALSE, bump |-> FALSE, off |-> 0, w |-> 0, modeB |-> 0, obs |-> FALSE, gc |-> "none"]

\* all variables as one record, and back
S == [mode |-> mode, epoch |-> epoch, t0 |-> t0, t |-> t, now |-> now, clkEpoch |-> clkEpoch,
      estart |-> estart, pc |-> pc, nacc |-> nacc, rnow |-> rnow, pend |-> pend, cur |-> cur,
      stp |-> stp, nin |-> nin, nowIn |-> nowIn, esIn |-> esIn, prevLo |-> prevLo,
      act |-> act, lastIn |-> lastIn, hist |-> hist]
Set(s) ==
  /\ mode' = s.mode /\ epoch' = s.epoch /\ t0' = s.t0 /\ t' = s.t /\ now' = s.now
  /\ clkEpoch' = s.clkEpoch /\ estart' = s.estart /\ pc' = s.pc /\ nacc' = s.nacc
  /\ rnow' = s.rnow /\ pend' = s.pend /\ cur' = s.cur /\ stp' = s.stp /\ nin' = s.nin
  /\ nowIn' = s.nowIn /\ esIn' = s.esIn /\ prevLo' = s.prevLo
  /\ act' = s.act /\ lastIn' = s.lastIn /\ hist' = s.hist

S0(c0) == [mode |-> 0, epoch |-> 0, t0 |-> Time0, t |-> Time0, now |-> Time0, clkEpoch |-> c0,
           estart |-> Time0, pc |-> "idle", nacc |-> 0, rnow |-> Time0, pend |-> NoAct, cur |-> NoCur,
           stp |-> << >>, nin |-> 0, nowIn |-> Time0, esIn |-> Time0, prevLo |-> Time0,
           act |-> NoAct, lastIn |-> NoIn, hist |-> << >>]

Init ==
  /\ mode = 0 /\ epoch = 0 /\ t0 = Time0 /\ t = Time0 /\ now = Time0
  /\ clkEpoch \in InitClkEpochs /\ estart = Time0
  /\ pc = "idle" /\ nacc = 0 /\ rnow = Time0 /\ pend = NoAct /\ cur = NoCur /\ stp = << >> /\ nin = 0
  /\ nowIn = Time0 /\ esIn = Time0 /\ prevLo = Time0
  /\ act = NoAct /\ lastIn = NoIn /\ hist = << >>

\* order of the reads
AfterCall  == IF ReadsNowFirst THEN "now" ELSE "e1"
AfterEpoch == IF ReadsNowFirst THEN "sw" ELSE "now"     \* after the last Epoch() read of the call
AfterNow   == IF ReadsNowFirst THEN "e1" ELSE "sw"

(***************************************************************************)
(* Do is entered after the clock advanced by in.adv (or an era if in.sat)  *)
(* and, if in.bump, the clock epoch was bumped externally at the new       *)
(* reading.                                                                *)
(***************************************************************************)
FCall(s, in) ==
  LET now1 == TAdd(s.now, in.adv, in.sat)
      ce1  == IF in.bump THEN s.clkEpoch + 1 ELSE s.clkEpoch
      es1  == IF in.bump THEN now1 ELSE s.estart
  IN [s EXCEPT !.now = now1, !.clkEpoch = ce1, !.estart = es1,
               !.pc = AfterCall, !.nacc = 0, !.stp = << >>, !.pend = NoAct,
               !.cur = [NoCur EXCEPT !.adv = in.adv, !.sat = in.sat, !.bump = in.bump, !.modeB = s.mode],
               !.prevLo = s.nowIn, !.nowIn = now1, !.esIn = es1,
               !.act = NoAct, !.lastIn = NoIn]

\* if l.epoch != l.clk.Epoch()
FE1(s) ==
  LET changed == s.epoch # s.clkEpoch
  IN [s EXCEPT !.nacc = @ + 1, !.cur.obs = changed, !.pc = IF changed THEN "e2" ELSE AfterEpoch]

\* { l.epoch = l.clk.Epoch(); l.mode = 0 }
FE2(s) == [s EXCEPT !.nacc = @ + 1, !.epoch = s.clkEpoch, !.mode = 0, !.pc = AfterEpoch]

\* now := l.clk.Now()
FNow(s) == [s EXCEPT !.nacc = @ + 1, !.rnow = s.now, !.pc = AfterNow]

\* clock-side facts about a call made at this moment
Facts(s, li) == [li EXCEPT !.since = TSub(s.now, s.estart), !.sinceIn = TSub(s.now, s.esIn),
                           !.dt = TSub(s.now, s.prevLo)]

(***************************************************************************)
(* The switch on l.mode for the arguments (off, w); raw is the symbolic    *)
(* proportional term.  The panics on mdt < 0 / dt < 0 cannot happen:       *)
(* readings are non-decreasing.                                            *)
(***************************************************************************)
FSw(s, off, w, raw) ==
  LET offset  == Inv(off)                       \* offset = timemath.Inv(offset)
      m       == s.mode
      mdt     == TSub(s.rnow, s.t0)
      dt      == TSub(s.rnow, s.t)
      \* case 1: awaiting step
      fire1   == m = 1 /\ mdt > 2 * U /\ WGt(w, 3)     \* weight > 3 (false for NaN)
      step    == fire1 /\ GoAbs(offset) > OneMs
      stepx   == IF StepUsesDoubleInv THEN Inv(offset) ELSE off
      \* case 2: awaiting PLL
      fire2   == m = 2 /\ mdt > 6 * U
      \* case 3: tracking.  The gains (a, b) are picked by weight class (< 50,
      \* < 150, otherwise the stiffening l.a, l.b once mdt > 300 s); they only
      \* enter the symbolic term raw = a * offset and the integrator.
      \* d = math.Ceil(dt); p clamped to +-d * 500e-6
      d       == IF m = 3 THEN CeilSecs(dt) ELSE 0
      p       == IF m = 3 THEN Clamp(raw, PB * d) ELSE 0
      m2      == IF m = 0 \/ fire1 \/ fire2 THEN m + 1 ELSE m
      call    == IF step THEN [k |-> "step", x |-> stepx, p |-> 0, d |-> 0, ffin |-> TRUE]
                 ELSE IF d > 0 THEN [k |-> "adjust", x |-> 0, p |-> p, d |-> DurOf(d), ffin |-> TRUE]
                 ELSE NoAct
      li      == [NoIn EXCEPT !.off = off, !.w = w, !.modeB = s.cur.modeB, !.obs = s.cur.obs]
  IN [s EXCEPT !.mode = m2,
               !.t0 = IF m = 0 \/ fire1 \/ fire2 THEN s.rnow ELSE s.t0,
               !.t = s.rnow,
               !.pend = call,
               !.cur = [s.cur EXCEPT !.off = off, !.w = w, !.gc = IF m = 3 THEN GainClass(w) ELSE "none"],
               !.lastIn = Facts(s, li),
               !.pc = IF call.k = "none" THEN "ret" ELSE "act"]

\* l.clk.Step(measured) / l.clk.Adjust(p, d, l.i); the clock's Step increments
\* its epoch (sysclk_linux.go)
FAct(s) ==
  LET step == s.pend.k = "step"
  IN [s EXCEPT !.nacc = @ + 1, !.act = s.pend, !.pend = NoAct,
               !.lastIn = Facts(s, s.lastIn),
               !.clkEpoch = IF step THEN @ + 1 ELSE @,
               !.estart = IF step THEN s.now ELSE @,
               !.pc = "ret"]

FRet(s) ==
  [s EXCEPT !.pc = "idle",
            !.hist = Append(@, [adv |-> s.cur.adv, sat |-> s.cur.sat, bump |-> s.cur.bump,
                                off |-> s.cur.off, w |-> s.cur.w, st |-> s.stp,
                                mode |-> s.mode, gc |-> s.cur.gc,
                                k |-> s.act.k, x |-> IF s.act.k = "step" THEN s.act.x ELSE 0,
                                d |-> IF s.act.k = "adjust" THEN s.act.d ELSE 0])]

\* the clock is stepped by somebody else while a call is in progress: its epoch
\* is incremented and its reading jumps forward by j
FEnv(s, j) ==
  LET now1 == TAdd(s.now, j, FALSE)
  IN [s EXCEPT !.clkEpoch = @ + 1, !.now = now1, !.estart = now1,
               !.stp = Append(@, [k |-> s.nacc, j |-> j]), !.nin = @ + 1]

\* bound of the clamp at the switch (0 outside tracking)
BoundAt(s) == IF s.mode = 3 THEN PB * CeilSecs(TSub(s.rnow, s.t)) ELSE 0
Raws(s, off) ==
  LET b == BoundAt(s)
  IN IF b = 0 \/ off = 0 THEN {0} ELSE {Sgn(off) * r : r \in RawMags(b)}

DoCall ==
  /\ pc = "idle" /\ Len(hist) < MaxLen
  /\ \E bi \in 1 .. BumpDen, adv \in Advs \cup (IF AllowSat THEN {-1} ELSE {}) :
       Set(FCall(S, [adv |-> IF adv < 0 THEN 0 ELSE adv, sat |-> adv < 0, bump |-> bi = 1]))
DoE1  == pc = "e1" /\ Set(FE1(S))
DoE2  == pc = "e2" /\ Set(FE2(S))
DoNow == pc = "now" /\ Set(FNow(S))
\* The switch and the call it decides on are one transition (nothing is read
\* in between), in two variants: the call follows at once, or an external step
\* lands between the switch and the call.
EnvOK(s) ==
  /\ s.nacc \in StepAt
  /\ (IF s.stp = << >> THEN TRUE ELSE Last(s.stp).k # s.nacc)
  /\ s.nin < MaxInDo
SwThenAct(s1) == Set(IF s1.pc = "act" THEN FAct(s1) ELSE s1)
SwStepAct(s1) == s1.pc = "act" /\ EnvOK(s1) /\ \E j \in Jumps : Set(FAct(FEnv(s1, j)))
DoSw  == pc = "sw" /\ \E off \in Offs, w \in Weights : \E raw \in Raws(S, off) :
           SwThenAct(FSw(S, off, w, raw)) \/ SwStepAct(FSw(S, off, w, raw))
DoRet == pc = "ret" /\ Set(FRet(S))
\* an external step inside the call: between two clock accesses, or after the
\* last one (two steps at one place: nothing the Pll can tell from one)
EnvEnabled == pc \in {"e1", "e2", "now", "ret"} /\ EnvOK(S)
EnvStep == EnvEnabled /\ \E j \in Jumps : Set(FEnv(S, j))

Next == DoCall \/ DoE1 \/ DoE2 \/ DoNow \/ DoSw \/ DoRet \/ EnvStep
Spec == Init /\ [][Next]_vars

(***************************************************************************)
(* One whole call as a function (for the trace specification): the call    *)
(* in = [adv, sat, bump, off, w] with the symbolic term raw, the external  *)
(* steps ks = << [k, j], ... >> landing after k clock accesses (those      *)
(* whose place the call does not reach land after its last access).        *)
(***************************************************************************)
RECURSIVE Run(_, _, _, _, _)
Run(s, in, raw, ks, fuel) ==
  IF s.pc = "idle" \/ fuel = 0 THEN s
  ELSE IF ks # << >> /\ s.pc # "sw" /\ (ks[1].k <= s.nacc \/ s.pc = "ret")
       THEN Run(FEnv(s, ks[1].j), in, raw, Tail(ks), fuel - 1)
  ELSE Run(CASE s.pc = "e1"  -> FE1(s)
             [] s.pc = "e2"  -> FE2(s)
             [] s.pc = "now" -> FNow(s)
             [] s.pc = "sw"  -> FSw(s, in.off, in.w, raw)
             [] s.pc = "act" -> FAct(s)
             [] s.pc = "ret" -> FRet(s), in, raw, ks, fuel - 1)
RunCall(s, in, raw, ks) == Run(FCall(s, in), in, raw, ks, 32)

TypeOK ==
  /\ mode \in 0 .. 3
  /\ act.k \in {"none", "step", "adjust"}
  /\ pc \in {"idle", "e1", "e2", "now", "sw", "act", "ret"}
  /\ clkEpoch >= epoch

(***************************************************************************)
(* Property section (C19).  Every clause is a predicate of the actuation   *)
(* call a, of the facts li about the update that made it and of the mode m *)
(* after the update:                                                       *)
(*   off, w    measured offset, weight                                     *)
(*   modeB     mode when the update was called                             *)
(*   obs       an epoch change was observed through clk.Epoch() on this    *)
(*             call (a read returned another value than the read before)   *)
(*   since     reading of the clock when a is made minus the reading at    *)
(*             which the clock epoch current at that moment began          *)
(*   sinceIn   the same reading minus the reading at which the clock epoch *)
(*             began that was current when the update was called           *)
(*   dt        the same reading minus the reading when the previous update *)
(*             was called                                                  *)
(* All of them are the clock's own (the environment's timeline), not what  *)
(* the Pll believes.  The same predicates are evaluated by                 *)
(* spec/trace/PllTrace.tla on the calls recorded from the real Pll.        *)
(*                                                                         *)
(* External steps inside a call.  An update is called in one clock epoch   *)
(* and may make its actuation call in a later one (the clock was stepped   *)
(* in between).  "The current clock epoch" then has two readings for that  *)
(* one update - the epoch of the call of the update, the epoch of the call *)
(* it makes - and the statement does not choose: the wait holds if it      *)
(* holds in either (since / sinceIn; without a step in between they are    *)
(* the same number).  Every later update has one reading only.  Likewise   *)
(* "the elapsed seconds per update" count from the earliest reading of the *)
(* previous update to the reading at which the adjustment is asked for.    *)
(***************************************************************************)
\* steps only while awaiting the initial step ...
StepModeP(a, li)   == a.k = "step" => (li.modeB = 1 /\ ~li.obs)
\* ... more than 2 s after the start of the current clock epoch ...
StepWaitP(a, li)   == a.k = "step" => (li.since > 2 * U \/ li.sinceIn > 2 * U)
\* ... measurement weight above 3 (NaN is not above 3) ...
StepWeightP(a, li) == a.k = "step" => WGt(li.w, 3)
\* ... offset above 1 ms ...
StepOffsetP(a, li) == a.k = "step" => Abs(li.off) > OneMs
\* ... and by exactly the measured offset
StepAmountP(a, li) == a.k = "step" => a.x = li.off
StepOnlyInStartupP(a, li) ==
  StepModeP(a, li) /\ StepWaitP(a, li) /\ StepWeightP(a, li) /\ StepOffsetP(a, li) /\ StepAmountP(a, li)
\* once tracking it only slews
TrackingOnlySlewsP(a, li) == (li.modeB = 3 /\ ~li.obs) => a.k # "step"
\* by at most 500 ppm of the elapsed whole seconds per update
SlewBoundP(a, li) == a.k = "adjust" => Abs(a.p) <= PB * CeilSecs(li.dt)
\* never a negative or zero duration, never a non-finite frequency
PositiveDurationP(a) == a.k = "adjust" => a.d > 0
FiniteFrequencyP(a)  == a.k = "adjust" => a.ffin
\* an epoch change observed through the clock's epoch restarts the start-up
\* sequence: nothing is actuated on that call and the Pll is back at the
\* beginning (the renewed 2 s wait is StepWaitP: since counts from the epoch start)
EpochRestartsP(a, li, m) == li.obs => (a.k = "none" /\ m \in {0, 1})

StepOnlyInStartup == StepOnlyInStartupP(act, lastIn)
TrackingOnlySlews == TrackingOnlySlewsP(act, lastIn)
SlewBound         == SlewBoundP(act, lastIn)
PositiveDuration  == PositiveDurationP(act)
FiniteFrequency   == FiniteFrequencyP(act)
EpochRestarts     == EpochRestartsP(act, lastIn, mode)
\* the same as one action property (every update's call satisfies every clause)
C19Holds == StepOnlyInStartup /\ TrackingOnlySlews /\ SlewBound /\ PositiveDuration /\ FiniteFrequency /\ EpochRestarts
C19Step  == [][C19Holds']_vars
\* the wait clause alone (self-test with ReadsNowFirst)
StepWait == StepWaitP(act, lastIn)
C19WaitStep == [][StepWait']_vars

(***************************************************************************)
(* Lemmas about the implementation state (spec only; they explain why the  *)
(* property holds: between calls the Pll's own t0 is never before the      *)
(* start of the epoch it believes to be in - Epoch() is read before Now() - *)
(* and t0 is reset by every observed epoch change).                        *)
(***************************************************************************)
WaitAnchored == (pc = "idle" /\ mode \in {1, 2, 3} /\ epoch = clkEpoch) => TSub(now, t0) <= TSub(now, estart)
RestartResetsT0 == (pc = "ret" /\ lastIn.obs) => (t0 = rnow /\ mode = 1)
AlwaysStamped == (pc = "idle" /\ hist # << >>) => t = rnow
OneEpochAhead == (pc = "idle" /\ hist # << >> /\ Last(hist).st = << >>) =>
                   (clkEpoch \in {epoch, epoch + 1} /\ (clkEpoch # epoch <=> act.k = "step"))
Lemmas == WaitAnchored /\ RestartResetsT0 /\ AlwaysStamped /\ OneEpochAhead
LemmaStep == [][Lemmas']_vars
=============================================================================
