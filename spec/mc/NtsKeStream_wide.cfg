SPECIFICATION Spec
CONSTANTS
  ShortCookieRead = FALSE
  Alphabet <- AlphaWide
  MaxRecs = 2
  MaxChunks = 3
INVARIANTS TypeOK SegmentationIndependent KeRoundTrip
