SPECIFICATION Spec
CONSTANTS
  Clients <- OneClient
  MaxExch = 2
  MaxDupReq = 0
  MaxDupResp = 1
  MaxInject = 0
  MaxTC = 0
  Thetas <- ThetasOne
  CtxCap = 2
  ServerMode = "paired"
  ReusePorts = FALSE
  LateRequests = TRUE
  SeqPerAttempt = TRUE
INVARIANTS OneExchange HalfRTT AcceptOnlyMatching PairsOK AnsweredOnce CtxBounded CtxOwn RespOwn NoAnswer
