SPECIFICATION TSpec
INVARIANTS SOffered SAssign SResets SRet SWordsRead SGroups SSample SWord
