package c03

import (
	"encoding/binary"
	"encoding/json"
	"fmt"
	"math/rand"
	"net"
	"net/netip"
	"os"
	"testing"
	"time"

	"example.com/scion-time/net/ntp"

	"verif/harness/internal/vio"
)

// abstract datagram of spec/NtpAccept.tla
type dgram struct {
	Src     string `json:"src"`
	Dst     string `json:"dst"`
	L4      string `json:"l4"`
	Len     string `json:"len"`
	Li      int    `json:"li"`
	Vn      int    `json:"vn"`
	Mode    int    `json:"mode"`
	Stratum int    `json:"stratum"`
	Origin  string `json:"origin"`
	Txrx    string `json:"txrx"`
	Nts     string `json:"nts"`
}

type c05case struct {
	Il      bool              `json:"il"`
	Seen    []json.RawMessage `json:"seen"` // <<datagram, reaction>> pairs
	Rest    []dgram           `json:"rest"`
	Outcome string            `json:"outcome"`
}

type c05rec struct {
	Ev   string `json:"ev"` // "dgram"
	Case int    `json:"case"`
	Pos  int    `json:"pos"`
	Il   bool   `json:"il"` // the outstanding request really was interleaved
	Tr   string `json:"tr"`
	D    dgram  `json:"d"`
	Want string `json:"want"` // reaction predicted by the specification ("" = not consumed there)
	Got  string `json:"got"`  // ok | skip | error | ignored | panic (decided without the client's log, see observe.go)
	Flt  bool   `json:"flt"`  // the client had the harness's pass-through filter
	Lg   string `json:"lg"`   // optional: reaction class according to log records with today's names ("" = none seen)
	Why  string `json:"why"`  // ignored: nocall | closed | unread
}

func (c *c05case) queue(t *testing.T) ([]dgram, []string) {
	var ds []dgram
	var want []string
	for _, raw := range c.Seen {
		var pair []json.RawMessage
		if err := json.Unmarshal(raw, &pair); err != nil || len(pair) != 2 {
			t.Fatalf("bad seen entry %s", raw)
		}
		var d dgram
		var w string
		json.Unmarshal(pair[0], &d)
		json.Unmarshal(pair[1], &w)
		ds, want = append(ds, d), append(want, w)
	}
	for _, d := range c.Rest {
		ds, want = append(ds, d), append(want, "")
	}
	return ds, want
}

// concretise builds the bytes of abstract datagram d from the genuine response g
// to request req (t1 = the receive time the client will use for the exchange).
func concretise(d dgram, g []byte, req *ntp.Packet, il bool, stale ntp.Time64, rng *rand.Rand) []byte {
	b := append([]byte{}, g[:48]...)
	b[0] = byte(d.Li<<6 | d.Vn<<3 | d.Mode)
	b[1] = byte(d.Stratum)
	put := func(off int, t ntp.Time64) {
		binary.BigEndian.PutUint32(b[off:], t.Seconds)
		binary.BigEndian.PutUint32(b[off+4:], t.Fraction)
	}
	get := func(off int) ntp.Time64 {
		return ntp.Time64{Seconds: binary.BigEndian.Uint32(b[off:]), Fraction: binary.BigEndian.Uint32(b[off+4:])}
	}
	switch d.Origin {
	case "tx":
		put(24, req.TransmitTime)
	case "rx":
		put(24, req.ReceiveTime)
	case "stale":
		put(24, stale)
	default:
		put(24, ntp.Time64{Seconds: rng.Uint32() | 1, Fraction: rng.Uint32()})
	}
	// t1 of the exchange the client would evaluate: its own receive field for a
	// basic evaluation, the previous exchange's server receive time (= the
	// request's origin field) for an interleaved one
	t1 := get(32)
	if il && d.Origin == "rx" {
		t1 = req.OriginTime
	}
	switch d.Txrx {
	case "equal":
		put(40, t1)
	case "before":
		t := t1
		if t.Fraction >= 16 {
			t.Fraction -= 16
		} else {
			t.Seconds--
			t.Fraction = 0xfffffff0
		}
		put(40, t)
	default: // "after": make sure it is
		t := t1
		t.Fraction += 1 << 12
		if t.Fraction < 1<<12 {
			t.Seconds++
		}
		if !get(40).After(t1) {
			put(40, t)
		}
	}
	if d.Len == "short" {
		b = b[:47]
	}
	return b
}

func TestC05(t *testing.T) {
	cases := vio.ReadCases[c05case](t)
	out := vio.Create(t)
	defer out.Close()
	rng := vio.Rand()
	// one long-lived client per transport, with and without the pass-through filter
	nets := map[string]*Net{}
	for _, k := range []string{"ip", "scion"} {
		for _, f := range []bool{true, false} {
			nn, err := NewNetWith(k, f)
			if err != nil {
				t.Fatal(err)
			}
			defer nn.Close()
			nets[fmt.Sprint(k, f)] = nn
		}
	}
	var n *Net
	// second source address for src = "other" (IP)
	other, err := net.ListenUDP("udp", &net.UDPAddr{IP: net.ParseIP("127.0.0.2")})
	if err != nil {
		t.Fatal(err)
	}
	defer other.Close()
	var stale ntp.Time64 = ntp.Time64{Seconds: 0xdeadbeef, Fraction: 1}

	serve := func(a Arrival, ex int) (*Handling, ntp.Packet) {
		var req ntp.Packet
		pl, _, err := n.T.Unwrap(a.B)
		if err != nil {
			t.Fatal(err)
		}
		if err := ntp.DecodePacket(&req, pl); err != nil {
			t.Fatal(err)
		}
		h, err := n.ServerRecv(ex, a.B, a.Src)
		if err != nil {
			t.Fatal(err)
		}
		if err := n.ServerTx(h, false); err != nil {
			t.Fatal(err)
		}
		return h, req
	}
	// finish lets the remaining attempts of a call complete against a genuine server
	finish := func() {
		for n.Calling() {
			a, ok, done := n.WaitArrival(n.Timeout + 2*time.Second)
			switch {
			case ok:
				h, _ := serve(a, 0)
				n.Deliver(h.Resp, a.Src)
			case !done:
				t.Fatal("client call does not end")
			}
		}
	}
	drain := func() {
		n.logClass()
		n.DropArrivals()
	}

	nok, nil_ := 0, 0
	for ci, c := range cases {
		ds, want := c.queue(t)
		kind := "ip"
		if os.Getenv("VERIF_TRANSPORT") == "scion" || (os.Getenv("VERIF_TRANSPORT") == "" && ci%2 == 1) {
			kind = "scion"
		}
		realisable := true
		for _, d := range ds {
			if kind == "ip" && (d.Dst != "client" || d.L4 != "udp") {
				realisable = false // the kernel delivers only UDP datagrams addressed to the socket
			}
		}
		if !realisable {
			kind = "scion"
		}
		flt := useFilter(ci / 2 * 3) // both kinds of client meet both transports
		n = nets[fmt.Sprint(kind, flt)]
		// bring the client into the wanted mode
		if c.Il {
			for i := 0; i < 3 && !n.T.InIL(); i++ {
				n.StartMeasure()
				finish()
			}
			// (a client that cannot be brought into interleaved mode is judged on
			// the requests it does send; Il below records what the request really was)
		} else {
			n.T.ResetIL()
		}
		drain()
		var a Arrival
		got := false
		var errs []string
		for try := 0; try < 4 && !got; try++ {
			n.StartMeasure()
			var ok bool
			if a, ok, _ = n.WaitArrival(time.Second); ok {
				got = true
			} else {
				// the call ended (or hangs) without a request on the wire: note why and retry
				n.Wait(n.Timeout + 2*time.Second)
				errs = append(errs, fmt.Sprint(n.Last.Err))
			}
		}
		if !got {
			t.Fatalf("client sent no request in 4 calls (%s transport); call results: %v", kind, errs)
		}
		h, req := serve(a, ci)
		reqIl := req.ReceiveTime != (ntp.Time64{})
		if reqIl {
			nil_++
		}
		pending := true
		for pos, d := range ds {
			if !pending {
				break
			}
			b := concretise(d, h.NTP, &req, reqIl, stale, rng)
			var send func() (time.Time, error)
			if kind == "ip" {
				if d.Src == "other" {
					send = func() (time.Time, error) {
						t0 := time.Now()
						_, err := other.WriteToUDPAddrPort(b, a.Src)
						return t0, err
					}
				} else {
					send = func() (time.Time, error) { return n.Deliver(b, a.Src) }
				}
			} else {
				v := ""
				switch {
				case d.L4 == "scmp":
					v = "scmp"
				case d.Src == "other":
					v = []string{"srcIA", "srcHost"}[rng.Intn(2)]
				case d.Dst == "other":
					v = []string{"dstIA", "dstHost"}[rng.Intn(2)]
				}
				fr := n.T.Wrap(b, h.Meta, v)
				if d.Src == "other" && d.Dst == "other" {
					// two framing deviations at once: source wrong, then the destination too
					m2 := *h.Meta
					m2.SrcHost = netip.MustParseAddr("127.0.0.8") // Wrap swaps: becomes the reply's destination
					fr = n.T.Wrap(b, &m2, v)
				}
				send = func() (time.Time, error) { return n.Deliver(fr, a.Src) }
			}
			re, err := n.Watch(a.Src, send)
			if err != nil {
				t.Fatal(err)
			}
			got := re.Got
			out.Emit(c05rec{Ev: "dgram", Case: ci, Pos: pos, Il: reqIl, Tr: kind, D: d, Want: want[pos], Got: got, Flt: flt, Lg: re.Log, Why: re.Why})
			if got == "ok" {
				nok++
			}
			if got == "ok" || got == "error" || got == "panic" {
				pending = false
			}
		}
		stale = req.TransmitTime
		// whatever is left of the call is served genuinely
		if pending {
			n.Deliver(h.Resp, a.Src)
		}
		finish()
	}
	t.Logf("C05: %d cases, %d accepted datagrams, %d interleaved requests", len(cases), nok, nil_)
	if len(cases) == 0 {
		t.Fatal("no cases")
	}
	_ = netip.AddrPort{}
}
