SPECIFICATION TSpec
CONSTANTS
  Transport = "tls"
  ResidueAfterFailure = FALSE
  ShortCookieRead = FALSE
  DialResetsData = TRUE
  Alpns = {}
  Alphabet = {}
  CutRecs = {}
  MaxRecs = 0
  MaxDials = 0
  MaxCalls = 0
  MaxStore = 0
  CtxMode = "ignored"
  MaxStalls = 0
  StaleNextHop = FALSE
INVARIANTS TSuccessOnlyIf TIgnoresNonCritical TKeysAgree TPoolIsIssued TPoolReturned TDestination TNoResidue
POSTCONDITION Consumed
