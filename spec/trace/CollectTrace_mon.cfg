SPECIFICATION TSpec
INVARIANTS RByDeadline RExactlyOncePrefix RInTimeCounted RNoLeak RSecondCallRefused RCounterRestored
