----------------------------- MODULE FiltersMC -----------------------------
EXTENDS Filters, Json
CONSTANT EmitMinInDo   \* the generator emits behaviours with at least this many clock steps inside a Do
\* The history is a generator/bounding device only; the exhaustive
\* configurations identify states that agree on everything the property
\* section reads (filter state, ghosts, number and kind of the last event).
LastT == IF hist = << >> THEN "-" ELSE Last(hist).t
InDoSoFar == IF Which = "ntimed" THEN InDoCount ELSE 0
View == <<lvars, nvars, Len(hist), LastT, InDoSoFar>>

\* Behaviour emitter (spec -> code): every maximal history, with the
\* specification's outputs / branches, replayed on the real filters.
\* (the schedule "a clock step lands after the k-th Epoch() read of the j-th
\* Do" is the field st of the j-th event)
NSteps == IF Which = "ntimed" THEN Cardinality({i \in DOMAIN hist : hist[i].t = "e"}) + InDoCount ELSE 0
Emit == (Len(hist) = MaxEv /\ pc = "idle" /\ (Which = "ntimed" => InDoCount >= EmitMinInDo)) =>
  PrintT(<<"CASE", ToJson([m |-> Which, cap |-> cap, k |-> kcfg, clk0 |-> clk - NSteps, ev |-> hist])>>)

\* sample classes <<failLo, failHi>>
ClassesAll == BOOLEAN \X BOOLEAN
Classes3   == {<<FALSE, FALSE>>, <<TRUE, FALSE>>, <<FALSE, TRUE>>}

\* value sets (cfg files cannot contain negative numbers); odd and even
\* differences, so that the truncating `/ 2` of the even-sized median shows
OffsGen  == {-3, 0, 4}
OffsGen2 == {-3, 4}
OffsDeep == {-3, 0, 1, 4}
=============================================================================
