"""C20 - NTS key exchange: agreeing keys, bad offers refused, failures leave no state.

spec/NtsKe.tla            the client side of the key exchange (Fetcher.FetchData, exchangeKeys, dialTLS,
                          ReadData, ExportKeys, StoreCookie) against an arbitrary peer; property section C20
spec/mc/NtsKeGen.tla      history generator (exhaustive single exchanges; tlc -simulate for multi-call histories)
spec/trace/NtsKeTrace.tla monitor (property section on the recorded behaviour) and strict mode

1. TLC decides the property section on the repaired variant (ResidueAfterFailure = FALSE) exhaustively and
   shows the counterexample of the variant that models the code as written - information, never a verdict.
2. TLC generates the histories: every peer script of <= 3 (quick) / <= 4 (thorough) records x ALPN answer x
   truncation, plus random walks through Next with <= 6 records, 3 exchanges, 6 calls, StoreCookie.
3. harness/c20 replays them on the real Fetcher / IPClient against a scripted TLS 1.3 peer that exports its own
   keys (every history is followed by a probe call; histories with unrecognised non-critical records are run a
   second time without them), runs the project's own StartNTSKEServerIP against the real Fetcher and opens its
   cookies, and (if available) the same over QUIC.
4. NtsKeTrace.tla validates what the real code did: monitor invariants => VIOLATION, strict => DRIFT.
"""
import copy, json, os, re, shutil, threading
from concurrent.futures import ThreadPoolExecutor

import vlib

MON = ["TSuccessOnlyIf", "TIgnoresNonCritical", "TKeysAgree", "TPoolIsIssued", "TPoolReturned", "TDestination",
       "TNoResidue"]
ACTIONS = ["FetchCached", "Dial", "CheckAlpn", "SendRequest", "ReadRecord", "ReadCut", "PeerClose", "Export",
           "Finish", "StoreCookie"]
# (ResidueAfterFailure, ShortCookieRead): code as written first
VARIANTS = [("TRUE", "TRUE", "code as written"), ("FALSE", "TRUE", "failed exchange clears Fetcher.data"),
            ("TRUE", "FALSE", "cookie bodies read completely"), ("FALSE", "FALSE", "both repairs")]
CHUNK = 5000
KEEP = ("ev", "via", "planned", "served", "dialed", "sess", "ok", "ret", "post", "dest", "has_un", "twin", "id")


class Lane:
    """private copy of the spec directory: several TLC runs read differently filled trace files at once"""
    _n = 0
    _lock = threading.Lock()

    def __init__(self, ctx):
        with Lane._lock:
            Lane._n += 1
            n = Lane._n
        self.dir = ctx.path("lane%d" % n)
        shutil.copytree(ctx.specdir(), self.dir)
        self.ctx = copy.copy(ctx)
        self.ctx.specdir = lambda: self.dir

    def load(self, part):
        """one line per history; only the fields the trace specification reads"""
        total = sum(len(c) for c in part)
        vlib.write_ndjson(os.path.join(self.dir, "trace.ndjson"),
                          [dict(total=total, evs=[slim(e) for e in c]) for c in part])

    def validate(self, transport, residue, short, dialresets, body, timeout=600):
        """returns (ok, history number, operation number, violated, output)"""
        cfg = "lane_NtsKeTrace.cfg"
        with open(os.path.join(self.dir, cfg), "w") as f:
            f.write(trace_cfg(transport, residue, short, dialresets, body))
        tp = os.path.join(self.dir, "trace.ndjson")
        ok, l, inv, out = self.ctx.validate("NtsKeTrace", cfg, tp, timeout=timeout, workers=4)
        pm = re.findall(r"^/?\\?\s*p = (\d+)\s*$", out, re.M) if not ok else []
        return ok, l, (int(pm[-1]) if pm else None), inv, out


def slim(e):
    """the fields NtsKeTrace reads (twin only with has_un, planned only for calls that did not dial)"""
    d = {k: e[k] for k in KEEP}
    if not e["has_un"]:
        del d["twin"]
    if e["dialed"]:
        del d["planned"]
    return d


def trace_cfg(transport, residue, short, dialresets, body):
    return ("SPECIFICATION TSpec\nCONSTANTS\n  Transport = \"%s\"\n  ResidueAfterFailure = %s\n  ShortCookieRead = %s\n"
            "  DialResetsData = %s\n  Alpns = {}\n  Alphabet = {}\n  CutRecs = {}\n  MaxRecs = 0\n  MaxDials = 0\n"
            "  MaxCalls = 0\n  MaxStore = 0\n%s\nPOSTCONDITION Consumed\n" % (transport, residue, short, dialresets, body))


def split_cases(evs):
    """events of one driver -> list of histories (the "reset" markers are dropped)"""
    cases = []
    for e in evs:
        if e["ev"] == "reset":
            cases.append([])
        else:
            cases[-1].append(e)
    return [c for c in cases if c]


def chunks(cases, limit):
    out, cur, n = [], [], 0
    for c in cases:
        if cur and n + len(c) > limit:
            out.append(cur)
            cur, n = [], 0
        cur.append(c)
        n += len(c)
    if cur:
        out.append(cur)
    return out


def summary(sc):
    """python twin of NtsKe!Summary, used only to word a violation's signature"""
    recs = sc["recs"] if sc["cut"] == "none" else sc["recs"][:-1]
    s = dict(alpn=sc["alpn"], nck=0, a15=False, bad=False, eom=False)
    for r in recs:
        if r == "ck":
            s["nck"] += 1
        s["a15"] |= r == "a15"
        s["bad"] |= r in ("e0", "e1", "e2", "eX", "uc")
        if r == "eom":
            s["eom"] = True
            break
    return s


def classify(inv, e):
    """structural class of a violating call (what known_findings.json matches)"""
    if e.get("ev") != "call":
        return e.get("ev", "?")
    src = e["src"]
    if inv == "TSuccessOnlyIf":
        s = summary(e["served"])
        why = []
        if s["alpn"] != "ntske/1":
            why.append("alpn=" + s["alpn"])
        if not s["a15"]:
            why.append("aead-not-selected")
        if s["nck"] < 1:
            why.append("no-cookie")
        if not s["eom"]:
            why.append("no-end-of-message")
        if s["bad"]:
            why.append("error-or-critical-record")
        return "%s success despite %s" % (src, "+".join(why) or "?")
    if inv == "TNoResidue":
        return "%s call after failed exchange returns leftover data without a new exchange (keys %s)" % (
            src, "absent" if e["ret"]["c2s"] == 0 else "present")
    if inv == "TKeysAgree":
        c, s = e["ret"]["c2s"], e["ret"]["s2c"]
        kind = "absent" if 0 in (c, s) else "foreign" if -1 in (c, s) else "swapped" if c % 2 == 1 and s % 2 == 0 \
            else "of-another-session"
        return "%s keys %s" % (src, kind)
    if inv == "TDestination":
        return "%s %s server=%s port=%s" % (src, e["via"], e["ret"]["server"], e["ret"]["port"])
    if inv == "TIgnoresNonCritical":
        return "%s result differs from the history without the non-critical records (ok %s/%s)" % (
            src, e["ok"], e["twin"]["ok"])
    return "%s %s" % (src, e["via"])


def corrupt(evs, what):
    """corrupted-trace-field control (VERIF_C20_CORRUPT=pool|key|dest|ok): falsify one recorded field"""
    for i, e in enumerate(evs):
        if e["ev"] != "call" or not e["ok"] or not e["dialed"]:
            continue
        if what == "pool" and len(e["post"]["pool"]) >= 1:
            e["post"]["pool"] = e["post"]["pool"][:-1]
            return i
        if what == "key":
            e["ret"]["c2s"] += 2
            return i
        if what == "dest" and e["dest"]["sent"]:
            e["dest"]["port"] = 4002 if e["dest"]["port"] != 4002 else 4001
            return i
        if what == "ok":
            # a failed exchange reported as a success
            for j in range(i + 1, len(evs)):
                f = evs[j]
                if f["ev"] == "call" and f["dialed"] and not f["ok"] and f["served"]["alpn"] == "ntske/1":
                    f["ok"] = True
                    return j
    raise vlib.Inconclusive("corrupt control: no suitable event for %r" % what)


def validate_all(ctx, pool, evs, transport, dialresets, label):
    """monitor + strict validation of one driver's events. Returns (#histories validated, #events, variant)."""
    cases = split_cases(evs)
    parts = chunks(cases, CHUNK)
    found = {}
    state = dict(variant=None, drift=[])
    lock = threading.Lock()

    def one(part):
        lane = Lane(ctx)
        lane.load(part)
        todo = list(MON)
        res, clean = [], True
        with lock:
            order = ([state["variant"]] if state["variant"] else []) + [v for v in VARIANTS if v != state["variant"]]
        hit, last, vi = None, None, 0
        # one TLC run checks the monitor invariants and, in the same pass, strict mode under the most likely
        # switch setting; a monitor violation is recorded, that invariant dropped and the rest checked again;
        # a strict failure moves on to the next switch setting
        while todo or (hit is None and vi < len(order)):
            strict = hit is None and vi < len(order)
            v = order[vi] if strict else order[0]
            body = ("INVARIANTS " + " ".join(todo) + "\n" if todo else "") + ("PROPERTIES StrictProp" if strict else "")
            ok, l, pp, inv, out = lane.validate(transport, v[0], v[1], dialresets, body)
            if ok:
                if strict:
                    hit = v
                break
            if inv == "StrictProp":
                if vi == 0 and l and pp:
                    last = part[l - 1][pp - 1]
                vi += 1
                continue
            clean = False
            if inv not in todo or not l or not pp:
                raise vlib.Inconclusive("trace validation (%s) stopped on %r at l=%r p=%r:\n%s" % (label, inv, l, pp, out[-1500:]))
            hist = part[l - 1][:pp]
            res.append((inv, hist[-1], hist))
            todo.remove(inv)
        with lock:
            if hit is None:
                state["drift"].append("%s: call not the one NtsKe.tla computes under any switch setting, e.g. %s" %
                                      (label, json.dumps({k: last[k] for k in KEEP if k != "twin"}, separators=(",", ":"))[:700]
                                       if last else "?"))
            elif state["variant"] is None:
                state["variant"] = hit
            elif state["variant"] != hit:
                state["drift"].append("%s: parts of the trace match different switch settings (%s / %s)" %
                                      (label, state["variant"][2], hit[2]))
        return res, len(part) if clean else 0

    nval = 0
    for res, n in pool.map(one, parts):
        nval += n
        for inv, bad, hist in res:
            found.setdefault((inv, classify(inv, bad)), (bad, hist))
    for (inv, cls), (bad, hist) in sorted(found.items()):
        brief = {k: bad[k] for k in ("ev", "via", "served", "dialed", "ok", "ret", "post", "dest", "panicked", "note") if k in bad}
        ctx.violation("C20 %s %s" % (inv, cls),
                      "recorded behaviour of the real code violates %s of NtsKe.tla at call %s of history %s: %s" %
                      (inv[1:], bad.get("k"), bad.get("case"), json.dumps(brief, separators=(",", ":"))),
                      dict(transport=transport, invariant=inv, history=[{k: e[k] for k in e if k != "twin"} for e in hist]))
    ctx.drift += state["drift"]
    return nval, len(evs), state["variant"]


def run(ctx):
    q = ctx.quick
    # ---- 1. design level
    r = ctx.tlc("NtsKeMC", "NtsKe_exh.cfg" if q else "NtsKe_deep.cfg", timeout=240 if q else 900)
    ctx.log("TLC exhaustive (repaired variant): %d distinct states, property section holds" % r["distinct"])
    # vacuity: every action of the specification is taken (small configuration, -coverage 1)
    c = ctx.tlc("NtsKeMC", "NtsKe_cov.cfg", timeout=240, coverage=True, tag="coverage")
    cov = {}
    for a, n in re.findall(r"^<(\w+) line [^>]*of module NtsKe[^>]*>: (\d+):\d+", c["out"], re.M):
        cov[a] = cov.get(a, 0) + int(n)
    dead = [a for a in ACTIONS if cov.get(a, 0) == 0]
    if dead:
        raise vlib.Inconclusive("NtsKe.tla: actions never taken in %s: %s" % (c["cfg"], dead))
    ctx.cov["action_coverage"] = {a: cov[a] for a in ACTIONS}
    fr = ctx.tlc("NtsKeMC", "NtsKe_faithful.cfg", timeout=240, allow_violation=True, tag="faithful")
    if fr["violated"] != "NoResidue":
        raise vlib.Inconclusive("spec self-test: the variant modelling the code as written should violate NoResidue, "
                                "TLC says %s" % fr["violated"])
    ctx.notes.append("NtsKe.tla with ResidueAfterFailure = TRUE (code as written) violates NoResidue on the "
                     "specification (information only)")
    # ---- 2. histories from the specification
    g = ctx.tlc("NtsKeGen", "NtsKe_gen.cfg" if q else "NtsKe_gendeep.cfg", workers=1, timeout=600, tag="gen")
    cases = ctx.emitted(g["out"])
    nexh = len(cases)
    if nexh < 2000:
        raise vlib.Inconclusive("exhaustive generator produced only %d scripts" % nexh)
    nsim = 150 if q else 3000
    for cfg in ("NtsKe_sim.cfg", "NtsKe_simrep.cfg"):
        s = ctx.tlc("NtsKeGen", cfg, workers=1, timeout=600, simulate="num=%d" % nsim, depth=150, tag="sim:" + cfg)
        beh = ctx.emitted(s["out"])
        if len(beh) < nsim // 2:
            raise vlib.Inconclusive("%s produced only %d histories" % (cfg, len(beh)))
        cases += beh
    cp = ctx.path("cases.ndjson")
    vlib.write_ndjson(cp, cases)
    ctx.log("TLC generated %d single-exchange scripts (exhaustive) + %d multi-call histories (simulation)" %
            (nexh, len(cases) - nexh))
    # ---- 3. the real code
    tp, out = ctx.godriver("c20", "TestC20", cases=cp, timeout=300 if q else 1500, extra=("-v",))
    evs = vlib.read_ndjson(tp)
    stats = dict(kv.split("=") for line in out.splitlines() if line.startswith("C20STATS") for kv in line.split()[1:])
    ctx.log("scripted peer: " + " ".join("%s=%s" % kv for kv in stats.items()))
    op, out = ctx.godriver("c20", "TestOwnServer", out_name="own.ndjson", timeout=300, extra=("-v",))
    own = vlib.read_ndjson(op)
    ctx.log("own server: %d events" % len(own))
    what = os.environ.get("VERIF_C20_CORRUPT")
    if what:
        i = corrupt(evs, what)
        ctx.notes.append("SELFTEST: recorded field %r of event %d falsified before validation" % (what, i))
        ctx.log("SELFTEST corrupt=%s at event %d" % (what, i))
    # ---- 4. code -> spec
    nval = nev = 0
    with ThreadPoolExecutor(max_workers=6) as pool:
        n, m, var = validate_all(ctx, pool, evs, "tls", "TRUE", "scripted peer")
        nval, nev = nval + n, nev + m
        n, m, var2 = validate_all(ctx, pool, own, "tls", "TRUE", "own server")
        nval, nev = nval + n, nev + m
    if var:
        ctx.notes.append("strict mode: the recorded calls are the ones NtsKe.tla computes with switches '%s'" % var[2])
    calls = [e for e in evs + own if e["ev"] == "call"]
    distinct = len({(json.dumps(e["served"], sort_keys=True), e["dialed"], e["via"]) for e in calls})
    npanic = sum(1 for e in calls if e["panicked"])
    if npanic:
        ctx.notes.append("%d recorded calls ended in a panic of the client code (not judged here: C08/C11)" % npanic)
    firstok = next((e for e in evs if e["ev"] == "call" and e["ok"] and e["dialed"]), None)
    ctx.cov.update(
        evaluations=len(calls), distinct_nontrivial=distinct, events_validated=nev,
        traces_validated_against_impl=nval, exhaustive=True,
        rule="every peer script of <= %d records over 16 record kinds x truncation of the last record (header / body) x "
             "ALPN answer (TLC-enumerated, exhaustive), each followed by a probe call; plus tlc -simulate walks through "
             "NtsKe's Next (<= 6 records, 3 exchanges, 6 calls, StoreCookie) from the as-written and the repaired variant; "
             "histories containing unrecognised non-critical records also run without them; the project's own "
             "StartNTSKEServerIP against the real Fetcher with its cookies opened; 20%% of the calls go through "
             "client.MeasureClockOffsetIP with the NTP request captured; distinct = distinct (served script, dialed, via)"
             % (3 if q else 4),
        samples=[x for x in (firstok, own[1] if len(own) > 1 else None, evs[1] if len(evs) > 1 else None) if x])
    ctx.assumptions += [
        "the scripted peer writes each message in one TLS record and closes gracefully (segmentation is C14's subject)",
        "keys, cookies, servers and ports are reported in model units by exact lookup against what the peer exported / "
        "issued (anything else maps to -1 / '?', which no clause accepts)",
        "Server records carry IP address literals (a host name there is outside what the NTP clients can use)",
        "own server: the cookies 'issued' are those that open under the provider's key (its wire is not observable)",
        "ALPN answer 'other' and 'refused' end in a failed TLS handshake on either side (crypto/tls offers no way to "
        "select a protocol the client did not offer)"]
