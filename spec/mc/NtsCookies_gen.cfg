SPECIFICATION HSpec
CONSTANTS
  PoolMax = 8
  CookieLen = 124
  MaxPacketLen = 1280
  PlaceholderTypedAsCookie = FALSE
  CapReply = TRUE
  Day = 2
  Ticks <- GTicks
  Horizon = 30
  MaxEx = 16
  ProbeNs <- GProbes
  ProbeUids <- GUids
  MaxOld = 3
  Transports <- TrBoth
  ScmpTypes <- ScmpAll
  HdrStates <- HdrAll
  HdrPct = 25
  Exhaustive = FALSE
  Biases <- BiasAll
  TickPct = 12
  ProbePct = 8
  StalePct = 30
  ExInj <- InjX
  ScmpPct = 35
  ExScmp <- ScmpX
INVARIANTS Emit
PROPERTIES StepOfSpec
