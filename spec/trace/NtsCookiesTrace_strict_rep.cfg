SPECIFICATION TSpec
CONSTANTS
  PlaceholderTypedAsCookie = FALSE
  CapReply = TRUE
PROPERTIES TStrictProp
POSTCONDITION Consumed
