SPECIFICATION FairSpec
CONSTANTS
  MaxClocks = 2
  Rounds = 2
  DVals = {1, 90, 259200}
  Overlap = FALSE
  Hist = FALSE
  Fault = "none"
INVARIANTS TypeOK BusyIsEnabled OutcomeIsOfForm ByDeadline ExactlyOncePrefix InTimeCounted NoStuckLeak SecondCallRefused CounterRestored
PROPERTIES NoLeak
