SPECIFICATION TSpec
INVARIANTS MonitorReport StrictReport
