SPECIFICATION Spec
CONSTANTS
  Clients <- TwoClients
  MaxExch = 2
  MaxDupReq = 1
  MaxDupResp = 0
  MaxInject = 1
  MaxTC = 0
  Thetas <- ThetasOne
  CtxCap = 2
  ServerMode = "wip"
  ReusePorts = FALSE
  LateRequests = TRUE
  SeqPerAttempt = FALSE
INVARIANTS OneExchange HalfRTT AcceptOnlyMatching PairsOK AnsweredOnce CtxBounded CtxOwn RespOwn NoAnswer
