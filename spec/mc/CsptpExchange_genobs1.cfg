SPECIFICATION HSpec
CONSTANTS
  Clients <- OneClient
  MaxExch = 2
  MaxDupReq = 0
  MaxDupResp = 0
  MaxInject = 0
  MaxTC = 0
  Thetas <- ThetasOne
  CtxCap = 2
  ServerMode = "paired"
  ReusePorts = FALSE
  LateRequests = TRUE
  SeqPerAttempt = FALSE
INVARIANTS EmitMixed
