SPECIFICATION Spec
CONSTANTS
  QPS = 4
  G = 4
  DPS = 4
  Variant = "code"
  AdjOffs <- OffsExh
  AdjDurs <- DursDeep
  AdjFreqs <- FreqsDeep
  StepOffs <- StepsDeep
  Deltas <- DeltaDeep
  DoOffs <- None
  DoStats <- None
  MaxOps = 3
  MaxAdv = 3
  DoAtomic = TRUE
  KeepHist = FALSE
  EpochReads = TRUE
  MaxLen = 0
INVARIANTS X04 Ghost TemporaryOnly SupersededSilent Restore EpochCountsSteps StepOrder FrequencyFormula Duration Quiet
