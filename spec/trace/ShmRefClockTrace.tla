-------------------------- MODULE ShmRefClockTrace --------------------------
(***************************************************************************)
(* Validation of what harness/x03 recorded from the real                   *)
(* shm.ReferenceClock.MeasureClockOffset (SysV segment in a private IPC    *)
(* namespace) against ShmRefClock.tla.  Events:                            *)
(*   reset   a new scenario, `after` = the segment it starts with          *)
(*   w       one writer step (field f := v) done by the driver             *)
(*   call    one call of the reader: att[i] = the segment as attempt i     *)
(*           found it (attempts are atomic w.r.t. the scripted writer, so  *)
(*           the count re-read after the copy is att[i].count), the        *)
(*           result, the segment afterwards                                *)
(*   stress  a (time, offset) pair the reader returned while a protocol-   *)
(*           conforming mode-1 writer thread was publishing samples 1..8   *)
(*  monitor: the property section of ShmRefClock.tla on the recorded       *)
(*           events (AcceptRule, SampleValue, Consume, Attempts, NoTorn,   *)
(*           NoDoubleUse)                                                  *)
(*  strict:  the segment the attempts saw is the one the script produces,  *)
(*           the outcome is the one the generator attached, one log record *)
(*           per rejected attempt, the error is errNoSample                *)
(***************************************************************************)
EXTENDS Integers, Sequences, TLC, Json

VARIABLES seg, l, used, mbad, sbad
S == INSTANCE ShmRefClock WITH
       WriterKind <- "proto", Mode <- 1, NSamples <- 0, MaxCalls <- 0, MaxRetries <- 8, DlKinds <- {},
       ReadOrder <- << >>, AtomicAttempt <- TRUE, RecordHist <- FALSE,
       wpc <- 0, wk <- 0, wold <- 0, rpc <- "idle", ri <- 0, t <- 0, dl <- FALSE, tries <- 0, ncalls <- 0,
       results <- << >>, rwrites <- << >>, hist <- << >>

Trace == ndJsonDeserialize("trace.ndjson")
N == Len(Trace)
tvars == <<seg, l, used, mbad, sbad>>

Last(R) == R.att[Len(R.att)]
Res(R)  == [s |-> R.s, ns |-> R.ns, off |-> R.off]
Proto(R) == R.writer = "proto"

\* ------------------------------------------------------------ monitor clauses
MAcceptRule(R) == /\ Len(R.att) >= 1
                  /\ S!AcceptRuleP(R.ok, Last(R), Last(R).count)
                  /\ \A i \in 1 .. Len(R.att) - 1 : S!AcceptRuleP(FALSE, R.att[i], R.att[i].count)
MSampleValue(R) == R.ok => S!SampleValueP(Res(R), Last(R))
MConsume(R)     == S!ConsumeP(R.ok, Last(R), R.after) /\ R.other_unchanged
MAttempts(R)    == S!AttemptsP(Len(R.att), R.dl, R.ok)
MNoTorn(R)      == (R.ok /\ Proto(R) /\ Last(R).mode = 1) => S!Untorn(Last(R))
MNoDoubleUse(R) == (R.ok /\ Proto(R) /\ S!Untorn(Last(R))) => S!TagOf(Last(R)) \notin used
MStressNoTorn(R) == \E k \in 1 .. 9 : Res(R) = S!Sample(S!Full(k, 1, 0))

MFailing(R) ==
  IF R.ev = "stress" THEN (IF MStressNoTorn(R) THEN << >> ELSE <<"NoTorn">>)
  ELSE
  (IF MAcceptRule(R) THEN << >> ELSE <<"AcceptRule">>) \o
  (IF MSampleValue(R) THEN << >> ELSE <<"SampleValue">>) \o
  (IF MConsume(R) THEN << >> ELSE <<"Consume">>) \o
  (IF MAttempts(R) THEN << >> ELSE <<"Attempts">>) \o
  (IF MNoTorn(R) THEN << >> ELSE <<"NoTorn">>) \o
  (IF MNoDoubleUse(R) THEN << >> ELSE <<"NoDoubleUse">>)

\* ------------------------------------------------------------- strict clauses
\* (the writer steps scheduled inside a call are recorded before the call's own event)
SSegment(R)  == R.ev = "call" => (Len(R.att) >= 1 /\ Last(R) = seg)
SExpected(R) == R.exp_ok
SLogged(R)   == R.ev = "call" => (R.nlog = Len(R.att) - (IF R.ok THEN 1 ELSE 0) /\ (~R.ok => R.err_nosample))
SFailing(R) ==
  (IF SSegment(R) THEN << >> ELSE <<"Segment">>) \o
  (IF SExpected(R) THEN << >> ELSE <<"Expected">>) \o
  (IF SLogged(R) THEN << >> ELSE <<"Logged">>)

Say(marker, names, n) == names = << >> \/ PrintT(<<marker, ToJson([l |-> n, c |-> names])>>)

TInit == seg = S!Zero /\ l = 0 /\ used = {} /\ mbad = 0 /\ sbad = 0

Step(R) ==
  CASE R.ev = "reset" -> seg' = R.after /\ used' = {} /\ UNCHANGED <<mbad, sbad>>
    [] R.ev = "w"     -> seg' = [seg EXCEPT ![R.f] = R.v] /\ UNCHANGED <<used, mbad, sbad>>
    [] R.ev = "call"  ->
         /\ seg' = R.after
         /\ used' = IF R.ok /\ Proto(R) /\ S!Untorn(Last(R)) THEN used \cup {S!TagOf(Last(R))} ELSE used
         /\ mbad' = mbad + Len(MFailing(R)) /\ Say("MBAD", MFailing(R), l')
         /\ sbad' = sbad + Len(SFailing(R)) /\ Say("SBAD", SFailing(R), l')
    [] R.ev = "stress" ->
         /\ UNCHANGED <<seg, used, sbad>>
         /\ mbad' = mbad + Len(MFailing(R)) /\ Say("MBAD", MFailing(R), l')

TNext == l < N /\ l' = l + 1 /\ Step(Trace[l'])
TSpec == TInit /\ [][TNext]_tvars

MonitorReport == l = N => PrintT(<<"MDONE", ToJson([n |-> mbad, events |-> N])>>)
StrictReport  == l = N => PrintT(<<"SDONE", ToJson([n |-> sbad, events |-> N])>>)
=============================================================================
