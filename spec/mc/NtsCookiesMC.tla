---------------------------- MODULE NtsCookiesMC ----------------------------
(***************************************************************************)
(* Model-checking wrapper of NtsCookies.                                   *)
(*  _exhnet/_deepnet : the same without foreign requests but with the      *)
(*                     network's memory (MaxOld earlier replies that may   *)
(*                     be handed to the waiting client: Replay / Stray);   *)
(*                     _exh / _deep have MaxOld = 0 (the two dimensions do *)
(*                     not interact: foreign requests touch neither the    *)
(*                     client's pool nor the remembered replies)           *)
(*  _exh / _deep     : the repaired design (placeholders typed, MaxPacket- *)
(*                     Len that holds eight of the project's cookies,      *)
(*                     replies capped) - the whole property section holds  *)
(*  _faithful        : the pinned code's constants - everything except the *)
(*                     three clauses below holds                           *)
(*                     (PlaceholderType, ReqFits, RespFits, RespCount)     *)
(*  _predict         : the pinned code's constants, invariant ReqFits: TLC *)
(*                     produces the shortest history that ends in the      *)
(*                     client's panic.  Every run also prints (PREDICT)    *)
(*                     the pool levels / field counts at which its         *)
(*                     constants break ReqFits / RespFits; the drivers     *)
(*                     confirm or refute this on the real code             *)
(***************************************************************************)
EXTENDS NtsCookies, Json
TicksExh   == {2, 6}
TicksDeep  == {1, 2, 3, 6}
ProbesExh  == {8, 11}
ProbesFaithful == {7}
ProbesDeep == {8, 12}
NoProbes   == {}
UidsExh    == {200, 400}
UidsDeep   == {200, 400}
UidsOwn    == {32}
TrIP       == {"ip"}
TrBoth     == {"ip", "scion"}
ScmpAll    == {"unreach", "echorep", "param"}
ScmpNone   == {}
HdrAll     == {"sync", "li3", "str0", "str16"}
HdrSync    == {"sync"}
\* size facts the text of the property relies on (evaluated once by TLC)
ASSUME ReqSize(PoolMax) = NtpLen + UidField + CookieField + AuthField(0)
ASSUME \A p \in 1 .. PoolMax : ReqSize(p) = RespSize(1 + PoolMax - p)   \* placeholders reserve exactly the reply's room
ASSUME MaxFit >= 1
ASSUME \A u \in 32 .. UidLimit : MaxFitU(u) >= 1   \* an accepted identifier always leaves room for a cookie
BadReqLevels == {p \in 1 .. PoolMax : EncodeOutcome(FieldsEnd(1 + PoolMax - p), ReqSize(p)) # "ok"}
PanicLevels  == {p \in 1 .. PoolMax : EncodeOutcome(FieldsEnd(1 + PoolMax - p), ReqSize(p)) = "panic"}
BadRespCounts == {n \in 1 .. 12 : RespSize(IF CapReply THEN Min2(n, MaxFit) ELSE n) > MaxPacketLen}
ASSUME PrintT(<<"PREDICT", ToJson([req |-> BadReqLevels, panic |-> PanicLevels, resp |-> BadRespCounts,
                                  maxfit |-> MaxFit, reqsize |-> [p \in 1 .. PoolMax |-> ReqSize(p)]])>>)
=============================================================================
