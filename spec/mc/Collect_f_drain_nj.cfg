SPECIFICATION FairSpec
CONSTANTS
  MaxClocks = 3
  Overlap = TRUE
  Fault = "drain_nj"
INVARIANTS ByDeadline ExactlyOncePrefix InTimeCounted NoStuckLeak SecondCallRefused CounterRestored
PROPERTIES NoLeak
