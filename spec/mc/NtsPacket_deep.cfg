SPECIFICATION Spec
CONSTANTS
  MaxNf = 5
  Roles <- RolesAll
  PlaceholderTypedAsCookie = TRUE
  UidChecked = TRUE
  AdWhole = TRUE
  LenChoices <- LenChoicesExh
  TruncMax = 4
INVARIANTS TypeOK Sound Complete CookieBinding
