SPECIFICATION TSpec
INVARIANTS TOnlyGenuine
