------------------------- MODULE CsptpExchangeTrace -------------------------
(***************************************************************************)
(* Validation of what the real CSPTP client (core/client CSPTPClientIP)     *)
(* reported against a scripted network and the stand-in server, and of what *)
(* the real server (core/server StartCSPTPServerIP) sent back to relayed    *)
(* requests (harness/x01), schedules generated from CsptpExchange.tla by    *)
(* CsptpExchangeGen.  Each "accept" record identifies, from the wire fields *)
(* the client logged and the harness's own timestamps, the exchange /       *)
(* server pairing every one of the four combined timestamps belongs to.     *)
(* Records are independent.                                                *)
(***************************************************************************)
EXTENDS Integers, Sequences, TLC, Json

Trace == ndJsonDeserialize("trace.ndjson")
N == Len(Trace)
VARIABLE l
TInit == l = 0
TNext == \E j \in 1 .. 16 : l' = 16 * l + j /\ l' <= N
TSpec == TInit /\ [][TNext]_l
R == Trace[l]
Acc == l > 0 /\ R.ev = "accept"
Abs(x) == IF x < 0 THEN -x ELSE x

\* ------------------------------------------------------ monitor (X01, client)
\* (1) t1 is the server's ingress time of THIS call's Sync request, t2 the transmit
\* time of the Sync response of the same pairing, t3 the receive time of a copy of
\* that Sync response (and of no forged datagram); t0 (not on the wire) lies in the
\* send window of this call and the reported offset is ClockOffset of the four
TOneExchange ==
  Acc => /\ R.t1h # 0 /\ R.t1ex = R.ex /\ R.t1cl = R.cl
         /\ R.t2h = R.t1h
         /\ R.t3h = R.t2h /\ ~R.t3f
TComputedFromThem == Acc => R.reco
\* ... within half the (corrected) round-trip delay of the true offset, if the server
\* clock was not stepped between t1 and t2 (ns; slack: truncations of the codec)
THalfRTT == (Acc /\ R.thsame) => 2 * Abs(R.err) <= R.rtd + 8
\* (2) what the result was computed from matches the outstanding request and came
\* from the queried server's event / general port
TAcceptMatches == Acc => (R.m0ok /\ R.m1ok /\ R.src0ok /\ R.src1ok)
\* the two requests of a call carry one sequence id and the request TLV
TRequestPair == (l > 0 /\ R.ev = "req") => (R.seqsame /\ R.tlvok)
TNoPanic == (l > 0 /\ R.ev \in {"accept", "recv"}) => R.got # "panic"

\* ------------------------------------------------------ monitor (X01, server)
\* (3) a datagram from the real server answers a Sync and a Follow_Up with that
\* sequence id from that client address, goes to the source port of the matching
\* half, is not sent more often than pairs arrived, and its request ingress
\* timestamp is that of a Sync of the client it goes to
SResp == l > 0 /\ R.ev = "sresp"
TSrvCompletePair == SResp => (R.mk \in {"rsync", "rfu"} /\ R.paired /\ R.portok /\ R.once)
TSrvOwnIngress == SResp => R.own

\* ----------------------------------------------------------------- strict
\* the client did with each delivered datagram what CsptpExchange.tla predicts
SOutcome == (l > 0 /\ R.ev \in {"accept", "recv"} /\ R.want # "" /\ R.got # "ignored") => R.want = R.got
\* the sequence id of a call is the number of successful calls before it
SSeq == (l > 0 /\ R.ev = "req") => R.seq = R.wantseq
\* the harness never lost the schedule (stand-in server pairing as predicted, no early deadline)
SNoDivergence == l > 0 => R.ev # "div"
\* ServerMode = "wip": the server as it is never answers
SSrvSilent == l > 0 => R.ev # "sresp"
=============================================================================
