SPECIFICATION Spec
CONSTANTS
  Fault = "none"
  KeepPathType = FALSE
  Modes <- ModesAll
  ULs <- ULsAll
  L4s <- L4sAll
  DPorts <- DPortsAll
  DHosts <- DHostsAll
  Fams <- FamsAll
  PathSet <- PathsAll
  Pls <- PlsAll
  ReqAuths <- ReqAuthsAll
  RespMuts <- RespMutsAll
INVARIANTS Emit EmitE2E
CONSTRAINT GenAll
