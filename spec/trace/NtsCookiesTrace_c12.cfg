SPECIFICATION TSpec
CONSTANTS
  PlaceholderTypedAsCookie = FALSE
  CapReply = TRUE
INVARIANTS C12Monitor
POSTCONDITION Consumed
