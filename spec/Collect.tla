------------------------------ MODULE Collect ------------------------------
(***************************************************************************)
(* One measurement round of core/client/client.go:                         *)
(*                                                                         *)
(*   ReferenceClockClient.MeasureClockOffsets(ctx, refclks, ms)            *)
(*     CAS numOpsInProgress 0->1 (else panic "too many ...")               *)
(*     defer CAS numOpsInProgress 1->0 (else panic "inconsistent ...")     *)
(*     msc := make(chan Measurement)              -- unbuffered            *)
(*     for each refclk: go { r := refclk.MeasureClockOffset(ctx); msc<-r } *)
(*     collectMeasurements(ctx, ms, msc):                                  *)
(*       i, j := 0, 0; n := len(ms)                                        *)
(*       loop: for i != n { select {                                       *)
(*           case m := <-msc: if m.Error == nil { if j != len(ms) {        *)
(*                               ms[j] = m; j++ } }; i++                   *)
(*           case <-ctx.Done(): break loop } }                             *)
(*       go func(n) { for n != 0 { <-msc; n-- } }(n - i)   -- drain        *)
(*       return j                                                          *)
(*                                                                         *)
(* and its caller core/sync/sync.go measureOffsetToRefClks                 *)
(*     ctx, cancel := context.WithTimeout(..., timeout); defer cancel()    *)
(*                                                                         *)
(* Processes (hand-written, PlusCal style: one pc per process, one action  *)
(* per label):                                                             *)
(*   Main      mpc: cas -> spawn -> loop -> godrain -> restore -> done     *)
(*   Sender(k) spc[k]: idle -> measuring -> sending -> done                *)
(*   Drain     dpc: none -> run -> done, counter dn                        *)
(*   Timer     the context's deadline timer; Caller: cancel() after return *)
(*   Main2     a second call on the same collector (zero clocks), issued   *)
(*             at an arbitrary instant after Main's CAS                    *)
(*   Tick      virtual time                                                *)
(*                                                                         *)
(* The rendezvous on the unbuffered channel is ONE step of two processes   *)
(* (MRecv(k) = Main and Sender k; DRecv(k) = Drain and Sender k).  The      *)
(* select is modelled by MRecv(k) and MCtx being separately enabled        *)
(* actions of the same label: whenever a sender is blocked in the send and  *)
(* ctx.Done() is closed, either may be taken, also at the same instant.    *)
(* (Go commits a parked select to the case that fires first and chooses    *)
(* pseudo-randomly when several are ready on entry; both are refinements   *)
(* of this nondeterministic choice.)                                       *)
(*                                                                         *)
(* Time.  now in 0..TEnd, the deadline is D = 2.  Clock k's measurement    *)
(* call returns at dl[k]: 1 (before), 2 (at), 3 (after the deadline,       *)
(* ignoring ctx) or Never (blocks until ctx.Done(), then returns an error).*)
(* Time is that of testing/synctest: it advances only when no process can  *)
(* take a step (Tick is enabled only when ~Busy) -- "maximal progress".    *)
(* The statement "returns no later than the deadline" is about this        *)
(* virtual time; without it no implementation could satisfy it.            *)
(***************************************************************************)
EXTENDS Integers, Sequences, FiniteSets, TLC

CONSTANTS MaxClocks,  \* largest number of reference clocks
          Overlap,    \* BOOLEAN: is there a second, overlapping call (Main2)
          Fault       \* "none" = the code as written; other values are
                      \* single-site deviations used to show that the
                      \* property section is not vacuous (see CollectMC)

D     == 2
Never == 4
TEnd  == 3

VARIABLES
  n, dl, oc,          \* the scenario: #clocks, completion time, "ok"/"err"
  now, ctxDone,       \* virtual time; ctx.Done() closed
  num,                \* c.numOpsInProgress
  mpc, i, j, ms,      \* Main: pc, loop counters, result slice (0 = untouched)
  spc,                \* Sender pcs
  dpc, dn,            \* Drain
  p2,                 \* Main2: idle | in | done | panicked
  \* history variables (used by the property section only)
  got,                \* set of clocks whose result Main received
  rt,                 \* virtual time at which Main returned (-1: not yet)
  p2phase             \* "none" | "during" | "after": was Main in progress
                      \* when Main2 executed its CAS
vars == <<n, dl, oc, now, ctxDone, num, mpc, i, j, ms, spc, dpc, dn, p2, got, rt, p2phase>>

Clocks == 1 .. n
InProgress == {"spawn", "loop", "godrain", "restore"}
Range(s) == {s[x] : x \in DOMAIN s}

Scenarios(m) ==
  {sc \in [d : [1 .. m -> {1, 2, 3, Never}], o : [1 .. m -> {"ok", "err"}]] :
      \A k \in 1 .. m : sc.d[k] = Never => sc.o[k] = "err"}

Init ==
  /\ n \in 0 .. MaxClocks
  /\ \E sc \in Scenarios(n) : dl = sc.d /\ oc = sc.o
  /\ now = 0 /\ ctxDone = FALSE /\ num = 0
  /\ mpc = "cas" /\ i = 0 /\ j = 0 /\ ms = [x \in 1 .. n |-> 0]
  /\ spc = [k \in 1 .. n |-> "idle"]
  /\ dpc = "none" /\ dn = 0
  /\ p2 = "idle" /\ got = {} /\ rt = -1 /\ p2phase = "none"

----------------------------------------------------------------------------
(* Main *)
MCas ==
  /\ mpc = "cas"
  /\ IF num = 0 \/ Fault = "noguard"
       THEN num' = 1 /\ mpc' = "spawn" /\ rt' = rt
       ELSE num' = num /\ mpc' = "panicked" /\ rt' = now
  /\ UNCHANGED <<n, dl, oc, now, ctxDone, i, j, ms, spc, dpc, dn, p2, got, p2phase>>

\* the `go` statements; a sender cannot do anything observable before its
\* measurement call returns, so starting all of them is one step
MSpawn ==
  /\ mpc = "spawn"
  /\ spc' = [k \in 1 .. n |-> "measuring"]
  /\ mpc' = "loop"
  /\ UNCHANGED <<n, dl, oc, now, ctxDone, num, i, j, ms, dpc, dn, p2, got, rt, p2phase>>

\* case m := <-msc   (rendezvous with Sender k, which completes its send)
MRecv(k) ==
  /\ mpc = "loop" /\ i # n
  /\ spc[k] = "sending"
  /\ spc' = [spc EXCEPT ![k] = "done"]
  /\ got' = got \cup {k}
  /\ IF Fault = "ij"
       THEN \* deviation: the loop counts stored results instead of received ones
            IF oc[k] = "ok" /\ j # n
              THEN ms' = [ms EXCEPT ![j + 1] = k] /\ j' = j + 1 /\ i' = i + 1
              ELSE UNCHANGED <<ms, j, i>>
       ELSE /\ IF oc[k] = "ok" /\ j # n
                 THEN ms' = [ms EXCEPT ![j + 1] = k] /\ j' = j + 1
                 ELSE UNCHANGED <<ms, j>>
            /\ i' = i + 1
  /\ UNCHANGED <<n, dl, oc, now, ctxDone, num, mpc, dpc, dn, p2, rt, p2phase>>

\* case <-ctx.Done(): break loop
MCtx ==
  /\ mpc = "loop" /\ i # n
  /\ ctxDone /\ Fault # "noctx"
  /\ mpc' = "godrain"
  /\ UNCHANGED <<n, dl, oc, now, ctxDone, num, i, j, ms, spc, dpc, dn, p2, got, rt, p2phase>>

\* for i != n  is false
MExit ==
  /\ mpc = "loop" /\ i = n
  /\ mpc' = "godrain"
  /\ UNCHANGED <<n, dl, oc, now, ctxDone, num, i, j, ms, spc, dpc, dn, p2, got, rt, p2phase>>

\* go func(n int){...}(n - i); return j
MGoDrain ==
  /\ mpc = "godrain"
  /\ CASE Fault = "nodrain"  -> dpc' = "done" /\ dn' = 0
       [] Fault = "drain_nj" -> dpc' = "run" /\ dn' = n - j
       [] OTHER              -> dpc' = "run" /\ dn' = n - i
  /\ mpc' = "restore"
  /\ UNCHANGED <<n, dl, oc, now, ctxDone, num, i, j, ms, spc, p2, got, rt, p2phase>>

\* deferred CAS 1 -> 0, then MeasureClockOffsets returns (or panics)
MRestore ==
  /\ mpc = "restore"
  /\ rt' = now
  /\ IF Fault = "norestore" THEN num' = num /\ mpc' = "done"
     ELSE IF num = 1 THEN num' = 0 /\ mpc' = "done"
     ELSE num' = num /\ mpc' = "panicked"
  /\ UNCHANGED <<n, dl, oc, now, ctxDone, i, j, ms, spc, dpc, dn, p2, got, p2phase>>

MainNext == MCas \/ MSpawn \/ (\E k \in Clocks : MRecv(k)) \/ MCtx \/ MExit \/ MGoDrain \/ MRestore

(* Sender k: refclk.MeasureClockOffset(ctx) returns *)
SReturn(k) ==
  /\ spc[k] = "measuring"
  /\ IF dl[k] = Never THEN ctxDone ELSE now >= dl[k]
  /\ spc' = [spc EXCEPT ![k] = "sending"]
  /\ UNCHANGED <<n, dl, oc, now, ctxDone, num, mpc, i, j, ms, dpc, dn, p2, got, rt, p2phase>>

(* Drain *)
DRecv(k) ==
  /\ dpc = "run" /\ dn # 0
  /\ spc[k] = "sending"
  /\ spc' = [spc EXCEPT ![k] = "done"]
  /\ dn' = dn - 1
  /\ UNCHANGED <<n, dl, oc, now, ctxDone, num, mpc, i, j, ms, dpc, p2, got, rt, p2phase>>

DExit ==
  /\ dpc = "run" /\ dn = 0
  /\ dpc' = "done"
  /\ UNCHANGED <<n, dl, oc, now, ctxDone, num, mpc, i, j, ms, spc, dn, p2, got, rt, p2phase>>

DrainNext == (\E k \in Clocks : DRecv(k)) \/ DExit

(* the deadline timer of context.WithTimeout *)
Timer ==
  /\ now = D /\ ~ctxDone
  /\ ctxDone' = TRUE
  /\ UNCHANGED <<n, dl, oc, now, num, mpc, i, j, ms, spc, dpc, dn, p2, got, rt, p2phase>>

(* the caller's deferred cancel() *)
Cancel ==
  /\ mpc \in {"done", "panicked"} /\ ~ctxDone
  /\ ctxDone' = TRUE
  /\ UNCHANGED <<n, dl, oc, now, num, mpc, i, j, ms, spc, dpc, dn, p2, got, rt, p2phase>>

(* Main2: a call with zero clocks on the same collector.  Its CAS may be    *)
(* executed at any instant after Main's (it is not urgent).                 *)
Call2 ==
  /\ Overlap /\ p2 = "idle" /\ mpc # "cas"
  /\ p2phase' = IF mpc \in InProgress THEN "during" ELSE "after"
  /\ IF num = 0 \/ Fault = "noguard"
       THEN num' = 1 /\ p2' = "in"
       ELSE num' = num /\ p2' = "panicked"
  /\ UNCHANGED <<n, dl, oc, now, ctxDone, mpc, i, j, ms, spc, dpc, dn, got, rt>>

\* empty loop, drain(0), deferred CAS back
Fin2 ==
  /\ p2 = "in"
  /\ IF num = 1 THEN num' = 0 /\ p2' = "done" ELSE num' = num /\ p2' = "panicked"
  /\ UNCHANGED <<n, dl, oc, now, ctxDone, mpc, i, j, ms, spc, dpc, dn, got, rt, p2phase>>

(* everything that happens "now": explicit enabling condition of the urgent *)
(* actions (checked equal to ENABLED by the invariant BusyIsEnabled)        *)
Busy ==
  \/ mpc \in {"cas", "spawn", "godrain", "restore"}
  \/ mpc = "loop" /\ (i = n \/ (ctxDone /\ Fault # "noctx") \/ \E k \in Clocks : spc[k] = "sending")
  \/ \E k \in Clocks : spc[k] = "measuring" /\ (IF dl[k] = Never THEN ctxDone ELSE now >= dl[k])
  \/ dpc = "run" /\ (dn = 0 \/ \E k \in Clocks : spc[k] = "sending")
  \/ now = D /\ ~ctxDone
  \/ mpc \in {"done", "panicked"} /\ ~ctxDone
  \/ p2 = "in"

Urgent == MainNext \/ (\E k \in Clocks : SReturn(k)) \/ DrainNext \/ Timer \/ Cancel \/ Fin2

Tick ==
  /\ now < TEnd /\ ~Busy
  /\ now' = now + 1
  /\ UNCHANGED <<n, dl, oc, ctxDone, num, mpc, i, j, ms, spc, dpc, dn, p2, got, rt, p2phase>>

Next == Urgent \/ Call2 \/ Tick

Fairness ==
  /\ WF_vars(MainNext)
  /\ \A k \in 1 .. MaxClocks : WF_vars(k \in Clocks /\ SReturn(k))
  /\ WF_vars(DrainNext)
  /\ WF_vars(Timer) /\ WF_vars(Cancel) /\ WF_vars(Fin2) /\ WF_vars(Tick)

Spec     == Init /\ [][Next]_vars
FairSpec == Spec /\ Fairness

----------------------------------------------------------------------------
(***************************************************************************)
(* Property section (C16).                                                 *)
(***************************************************************************)
Prefix == SubSeq(ms, 1, j)
MeasurementsReturned == mpc # "cas" /\ mpc # "spawn" /\ \A k \in Clocks : spc[k] \in {"sending", "done"}
Returned == mpc \in {"done", "panicked"}      \* the call has come back (a panic unwinds it)
AllDone ==
  /\ Returned
  /\ \A k \in Clocks : spc[k] = "done"
  /\ dpc = "done"
  /\ p2 # "in"

\* "returns no later than the round's deadline however slow, blocked or
\* failing individual clocks are"
ByDeadline ==
  /\ rt # -1 => rt <= D
  /\ now > D => Returned

\* "places each successful result that arrived in time exactly once at the
\* front of the result slice"
ExactlyOncePrefix ==
  /\ j \in 0 .. n
  /\ \A x, y \in 1 .. j : x # y => ms[x] # ms[y]                    \* once
  /\ Range(Prefix) = {k \in got : oc[k] = "ok"}                      \* the received successes
  /\ \A x \in (j + 1) .. n : ms[x] = 0                               \* nothing else is written
InTimeCounted ==
  mpc = "done" =>
    /\ \A k \in Clocks : (oc[k] = "ok" /\ dl[k] < D) => k \in Range(Prefix)
    /\ \A k \in Range(Prefix) : dl[k] <= rt

\* "leaves no goroutine behind once every clock's measurement call has
\* returned"  (liveness; checked under FairSpec without state constraint)
NoLeak == MeasurementsReturned ~> AllDone
\* safety twin: when nothing can happen any more, nobody is left blocked
NoStuckLeak == (now = TEnd /\ ~Busy) => AllDone

\* "starting a second collection on the same collector while one is in
\* progress is refused rather than silently interleaved"
SecondCallRefused ==
  /\ ~(p2 = "in" /\ mpc \in InProgress)
  /\ p2phase = "during" => p2 = "panicked"
CounterRestored ==
  /\ num = (IF mpc \in InProgress THEN 1 ELSE 0) + (IF p2 = "in" THEN 1 ELSE 0)
  /\ mpc # "panicked"
  /\ p2phase = "after" => p2 \in {"in", "done"}

----------------------------------------------------------------------------
TypeOK ==
  /\ n \in 0 .. MaxClocks /\ now \in 0 .. TEnd /\ ctxDone \in BOOLEAN /\ num \in 0 .. 1
  /\ mpc \in {"cas", "spawn", "loop", "godrain", "restore", "done", "panicked"}
  /\ i \in 0 .. n /\ j \in 0 .. n /\ dn \in 0 .. n
  /\ \A k \in Clocks : spc[k] \in {"idle", "measuring", "sending", "done"}
  /\ dpc \in {"none", "run", "done"}
  /\ p2 \in {"idle", "in", "done", "panicked"}
  /\ rt \in -1 .. TEnd
BusyIsEnabled == Busy <=> ENABLED Urgent
=============================================================================
