"""C11 - NTS cookie lifecycle: single use, pool capped at eight, requests always fit.

spec/NtsCookies.tla (property section: SingleUse, SentLeavesPool, FieldCount,
PlaceholderType, ReqFits, NoShrink, PoolCap, StaysFull, RespFits, RespCount, Answered,
Fresh, FreshCookiesOpen) is
 (1) decided by TLC exhaustively on the repaired design (NtsCookies_exh/_deep: losses x
     clock jumps x foreign requests under every key the provider holds; NtsCookies_exhnet/
     _deepnet: losses x clock jumps x earlier replies of the server handed to the waiting
     client by the network - duplicates, late replies of timed-out exchanges, replays) and on
     the pinned code's constants (NtsCookies_faithful: every clause the pinned constants
     can satisfy; NtsCookies_predict: the shortest history into the client's panic);
 (2) used by TLC to generate loss / key-rotation / foreign-request schedules
     (spec/mc/NtsCookiesGen.tla: -simulate with RandomElement, plus all short schedules
     breadth-first; each exchange may have an earlier reply delivered before / instead of /
     after the genuine one) which harness/c11 applies to the real IPClient + NTS-KE server + NTP
     server through a recording UDP proxy (live, in-process, loopback), next to a
     function-level pass over every pool level and every reply size; the generator runs about
     half of the behaviours with the real SCIONClient instead (same-AS empty path, the proxy as
     next hop, the lane's SCION listener answering), for which the network may also deliver
     SCMP messages to the waiting client before / instead of the genuine reply (action Scmp);
     the server answers each request in an NTP header state (ServerHandle(h): synchronised, or unsynchronised -
     leap indicator 3 / stratum 0 / 16): an authentic reply whose cookies the client stores before it refuses
     the measurement - loss-free operation as far as the pool clauses are concerned;
 (3) used by spec/trace/NtsCookiesTrace.tla to validate every recorded event
     (monitor = the property section on the recorded states/steps -> VIOLATION;
      strict  = each step is the one NtsCookies takes -> DRIFT).

Self-test knob: VERIF_C11_CORRUPT=pool|cookie|count corrupts one recorded field before
validation (negative control of the monitor; expect exit 1).
"""
import os, re, json, collections, threading
from concurrent.futures import ThreadPoolExecutor

import vlib

CHUNK = 40000    # events per TLC trace-validation run (cut at behaviour boundaries)


def _emitted_any(out, marker):
    res = []
    pat = re.compile(r'^<<"%s", "(.*)">>$' % re.escape(marker))
    for line in out.splitlines():
        m = pat.match(line.strip())
        if m:
            s = m.group(1)
            res.append(json.loads(s.encode().decode("unicode_escape") if "\\" in s else s))
    return res


def _marks(out, marker):
    """<<"VIOL", "Clause", 123>> lines -> [(clause, l)]"""
    return [(m.group(1), int(m.group(2)))
            for m in re.finditer(r'^<<"%s", "([A-Za-z0-9_]+)", (\d+)>>\s*$' % marker, out, re.M)]


def _behaviours(events):
    res = []
    for e in events:
        if e["ev"] == "reset":
            res.append([])
        res[-1].append(e)
    return res


def _chunks(behs):
    cur, n = [], 0
    for b in behs:
        if n and n + len(b) > CHUNK:
            yield cur
            cur, n = [], 0
        cur.append(b)
        n += len(b)
    if cur:
        yield cur


class _Validator:
    """Runs NtsCookiesTrace on chunks of events; every TLC run gets its own copy of the
    module and its own trace file so that several can run at once."""

    def __init__(self, ctx):
        self.ctx = ctx
        self.sd = ctx.specdir()
        self.lock = threading.Lock()
        self.n = 0

    def run(self, cfg, evs):
        with self.lock:
            self.n += 1
            k = self.n
        tname = "c11trace_%d.ndjson" % k
        vlib.write_ndjson(os.path.join(self.sd, tname), evs)
        mod = "NtsCookiesTrace_%d" % k
        src = open(os.path.join(self.sd, "NtsCookiesTrace.tla")).read()
        src = src.replace("MODULE NtsCookiesTrace ", "MODULE %s " % mod).replace('"trace.ndjson"', '"%s"' % tname)
        open(os.path.join(self.sd, mod + ".tla"), "w").write(src)
        r = self.ctx.tlc(mod, cfg, workers=1, timeout=900, allow_violation=True, tag="trace:" + cfg)
        os.remove(os.path.join(self.sd, tname))
        if r["violated"]:
            raise vlib.Inconclusive("trace not consumed by NtsCookiesTrace/%s (%s):\n%s" %
                                    (cfg, r["violated"], r["out"][-1500:]))
        return r["out"]


def _signature(clause, e, prev, client="ip"):
    sig = _signature0(clause, e, prev)
    if sig and clause in _SERVER_CLAUSES:
        if (e.get("tr") if e.get("ev") == "probe" else client if e.get("ev") in ("rep", "norep") else "") == "scion":
            sig += " scion"             # the SCION listener's answer (to a foreign request / to the SCION client)
    elif sig and client == "scion":
        sig += " scion-client"          # a clause about the client's pool / requests in a behaviour of the SCION client
    return sig


# clauses about what the server sends (the others are about the client's pool and requests)
_SERVER_CLAUSES = ("RespFits", "RespCount", "ProbeAnswered", "FreshCookiesOpen", "RealOpens", "Fresh", "Answered")


def _signature0(clause, e, prev):
    ev = e["ev"]
    if clause == "ReqFits":
        if ev not in ("req", "panic"):
            return None            # the panic state persists until the next reset
        return "C11 ReqFits pool=%d" % e.get("p", 0)
    if clause in ("RespFits", "RespCount"):
        return "C11 %s n=%d%s" % (clause, e.get("n", 0), "" if e.get("u", 32) == 32 else " uid=%d" % e["u"])
    if clause == "ProbeAnswered":
        return "C11 ProbeAnswered n=%d uid=%d" % (e.get("n", 0), e.get("u", 32))
    if clause == "FieldCount":
        return "C11 FieldCount pool=%d" % e.get("p", 0)
    if clause == "PlaceholderType":
        return "C11 PlaceholderType"
    if clause in ("FreshCookiesOpen", "RealOpens", "Fresh"):
        return "C11 %s %s" % (clause, {"rekey": "ke", "rep": "ntp", "probe": "probe"}.get(ev, ev))
    return "C11 " + clause


def _corrupt(events, how, ctx):
    """negative control of the monitor: falsify one recorded field"""
    if how == "pool":
        for e in events:
            if e["ev"] == "done" and e["ok"] and len(e["pool"]) == 8:
                e["pool"] = e["pool"][:-2]
                ctx.notes.append("selftest: dropped two cookies from the pool recorded after a successful exchange")
                return
    if how == "cookie":
        first = None
        for e in events:
            if e["ev"] == "reset":
                first = None
            if e["ev"] == "req" and not e["fn"]:
                if first is None:
                    first = e["cookie"]
                elif e["cookie"]["id"] != first["id"]:
                    e["cookie"] = dict(first)
                    ctx.notes.append("selftest: a request's cookie replaced by the one sent earlier")
                    return
    if how == "count":
        for e in events:
            if e["ev"] == "rep" and not e["bad"] and len(e["cookies"]) >= 2:
                e["cookies"] = e["cookies"][:-1]
                ctx.notes.append("selftest: one cookie removed from a recorded reply")
                return
    raise vlib.Inconclusive("selftest: nothing to corrupt for %r" % how)


def run(ctx):
    q = ctx.quick
    # ---- 1. design level (runs next to the schedule generation and the driver; joined below)
    ctx.specdir()
    bg = ThreadPoolExecutor(max_workers=1)

    def design():
        # (at most 8 TLC workers for the design-level runs together)
        plan = ((("NtsCookies_exh.cfg", 4, None), ("NtsCookies_exhnet.cfg", 2, None), ("NtsCookies_faithful.cfg", 2, "faithful"))
                if q else
                (("NtsCookies_deep.cfg", 5, None), ("NtsCookies_deepnet.cfg", 2, None), ("NtsCookies_faithful.cfg", 1, "faithful")))
        with ThreadPoolExecutor(max_workers=3) as dp:
            rs = list(dp.map(lambda c: ctx.tlc("NtsCookiesMC", c[0], workers=c[1], timeout=900 if q else 1500, tag=c[2]), plan))
        for r in rs[:2]:
            ctx.log("TLC repaired design (%s): %d distinct states, %d generated, %.0fs" %
                    (r["cfg"], r["distinct"], r["generated"], r["wall_s"]))
        rf = rs[2]
        pred = _emitted_any(rf["out"], "PREDICT")
        pred = pred[0] if pred else {}
        ctx.log("TLC pinned constants: %d distinct states; predicted: request does not fit at pool levels %s "
                "(panic at %s), reply does not fit for %s requested cookies, MaxFit=%s" %
                (rf["distinct"], pred.get("req"), pred.get("panic"), pred.get("resp"), pred.get("maxfit")))
        if q:
            return pred
        rp = ctx.tlc("NtsCookiesMC", "NtsCookies_predict.cfg", timeout=120, allow_violation=True, tag="predict")
        if rp["violated"] == "ReqFits":
            fails = len(re.findall(r'^/\\ obs = "fail"\s*$', rp["out"], re.M))
            ctx.log("TLC counterexample to ReqFits on the pinned constants: %d exchanges fail, the next request panics" % fails)
            ctx.notes.append("spec-level prediction (pinned constants): ReqFits fails after %d consecutive failed exchanges" % fails)
        elif rp["violated"]:
            raise vlib.Inconclusive("unexpected violation %s in NtsCookies_predict.cfg" % rp["violated"])
        return pred
    design_f = bg.submit(design)

    # ---- 2. schedules from the specification
    num = 200 if q else 1000
    g = ctx.tlc("NtsCookiesGen", "NtsCookies_gen.cfg" if q else "NtsCookies_gendeep.cfg", workers=1, timeout=600,
                simulate="num=%d" % num, depth=400, tag="gen")
    beh = ctx.emitted(g["out"])
    gx = ctx.tlc("NtsCookiesGen", "NtsCookies_genexh.cfg" if q else "NtsCookies_genexhdeep.cfg", workers=1,
                 timeout=600, tag="genexh")
    behx = ctx.emitted(gx["out"])
    if not q:      # thorough: all schedules of 4 exchanges (plain network) and of 3 exchanges (with earlier replies)
        gx3 = ctx.tlc("NtsCookiesGen", "NtsCookies_genexh.cfg", workers=1, timeout=600, tag="genexh3")
        behx += ctx.emitted(gx3["out"])
    # the SCION client: all schedules of 2 (thorough: 3) exchanges, each with losses, an earlier reply and / or
    # an SCMP message handed to the waiting client
    gxs = ctx.tlc("NtsCookiesGen", "NtsCookies_genexhsc.cfg" if q else "NtsCookies_genexhscdeep.cfg", workers=1,
                  timeout=600, tag="genexhsc")
    behxs = ctx.emitted(gxs["out"])
    if len(beh) < num // 2 or len(behx) < 100 or len(behxs) < 100:
        raise vlib.Inconclusive("generators produced only %d + %d + %d schedules" % (len(beh), len(behx), len(behxs)))
    biases = collections.Counter(b["bias"] for b in beh)
    if not all(biases.get(k) for k in range(6)):
        raise vlib.Inconclusive("schedule generator did not produce every loss bias: %s" % dict(biases))
    clients = collections.Counter(b["tr"] for b in beh)
    if not clients.get("ip") or not clients.get("scion"):
        raise vlib.Inconclusive("schedule generator did not produce behaviours of both clients: %s" % dict(clients))
    cases = beh + behx + behxs
    # vacuity guards on the specification's side: how often the generated behaviours exercise
    # the network's memory and associations that outlive key rotations
    gstat = collections.Counter()
    for b in cases:
        gstat.update(b.pop("stat"))
    gstat.pop("had1", None)
    gstat.pop("lastun", None)
    gstat["late"] = gstat["same"] - gstat["dup"]
    lacking = [k for k in ("same", "before", "dup", "late", "other", "second", "stray", "oldserve", "span1",
                           "span2", "oldprobe", "sx", "sxstore", "sxrekey", "scmp", "scmpbefore", "scmpinstead",
                           "scmpmixed", "scmpsecond", "unsync", "unclean", "unrun", "unthen", "unlow",
                           "unli3", "unstr0", "unstr16", "unscion") if not gstat[k]]
    if lacking:
        raise vlib.Inconclusive("generated schedules never exercise: %s (%s)" % (lacking, dict(gstat)))
    ctx.notes.append(
        "network dimension (spec side, %d generated behaviours): %d deliveries of an earlier reply of the current "
        "association to the waiting client (%d of them before a genuine reply that was then delivered; %d duplicates "
        "of a reply the client had received, %d late replies of exchanges that had timed out), %d of a reply of an "
        "earlier association, %d deliveries that spent the second read of the receive loop, %d after the call had "
        "returned; rotations: %d requests served under a cookie of an older key (%d one rotation, %d two or more "
        "rotations after the key exchange with a request in between), %d foreign requests under an older key"
        % (len(cases), gstat["same"], gstat["before"], gstat["dup"], gstat["late"], gstat["other"], gstat["second"],
           gstat["stray"], gstat["oldserve"], gstat["span1"], gstat["span2"], gstat["oldprobe"]))
    nsc = sum(1 for b in cases if b["tr"] == "scion")
    ctx.notes.append(
        "SCION client dimension (spec side): %d of the %d generated behaviours are run with the SCION client (%d requests, "
        "%d successful exchanges, %d key exchanges); SCMP messages (destination unreachable / echo reply / parameter "
        "problem) handed to the waiting client: %d (%d before a genuine reply that was then delivered, %d when nothing "
        "genuine was on its way, %d in an exchange that also saw an earlier reply, %d that ended the call)"
        % (nsc, len(cases), gstat["sx"], gstat["sxstore"], gstat["sxrekey"], gstat["scmp"], gstat["scmpbefore"],
           gstat["scmpinstead"], gstat["scmpmixed"], gstat["scmpsecond"]))
    ctx.notes.append(
        "NTP header state dimension (spec side): the server answers each request as a synchronised or as an unsynchronised "
        "server (leap indicator 3 / stratum 0 / stratum 16; authentic reply, nothing lost); of the %d generated behaviours "
        "%d contain such a reply; %d of these replies are taken in by the client (cookies stored by ProcessResponse, then the "
        "call refused by ValidateResponseMetadata): %d LI=3, %d stratum 0, %d stratum 16; %d in a history that is loss-free "
        "so far (judged by StaysFull), %d directly following another one (runs), %d followed directly by a successful "
        "exchange, %d answering a request with placeholders (pool below eight), %d by the SCION client; %d more were lost "
        "on the way" % (len(cases), sum(1 for b in cases if any(o.get("hdr", "sync") != "sync" for o in b["ops"])),
                         gstat["unsync"], gstat["unli3"], gstat["unstr0"], gstat["unstr16"], gstat["unclean"], gstat["unrun"],
                         gstat["unthen"], gstat["unlow"], gstat["unscion"], gstat["unlost"]))
    cp = ctx.path("cases.ndjson")
    vlib.write_ndjson(cp, cases)
    ctx.log("schedules: %d random walks (biases %s, clients %s) + %d exhaustive short ones + %d of the SCION client" %
            (len(beh), dict(sorted(biases.items())), dict(clients), len(behx), len(behxs)))

    # ---- 3. the real code
    # (the test's own time limit is below the outer one: a driver that hangs reports its goroutines)
    tp, out = ctx.godriver("c11", "TestC11", cases=cp, timeout=420 if q else 1500,
                           extra=("-timeout", "%ds" % (390 if q else 1470)),
                           env={"VERIF_C11_LANES": os.environ.get("VERIF_C11_LANES", "24" if q else "40")})
    events = vlib.read_ndjson(tp)
    cfg, events = events[0], events[1:]
    if cfg.get("ev") != "cfg":
        raise vlib.Inconclusive("trace does not start with the cfg record")
    ctx.log("driver: %d events, cookie_len=%d maxlen=%d" % (len(events), cfg["cookie_len"], cfg["maxlen"]))
    how = os.environ.get("VERIF_C11_CORRUPT")
    if how:
        _corrupt(events, how, ctx)
    behs = _behaviours(events)

    # coverage facts (python only counts; it judges nothing)
    cnt = collections.Counter(e["ev"] for e in events)
    levels_live = sorted({e["p"] for e in events if e["ev"] in ("req", "panic") and not e["fn"]} |
                         {e["p"] for e in events if e["ev"] == "nosend"})
    levels_fn = sorted({e["p"] for e in events if e["ev"] in ("req", "panic") and e["fn"]})
    rotated = sum(1 for e in events if e["ev"] == "rep" and e["prov"]["cur"] > 1)
    retired = sum(1 for e in events if e["ev"] == "req" and not e["fn"] and not e["kv"])
    rekeys2 = sum(1 for b in behs if sum(1 for e in b if e["ev"] == "rekey") >= 2)
    probes = sorted({e["n"] for e in events if e["ev"] == "probe"})
    probe_uids = sorted({e["u"] for e in events if e["ev"] == "probe"})
    scion = [e for e in events if e["ev"] == "probe" and e["tr"] == "scion"]
    scion_ok = sum(1 for e in scion if e["ans"] and not e["bad"])
    scion_rot = sum(1 for e in scion if e["ans"] and e["prov"]["cur"] > 1)
    scion_cap = any(e["n"] == 8 and e["u"] == 200 and e["ans"] for e in scion)
    capped_by_uid = sum(1 for e in events if e["ev"] == "probe" and e["ans"] and not e["bad"] and
                        e["n"] <= 8 and len(e["cookies"]) < e["n"])
    # what the proxy did (facts about the environment, not about the code's reaction): an earlier reply
    # delivered and the genuine one handed over after it; foreign requests under a held, valid, older key
    stale_ok = 0          # (informational) exchanges that succeeded although an earlier reply was delivered first
    stale_then_genuine = 0
    for b in behs:
        st = lost = False
        for e in b:
            if e["ev"] == "req":
                st = lost = False
            elif e["ev"] == "stale":
                st = True
            elif e["ev"] in ("losereq", "loseresp", "norep"):
                lost = True
            elif e["ev"] == "done":
                stale_then_genuine += st and not lost
                stale_ok += st and e["ok"]
    oldkey_probes = sum(1 for e in events if e["ev"] == "probe" and e["kb"] > 1 and e["kv"])
    # the SCION client's lanes: requests seen by the proxy, SCMP messages it delivered, and the genuine reply
    # handed over after one (facts about the environment)
    client_of = {b[0]["b"]: b[0].get("tr", "ip") for b in behs}
    scion_req = sum(1 for e in events if e["ev"] == "req" and not e["fn"] and client_of[e["b"]] == "scion")
    scion_rekey = sum(1 for e in events if e["ev"] == "rekey" and client_of[e["b"]] == "scion")
    scion_levels = sorted({e["p"] for e in events if e["ev"] == "req" and not e["fn"] and client_of[e["b"]] == "scion"})
    scmp_types = collections.Counter(e["typ"] for e in events if e["ev"] == "scmp")
    scmp_then_genuine = 0
    for b in behs:
        sm = lost = False
        n = 0
        for e in b:
            if e["ev"] == "req":
                sm = lost = False
                n = 0
            elif e["ev"] in ("scmp", "stale"):
                sm = sm or e["ev"] == "scmp"
                n += 1
            elif e["ev"] in ("losereq", "loseresp", "norep"):
                lost = True
            elif e["ev"] == "done":
                scmp_then_genuine += sm and not lost and n == 1
    # replies of an unsynchronised server on the wire, and those handed to the client with nothing lost or
    # delivered before them (facts about the environment)
    unsync_rep = sum(1 for e in events if e["ev"] == "rep" and e["hdr"] != "sync")
    unsync_first = 0
    for b in behs:
        for i, e in enumerate(b):
            if e["ev"] == "rep" and e["hdr"] != "sync" and not e["bad"] and i + 1 < len(b) and b[i + 1]["ev"] == "done":
                unsync_first += 1
    need = dict(req=cnt["req"], rep=cnt["rep"], losereq=cnt["losereq"], loseresp=cnt["loseresp"],
                norep=cnt["norep"], tick=cnt["tick"], rekey=cnt["rekey"], probe=cnt["probe"],
                stale=cnt["stale"], stray=cnt["stray"], stale_then_genuine_delivered=stale_then_genuine,
                probes_under_older_key=oldkey_probes,
                rotated_replies=rotated, requests_under_retired_key=retired,
                scion_client_requests=scion_req, scion_client_rekeys=scion_rekey, scmp=cnt["scmp"],
                scmp_unreach=scmp_types["unreach"], scmp_echorep=scmp_types["echorep"], scmp_param=scmp_types["param"],
                scmp_then_genuine_delivered=scmp_then_genuine,
                unsync_replies=unsync_rep, unsync_replies_handed_over_first=unsync_first)
    ctx.log("coverage: %s; %d exchanges succeeded after an earlier reply had been delivered first; live pool levels %s, function-level pool levels %s, behaviours with re-keying %d, "
            "panics %d, probe sizes %s x unique-id lengths %s (%d replies capped because of the identifier); "
            "%d probes of the SCION listener (%d answered well, %d after a key rotation)" %
            (need, stale_ok, levels_live, levels_fn, rekeys2, cnt["panic"], probes, probe_uids, capped_by_uid,
             len(scion), scion_ok, scion_rot))
    pred = design_f.result()   # raises Inconclusive if a design-level run failed
    bg.shutdown()

    # ---- 4. code -> spec
    nval, nviol_beh = 0, 0
    found = {}       # signature -> (what, replay)
    drift = collections.Counter()
    drift_ex = {}
    val = _Validator(ctx)
    STRICT = ("strict", "strict_rep", "strict_c14", "strict_cap")

    def judge(part):
        evs = [cfg] + [e for b in part for e in b]
        typed = any(e["ev"] == "req" and e["nph"] > 0 for e in evs)
        capped = any(e["ev"] in ("rep", "probe") and not e.get("bad") and len(e["cookies"]) < e["n"] for e in evs)
        first = {(False, False): "strict", (True, True): "strict_rep", (True, False): "strict_c14",
                 (False, True): "strict_cap"}[(typed, capped)]
        fm = pool.submit(val.run, "NtsCookiesTrace_mon.cfg", evs)
        fs = pool.submit(val.run, "NtsCookiesTrace_%s.cfg" % first, evs)
        viol = _marks(fm.result(), "VIOL")
        best = (first, _marks(fs.result(), "DRIFTAT"))
        # strict: the switches guessed from the trace first, then the other combinations
        for sc in [x for x in STRICT if x != first]:
            if not best[1]:
                break
            d = _marks(val.run("NtsCookiesTrace_%s.cfg" % sc, evs), "DRIFTAT")
            if len(d) < len(best[1]):
                best = (sc, d)
        return evs, viol, best

    pool = ThreadPoolExecutor(max_workers=6)
    outer = ThreadPoolExecutor(max_workers=3)
    for evs, viol, best in outer.map(judge, list(_chunks(behs))):
        badb = set()
        for clause, pos in viol:
            e = evs[pos - 1]
            sig = _signature(clause, e, None, client_of.get(e.get("b"), "ip"))
            if sig is None:
                continue
            badb.add(e["b"])
            if sig not in found:
                s = pos - 1
                while s > 1 and evs[s]["ev"] != "reset":
                    s -= 1
                found[sig] = ("recorded behaviour %d violates %s at event %s (%s): %s" %
                              (e["b"], clause, e["ev"], "function level" if e.get("fn") else "live",
                               {k: e[k] for k in ("p", "n", "u", "size", "ncookie", "nph", "bad", "ok", "why") if k in e}),
                              {"cfg": cfg, "events": evs[s:pos]})
        nviol_beh += len(badb)
        nval += len({e["b"] for e in evs[1:]}) - len(badb)
        note = "strict switches matching this tree: %s" % best[0]
        if note not in ctx.notes:
            ctx.notes.append(note)
        for name, pos in best[1]:
            drift[name] += 1
            drift_ex.setdefault(name, evs[pos - 1])
    pool.shutdown()
    outer.shutdown()
    # vacuity self-check: only a run that found nothing needs complete coverage to mean something
    missing = [k for k, v in need.items() if not v]
    if not found and (missing or levels_fn != list(range(1, 9)) or levels_live != list(range(1, 9)) or
                      (rekeys2 == 0 and cnt["panic"] == 0) or probes[:1] != [1] or max(probes) < 12 or
                      not {32, 200, 320} <= set(probe_uids) or
                      not scion_ok or not scion_rot or not scion_cap):
        raise vlib.Inconclusive("driver coverage incomplete: missing %s, live levels %s, fn levels %s" %
                                (missing, levels_live, levels_fn))
    for sig, (what, rep) in sorted(found.items()):
        ctx.violation(sig, what, rep)
    for name, k in drift.items():
        e = drift_ex[name]
        ctx.drift.append("%d recorded '%s' steps are not the ones NtsCookies.tla takes, e.g. behaviour %d: %s" %
                         (k, name, e["b"], {x: e[x] for x in ("ev", "p", "n", "size", "bad", "ok", "prov") if x in e}))
    ctx.log("validated %d behaviours (%d events); %d behaviours with violations; signatures: %s" %
            (len(behs), len(events), nviol_beh, sorted(found)))

    exchanges = cnt["req"] + cnt["panic"] + cnt["nosend"] + cnt["probe"]
    def outcome(i, evs):
        for e in evs[i + 1:i + 8]:
            if e["ev"] in ("losereq", "loseresp", "norep"):
                return e["ev"]
            if e["ev"] == "done":
                return "ok" if e["ok"] else "fail"
        return "?"
    kinds = set()
    for b in behs:
        for i, e in enumerate(b):
            if e["ev"] == "req":
                kinds.add((e["p"], e["fn"], outcome(i, b), e["kv"], e["cookie"]["key"],
                           sum(1 for x in b[i + 1:i + 6] if x["ev"] == "stale"),
                           next((x["hdr"] for x in b[i + 1:i + 4] if x["ev"] == "rep"), "")))
            elif e["ev"] == "panic":
                kinds.add((e["p"], e["fn"], "panic"))
            elif e["ev"] == "probe":
                kinds.add(("probe", e["tr"], e["n"], e["u"], e["phtype"], e["prov"]["cur"], e["bad"], e["ck"], e["kv"]))
    sample = next((b for b in behs if any(e["ev"] == "loseresp" for e in b)), behs[0])
    ctx.cov.update(
        evaluations=exchanges, distinct_nontrivial=len(kinds),
        rule="exchanges of the real IPClient or (about half of the behaviours) the real SCIONClient (same-AS empty path, "
             "answered by the live SCION listener) with the NTS-KE/NTP servers through the recording proxy under TLC-generated "
             "schedules (random walks with loss bias 0..5, clock jumps of 12h..3d, earlier replies of the server "
             "delivered to the waiting client before / instead of / after the genuine one, the server answering some requests as an "
             "unsynchronised server (authentic replies with leap indicator 3 / stratum 0 / stratum 16), for the SCION client also SCMP "
             "messages (destination unreachable / echo reply / parameter problem) delivered while its request is pending, "
             "foreign requests with 1..12 "
             "fields, unique identifiers of 32..320 bytes and cookies under any key the provider holds; all schedules of 3-4 exchanges "
             "(IP client) and of 2-3 exchanges with SCMP messages (SCION client)) plus every pool level through NewRequestPacket/EncodePacket "
             "and every reply size 1..12 x unique-identifier length {32,36,64,160,200,300,320} from the live IP listener and from the live SCION "
             "listener (SCION/UDP, empty path); distinct = distinct (pool level, live/function "
             "level, outcome, key of the cookie valid?, key id) resp. (listener, probe size, unique-id length, placeholder wire type, current "
             "key, reply malformed?)",
        traces_validated_against_impl=nval, events_validated=len(events), behaviours=len(behs),
        behaviours_with_violations=nviol_beh, event_counts=dict(cnt), pool_levels_live=levels_live,
        pool_levels_scion_client=scion_levels,
        measured=dict(cookie_len=cfg["cookie_len"], max_packet_len=cfg["maxlen"]), predicted=pred,
        samples=[cfg] + sample[:12], exhaustive=False)
    ctx.assumptions += [
        "the provider's clock is moved by shifting every time.Time it holds (its keys' validity periods, generatedAt; "
        "reflect/unsafe on ntske.Provider, under its lock); the provider only compares time.Now() with these, so this is "
        "what the passing of time does to it",
        "the network's memory is bounded (exhaustive runs: the reply of the previous 1-2 exchanges); the client's receive "
        "loop is handed at most two extra datagrams per call",
        "datagrams are classified by the harness' own RFC 8915 field walker and AES-SIV (miscreant) calls, not by net/nts",
        "SCION client: its key exchange runs over TLS (not QUIC) against the same NTS-KE server; the proxy is the SCION "
        "network of a single AS: it re-frames the NTS datagram of the client's SCION/UDP packet for the lane's SCION listener "
        "(whose port differs from the advertised one) and the listener's answer for the client; SCMP messages are built by the "
        "harness (unauthenticated, quoting the client's packet); no DRKey authentication (Auth.Enabled off)",
        "MeasureClockOffsetSCION reports a failed measurement as a zero result: success = non-zero timestamp; after a failure "
        "the client's pool is read only when every goroutine the call started has ended (runtime goroutine snapshot)",
        "the unsynchronised server is played by the proxy: it takes the listener's authentic reply (same unique identifier, "
        "timestamps and cookies), sets leap indicator 3 / stratum 0 / stratum 16 and seals it with the association's S2C key "
        "(AES-SIV, fresh nonce) - the project's own server always answers stratum 1, leap indicator 0",
        "loopback, one client per server; losses are those of the schedule (a silent server is asked again before "
        "'no reply' is recorded)",
        "small scope for the exhaustive TLC runs: clock horizon of 4-6 days in 12 h units, jumps from a fixed set",
    ]
