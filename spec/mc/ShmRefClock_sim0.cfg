SPECIFICATION Spec
CONSTANTS
  WriterKind = "proto"
  Mode = 0
  NSamples = 3
  MaxCalls = 4
  MaxRetries = 8
  DlKinds <- DlBoth
  ReadOrder <- AddrOrder
  AtomicAttempt = TRUE
  RecordHist = TRUE
  SModes <- ModesSmall
  SValids <- ValidsSmall
  SPairs <- PairsSmall
  SCounts = {7}
INVARIANTS Emit
