SPECIFICATION TSpec
INVARIANTS RReturns RRaceFree RContain RMedianIn ROrderInv RReorders RRaw RMidOK RTsBetween RErrNil
