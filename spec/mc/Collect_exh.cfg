SPECIFICATION FairSpec
CONSTANTS
  MaxClocks = 3
  Overlap = TRUE
  Fault = "none"
INVARIANTS TypeOK BusyIsEnabled ByDeadline ExactlyOncePrefix InTimeCounted NoStuckLeak SecondCallRefused CounterRestored
PROPERTIES NoLeak
