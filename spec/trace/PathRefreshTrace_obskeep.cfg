SPECIFICATION MonSpec
INVARIANTS ObsKeep
