SPECIFICATION FairSpec
CONSTANTS
  MaxClocks = 2
  Rounds = 2
  DVals = {1, 3, 5}
  Overlap = TRUE
  Hist = FALSE
  Fault = "none"
INVARIANTS TypeOK BusyIsEnabled OutcomeIsOfForm ByDeadline ExactlyOncePrefix InTimeCounted NoStuckLeak SecondCallRefused CounterRestored
PROPERTIES NoLeak
