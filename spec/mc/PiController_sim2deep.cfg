SPECIFICATION SpecSim
CONSTANTS
  KPn = 1
  KPd = 4
  KIn = 1
  KId = 2
  G = 16
  Thr = 4
  FMax = 20
  Offs <- OffsFull
  Perturb <- PertFull
  K0s <- K0sFull
  MaxLen = 24
  StepWritesFreq = FALSE
INVARIANTS Emit
