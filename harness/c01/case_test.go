package c01

import (
	"os"
	"testing"
	"time"

	"verif/harness/internal/vio"
)

// bootCase: does Run refuse the configuration? (one all-failing round if not)
func bootCase(t *testing.T, out *vio.Out, ci int, c tcase, ei int, tau time.Duration) {
	e := embs[ei]
	res := runOnce(t, realCfg(c.Cfg, e, tau), e.a*c.Cfg.Drift, tau, 1,
		errClocks(c.Cfg.Nref), errClocks(c.Cfg.Npeer), nil, nil)
	if res.panicked && res.rec.touched {
		t.Fatalf("case %d: sync.Run panicked inside the loop: %s", ci, res.msg)
	}
	out.Emit(rec{K: "boot", Case: ci, Emb: ei, Tau: int64(tau), Cfg: c.Cfg, Refused: res.panicked,
		RawOK: true, Exact: true})
}

// runCase replays one behaviour; returns (records, inexact records).
func runCase(t *testing.T, out *vio.Out, ci int, c tcase, ei int) (int, int) {
	e := embs[ei]
	tau := time.Millisecond
	cfg := realCfg(c.Cfg, e, tau)
	refs := scripts(c.Cfg.Nref, c.Rounds, false, e, cfg.SyncTimeout, tau)
	peers := scripts(c.Cfg.Npeer, c.Rounds, true, e, cfg.SyncTimeout, tau)
	driftPer := e.a * c.Cfg.Drift
	d := driftPer * c.Cfg.Interval // clk.Drift(cfg.SyncInterval)
	boot := rec{K: "boot", Case: ci, Emb: ei, Tau: int64(tau), Cfg: c.Cfg, RawOK: true, Exact: true}
	el := make([]elapse, len(c.Rounds)) // el[k]: the Sleep call between round k and round k+1
	for i, m := range c.Rounds {
		el[i] = elapse{m.Slp, m.Stp}
	}
	res := runOnce(t, cfg, driftPer, tau, len(c.Rounds), refs, peers, el, func(done []observed, pending observed) {
		// the scripted rounds did not complete: everything seen so far, then the
		// pending round (no Sleep call was reached) flagged as hung
		out.Emit(boot)
		emitRounds(out, ci, c, ei, d, done)
		h := rec{K: "round", Case: ci, Emb: ei, Tau: int64(tau), Cfg: c.Cfg, Rnd: len(done) + 1,
			Ndo: len(pending.dos), RawOK: true, Exact: true, Hung: true}
		out.Emit(h)
		out.Close()
		os.Exit(exitHung)
	})
	if res.panicked && res.rec.touched {
		t.Fatalf("case %d: sync.Run panicked inside the loop: %s", ci, res.msg)
	}
	boot.Refused = res.panicked
	out.Emit(boot)
	if res.panicked {
		return 1, 0
	}
	n, nx := emitRounds(out, ci, c, ei, d, res.rec.rounds)
	return n + 1, nx
}

// exitHung is the driver's exit status after a behaviour that did not finish.
const exitHung = 3

// emitRounds writes one record per observed clk.Sleep call.
func emitRounds(out *vio.Out, ci int, c tcase, ei int, d int64, rounds []observed) (int, int) {
	e := embs[ei]
	tau := time.Millisecond
	n, nx := 0, 0
	for ri, ob := range rounds {
		r := rec{K: "round", Case: ci, Emb: ei, Tau: int64(tau), Cfg: c.Cfg, Rnd: ri + 1, Ndo: len(ob.dos),
			El: ob.el, Slept: ob.slept, Epoch: int64(ob.epoch)}
		r.RawOK = true
		for _, x := range ob.dos {
			if !rawBound(int64(x), c.Cfg.Pi4, d) || (c.Cfg.Npeer == 0 && !rawBound(int64(x), c.Cfg.Ri4, d)) {
				r.RawOK = false
			}
		}
		r.Exact = true
		if len(ob.dos) > 0 {
			var ok bool
			if r.Corr, ok = e.inv(int64(ob.dos[0])); !ok {
				r.Exact = false
			}
		}
		r.HasLog = len(ob.logs) == 1 && ob.logs[0].ok
		if r.HasLog {
			l := ob.logs[0]
			r.Rok, r.Pok = l.refOk, l.peerOk
			var o1, o2, o3, o4 bool
			r.Ro, o1 = e.invSeconds(l.refOff)
			r.Po, o2 = e.invSeconds(l.peerOff)
			r.Rc, o3 = e.invSeconds(l.refCorr)
			r.Pc, o4 = e.invSeconds(l.peerCorr)
			if !(o1 && o2 && o3 && o4) {
				r.Exact = false
			}
		}
		if e.ext {
			// values derived from MaxInt64 are not multiples of the scale and the
			// logger's float64 seconds cannot tell: only the raw inequality and
			// the Do count are judged under this embedding
			r.Exact = false
		}
		if !r.Exact {
			r.Corr, r.Ro, r.Po, r.Rc, r.Pc = 0, 0, 0, 0, 0
			nx++
		}
		if ri < len(c.Rounds) {
			m := c.Rounds[ri]
			r.HasExp = true
			r.ERo, r.EPo, r.ERc, r.EPc, r.ECorr = m.Ro, m.Po, m.Rc, m.Pc, m.Corr
			r.ESlp, r.EStp = m.Slp, m.Stp
		}
		out.Emit(r)
		n++
	}
	return n, nx
}
