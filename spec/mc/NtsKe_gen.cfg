SPECIFICATION GSpec
CONSTANTS
  Transport = "tls"
  ResidueAfterFailure = FALSE
  ShortCookieRead = FALSE
  DialResetsData = TRUE
  Alpns <- AlpnsTls
  Alphabet <- AlphaAll
  CutRecs <- CutCore
  MaxRecs = 3
  MaxDials = 1
  MaxCalls = 1
  MaxStore = 0
  CtxMode = "ignored"
  MaxStalls = 0
  Tails = FALSE
INVARIANTS Emit RunAgrees
