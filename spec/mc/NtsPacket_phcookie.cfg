SPECIFICATION Spec
CONSTANTS
  MaxNf = 3
  Roles <- RolesAll
  PlaceholderTypedAsCookie = TRUE
  UidChecked = TRUE
  AdWhole = TRUE
  Hardened = TRUE
  StopAtAuth = TRUE
  CtLenExact = TRUE
  StoreAfterUid = TRUE
  LenChoices <- LenChoicesExh
  TruncMax = 4
INVARIANTS TypeOK Sound Complete CookieBinding AuthenticOnly RejectedInert
