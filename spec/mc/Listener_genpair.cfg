SPECIFICATION Spec
CONSTANTS
  Servers = {"A", "B"}
  B0s <- B0All
  Shapes <- ShapesGenPair
  Vias <- ViasGenPair
  MaxInject = 1
  Spoof = TRUE
  Confs <- ConfsSw
  Stores <- StoresNone
  Ancs <- AncsTs
  SrcPorts <- SrcPortsEph
  RestoreAtTop = TRUE
CONSTRAINTS GenPairQuick GenStop
INVARIANTS EmitPair
