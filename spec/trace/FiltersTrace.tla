---------------------------- MODULE FiltersTrace ----------------------------
(***************************************************************************)
(* Validation of what the real LuckyPacketFilter / NtimedFilter did        *)
(* (harness/c17) against Filters.tla.  The trace is a concatenation of     *)
(* histories; "lnew" / "nnew" start a fresh filter, "ngroup" starts a new  *)
(* group of Ntimed runs over the same concrete samples.                    *)
(*                                                                         *)
(* Every event drives the specification's own actions (the *Core actions   *)
(* of Filters.tla) with the recorded inputs, so the specification's state  *)
(* (win, lout, navg, nout, ...) is its prediction and the ghosts (lastn,   *)
(* since) are what the property section talks about.                       *)
(*   monitor (FiltersTrace_mon.cfg): the clauses of C17 on the recorded    *)
(*       outputs, using the ghosts and the recorded inputs only            *)
(*   strict (FiltersTrace_strict.cfg): the recorded outputs / observable   *)
(*       state are exactly what the specification computes                 *)
(***************************************************************************)
EXTENDS Integers, Sequences, FiniteSets, TLC, Json

CONSTANT TraceFile   \* name of the ndjson file (the check validates shards in parallel)

Which == "trace"
Caps == {}
Picks == {}
UnconfToo == FALSE
Offs == {}
Rtds == {}
DistinctOnly == FALSE
Clk0s == {}
MaxEv == 0
FilterAverage == 20

VARIABLES cap, kcfg, pick, win, lout, lastn, navg, fepoch, clk, dep, nout, since, hist,
          l,     \* position in the trace
          memo   \* Ntimed: samples since the last reset / clock step |-> output, per group
INSTANCE Filters

Trace == ndJsonDeserialize(TraceFile)
N == Len(Trace)
Empty == [x \in {} |-> << >>]
\* (own tuples: TLC cannot prime a tuple defined inside the instantiated module)
LV == <<cap, kcfg, pick, win, lout, lastn>>
NV == <<navg, fepoch, clk, dep, nout, since>>

TInit == l = 0 /\ hist = << >> /\ LIdle /\ NIdle /\ memo = Empty

TNext ==
  /\ l < N
  /\ l' = l + 1
  /\ UNCHANGED hist
  /\ LET e == Trace[l + 1] IN
     CASE e.ev = "lnew"   -> LNew(e.cap, e.k) /\ UNCHANGED <<NV, memo>>
       [] e.ev = "ls"     -> LSampleCore(e.off * e.sc, e.rtd) /\ UNCHANGED <<NV, memo>>
       [] e.ev = "lr"     -> LResetCore /\ UNCHANGED <<NV, memo>>
       [] e.ev = "ngroup" -> memo' = Empty /\ UNCHANGED <<LV, NV>>
       [] e.ev = "nnew"   -> NNew(e.clk) /\ UNCHANGED <<LV, memo>>
       [] e.ev = "ns"     -> /\ NSampleCore(e.id, e.fl, e.fh)
                             /\ memo' = IF since' \in DOMAIN memo THEN memo ELSE (since' :> e.o) @@ memo
                             /\ UNCHANGED LV
       [] e.ev = "nr"     -> NResetCore /\ UNCHANGED <<LV, memo>>
       [] e.ev = "ne"     -> NEpochCore /\ UNCHANGED <<LV, memo>>
TSpec == TInit /\ [][TNext]_<<LV, NV, hist, l, memo>>

R == Trace[l]
IsLS == l > 0 /\ R.ev = "ls"
IsNS == l > 0 /\ R.ev = "ns"

\* ------------------------------------------------------------- monitor
\* lucky packet: the returned value is the median offset of the k lowest-delay
\* samples among the last N (pairwise distinct delays), k capped at N
RRule ==
  (IsLS /\ cap > 0 /\ DistinctRtd(lastn)) => RuleHolds(R.out, lastn, cap, kcfg)
\* unconfigured: the raw offset
RUnconf ==
  (IsLS /\ cap = 0) => R.out = Last(lastn).off
\* Ntimed: raw offset (right sign, float rounding) while fewer than four
\* samples have been seen since the last reset / clock step and whenever the
\* sample certainly lies within the learned bounds
RRawWhen ==
  IsNS => ((Len(since) <= 3 \/ R.inb) => R.err <= R.tol)
\* Ntimed: the output is a function of the samples seen since the last reset
\* / clock step / creation (same samples since => bitwise the same output)
RHistIndep ==
  IsNS => memo[since] = R.o

\* -------------------------------------------------------------- strict
SLucky ==
  IsLS => /\ R.out = lout.v
          /\ R.wobs => /\ R.woff = [i \in DOMAIN win |-> win[i].off]
                       /\ R.wrtd = [i \in DOMAIN win |-> win[i].rtd]
SLReset ==
  (l > 0 /\ R.ev = "lr" /\ R.wobs) => R.woff = << >>
SNtimed ==
  (IsNS /\ R.logok) => /\ R.br = nout.br
                       /\ nout.raw => R.err <= R.tol
SNState ==
  (l > 0 /\ R.ev \in {"ns", "nr", "ne"}) =>
     /\ R.clk = clk
     /\ R.nobs => (R.navg = navg /\ R.fep = fepoch)
=============================================================================
