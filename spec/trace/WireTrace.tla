----------------------------- MODULE WireTrace -----------------------------
(***************************************************************************)
(* Validation of records produced by the real codecs (harness/c14) against  *)
(* Wire.tla.  Records are independent; positions 1..Len(Trace) are visited  *)
(* as a 16-ary tree so that all TLC workers share the work.                 *)
(*   monitor (cfg WireTrace_mon): the property section of C14 on what the   *)
(*           real code returned                                             *)
(*   strict  (cfg WireTrace_strict): the record is what Wire.tla computes   *)
(*           (layout tables as oracle for the bytes; either setting of the  *)
(*           PlaceholderTypedAsCookie switch explains an NTS encoding)      *)
(* Record kinds (field k): lay, layb, layp, lvm, nts, sck, eck, crypt, and   *)
(* hist (a history of codec calls, WireHist.tla).                           *)
(***************************************************************************)
EXTENDS Integers, Sequences, FiniteSets, TLC, Json

VARIABLE l
\* the two variants of the specification
WF == INSTANCE Wire WITH PlaceholderTypedAsCookie <- FALSE,
        SweepPrefixes2 <- {}, SweepBases <- {}, SweepWide <- FALSE, NtsUidLens <- {}, NtsCkLens <- {},
        NtsMaxCk <- 0, NtsPhLens <- {}, NtsMaxPh <- 0, NtsPtShapes <- {}, SckLens <- {}, SckNs <- {}, c <- 0
WT == INSTANCE Wire WITH PlaceholderTypedAsCookie <- TRUE,
        SweepPrefixes2 <- {}, SweepBases <- {}, SweepWide <- FALSE, NtsUidLens <- {}, NtsCkLens <- {},
        NtsMaxCk <- 0, NtsPhLens <- {}, NtsMaxPh <- 0, NtsPtShapes <- {}, SckLens <- {}, SckNs <- {}, c <- 0

Trace == ndJsonDeserialize("wire_trace.ndjson")
N == Len(Trace)

TInit == l = 0
TNext == \E j \in 1 .. 16 : l' = 16 * l + j /\ l' <= N
TSpec == TInit /\ [][TNext]_l

R == Trace[l]
Is(k) == l > 0 /\ R.k = k

\* ---------------------------------------------------------------- monitor
\* fixed layouts: one field takes the values Val(i) (classes: vs[i]; sweep: pre
\* followed by the byte i-1), the rest the base pattern.  Per value, flag bits
\* fl[i]: 1 canon (the input is a protocol value), 2 encode/decode worked in a
\* buffer of exactly the declared length, 4 rt (the whole decoded struct equals
\* the input struct), 8 re (re-encoding reproduces the bytes), 16 neg, 32 rest;
\* db[i] the decoded field as a byte string.
NVals == IF R.mode = "sweep" THEN 256 ELSE Len(R.vs)
Val(i) == IF R.mode = "sweep" THEN R.pre \o <<i - 1>> ELSE R.vs[i]
Bit(x, k) == (x \div (2 ^ k)) % 2 = 1
RLayRoundTrip == Is("lay") =>
   /\ Len(R.fl) = NVals /\ Len(R.db) = NVals
   /\ \A i \in 1 .. NVals :
         Bit(R.fl[i], 0) => Bit(R.fl[i], 1) /\ R.db[i] = Val(i) /\ Bit(R.fl[i], 2)
RLayReencode == Is("lay") => \A i \in 1 .. NVals : Bit(R.fl[i], 0) => Bit(R.fl[i], 3)
\* a valid encoding is reproduced by decode + encode
RLaybReencode == Is("layb") => (WF!ValidEnc(R.m, R.b) => R.err = "nil" /\ R.reenc = R.b)
\* decoding into a destination that holds a previously decoded value returns the
\* value that was encoded (the decoded value is a function of the bytes only)
RLaypRoundTrip == Is("layp") => R.err = "nil" /\ R.dec = R.vals /\ R.dec0 = R.vals
\* leap/version/mode accessors agree with the first byte of the encoding
Agree(x) == /\ x.li \in 0 .. 3 /\ x.vn \in 0 .. 7 /\ x.mode \in 0 .. 7
            /\ x.li * 64 + x.vn * 8 + x.mode = x.b0
RLvmAgree == Is("lvm") => Agree(R) /\ R.b0 = R.x /\ \A i \in DOMAIN R.sets : Agree(R.sets[i])
RLvmSetGet == Is("lvm") =>
   \A i \in DOMAIN R.sets :
      LET s == R.sets[i]
      IN /\ (s.op = "li" => s.li = s.a /\ s.vn = R.vn /\ s.mode = R.mode)
         /\ (s.op = "vn" => s.vn = s.a /\ s.li = R.li /\ s.mode = R.mode)
         /\ (s.op = "mode" => s.mode = s.a /\ s.li = R.li /\ s.vn = R.vn)
\* NTS extension fields
NtsIn == R["in"]
NtsDec == [err |-> R.dec.err, ck |-> R.dec.ck, ph |-> R.dec.ph, uid |-> R.dec.uid]
RNtsKinds == Is("nts") => R.encerr = "nil" /\ WF!NtsKindsOK(NtsIn, NtsDec)
\* (values are compared field by field once every field decoded as its kind; a kind failure is RNtsKinds')
RNtsValues == (Is("nts") /\ R.encerr = "nil") => R.hdr_ok /\ (WF!NtsKindsOK(NtsIn, NtsDec) => WF!NtsValuesOK(NtsIn, NtsDec))
RNtsAuth == (Is("nts") /\ R.encerr = "nil" /\ R.dec.err = "nil") =>
               R.auth_ok /\ (WF!NtsPtEmitted(NtsIn) => R.rec = NtsIn.pt)
RNtsAligned == (Is("nts") /\ R.encerr = "nil") => WF!WalkAligned(R.enc, 0)
\* server cookies
SameCk(d, x) == d.err = "nil" /\ d.n = x.n /\ d.x = x.x /\ d.y = x.y
RSck == (Is("sck") \/ Is("eck")) => SameCk(R.dec, R["in"])
RCrypt == Is("crypt") => R.e.n = R.keyid /\ R.edec_ok /\ SameCk(R.out, R["in"])

\* histories of calls (Wire.tla property section (f), WireHist.tla): calls[i] = [th, op, cd, src, v,
\* val (the protocol value), err, ret (the result copied when the call returned), end (the same
\* result copied at the end of the history), rterr / rt (enc: what the real decoder makes of the held
\* encoding at the end of the history; dec: the value to judge is end itself), reenc (fixed layouts: rt
\* encoded again)]
HNorm(cd, x) == IF cd \in WF!Msgs THEN [f \in WF!FieldNames(cd) |-> x[f]] ELSE x
\* the round-trip clauses on the end-of-history values
RHistRoundTrip == Is("hist") =>
   \A i \in DOMAIN R.calls :
      LET x == R.calls[i]
          val == HNorm(x.cd, x.val)
      IN /\ x.err = "nil" /\ x.rterr = "nil"
         /\ WF!HValueIs(x.cd, val, HNorm(x.cd, IF x.op = "enc" THEN x.rt ELSE x.end))
         /\ (x.op = "enc" /\ x.cd \in WF!Msgs /\ WF!Canonical(x.cd, val)) =>
               Len(x.end) = WF!DeclLen(x.cd, WF!Ssds(x.cd, val)) /\ x.reenc = x.end
         /\ (x.op = "enc" /\ x.cd = "nts") => WF!WalkAligned(x.end, 0)
\* a result is at the end of the history what it was when its call returned
RResultsStable == Is("hist") => \A i \in DOMAIN R.calls : R.calls[i].err = "nil" => R.calls[i].end = R.calls[i].ret

\* ----------------------------------------------------------------- strict
ValsOf(m, rec) == [f \in WF!FieldNames(m) |-> rec[f]]
SLayBytes == Is("lay") =>
   \A i \in 1 .. NVals :
      (Bit(R.fl[i], 0) /\ Bit(R.fl[i], 1)) =>
         /\ R.eb[i] = Val(i)                                          \* big-endian at the table's offset
         /\ Bit(R.fl[i], 5)                                           \* nothing else disturbed
         /\ Bit(R.fl[i], 4) = WF!Neg(WF!RowOf(R.m, R.f).ty, Val(i))   \* signedness
         /\ R.declen[i] = WF!DeclLen(R.m, IF R.f = "FlagField" /\ WF!HasCond(R.m) THEN Val(i)[4] % 2 = 1 ELSE R.ssds)
SLayFull == Is("lay") => (R.canon0 => R.enc0 = WF!EncodeLay(R.m, ValsOf(R.m, R.vals0)))
SLayb == Is("layb") => (WF!ValidEnc(R.m, R.b) => ValsOf(R.m, R.dec) = WF!DecodeLay(R.m, R.b))
SLayp == (Is("layp") /\ R.err = "nil") =>
   /\ R.enc = WF!EncodeLay(R.m, ValsOf(R.m, R.vals))
   /\ ValsOf(R.m, R.dec) = WF!DecodeLayInto(R.m, ValsOf(R.m, R.prev), R.enc)
SLvm == Is("lvm") => /\ R.li = WF!Li(R.x) /\ R.vn = WF!Vn(R.x) /\ R.mode = WF!Mode(R.x)
                     /\ \A i \in DOMAIN R.sets : R.sets[i].b0 = WF!LvmSet(R.sets[i].op, R.x, R.sets[i].a)
\* the nonce and the ciphertext are random: compare everything before them and the length
MaskAuth(b, p) == [i \in 1 .. Len(b) |-> IF i > p THEN 0 ELSE b[i]]
AuthData(p) == Len(WF!EncodeNts(p)) - Len(WF!AuthField(WF!PtBytes(p))) + 8
SNtsEnc == (Is("nts") /\ R.encerr = "nil") =>
   LET p == NtsIn
       k == AuthData(p)
   IN \/ MaskAuth(R.enc, k) = MaskAuth(WF!EncodeNts(p), k)
      \/ MaskAuth(R.enc, k) = MaskAuth(WT!EncodeNts(p), k)
SNtsDec == (Is("nts") /\ R.encerr = "nil") =>
   LET d == WF!DecodeNts(R.enc)
   IN /\ d.err = R.dec.err /\ d.uid = R.dec.uid /\ d.ck = R.dec.ck /\ d.ph = R.dec.ph
      /\ Len(d.nonce) = R.dec.noncelen /\ Len(d.ct) = R.dec.ctlen
SSck == /\ Is("sck") => R.enc = WF!SckEncode(R["in"])
        /\ Is("eck") => R.enc = WF!EckEncode(R["in"])
        /\ Is("crypt") => R.e.xl = 16 /\ R.e.yl = 16 + Len(WF!SckEncode(R["in"]))
\* histories: the schedule is one of WireHist.tla (every call begins once and then ends once, the calls
\* of a thread one after the other in plan order, a decode of an earlier result after that call's end);
\* the results of the codecs without randomness are those Wire.tla computes
HPos(e, i) == CHOOSE p \in DOMAIN R.sched : R.sched[p].e = e /\ R.sched[p].i = i
SHistSched == Is("hist") =>
   LET n == Len(R.calls)
   IN /\ Len(R.sched) = 2 * n
      /\ \A i \in 1 .. n : \A e \in {"B", "E"} : Cardinality({p \in DOMAIN R.sched : R.sched[p].e = e /\ R.sched[p].i = i}) = 1
      /\ \A i \in 1 .. n : HPos("B", i) < HPos("E", i)
      /\ \A i, j \in 1 .. n : (i < j /\ R.calls[i].th = R.calls[j].th) => HPos("E", i) < HPos("B", j)
      /\ \A j \in 1 .. n : R.calls[j].src # 0 =>
            /\ R.calls[j].src < j /\ R.calls[j].op = "dec"
            /\ R.calls[R.calls[j].src].op = "enc" /\ R.calls[R.calls[j].src].cd = R.calls[j].cd
            /\ HPos("E", R.calls[j].src) < HPos("B", j)
HDeterministic == WF!Msgs \cup {"sck", "eck", "ke"}
HPlain(cd, x) == IF cd \in {"sck", "eck"} THEN [n |-> x.n, x |-> x.x, y |-> x.y] ELSE x
SHistValues == Is("hist") =>
   \A i \in DOMAIN R.calls :
      LET x == R.calls[i]
          val == HPlain(x.cd, HNorm(x.cd, x.val))
      IN (x.err = "nil" /\ x.cd \in HDeterministic /\ (x.cd \in WF!Msgs => WF!Canonical(x.cd, val))) =>
            IF x.op = "enc" THEN x.ret = WF!HEncode(x.cd, val)
            ELSE HNorm(x.cd, x.ret) = WF!HDecode(x.cd, WF!HEncode(x.cd, val))
=============================================================================
