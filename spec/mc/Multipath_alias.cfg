SPECIFICATION Spec
CONSTANTS
  MaxClients = 2
  MaxPaths = 3
  ThetaVecs <- Theta1
  AllCompletions = FALSE
  FW = 8
  MaxRounds = 2
  MaxRefresh = 1
  PrivateSlice = FALSE
  KeepHist = FALSE
  CheckRand = FALSE
  RandWMax = 4
  CheckUnif = FALSE
  UnifNMax = 0
INVARIANTS Distinct StickyKept ElseResetWithFilter Participants LaunchedAreParticipants OneValuePerParticipant NoPathError
