// C18 driver: concretises every case enumerated by TLC from spec/UnitConv.tla
// (scaled constants: 10^3 ns/s, 2^4 sub-units, 12-bit seconds) at the real
// constants under exact value embeddings, adds boundary grids and seeded
// random inputs over the full 64-bit ranges, runs the real conversion
// functions of base/unixutil, driver/clocks and net/csptp and records what
// they returned for UnitConvTrace.tla (monitor + strict).
//
// Record conventions: small values are logged as numbers (model units when
// the input is the image of a model value: img=true), 64-bit values as seven
// signed base-1000 limbs (least significant first), 48-bit seconds as six
// base-256 digits (most significant first).  Booleans named *_ok / in_range
// / recomposes are the property's inequality evaluated with math/big on the
// raw values; the trace specification asserts them and re-decides the
// identities on the limbs.
package c18

import (
	"log/slog"
	"math"
	"math/big"
	"math/rand"
	"testing"
	"time"

	"example.com/scion-time/base/unixutil"
	"example.com/scion-time/driver/clocks"
	"example.com/scion-time/net/csptp"

	"verif/harness/internal/vio"
)

type tcase struct {
	K string  `json:"k"`
	A []int64 `json:"a"`
	W int     `json:"w"`
}

const (
	nsPerSec  = int64(1000000000)
	mNsPerSec = int64(1000) // model
	nsScale   = nsPerSec / mNsPerSec
	subUnits  = int64(65536)
	mSubUnits = int64(16)
	subScale  = subUnits / mSubUnits
	maxTsSec  = int64(1)<<48 - 1
	mSecBits  = 12
	maxSPPM   = int64(32768000)
	mMaxSPPM  = int64(80)
	ppmScale  = maxSPPM / mMaxSPPM
)

func bi(v int64) *big.Int { return big.NewInt(v) }

func fits(z *big.Int) bool { return z.IsInt64() }

func small(v int64) bool { return -(1<<30) <= v && v <= 1<<30 }

func clamp(v int64) int64 {
	if v > 1<<30 {
		return 1 << 30
	}
	if v < -(1 << 30) {
		return -(1 << 30)
	}
	return v
}

// limbs returns the seven signed base-1000 limbs of v, least significant first.
func limbs(v int64) []int64 {
	b := bi(v)
	sign := int64(b.Sign())
	b.Abs(b)
	res := make([]int64, 7)
	th := bi(1000)
	r := new(big.Int)
	for i := range res {
		b.QuoRem(b, th, r)
		res[i] = sign * r.Int64()
	}
	if b.Sign() != 0 {
		panic("limbs: value does not fit")
	}
	return res
}

// digits6 returns the six base-256 digits of s (most significant first) and
// whether 0 <= s < 2^48.
func digits6(s int64) ([]int64, bool) {
	res := make([]int64, 6)
	if s < 0 || s > maxTsSec {
		return res, false
	}
	for i := 5; i >= 0; i-- {
		res[i] = s & 0xff
		s >>= 8
	}
	return res, true
}

func catch(f func()) (panicked bool) {
	defer func() {
		if recover() != nil {
			panicked = true
		}
	}()
	f()
	return false
}

type driver struct {
	out  *vio.Out
	rng  *rand.Rand
	full bool
	n    map[string]int
	skip map[string]int
}

func (d *driver) emit(k string, r any) {
	d.out.Emit(r)
	d.n[k]++
}

// ------------------------------------------------------------------ tv
type tvRec struct {
	K           string  `json:"k"`
	Src         string  `json:"src"`
	Img         bool    `json:"img"`
	N           int64   `json:"n"`
	Sec         int64   `json:"sec"`
	Usec        int64   `json:"usec"`
	Nl          []int64 `json:"nl"`
	Secl        []int64 `json:"secl"`
	Usecl       []int64 `json:"usecl"`
	UsecInRange bool    `json:"usec_in_range"`
	Recomposes  bool    `json:"recomposes"`
}

// embedding n_real = nsScale*n + b + S*10^9 (0 <= b < nsScale): seconds shift by
// S, the sub-second part is nsScale*usec + b
type tvEmb struct{ b, s int64 }

func (d *driver) tv(src string, n int64, e *tvEmb, nm int64) {
	tv := unixutil.TimevalFromNsec(n)
	sec, usec := int64(tv.Sec), int64(tv.Usec)
	r := tvRec{K: "tv", Src: src, Nl: limbs(n), Secl: limbs(sec), Usecl: limbs(usec)}
	r.UsecInRange = 0 <= usec && usec < nsPerSec
	z := new(big.Int).Mul(bi(sec), bi(nsPerSec))
	z.Add(z, bi(usec))
	r.Recomposes = z.Cmp(bi(n)) == 0
	if e != nil {
		sm, um := sec-e.s, usec-e.b
		if um%nsScale == 0 && small(sm) && small(um/nsScale) {
			r.Img, r.N, r.Sec, r.Usec = true, nm, sm, um/nsScale
		} else {
			d.skip["tv-inexact-image"]++
		}
	}
	d.emit("tv", r)
}

func (d *driver) tvCase(nm int64, ci int) {
	embs := []tvEmb{{0, 0}, {nsScale - 1, 0}, {d.rng.Int63n(nsScale), d.rng.Int63n(18000000000) - 9000000000},
		{1, 9223372030}, {nsScale / 2, -9223372030}}
	for ei := range embs {
		if !d.full && ei != ci%len(embs) && ei != (ci/5+2)%len(embs) {
			continue
		}
		e := embs[ei]
		z := new(big.Int).Mul(bi(nm), bi(nsScale))
		z.Add(z, bi(e.b))
		z.Add(z, new(big.Int).Mul(bi(e.s), bi(nsPerSec)))
		if !fits(z) {
			d.skip["tv-embedding-overflow"]++
			continue
		}
		d.tv("gen", z.Int64(), &e, nm)
	}
}

func (d *driver) tvGrid(nrand int) {
	g := []int64{0, 1, -1, 2, -2, nsPerSec - 1, -(nsPerSec - 1), nsPerSec, -nsPerSec, nsPerSec + 1, -(nsPerSec + 1),
		2*nsPerSec - 1, -(2*nsPerSec - 1), 2 * nsPerSec, -2 * nsPerSec, 2*nsPerSec + 1, -(2*nsPerSec + 1),
		math.MinInt64, math.MinInt64 + 1, math.MaxInt64, math.MaxInt64 - 1,
		-9223372036 * nsPerSec, -9223372036*nsPerSec - 1, -9223372036*nsPerSec + 1, 9223372036 * nsPerSec, 9223372036*nsPerSec - 1, 9223372036*nsPerSec + 1,
		math.MinInt64 + 854775808 - 1, 1 << 32, -(1 << 32), 1<<32 - 1, -(1<<32 - 1), 1 << 31, -(1 << 31), 1 << 62, -(1 << 62), 999999, -999999, 1000000, -1000000}
	for k := int64(1); k < 9223372036; k *= 7 {
		g = append(g, k*nsPerSec, -k*nsPerSec, k*nsPerSec+1, -k*nsPerSec-1, k*nsPerSec-1, -k*nsPerSec+1)
	}
	for _, n := range g {
		d.tv("grid", n, nil, 0)
	}
	for i := 0; i < nrand; i++ {
		var n int64
		switch i % 4 {
		case 0:
			n = int64(d.rng.Uint64())
		case 1:
			n = d.rng.Int63n(4*nsPerSec) - 2*nsPerSec
		case 2: // near a multiple of a second
			n = (d.rng.Int63n(18446744072)-9223372036)*nsPerSec + d.rng.Int63n(5) - 2
		default:
			n = -d.rng.Int63() >> uint(d.rng.Intn(63))
		}
		d.tv("rnd", n, nil, 0)
	}
}

// ------------------------------------------------------------------ ci
type ciRec struct {
	K       string  `json:"k"`
	Src     string  `json:"src"`
	Img     bool    `json:"img"`
	I       int64   `json:"i"`
	Q       int64   `json:"q"`
	Il      []int64 `json:"il"`
	Ql      []int64 `json:"ql"`
	FloorOK bool    `json:"floor_ok"`
}

// embedding i_real = subScale*i + b + S*2^16 (0 <= b < subScale): q_real = q + S
type ciEmb struct{ b, s int64 }

func (d *driver) ci(src string, i int64, e *ciEmb, im int64) {
	q := int64(csptp.DurationFromTimeInterval(i))
	r := ciRec{K: "ci", Src: src, Il: limbs(i), Ql: limbs(q)}
	fl := new(big.Int).Div(bi(i), bi(subUnits)) // Euclidean = floor for a positive divisor
	r.FloorOK = fl.Cmp(bi(q)) == 0
	if e != nil {
		qm := new(big.Int).Sub(bi(q), bi(e.s))
		if fits(qm) && small(qm.Int64()) {
			r.Img, r.I, r.Q = true, im, qm.Int64()
		} else {
			d.skip["ci-inexact-image"]++
		}
	}
	d.emit("ci", r)
}

func (d *driver) ciCase(im int64, ci int) {
	embs := []ciEmb{{0, 0}, {subScale - 1, 0}, {d.rng.Int63n(subScale), d.rng.Int63n(1<<47) - 1<<46},
		{5, 1<<47 - 200}, {subScale - 7, -(1 << 47) + 200}}
	for ei := range embs {
		if !d.full && ei != ci%len(embs) && ei != (ci/5+2)%len(embs) {
			continue
		}
		e := embs[ei]
		z := new(big.Int).Mul(bi(im), bi(subScale))
		z.Add(z, bi(e.b))
		z.Add(z, new(big.Int).Mul(bi(e.s), bi(subUnits)))
		if !fits(z) {
			d.skip["ci-embedding-overflow"]++
			continue
		}
		d.ci("gen", z.Int64(), &e, im)
	}
}

func (d *driver) ciGrid(nrand int) {
	g := []int64{0, 1, -1, 65535, -65535, 65536, -65536, 65537, -65537, 131071, -131071, 131072, -131072, 32768, -32768,
		math.MinInt64, math.MinInt64 + 1, math.MinInt64 + 65535, math.MinInt64 + 65536, math.MaxInt64, math.MaxInt64 - 65535, math.MaxInt64 - 65536,
		1 << 32, -(1 << 32), 1<<32 + 1, -(1<<32 + 1), 1<<48 - 1, -(1<<48 - 1), 1 << 62, -(1 << 62), -(1 << 16) - 1<<15, 1<<16 + 1<<15}
	for _, i := range g {
		d.ci("grid", i, nil, 0)
	}
	for k := 0; k < nrand; k++ {
		var i int64
		switch k % 3 {
		case 0:
			i = int64(d.rng.Uint64())
		case 1:
			i = d.rng.Int63n(1<<20) - 1<<19
		default: // a nanosecond count with a random fraction, either sign
			i = (d.rng.Int63n(2000000000)-1000000000)<<16 + d.rng.Int63n(65536)
		}
		d.ci("rnd", i, nil, 0)
	}
}

// ------------------------------------------------------------------ ts
type tsRec struct {
	K        string  `json:"k"`
	Src      string  `json:"src"`
	Img      bool    `json:"img"`
	In48     bool    `json:"in48"` // input inside the property's range
	Panicked bool    `json:"panicked"`
	Sec      int64   `json:"sec"` // model image of the input / of the time that came back
	Ns       int64   `json:"ns"`
	BSec     int64   `json:"bsec"`
	BNs      int64   `json:"bns"`
	Sd       []int64 `json:"sd"`  // input seconds, base-256 digits
	Nsr      int64   `json:"nsr"` // input nanoseconds
	Tsb      []int64 `json:"tsb"` // Timestamp.Seconds as returned
	Tsns     int64   `json:"tsns"`
	Bd       []int64 `json:"bd"` // seconds of TimeFromTimestamp(TimestampFromTime(t))
	B48      bool    `json:"b48"`
	BNsr     int64   `json:"bnsr"`
	Eq       bool    `json:"eq"`  // back.Equal(t)
	UTC      bool    `json:"utc"` // back.Location() == time.UTC
	Zone     int     `json:"zone"`
}

// embedding of 12-bit model seconds: s_real = sec << sh | bg (bg has no bits in
// the window), ns_real = nsScale*ns + b
type tsEmb struct {
	sh uint
	bg int64
	b  int64
}

func (e tsEmb) ap(secm int64) int64 { return secm<<e.sh | e.bg }
func (e tsEmb) inv(s int64) (int64, bool) {
	mask := int64(1)<<mSecBits - 1
	if s < 0 || s > maxTsSec || s&^(mask<<e.sh) != e.bg {
		return 0, false
	}
	return (s >> e.sh) & mask, true
}

var zones = []*time.Location{time.UTC, time.FixedZone("e", 5*3600+1800), time.FixedZone("w", -11*3600)}

func byteDigits(b [6]uint8) []int64 {
	res := make([]int64, 6)
	for i := range b {
		res[i] = int64(b[i])
	}
	return res
}

func (d *driver) ts(src string, s, ns int64, e *tsEmb, secm, nsm int64) {
	zi := d.rng.Intn(len(zones))
	t := time.Unix(s, ns).In(zones[zi])
	r := tsRec{K: "ts", Src: src, Nsr: ns, Zone: zi, Tsb: make([]int64, 6), Bd: make([]int64, 6)}
	r.Sd, r.In48 = digits6(s)
	var ts csptp.Timestamp
	r.Panicked = catch(func() { ts = csptp.TimestampFromTime(t) })
	if !r.Panicked {
		r.Tsb, r.Tsns = byteDigits(ts.Seconds), clamp(int64(ts.Nanoseconds))
		back := csptp.TimeFromTimestamp(ts)
		r.Bd, r.B48 = digits6(back.Unix())
		r.BNsr = int64(back.Nanosecond())
		r.Eq = back.Equal(t)
		r.UTC = back.Location() == time.UTC
		if e != nil && r.In48 {
			bs, ok := e.inv(back.Unix())
			bn := r.BNsr - e.b
			if ok && bn%nsScale == 0 && small(bn/nsScale) {
				r.Img, r.Sec, r.Ns, r.BSec, r.BNs = true, secm, nsm, bs, bn/nsScale
			} else {
				d.skip["ts-inexact-image"]++
			}
		}
	}
	d.emit("ts", r)
}

func tsEmbs(rng *rand.Rand) []tsEmb {
	rb := rng.Int63() & maxTsSec
	return []tsEmb{{0, 0, 0}, {36, 0, nsScale - 1}, {36, 1<<36 - 1, rng.Int63n(nsScale)},
		{18, rb &^ (int64(0xfff) << 18), 1}, {0, maxTsSec &^ 0xfff, nsScale / 2}, {28, 0, 0}}
}

func (d *driver) tsCase(secm, nsm int64, ci int) {
	if secm < 0 || secm >= 1<<mSecBits { // the model's out-of-range seconds: expected panics
		s := secm
		if secm >= 1<<mSecBits {
			s = maxTsSec + 1 + (secm - 1<<mSecBits)
		}
		d.ts("gen", s, nsm*nsScale, nil, 0, 0)
		return
	}
	embs := tsEmbs(d.rng)
	for ei := range embs {
		if !d.full && ei != ci%len(embs) {
			continue
		}
		e := embs[ei]
		d.ts("gen", e.ap(secm), nsm*nsScale+e.b, &e, secm, nsm)
	}
}

var secGrid = []int64{0, 1, 2, 255, 256, 257, 65535, 65536, 1<<24 - 1, 1 << 24, 1<<31 - 1, 1 << 31, 1<<32 - 1, 1 << 32, 1<<32 + 1,
	1<<40 - 1, 1 << 40, 1<<40 + 1, 1 << 47, 1<<47 - 1, 1<<48 - 2, 1<<48 - 1, 1700000000, 1759400000, 4102444800, 0x0102030405, 0xa1b2c3d4e5f6 & (1<<48 - 1)}
var nsGrid = []int64{0, 1, 2, 999, 1000, 999999, 1000000, 499999999, 500000000, 1 << 24, 1<<24 - 1, 1<<29 - 1, 999999998, 999999999}

func (d *driver) tsGrid(nrand int) {
	for _, s := range secGrid {
		for _, ns := range nsGrid {
			d.ts("grid", s, ns, nil, 0, 0)
		}
	}
	for _, s := range []int64{-1, -2, -62135596800, maxTsSec + 1, maxTsSec + 2, 1 << 50} { // outside: panics expected
		d.ts("grid", s, 0, nil, 0, 0)
		d.ts("grid", s, 999999999, nil, 0, 0)
	}
	for k := 0; k < nrand; k++ {
		s := d.rng.Int63() & maxTsSec
		if k%3 == 1 {
			s >>= uint(d.rng.Intn(48))
		}
		ns := d.rng.Int63n(nsPerSec)
		if k%5 == 2 {
			ns = nsGrid[d.rng.Intn(len(nsGrid))]
		}
		d.ts("rnd", s, ns, nil, 0, 0)
	}
}

// ------------------------------------------------------------------ tr
type trRec struct {
	K        string  `json:"k"`
	Src      string  `json:"src"`
	Valid    bool    `json:"valid"` // nanoseconds < 10^9: inside the property's range
	Panicked bool    `json:"panicked"`
	Ib       []int64 `json:"ib"`   // Timestamp.Seconds given
	Insr     int64   `json:"insr"` // Timestamp.Nanoseconds given
	Ub       []int64 `json:"ub"`   // TimeFromTimestamp(ts).Unix() as digits
	U48      bool    `json:"u48"`
	Unsr     int64   `json:"unsr"` // .Nanosecond()
	UTC      bool    `json:"utc"`
	Ob       []int64 `json:"ob"` // TimestampFromTime(TimeFromTimestamp(ts))
	Onsr     int64   `json:"onsr"`
}

func (d *driver) tr(src string, s, ns int64) {
	var ts csptp.Timestamp
	for i := 5; i >= 0; i-- {
		ts.Seconds[i] = uint8(s >> (8 * uint(5-i)))
	}
	ts.Nanoseconds = uint32(ns)
	r := trRec{K: "tr", Src: src, Valid: ns < nsPerSec, Ib: byteDigits(ts.Seconds), Insr: ns, Ob: make([]int64, 6)}
	t := csptp.TimeFromTimestamp(ts)
	r.Ub, r.U48 = digits6(t.Unix())
	r.Unsr = int64(t.Nanosecond())
	r.UTC = t.Location() == time.UTC
	var back csptp.Timestamp
	r.Panicked = catch(func() { back = csptp.TimestampFromTime(t) })
	if !r.Panicked {
		r.Ob, r.Onsr = byteDigits(back.Seconds), clamp(int64(back.Nanoseconds))
	}
	d.emit("tr", r)
}

func (d *driver) trCase(a []int64, ci int) {
	secm := a[0]<<8 | a[1]<<4 | a[2]
	nsm := a[3]
	embs := tsEmbs(d.rng)
	for ei := range embs {
		if !d.full && ei != ci%len(embs) {
			continue
		}
		e := embs[ei]
		ns := nsm*nsScale + e.b
		if ns > math.MaxInt32 {
			d.skip["tr-ns-beyond-int32"]++
			continue
		}
		d.tr("gen", e.ap(secm), ns)
	}
}

func (d *driver) trGrid(nrand int) {
	for _, s := range secGrid {
		for _, ns := range nsGrid {
			d.tr("grid", s, ns)
		}
		for _, ns := range []int64{nsPerSec, nsPerSec + 1, 2*nsPerSec - 1, 2 * nsPerSec, math.MaxInt32} { // normalised by time.Unix: strict only
			d.tr("grid", s, ns)
		}
	}
	for k := 0; k < nrand; k++ {
		s := d.rng.Int63() & maxTsSec
		if k%3 == 1 {
			s >>= uint(d.rng.Intn(48))
		}
		d.tr("rnd", s, d.rng.Int63n(nsPerSec))
	}
}

// ------------------------------------------------------------------ pp / fq
type ppRec struct {
	K    string `json:"k"`
	Src  string `json:"src"`
	Sp   int64  `json:"sp"`
	Back int64  `json:"back"`
}

func (d *driver) pp(src string, sp int64) {
	back := unixutil.ScaledPPMFromFreq(unixutil.FreqFromScaledPPM(sp))
	d.emit("pp", ppRec{K: "pp", Src: src, Sp: sp, Back: clamp(back)})
}

type ppSweep struct {
	K      string `json:"k"`
	Lo     int64  `json:"lo"`
	Hi     int64  `json:"hi"`
	Count  int64  `json:"count"`
	NBad   int64  `json:"nbad"`   // |back - sp| > 1
	MaxDev int64  `json:"maxdev"` // max |back - sp| (clamped)
	NExact int64  `json:"nexact"`
	NAway  int64  `json:"naway"` // |back| > |sp|
	First  int64  `json:"firstbad"`
}

// every scaled-ppm value of the kernel's range
func (d *driver) ppSweepAll() {
	r := ppSweep{K: "ppsweep", Lo: -maxSPPM, Hi: maxSPPM}
	for sp := -maxSPPM; sp <= maxSPPM; sp++ {
		back := unixutil.ScaledPPMFromFreq(unixutil.FreqFromScaledPPM(sp))
		dev := back - sp
		if dev < 0 {
			dev = -dev
		}
		if dev < 0 || dev > 1<<30 {
			dev = 1 << 30
		}
		r.Count++
		if dev == 0 {
			r.NExact++
		}
		if dev > 1 {
			if r.NBad == 0 {
				r.First = sp
			}
			r.NBad++
		}
		if dev > r.MaxDev {
			r.MaxDev = dev
		}
		if (sp >= 0 && back > sp) || (sp <= 0 && back < sp) {
			r.NAway++
		}
	}
	d.emit("ppsweep", r)
}

type fqRec struct {
	K   string `json:"k"`
	Src string `json:"src"`
	Num int64  `json:"num"`
	Den int64  `json:"den"`
	Sp  int64  `json:"sp"`
}

// frequency num/(den*K) -> scaled ppm (reference only: exact value num/den)
func (d *driver) fq(src string, num, den int64) {
	f := float64(num) / (float64(den) * (65536.0 * 1e6))
	d.emit("fq", fqRec{K: "fq", Src: src, Num: num, Den: den, Sp: clamp(unixutil.ScaledPPMFromFreq(f))})
}

func (d *driver) ppGrid(nrand int) {
	g := []int64{0, 1, 2, 3, 65535, 65536, 65537, 655360, 6553600, 1 << 24, 1<<24 + 1, 1<<24 - 1, 32767996, 32767999, maxSPPM, maxSPPM + 1, maxSPPM + 2, 1 << 25, 1000000, 15625, 15626}
	for _, sp := range g {
		d.pp("grid", sp)
		d.pp("grid", -sp)
	}
	for k := 0; k < nrand; k++ {
		d.pp("rnd", d.rng.Int63n(2*maxSPPM+1)-maxSPPM)
	}
	for k := 0; k < nrand/4; k++ {
		d.fq("rnd", d.rng.Int63n(2*maxSPPM+1)-maxSPPM, 1+d.rng.Int63n(9))
	}
}

// ------------------------------------------------------------------ dr
type drRec struct {
	K      string  `json:"k"`
	Src    string  `json:"src"`
	Img    bool    `json:"img"`
	Drift  int64   `json:"drift"`
	Dur    int64   `json:"dur"`
	Got    int64   `json:"got"`
	Emb    int     `json:"emb"`
	IsMax  bool    `json:"is_max"`
	Unkn   bool    `json:"unknown"` // drift == clocks.UnknownDrift: outside the property
	PropOK bool    `json:"prop_ok"`
	Driftl []int64 `json:"driftl"`
	Durl   []int64 `json:"durl"`
	Gotl   []int64 `json:"gotl"`
}

var discard = slog.New(slog.DiscardHandler)

// Drift on a clock that is only constructed: Step/Adjust/Sleep are never called.
func (d *driver) dr(src string, drift, dur int64, img bool, dm, um int64, emb int) {
	ex := new(big.Rat).SetFrac(new(big.Int).Mul(bi(drift), bi(dur)), bi(nsPerSec))
	lim := new(big.Rat).SetInt(new(big.Int).Lsh(bi(1), 62))
	if new(big.Rat).Abs(ex).Cmp(lim) >= 0 {
		d.skip["dr-result-beyond-int64"]++
		return
	}
	c := clocks.NewSystemClock(discard, time.Duration(drift))
	got := int64(c.Drift(time.Duration(dur)))
	r := drRec{K: "dr", Src: src, Emb: emb, Unkn: time.Duration(drift) == clocks.UnknownDrift, IsMax: got == math.MaxInt64, Driftl: limbs(drift), Durl: limbs(dur), Gotl: limbs(got)}
	// |got - dur*drift/10^9| <= 1 ns + 2^-49 relative (five float64 roundings and one truncation)
	diff := new(big.Rat).Sub(new(big.Rat).SetInt(bi(got)), ex)
	tol := new(big.Rat).Abs(ex)
	tol.Mul(tol, new(big.Rat).SetFrac(bi(1), new(big.Int).Lsh(bi(1), 49)))
	tol.Add(tol, new(big.Rat).SetInt64(1))
	r.PropOK = diff.Abs(diff).Cmp(tol) <= 0
	if img {
		r.Img, r.Drift, r.Dur, r.Got = true, dm, um, clamp(got)
	}
	d.emit("dr", r)
}

func (d *driver) drCase(dm, um int64) {
	// drift_real x dur_real / 10^9 = dm x um / 10^3 in all three embeddings
	for ei, e := range [][2]int64{{1, nsScale}, {1000, 1000}, {nsScale, 1}} {
		d.dr("gen", dm*e[0], um*e[1], true, dm, um, ei)
	}
}

func (d *driver) drGrid(nrand int) {
	drifts := []int64{1, 10, 1000, 10000, 500000, 1000000, 999999999, nsPerSec, -10000, 3, 7}
	durs := []int64{0, 1, -1, 999999999, nsPerSec, nsPerSec + 1, -nsPerSec, 1500000000, 3600 * nsPerSec, 86400 * nsPerSec, 64 * nsPerSec, 1 << 53, 1<<53 + 1, 1 << 62, -(1 << 62), math.MaxInt64, math.MinInt64 + 1}
	for _, dr := range drifts {
		for _, du := range durs {
			d.dr("grid", dr, du, false, 0, 0, -1)
		}
	}
	d.dr("grid", 0, nsPerSec, false, 0, 0, -1) // clocks.UnknownDrift
	for k := 0; k < nrand; k++ {
		dr := d.rng.Int63n(2000000) + 1
		if k%4 == 3 {
			dr = d.rng.Int63n(4*nsPerSec) - 2*nsPerSec
			if dr == 0 {
				dr = 1
			}
		}
		du := d.rng.Int63() >> uint(d.rng.Intn(50))
		if k%2 == 1 {
			du = -du
		}
		d.dr("rnd", dr, du, false, 0, 0, -1)
	}
}

// ------------------------------------------------------------------ fm
type fmRec struct {
	K       string  `json:"k"`
	Src     string  `json:"src"`
	Img     bool    `json:"img"`
	Dom     bool    `json:"dom"`     // no intermediate result overflows int64 (the property's quantifier)
	WrapEmb bool    `json:"wrapemb"` // embedding factor 2^(64-W): wrap-around preserved
	D       int64   `json:"d"`
	Th      int64   `json:"th"`
	C1      int64   `json:"c1"`
	C3      int64   `json:"c3"`
	Utc     int64   `json:"utc"`
	X10     int64   `json:"x10"`
	X32     int64   `json:"x32"`
	Off     int64   `json:"off"`
	Mean    int64   `json:"mean"`
	C2S     int64   `json:"c2s"`
	S2C     int64   `json:"s2c"`
	OffOK   bool    `json:"off_ok"`
	MeanOK  bool    `json:"mean_ok"`
	Dl      []int64 `json:"dl"`
	Thl     []int64 `json:"thl"`
	Offl    []int64 `json:"offl"`
	Meanl   []int64 `json:"meanl"`
	Emb     int     `json:"emb"`
}

var bases = []time.Time{
	time.Unix(0, 0), time.Unix(1759400000, 123456789), time.Unix(1<<32, 999999999), time.Unix(1<<47, 1),
	time.Date(1969, 12, 31, 23, 59, 59, 999999999, time.UTC), time.Date(2036, 2, 7, 6, 28, 15, 0, time.FixedZone("x", 3600)),
}

func allFit(zs ...*big.Int) bool {
	for _, z := range zs {
		if !fits(z) {
			return false
		}
	}
	return true
}

func add(a *big.Int, bs ...*big.Int) *big.Int {
	z := new(big.Int).Set(a)
	for _, b := range bs {
		z.Add(z, b)
	}
	return z
}
func neg(a *big.Int) *big.Int { return new(big.Int).Neg(a) }

// fm runs the four formulas on t1 = t0 + d + th + c1, t3 = t2 + d - th + c3.
// a = 0: raw 64-bit inputs (no model image).
func (d *driver) fm(src string, dv, th, c1, c3, utc int64, a int64, m []int64, wrapEmb bool, emb int) {
	D, T, C1, C3 := bi(dv), bi(th), bi(c1), bi(c3)
	x10, x32 := add(D, T, C1), add(D, neg(T), C3)
	if !allFit(x10, x32) {
		d.skip["fm-t1-or-t3-not-constructible"]++
		return
	}
	t0 := bases[d.rng.Intn(len(bases))]
	t2 := bases[d.rng.Intn(len(bases))]
	t1 := t0.Add(time.Duration(x10.Int64()))
	t3 := t2.Add(time.Duration(x32.Int64()))
	off := int64(csptp.ClockOffset(t0, t1, t2, t3, time.Duration(c1), time.Duration(c3)))
	mean := int64(csptp.MeanPathDelay(t0, t1, t2, t3, time.Duration(c1), time.Duration(c3)))
	c2s := int64(csptp.C2SDelay(t0, t1, time.Duration(c1), time.Duration(utc)))
	s2c := int64(csptp.S2CDelay(t2, t3, time.Duration(c3), time.Duration(utc)))
	r := fmRec{K: "fm", Src: src, Emb: emb, WrapEmb: wrapEmb, Dl: limbs(dv), Thl: limbs(th), Offl: limbs(off), Meanl: limbs(mean)}
	two := bi(2)
	r.Dom = allFit(add(D, T), add(D, neg(T)), new(big.Int).Mul(D, two), new(big.Int).Mul(T, two))
	r.OffOK, r.MeanOK = off == th, mean == dv
	if a != 0 {
		ok := true
		inv := func(v int64) int64 {
			if v%a != 0 || !small(v/a) {
				ok = false
				return 0
			}
			return v / a
		}
		o, mn, cs, sc := inv(off), inv(mean), inv(c2s), inv(s2c)
		if ok {
			r.Img = true
			r.D, r.Th, r.C1, r.C3, r.Utc = m[0], m[1], m[2], m[3], m[4]
			r.X10, r.X32 = m[0]+m[1]+m[2], m[0]-m[1]+m[3]
			r.Off, r.Mean, r.C2S, r.S2C = o, mn, cs, sc
		} else {
			d.skip["fm-inexact-image"]++
		}
	}
	d.emit("fm", r)
}

func (d *driver) fmCase(m []int64, w int, ci int) {
	type emb struct {
		a    int64
		wrap bool
	}
	embs := []emb{{1, false}, {3, false}, {nsPerSec, false}, {1<<40 + 1, false}, {int64(1) << uint(64-w), true}}
	for ei, e := range embs {
		if !d.full && ei != ci%len(embs) && ei != (ci/5+3)%len(embs) {
			continue
		}
		v := make([]int64, 5)
		ok := true
		for i := range v {
			z := new(big.Int).Mul(bi(m[i]), bi(e.a))
			if !fits(z) {
				ok = false
				break
			}
			v[i] = z.Int64()
		}
		if !ok {
			d.skip["fm-embedding-overflow"]++
			continue
		}
		d.fm("gen", v[0], v[1], v[2], v[3], v[4], e.a, m, e.wrap, ei)
	}
}

func (d *driver) fmGrid(nrand int) {
	vs := []int64{0, 1, -1, 2, -2, 999999999, nsPerSec, -nsPerSec, 37 * nsPerSec, 1 << 32, -(1 << 32), 1<<53 + 1, 1 << 60, -(1 << 60), 1<<61 - 1, -(1<<61 - 1), 1 << 61, 1<<62 - 1, -(1 << 62)}
	for _, dv := range vs {
		for _, th := range vs {
			d.fm("grid", dv, th, vs[d.rng.Intn(len(vs))]>>2, vs[d.rng.Intn(len(vs))]>>2, 37*nsPerSec, 0, nil, false, -1)
		}
	}
	for k := 0; k < nrand; k++ {
		sh := uint(d.rng.Intn(61))
		rv := func() int64 {
			v := d.rng.Int63() >> 2 >> sh
			if d.rng.Intn(2) == 0 {
				v = -v
			}
			return v
		}
		d.fm("rnd", rv(), rv(), rv()>>1, rv()>>1, rv()>>3, 0, nil, false, -1)
	}
}

// ------------------------------------------------------------------ main
func TestC18(t *testing.T) {
	cases := vio.ReadCases[tcase](t)
	out := vio.Create(t)
	defer out.Close()
	d := &driver{out: out, rng: vio.Rand(), full: vio.Thorough(), n: map[string]int{}, skip: map[string]int{}}
	nr := 1500
	if d.full {
		nr = 20000
	}
	if len(cases) == 0 {
		t.Fatal("no cases")
	}
	// header: word size of the model the cases come from (UnitConvTrace.ModelW)
	d.emit("hdr", struct {
		K string `json:"k"`
		W int    `json:"w"`
	}{"hdr", cases[0].W})
	for ci, c := range cases {
		switch c.K {
		case "tv":
			d.tvCase(c.A[0], ci)
		case "ci":
			d.ciCase(c.A[0], ci)
		case "ts":
			d.tsCase(c.A[0], c.A[1], ci)
		case "tr":
			d.trCase(c.A, ci)
		case "pp":
			for _, sp := range []int64{c.A[0], c.A[0] * ppmScale, c.A[0]*ppmScale + 1, c.A[0]*ppmScale - 1} {
				d.pp("gen", sp)
			}
		case "fq":
			d.fq("gen", c.A[0]*ppmScale, c.A[1])
			d.fq("gen", c.A[0]*ppmScale+d.rng.Int63n(ppmScale), c.A[1])
		case "dr":
			d.drCase(c.A[0], c.A[1])
		case "fm":
			d.fmCase(c.A, c.W, ci)
		default:
			t.Fatalf("unknown case kind %q", c.K)
		}
	}
	d.tvGrid(nr)
	d.ciGrid(nr)
	d.tsGrid(nr)
	d.trGrid(nr)
	d.ppGrid(nr)
	d.ppSweepAll()
	d.drGrid(nr)
	d.fmGrid(nr)
	t.Logf("C18 cases=%d records=%v skips=%v", len(cases), d.n, d.skip)
	for _, k := range []string{"tv", "ci", "ts", "tr", "pp", "ppsweep", "fq", "dr", "fm"} {
		if d.n[k] == 0 {
			t.Fatalf("no %s record produced", k)
		}
	}
}
