SPECIFICATION SpecExh
CONSTANTS
  P = 3
  DstLists <- DLAll
  Dsts <- Dsts12
  IAs <- IA1
  MaxN = 1
  Delays <- D04
  Horizon = 10
  MaxUpd = 4
  KeepOnFail = FALSE
  Dedup = FALSE
  GenLen = 0
INVARIANTS TypeOK TickNotOverdue OnGridOrAfterOverrun PathsFromLastRefresh LocalIACurrent NotTooRare CountBound
