SPECIFICATION GSpec
CONSTANTS
  Transport = "tls"
  ResidueAfterFailure = FALSE
  ShortCookieRead = FALSE
  DialResetsData = TRUE
  Alpns <- AlpnsOk
  Alphabet <- AlphaLen
  CutRecs <- CutLen
  MaxRecs = 5
  MaxDials = 1
  MaxCalls = 1
  MaxStore = 0
  CtxMode = "ignored"
  MaxStalls = 0
  StaleNextHop = FALSE
  Tails = TRUE
  Vias <- ViasAny
CONSTRAINT LenFamilyDeep
INVARIANTS EmitLenDeep RunAgrees
