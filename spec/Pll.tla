-------------------------------- MODULE Pll --------------------------------
(***************************************************************************)
(* The phase-locked-loop clock discipline of                               *)
(*   core/sync/adjustments/pll.go   (NewPLL and Pll.Do(offset, weight))    *)
(* driven through the timebase.SystemClock interface                       *)
(*   base/timebase/sysclk.go        (Epoch, Now, Step, Adjust)             *)
(* whose Linux implementation (driver/clocks/sysclk_linux.go) increments   *)
(* its epoch on every Step.  One action, Update, = one call of Do: the     *)
(* environment advances the clock, possibly bumps the clock epoch          *)
(* externally, then Do(off, w) runs to completion (Do is sequential and    *)
(* holds no lock; the clock is read once per call).                        *)
(*                                                                         *)
(* Units.  Time is counted in units of 1/U second (U = 1000: ms) plus an   *)
(* "era" counter: an era step is a clock advance of >= 2^63 ns, for which  *)
(* time.Time.Sub saturates (SatDur).  Offsets are model values ordered     *)
(* like the int64 nanosecond values they stand for: OneMs is 1 ms, OffMax  *)
(* is MaxInt64, OffMin = -OffMax-1 is MinInt64 (timemath.Inv saturates     *)
(* there).  The slew p is counted in units of which PB make up 500 ppm of  *)
(* one second (PB = 500000: ns).  The proportional term a*offset is kept   *)
(* symbolic (Raw): any value of the sign of the offset; what the code      *)
(* guarantees, and what the property is about, is the clamp.  The          *)
(* integrator l.i is not modelled (its finiteness is observed, see trace). *)
(***************************************************************************)
EXTENDS Integers, Sequences, TLC

CONSTANTS
  U,            \* time units per second
  OneMs,        \* model offset standing for 1 ms
  OffMax,       \* model offset standing for MaxInt64 ns
  PB,           \* slew units per 500 ppm x 1 s
  SatSecs,      \* whole seconds of a saturated time.Time.Sub (real: 9223372037)
  Advs,         \* clock advances between updates (units)
  Offs,         \* measured offsets (model values)
  Weights,      \* measurement weights (float64: integers, or WNaN / WPosInf / WNegInf)
  AllowSat,     \* BOOLEAN: also saturating advances (>= 2^63 ns)
  BumpDen,      \* an external epoch bump happens for 1 of BumpDen choices
  InitClkEpochs,\* clock epoch at creation of the Pll (Pll.epoch starts at 0)
  MaxLen,       \* bound on the number of updates per history
  RawMags(_),   \* symbolic |a * offset| samples, given the clamp bound
  \* switches: FALSE = what pll.go does (since the repairs 3830eca, 3f0dd14),
  \* TRUE = the earlier behaviour, kept so that TLC can show what it breaks
  StepUsesDoubleInv,  \* Step(Inv(Inv(off))): MinInt64 came back as MinInt64+1
  DurationWraps       \* timemath.Duration(ceil(dt)) overflowed int64 when Sub saturated

OffMin == -OffMax - 1

(***************************************************************************)
(* Weights are float64.  Finite ones are modelled by integers; three       *)
(* reserved values stand for NaN, +Inf and -Inf.  Comparisons follow       *)
(* IEEE-754 as Go does: every ordered comparison with NaN is false (so     *)
(* `weight > 3` is false and `weight <= 3` is false too), +Inf is above    *)
(* and -Inf below every finite value.                                      *)
(***************************************************************************)
WNaN    == -999
WPosInf == 998
WNegInf == -998
WGt(w, c) == IF w = WNaN THEN FALSE ELSE IF w = WPosInf THEN TRUE ELSE IF w = WNegInf THEN FALSE ELSE w > c
WLt(w, c) == IF w = WNaN THEN FALSE ELSE IF w = WPosInf THEN FALSE ELSE IF w = WNegInf THEN TRUE ELSE w < c
\* tracking: `if weight < 50 {lo} else if weight < 150 {mid} else {stiffening l.a, l.b}`;
\* NaN and +Inf fail both tests and take the third branch
GainClass(w) == IF WLt(w, 50) THEN "lo" ELSE IF WLt(w, 150) THEN "mid" ELSE "stiff"
NegDur == -1                          \* a negative time.Duration (overflowed conversion)
SatDur == (SatSecs - 1) * U + 1       \* saturated Sub: more than every threshold

Time0 == [e |-> 0, t |-> 0]
TAdd(x, adv, sat) == [e |-> x.e + (IF sat THEN 1 ELSE 0), t |-> x.t + adv]
\* time.Time.Sub; readings are non-decreasing, so a.t >= b.t
TSub(a, b) == IF a.e > b.e THEN SatDur ELSE a.t - b.t

\* timemath.Inv, time.Duration.Abs (both saturate at MinInt64)
Inv(d)   == IF d = OffMin THEN OffMax ELSE -d
GoAbs(d) == IF d = OffMin THEN OffMax ELSE IF d < 0 THEN -d ELSE d
Abs(x)   == IF x < 0 THEN -x ELSE x
Sgn(x)   == IF x < 0 THEN -1 ELSE IF x > 0 THEN 1 ELSE 0
\* math.Ceil(dt) for dt = x/U seconds, x >= 0
CeilSecs(x) == (x + U - 1) \div U
Clamp(p, b) == IF p > b THEN b ELSE IF p < -b THEN -b ELSE p
\* timemath.Duration(d) for whole seconds d, counted in seconds
DurOf(d) == IF d >= SatSecs THEN (IF DurationWraps THEN NegDur ELSE SatSecs - 1) ELSE d

NoAct == [k |-> "none", x |-> 0, p |-> 0, d |-> 0, ffin |-> TRUE]

VARIABLES
  mode, epoch, t0, t,      \* Pll.mode, Pll.epoch, Pll.t0, Pll.t
  now, clkEpoch,           \* the clock: reading, epoch
  estart,                  \* clock side: reading at which the current clock epoch began
  act,                     \* the actuation call made by the last update
  lastIn,                  \* the last update's inputs and pre-state facts
  hist                     \* history of updates (inputs and expected outputs)

vars == <<mode, epoch, t0, t, now, clkEpoch, estart, act, lastIn, hist>>

NoIn == [off |-> 0, w |-> 0, modeB |-> 0, obs |-> FALSE, since |-> 0, dt |-> 0]

Init ==
  /\ mode = 0 /\ epoch = 0
  /\ t0 = Time0 /\ t = Time0 /\ now = Time0
  /\ clkEpoch \in InitClkEpochs
  /\ estart = Time0
  /\ act = NoAct /\ lastIn = NoIn /\ hist = << >>

(***************************************************************************)
(* One call Do(in.off, in.w) after the clock advanced by in.adv (or an era *)
(* if in.sat) and, if in.bump, the clock epoch was bumped externally at    *)
(* the new reading.  raw is the symbolic proportional term.  The panics on  *)
(* mdt < 0 / dt < 0 cannot happen: readings are non-decreasing.            *)
(***************************************************************************)
Do(in, raw) ==
  LET now1    == TAdd(now, in.adv, in.sat)
      ce1     == IF in.bump THEN clkEpoch + 1 ELSE clkEpoch
      es1     == IF in.bump THEN now1 ELSE estart
      offset  == Inv(in.off)                    \* offset = timemath.Inv(offset)
      changed == epoch # ce1                    \* l.epoch != l.clk.Epoch()
      m       == IF changed THEN 0 ELSE mode    \*   l.mode = 0
      mdt     == TSub(now1, t0)
      dt      == TSub(now1, t)
      \* case 1: awaiting step
      fire1   == m = 1 /\ mdt > 2 * U /\ WGt(in.w, 3)   \* weight > 3 (false for NaN)
      step    == fire1 /\ GoAbs(offset) > OneMs
      stepx   == IF StepUsesDoubleInv THEN Inv(offset) ELSE in.off
      \* case 2: awaiting PLL
      fire2   == m = 2 /\ mdt > 6 * U
      \* case 3: tracking.  The gains (a, b) are picked by weight class (< 50,
      \* < 150, otherwise the stiffening l.a, l.b once mdt > 300 s); they only
      \* enter the symbolic term raw = a * offset and the integrator.
      \* d = math.Ceil(dt); p clamped to +-d * 500e-6
      d       == IF m = 3 THEN CeilSecs(dt) ELSE 0
      p       == IF m = 3 THEN Clamp(raw, PB * d) ELSE 0
      m2      == IF m = 0 \/ fire1 \/ fire2 THEN m + 1 ELSE m
  IN
  /\ now' = now1
  /\ epoch' = ce1
  /\ mode' = m2
  /\ t0' = IF m = 0 \/ fire1 \/ fire2 THEN now1 ELSE t0
  /\ t' = now1
  /\ act' = IF step THEN [k |-> "step", x |-> stepx, p |-> 0, d |-> 0, ffin |-> TRUE]
            ELSE IF d > 0 THEN [k |-> "adjust", x |-> 0, p |-> p, d |-> DurOf(d), ffin |-> TRUE]
            ELSE NoAct
  \* the clock's Step increments its epoch (sysclk_linux.go)
  /\ clkEpoch' = IF step THEN ce1 + 1 ELSE ce1
  /\ estart' = IF step THEN now1 ELSE es1
  /\ lastIn' = [off |-> in.off, w |-> in.w, modeB |-> mode, obs |-> changed,
                since |-> TSub(now1, es1), dt |-> TSub(now1, now)]
  /\ hist' = Append(hist, [adv |-> in.adv, sat |-> in.sat, bump |-> in.bump, off |-> in.off, w |-> in.w,
                           mode |-> m2, gc |-> IF m = 3 THEN GainClass(in.w) ELSE "none",
                           k |-> IF step THEN "step" ELSE IF d > 0 THEN "adjust" ELSE "none",
                           x |-> IF step THEN stepx ELSE 0,
                           d |-> IF d > 0 /\ ~step THEN DurOf(d) ELSE 0])

\* bound of the clamp that applies to input in (0 outside tracking)
BoundFor(in) ==
  LET now1 == TAdd(now, in.adv, in.sat)
      ce1  == IF in.bump THEN clkEpoch + 1 ELSE clkEpoch
  IN IF epoch = ce1 /\ mode = 3 THEN PB * CeilSecs(TSub(now1, t)) ELSE 0

Raws(in) ==
  LET b == BoundFor(in)
  IN IF b = 0 \/ in.off = 0 THEN {0} ELSE {Sgn(in.off) * r : r \in RawMags(b)}

Update ==
  /\ Len(hist) < MaxLen
  /\ \E bi \in 1 .. BumpDen, adv \in Advs \cup (IF AllowSat THEN {-1} ELSE {}), off \in Offs, w \in Weights :
       LET in == [adv |-> IF adv < 0 THEN 0 ELSE adv, sat |-> adv < 0, bump |-> bi = 1, off |-> off, w |-> w]
       IN \E raw \in Raws(in) : Do(in, raw)

Next == Update
Spec == Init /\ [][Next]_vars

TypeOK ==
  /\ mode \in 0 .. 3
  /\ act.k \in {"none", "step", "adjust"}
  /\ clkEpoch >= epoch

(***************************************************************************)
(* Property section (C19).  Every clause is a predicate of the actuation   *)
(* call a, of the facts li about the update that made it (measured offset  *)
(* off, weight w, mode at entry modeB, obs = an epoch change was observed  *)
(* through clk.Epoch() on this call, since = time since the current clock  *)
(* epoch began, dt = time since the previous update) and of the mode m     *)
(* after the update.  The same predicates are evaluated by                 *)
(* spec/trace/PllTrace.tla on the calls recorded from the real Pll.        *)
(***************************************************************************)
\* steps only while awaiting the initial step ...
StepModeP(a, li)   == a.k = "step" => (li.modeB = 1 /\ ~li.obs)
\* ... more than 2 s after the start of the current clock epoch ...
StepWaitP(a, li)   == a.k = "step" => li.since > 2 * U
\* ... measurement weight above 3 (NaN is not above 3) ...
StepWeightP(a, li) == a.k = "step" => WGt(li.w, 3)
\* ... offset above 1 ms ...
StepOffsetP(a, li) == a.k = "step" => Abs(li.off) > OneMs
\* ... and by exactly the measured offset
StepAmountP(a, li) == a.k = "step" => a.x = li.off
StepOnlyInStartupP(a, li) ==
  StepModeP(a, li) /\ StepWaitP(a, li) /\ StepWeightP(a, li) /\ StepOffsetP(a, li) /\ StepAmountP(a, li)
\* once tracking it only slews
TrackingOnlySlewsP(a, li) == (li.modeB = 3 /\ ~li.obs) => a.k # "step"
\* by at most 500 ppm of the elapsed whole seconds per update
SlewBoundP(a, li) == a.k = "adjust" => Abs(a.p) <= PB * CeilSecs(li.dt)
\* never a negative or zero duration, never a non-finite frequency
PositiveDurationP(a) == a.k = "adjust" => a.d > 0
FiniteFrequencyP(a)  == a.k = "adjust" => a.ffin
\* an epoch change observed through the clock's epoch restarts the start-up
\* sequence: nothing is actuated on that call and the Pll is back at the
\* beginning (the renewed 2 s wait is StepWaitP: since counts from the epoch start)
EpochRestartsP(a, li, m) == li.obs => (a.k = "none" /\ m \in {0, 1})

StepOnlyInStartup == StepOnlyInStartupP(act, lastIn)
TrackingOnlySlews == TrackingOnlySlewsP(act, lastIn)
SlewBound         == SlewBoundP(act, lastIn)
PositiveDuration  == PositiveDurationP(act)
FiniteFrequency   == FiniteFrequencyP(act)
EpochRestarts     == EpochRestartsP(act, lastIn, mode)
\* the same as one action property (every update's call satisfies every clause)
C19Holds == StepOnlyInStartup /\ TrackingOnlySlews /\ SlewBound /\ PositiveDuration /\ FiniteFrequency /\ EpochRestarts
C19Step  == [][C19Holds']_vars

(***************************************************************************)
(* Lemmas about the implementation state (spec only; they explain why the  *)
(* property holds: the Pll's own t0 is never before the epoch start it is  *)
(* waiting on, and is reset by every observed epoch change).               *)
(***************************************************************************)
WaitAnchored == (mode \in {1, 2, 3} /\ epoch = clkEpoch) => TSub(now, t0) <= TSub(now, estart)
RestartResetsT0 == lastIn.obs => (t0 = now /\ mode = 1)
AlwaysStamped == hist # << >> => t = now
OneEpochAhead == hist # << >> => (clkEpoch \in {epoch, epoch + 1} /\ (clkEpoch # epoch <=> act.k = "step"))
Lemmas == WaitAnchored /\ RestartResetsT0 /\ AlwaysStamped /\ OneEpochAhead
LemmaStep == [][Lemmas']_vars
=============================================================================
