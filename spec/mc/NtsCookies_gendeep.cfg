SPECIFICATION HSpec
CONSTANTS
  PoolMax = 8
  CookieLen = 124
  MaxPacketLen = 1280
  PlaceholderTypedAsCookie = FALSE
  CapReply = TRUE
  Day = 2
  Ticks <- GTicks
  Horizon = 60
  MaxEx = 40
  ProbeNs <- GProbes
  ProbeUids <- GUids
  Exhaustive = FALSE
  Biases <- BiasAll
  TickPct = 12
  ProbePct = 8
INVARIANTS Emit
PROPERTIES StepOfSpec
