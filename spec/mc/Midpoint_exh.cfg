SPECIFICATION Spec
CONSTANTS
  W = 6
  Vals <- ValsExh
  MaxN = 5
INVARIANTS Contain TightEquiv MedIn PermInv NoWrap
