SPECIFICATION GSpec
CONSTANTS
  Transport = "tls"
  ResidueAfterFailure = FALSE
  ShortCookieRead = FALSE
  DialResetsData = TRUE
  Alpns <- AlpnsOk
  Alphabet <- AlphaStallDeep
  CutRecs <- CutStallDeep
  MaxRecs = 4
  MaxDials = 1
  MaxCalls = 1
  MaxStore = 0
  CtxMode = "ignored"
  MaxStalls = 1
  StaleNextHop = FALSE
  Tails = TRUE
  Vias <- ViasAny
INVARIANTS EmitStalled RunAgrees
