package c03

import (
	"context"
	"fmt"
	"log/slog"
	"net"
	"net/netip"

	"github.com/google/gopacket"
	"github.com/scionproto/scion/pkg/addr"
	"github.com/scionproto/scion/pkg/slayers"
	"github.com/scionproto/scion/pkg/slayers/path/empty"
	"github.com/scionproto/scion/pkg/snet"
	spath "github.com/scionproto/scion/pkg/snet/path"

	"example.com/scion-time/core/client"
	"example.com/scion-time/net/scion"
	"example.com/scion-time/net/udp"
)

// Transport hides whether the client under test is the IP or the SCION client.
// The NTP payloads and the whole C03/C05 logic are the same; only the datagram
// framing (SCION/UDP over a same-AS empty path) and the client API differ.
type Transport interface {
	Name() string
	Measure(ctx context.Context, n *Net) (MeasureResult, error)
	// Unwrap extracts the NTP payload of a datagram sent by the client.
	Unwrap(b []byte) ([]byte, *Meta, error)
	// Wrap frames an NTP payload as a datagram for the client; v selects deviations
	// from the genuine framing (C05): "", "srcIA", "srcHost", "dstIA", "dstHost", "scmp".
	Wrap(ntp []byte, m *Meta, v string) []byte
	// WrapFwd frames a genuine response as the client's end host hands it to the
	// client's socket: opt != nil is the data of the end-to-end option 253 the
	// end-host forwarder appended (SCION only; the IP transport has no such thing).
	WrapFwd(ntp []byte, m *Meta, opt []byte) []byte
	Prev() client.VerifPrev
	SetPrev(client.VerifPrev)
	ResetIL()
	InIL() bool
}

type Meta struct {
	SrcIA, DstIA     addr.IA
	SrcHost, DstHost netip.Addr
	SrcPort, DstPort uint16
}

// ------------------------------------------------------------------------ IP
type ipT struct{ c *client.IPClient }

func (t *ipT) Name() string { return "ip" }
func (t *ipT) Measure(ctx context.Context, n *Net) (MeasureResult, error) {
	na := n.N.addr()
	ts, off, err := client.MeasureClockOffsetIP(ctx, t.c.Log, t.c,
		&net.UDPAddr{IP: net.ParseIP("127.0.0.1")},
		&net.UDPAddr{IP: na.Addr().AsSlice(), Port: int(na.Port())})
	return MeasureResult{ts, off, err}, nil
}
func (t *ipT) Unwrap(b []byte) ([]byte, *Meta, error)         { return b, &Meta{}, nil }
func (t *ipT) Wrap(ntp []byte, m *Meta, v string) []byte      { return ntp }
func (t *ipT) WrapFwd(ntp []byte, m *Meta, opt []byte) []byte { return ntp }
func (t *ipT) Prev() client.VerifPrev                         { return t.c.VerifPrev() }
func (t *ipT) SetPrev(p client.VerifPrev)                     { t.c.VerifSetPrev(p) }
func (t *ipT) ResetIL()                                       { t.c.ResetInterleavedMode() }
func (t *ipT) InIL() bool                                     { return t.c.InInterleavedMode() }

// --------------------------------------------------------------------- SCION
type scionT struct {
	c             *client.SCIONClient
	local, remote udp.UDPAddr
	ifs           []snet.PathInterface
}

var testIA = addr.MustParseIA("1-ff00:0:110")

func (t *scionT) Name() string { return "scion" }
func (t *scionT) Measure(ctx context.Context, n *Net) (MeasureResult, error) {
	// same-AS empty path whose next hop is the harness network endpoint; the
	// metadata gives it a non-empty fingerprint so that interleaved mode is sticky
	p := spath.Path{Src: t.local.IA, Dst: t.remote.IA, DataplanePath: spath.Empty{}, NextHop: t.remote.Host,
		Meta: snet.PathMetadata{Interfaces: t.ifs}}
	ts, off, err := client.MeasureClockOffsetSCION(ctx, t.c.Log, []*client.SCIONClient{t.c}, t.local, t.remote, []snet.Path{p})
	return MeasureResult{ts, off, err}, nil
}

func (t *scionT) Unwrap(b []byte) ([]byte, *Meta, error) {
	var (
		scn  slayers.SCION
		hbh  slayers.HopByHopExtnSkipper
		e2e  slayers.EndToEndExtnSkipper
		udpl slayers.UDP
	)
	parser := gopacket.NewDecodingLayerParser(slayers.LayerTypeSCION, &scn, &hbh, &e2e, &udpl)
	parser.IgnoreUnsupported = true
	decoded := make([]gopacket.LayerType, 0, 4)
	if err := parser.DecodeLayers(b, &decoded); err != nil {
		return nil, nil, err
	}
	if len(decoded) == 0 || decoded[len(decoded)-1] != slayers.LayerTypeSCIONUDP {
		return nil, nil, fmt.Errorf("client sent a non-UDP SCION packet: %v", decoded)
	}
	sa, err := scn.SrcAddr()
	if err != nil {
		return nil, nil, err
	}
	da, err := scn.DstAddr()
	if err != nil {
		return nil, nil, err
	}
	m := &Meta{SrcIA: scn.SrcIA, DstIA: scn.DstIA, SrcHost: sa.IP(), DstHost: da.IP(),
		SrcPort: udpl.SrcPort, DstPort: udpl.DstPort}
	return append([]byte{}, udpl.Payload...), m, nil
}

func (t *scionT) Wrap(ntp []byte, m *Meta, v string) []byte { return t.wrap(ntp, m, v, nil) }

func (t *scionT) WrapFwd(ntp []byte, m *Meta, opt []byte) []byte { return t.wrap(ntp, m, "", opt) }

func (t *scionT) wrap(ntp []byte, m *Meta, v string, fwdOpt []byte) []byte {
	var scn slayers.SCION
	scn.Version = 0
	scn.FlowID = 1
	scn.SrcIA, scn.DstIA = m.DstIA, m.SrcIA
	srcHost, dstHost := m.DstHost, m.SrcHost
	switch v {
	case "srcIA":
		scn.SrcIA = addr.MustParseIA("1-ff00:0:111")
	case "srcHost":
		srcHost = netip.MustParseAddr("127.0.0.9")
	case "dstIA":
		scn.DstIA = addr.MustParseIA("1-ff00:0:112")
	case "dstHost":
		dstHost = netip.MustParseAddr("127.0.0.8")
	}
	if err := scn.SetSrcAddr(addr.HostIP(srcHost)); err != nil {
		panic(err)
	}
	if err := scn.SetDstAddr(addr.HostIP(dstHost)); err != nil {
		panic(err)
	}
	scn.PathType = empty.PathType
	scn.Path = empty.Path{}
	buffer := gopacket.NewSerializeBuffer()
	opts := gopacket.SerializeOptions{ComputeChecksums: true, FixLengths: true}
	if v == "scmp" {
		scn.NextHdr = slayers.L4SCMP
		scmp := slayers.SCMP{TypeCode: slayers.CreateSCMPTypeCode(slayers.SCMPTypeEchoReply, 0)}
		scmp.SetNetworkLayerForChecksum(&scn)
		echo := slayers.SCMPEcho{Identifier: 1, SeqNumber: 1}
		if err := gopacket.SerializeLayers(buffer, opts, &scn, &scmp, &echo, gopacket.Payload(ntp)); err != nil {
			panic(err)
		}
		return append([]byte{}, buffer.Bytes()...)
	}
	scn.NextHdr = slayers.L4UDP
	udpl := slayers.UDP{SrcPort: m.DstPort, DstPort: m.SrcPort}
	udpl.SetNetworkLayerForChecksum(&scn)
	if fwdOpt != nil {
		// the end-host forwarder's timestamp travels in an end-to-end extension
		// header between the SCION header and UDP (net/scion OptTypeTimestamp)
		scn.NextHdr = slayers.End2EndClass
		ext := slayers.EndToEndExtn{}
		ext.NextHdr = slayers.L4UDP
		ext.Options = []*slayers.EndToEndOption{{OptType: scion.OptTypeTimestamp, OptData: fwdOpt}}
		if err := gopacket.SerializeLayers(buffer, opts, &scn, &ext, &udpl, gopacket.Payload(ntp)); err != nil {
			panic(err)
		}
		return append([]byte{}, buffer.Bytes()...)
	}
	if err := gopacket.SerializeLayers(buffer, opts, &scn, &udpl, gopacket.Payload(ntp)); err != nil {
		panic(err)
	}
	return append([]byte{}, buffer.Bytes()...)
}
func (t *scionT) Prev() client.VerifPrev     { return t.c.VerifPrev() }
func (t *scionT) SetPrev(p client.VerifPrev) { t.c.VerifSetPrev(p) }
func (t *scionT) ResetIL()                   { t.c.ResetInterleavedMode() }
func (t *scionT) InIL() bool                 { return t.c.InInterleavedMode() }

func newTransport(kind string, n *Net) Transport {
	log := slog.New(chanHandler{n.Logs})
	if kind == "scion" {
		na := n.N.addr()
		c := &client.SCIONClient{Log: log, InterleavedMode: true}
		if n.Filter != nil {
			c.Filter = n.Filter
		}
		return &scionT{
			c:      c,
			local:  udp.UDPAddr{IA: testIA, Host: &net.UDPAddr{IP: net.ParseIP("127.0.0.1").To4()}},
			remote: udp.UDPAddr{IA: testIA, Host: &net.UDPAddr{IP: na.Addr().AsSlice(), Port: int(na.Port())}},
			ifs:    []snet.PathInterface{{IA: testIA, ID: 1}, {IA: testIA, ID: 2}},
		}
	}
	c := &client.IPClient{Log: log, InterleavedMode: true}
	if n.Filter != nil {
		c.Filter = n.Filter
	}
	return &ipT{c: c}
}
