SPECIFICATION Spec
CONSTANTS
  ShortCookieRead = FALSE
  Alphabet <- AlphaGenDeep4
  MaxRecs = 2
  MaxChunks = 4
INVARIANTS Emit
