SPECIFICATION FairSpec
CONSTANTS
  Kinds <- KindsAll
  MaxExt = 2
  MaxExtCli = 2
  MaxKe = 1
  MaxCases = 1
  ScDev = 1
  MaxHist = 2
  Bursts = {"vn", "vk", "mix"}
  Wide = FALSE
  ExtLenZeroLoops = TRUE
  NonceLenUnchecked = TRUE
  CookieDecodeUnchecked = TRUE
  PacketOverflowUnchecked = TRUE
  ShortUniqueIdEchoed = TRUE
  CsptpShortDatagram = TRUE
  ScionReverseUnchecked = TRUE
  ScionAddrLenUnchecked = TRUE
  ScionAuthOptUnchecked = TRUE
  ScionMacErrPanics = TRUE
  ScionTsOptUnchecked = TRUE
  ScionTsOptTrusted = TRUE
  CmsgLenUnchecked = TRUE
INVARIANTS TypeOK OutcomeConsistent
PROPERTIES Progress
