------------------------- MODULE NtpAcceptAssocTrace -------------------------
(***************************************************************************)
(* One record per measurement call of the real NTS-enabled client          *)
(* (harness/c05nts TestC05Assoc, ev = "call"): the association the client  *)
(* had (assoc), what the scripted key-exchange peer did (ke), the requests *)
(* the harness saw on the wire (reqs), every datagram it put into the      *)
(* client's socket during the call (ds: abstract datagram + whether the    *)
(* outstanding request was interleaved) and how the call returned (ret:    *)
(* ok = a measurement, error, empty = no error and no measurement - zero   *)
(* time, what MeasureClockOffsetSCION returns when every attempt failed).  *)
(* NTS is enabled in the client's configuration throughout.                *)
(* The per-datagram records of the same run (ev = "dgram") are judged by   *)
(* NtpAcceptTrace.                                                         *)
(***************************************************************************)
EXTENDS Integers, Sequences, FiniteSets, TLC, Json
Nts == TRUE
MaxArrivals == 0
VARIABLES il, queue, retries, state, last, hist, assoc, ke, req
INSTANCE NtpAcceptAssoc

Trace == ndJsonDeserialize("trace.ndjson")
N == Len(Trace)
VARIABLE l
tvars == <<il, queue, retries, state, last, hist, assoc, ke, req>>
TInit == /\ l = 0 /\ il = FALSE /\ queue = << >> /\ retries = 0 /\ state = "trace" /\ last = Genuine(FALSE) /\ hist = << >>
         /\ assoc = "fresh" /\ ke = "pending" /\ req = "none"
TNext == /\ \E j \in 1 .. 16 : l' = 16 * l + j /\ l' <= N
         /\ UNCHANGED tvars
TSpec == TInit /\ [][TNext]_<<l, il, queue, retries, state, last, hist, assoc, ke, req>>
R == Trace[l]

\* monitor (C05): a measurement is reported only on the basis of a datagram that satisfies
\* the acceptance predicate with NTS as CONFIGURED - whatever happened to the key exchange
TCallGenuine == (l > 0 /\ R.ret = "ok") => \E i \in 1 .. Len(R.ds) : AcceptX(R.ds[i].d, R.ds[i].il, Nts)

\* strict: the call did what NtpAcceptAssoc!Fetch does
\*   no request without a cookie; every request carries the NTS fields
SRequest == l > 0 =>
  /\ (ReqOf(R.assoc, R.ke) = "none") = (Len(R.reqs) = 0)
  /\ \A i \in 1 .. Len(R.reqs) : R.reqs[i] = "nts"
\*   a failed exchange ends the call with an error; no exchange while cookies are cached
SOutcome == l > 0 =>
  /\ (R.ke \in KeFail /\ R.assoc # "cached") => R.ret \in {"error", "empty"}
  /\ R.assoc = "cached" => R.nke = 0
=============================================================================
