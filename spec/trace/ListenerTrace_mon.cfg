SPECIFICATION TSpec
INVARIANTS ReplyIffValid ExactlyOne ToSender ReplyHeader NeverAnswersReply HistoryIndependence BoundedTraffic MCounted MRawReverse
