package c08

// Bursts (Robust.tla g.bu, RobustBurst.tla): before the crafted datagram of a case the listener
// child receives concurrent traffic from many source addresses -- the burst composition TLC
// enumerated (a short sequence of datagrams, each from one of a few abstract client addresses,
// well-formed "v" or a copy of the crafted datagram "m"), sent by many goroutines at once, every
// repetition with client addresses never used before.  Each goroutine has its own sockets, so the
// traffic reaches all SO_REUSEPORT receive loops of the child, which share the timestamp store.
//
// Nothing is concluded from unanswered datagrams of a burst (a busy machine drops UDP): the
// observation is whether the child is still there afterwards (its exit is causal evidence), then the
// crafted datagram and the sentinel are sent as for every other case.

import (
	"bytes"
	"encoding/json"
	"fmt"
	"math/rand"
	"net"
	"sync"
	"sync/atomic"
	"time"

	"verif/harness/internal/vio"
)

type bsend struct {
	S int    `json:"s"` // abstract client address
	C string `json:"c"` // "v" well-formed request | "m" the crafted datagram of the case
}

type burstT struct {
	dst     *net.UDPAddr
	crafted []byte
	// a socket for the n-th client address of this lane
	open func(n uint32) (*net.UDPConn, error)
	// a well-formed request of that client and the test that recognises its reply
	valid func(rng *rand.Rand, conn *net.UDPConn, n uint32) ([]byte, func([]byte) bool)
}

type burstStats struct {
	sent, val, ans, addr int64 // datagrams, well-formed requests, of these answered, client addresses used
	ms                   int
}

func defaultBurst(class string) []bsend {
	switch class {
	case "vk":
		return []bsend{{1, "v"}, {2, "v"}, {1, "v"}, {2, "v"}}
	case "mix":
		return []bsend{{1, "v"}, {2, "m"}, {3, "v"}, {1, "m"}}
	}
	return []bsend{{1, "v"}, {2, "v"}, {3, "v"}, {1, "v"}}
}

func (l *lane) runBurst(bt *burstT, comp []bsend) (st burstStats) {
	senders, reps := 24, 6
	if vio.Thorough() {
		senders, reps = 32, 16
	}
	t0 := time.Now()
	end := t0.Add(700 * time.Millisecond)
	srv := l.srv
	var wg sync.WaitGroup
	for w := 0; w < senders; w++ {
		wg.Add(1)
		go func(seed int64) {
			defer wg.Done()
			rng := rand.New(rand.NewSource(seed))
			buf := make([]byte, 4096)
			for rep := 0; rep < reps && time.Now().Before(end) && !srv.exited(); rep++ {
				conns := map[int]*net.UDPConn{}
				ids := map[int]uint32{}
				for _, e := range comp {
					conn := conns[e.S]
					if conn == nil {
						n := atomic.AddUint32(&l.bseq, 1)
						c, err := bt.open(n)
						if err != nil {
							continue
						}
						conn, conns[e.S], ids[e.S] = c, c, n
						atomic.AddInt64(&st.addr, 1)
					}
					if e.C == "m" {
						conn.WriteToUDP(bt.crafted, bt.dst)
						atomic.AddInt64(&st.sent, 1)
						continue
					}
					req, isReply := bt.valid(rng, conn, ids[e.S])
					conn.WriteToUDP(req, bt.dst)
					atomic.AddInt64(&st.sent, 1)
					atomic.AddInt64(&st.val, 1)
					conn.SetReadDeadline(time.Now().Add(40 * time.Millisecond))
					for {
						n, _, err := conn.ReadFromUDP(buf)
						if err != nil {
							break
						}
						if isReply(buf[:n]) {
							atomic.AddInt64(&st.ans, 1)
							break
						}
					}
				}
				for _, c := range conns {
					c.Close()
				}
			}
		}(l.rng.Int63())
	}
	wg.Wait()
	st.ms = int(time.Since(t0).Milliseconds())
	return
}

func (l *lane) burstIP(crafted []byte) *burstT {
	return &burstT{dst: &net.UDPAddr{IP: net.ParseIP(l.srvIP), Port: ntpPort}, crafted: crafted,
		open: func(n uint32) (*net.UDPConn, error) {
			// loopback client addresses of this lane: 127.(32+lane).x.y
			return net.ListenUDP("udp4", &net.UDPAddr{IP: net.IPv4(127, byte(32+l.id%64), byte(n>>8), byte(n))})
		},
		valid: func(rng *rand.Rand, _ *net.UDPConn, _ uint32) ([]byte, func([]byte) bool) {
			req, tx := ntpRequest(rng, "v4c")
			return req, func(b []byte) bool { return len(b) >= 48 && bytes.Equal(b[24:32], tx[:]) }
		}}
}

func (l *lane) burstSCION(crafted []byte, port int) *burstT {
	canon := dgram{Da: "t0l4", Sa: "t0l4", Pt: "empty", Ext: "none", L4: "udp", Ul: "ok"}
	return &burstT{dst: &net.UDPAddr{IP: net.ParseIP(l.srvIP), Port: port}, crafted: crafted,
		open: func(uint32) (*net.UDPConn, error) {
			return net.ListenUDP("udp4", &net.UDPAddr{IP: net.ParseIP(l.fakeIP)})
		},
		valid: func(rng *rand.Rand, conn *net.UDPConn, n uint32) ([]byte, func([]byte) bool) {
			pl, _ := ntpRequest(rng, "v4c")
			mark := rndBytes(rng, 8)
			copy(pl[40:48], mark)
			// the client is identified by the SCION source address: 10.x.y.z, new for every n
			prm := scParams{srcIA: scIA, dstIA: scIA, srcHost: []byte{10, byte(n >> 16), byte(n >> 8), byte(n)}, dstHost: ip4(l.srvIP),
				srcPort: uint16(conn.LocalAddr().(*net.UDPAddr).Port), dstPort: scSrvPort, payload: pl}
			g := canon
			return scBytes(rng, &g, prm), func(b []byte) bool { return bytes.Contains(b, mark) }
		}}
}

// burstBefore runs the burst of a case, if it has one. died: the child is gone (r is the record of that).
func (l *lane) burstBefore(tc *tcase, kind, class string, bt *burstT) (st burstStats, r rec, died bool) {
	if class == "" || class == "na" || class == "none" {
		return
	}
	comp := tc.Burst
	if len(comp) == 0 {
		comp = defaultBurst(class)
	}
	st = l.runBurst(bt, comp)
	if l.srv.exited() || l.srv.waitExit(30*time.Millisecond) {
		r = rec{Id: tc.Id, Kind: kind, Cls: "abstract", C: tc.C, Lane: l.id, Outcome: "child_died", Hex: hexHead(bt.crafted)}
		r.Sig, r.Detail = crashSignature(l.srv.stderr())
		cj, _ := json.Marshal(comp)
		r.Detail = fmt.Sprintf("%s; during a burst %s of %d datagrams (%d well-formed, %d answered)", r.Detail, cj, st.sent, st.val, st.ans)
		if r.Sig == "" {
			r.Outcome, r.Detail = "stall", "child exited during a burst without a Go crash dump: "+tail(l.srv.stderr(), 400)
		}
		l.srv = nil
		died = true
	}
	r.Bsent, r.Bval, r.Bans, r.Baddr, r.Bms = int(st.sent), int(st.val), int(st.ans), int(st.addr), st.ms
	return
}
