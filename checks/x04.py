"""X04 - SysClock: the last link of the clock-discipline chain (extension of the
specification's coverage; the properties are stated in the property section of
spec/SysClock.tla).

spec/SysClock.tla <-> driver/clocks/sysclk_linux.go (SystemClock: Epoch, Step,
                      Adjust and its timer goroutine),
                      core/sync/adjustments/sys_linux.go (SysAdjustment.Do),
                      base/unixutil (TimevalFromNsec, ScaledPPMFromFreq)

  1. TLC decides the property section on the specification: every interleaving
     of a few Adjust / Step / Epoch calls with the timer expiries and the
     passing of time (small scope), SysAdjustment.Do over offsets around the
     500 ms threshold and the second boundaries at the real unit and every
     combination of the writable status bits.  Self-tests: the what-if variants
     of the specification (timer goroutine without the identity test, Step
     without restore, Step without epoch++) must make TLC find the
     counterexamples; AtMostOneRestore must fail for the code as it is (the
     observation) and hold for the repaired variant.
  2. TLC generates call / expiry schedules (exhaustive short ones, random walks
     via RandomElement) with the results the specification computes.
  3. harness/x04 replays them on the real SystemClock / SysAdjustment.  The
     driver is built against a scratch copy of golang.org/x/sys (prepared here)
     in which ClockAdjtime, ClockGettime, TimerfdCreate, TimerfdSettime, ppoll
     and Close call hooks: a model of the kernel with virtual time; the driver
     delivers each timer expiry exactly where the schedule says.  Without a hook
     ClockAdjtime panics: the real kernel clock can never be touched.
  4. TLC validates the recorded events against spec/trace/SysClockTrace.tla:
     monitor clauses (property section) decide VIOLATION, strict ones DRIFT,
     AtMostOneRestore is reported as OBSERVATION.
"""
import json, os, re, shutil, subprocess
from concurrent.futures import ThreadPoolExecutor
import vlib

CONSTS = ("qps", "g", "dps")
CLAUSES = ("TemporaryOnly", "SupersededSilent", "Restore", "EpochCountsSteps", "StepOrder", "FrequencyFormula", "Duration",
           "Quiet", "SysAdjustment")


# ------------------------------------------------------------------ Go build
def _hooked(text, name, params, rets, args, hooktype, block):
    """rename the generated wrapper `name` to verifReal<name> and put a wrapper in its place that asks the hook first"""
    pat = re.compile(r"func %s\(%s\) \(%s\) \{.*?\n\}\n" % (re.escape(name), re.escape(params), re.escape(rets)), re.S)
    found = pat.findall(text)
    if len(found) != 1:
        raise vlib.Inconclusive("unix.%s not found in zsyscall_linux.go as expected" % name)
    real = "verifReal" + name[0].upper() + name[1:]
    hook = "Verif" + name[0].upper() + name[1:] + "Hook"
    orig = found[0].replace("func %s(" % name, "func %s(" % real, 1)
    if block:
        body = ('\tif %s == nil {\n\t\tpanic("verification build: %s is blocked (no hook installed)")\n\t}\n\treturn %s(%s)\n'
                % (hook, name, hook, args))
        orig = ""
    else:
        nres = len(rets.split(","))
        outs = ", ".join("r%d" % i for i in range(nres))
        body = ("\tif h := %s; h != nil {\n\t\tif %s, ok := h(%s); ok {\n\t\t\treturn %s\n\t\t}\n\t}\n\treturn %s(%s)\n"
                % (hook, outs, args, outs, real, args))
    new = ("// %s stands for the system call (verification build only).\nvar %s %s\n\nfunc %s(%s) (%s) {\n%s}\n\n%s"
           % (hook, hook, hooktype, name, params, rets, body, orig))
    return pat.sub(lambda m: new, text)


def _prepare_build(ctx):
    """scratch copy of golang.org/x/sys with the wrappers used by sysclk_linux.go / sys_linux.go hooked + a modfile that
    replaces the module with it (and the repository with VERIF_REPO)"""
    vlib.ensure_harness()
    env = vlib.goenv()
    base_mod = vlib.alt_modfile() if vlib.REPO != "/repo" else os.path.join(vlib.HARNESS, "go.mod")
    p = subprocess.run([vlib.GO, "list", "-modfile=" + base_mod, "-m", "-f", "{{.Dir}}", "golang.org/x/sys"],
                       cwd=vlib.HARNESS, env=env, stdout=subprocess.PIPE, stderr=subprocess.STDOUT, text=True)
    src = p.stdout.strip().splitlines()[-1] if p.stdout.strip() else ""
    if p.returncode != 0 or not os.path.isdir(os.path.join(src, "unix")):
        raise vlib.Inconclusive("cannot locate golang.org/x/sys: %s" % p.stdout[-500:])
    dst = ctx.path("xsys")
    os.makedirs(os.path.join(dst, "unix"))
    for name in os.listdir(src):
        sp = os.path.join(src, name)
        if name == "unix":
            continue
        if os.path.isdir(sp):
            os.symlink(sp, os.path.join(dst, name))
        else:
            shutil.copy(sp, os.path.join(dst, name))
    for name in os.listdir(os.path.join(src, "unix")):
        if name != "zsyscall_linux.go":
            os.symlink(os.path.join(src, "unix", name), os.path.join(dst, "unix", name))
    text = open(os.path.join(src, "unix", "zsyscall_linux.go")).read()
    text = _hooked(text, "ClockAdjtime", "clockid int32, buf *Timex", "state int, err error", "clockid, buf",
                   "func(clockid int32, buf *Timex) (state int, err error)", True)
    text = _hooked(text, "ClockGettime", "clockid int32, time *Timespec", "err error", "clockid, time",
                   "func(clockid int32, time *Timespec) (err error, handled bool)", False)
    text = _hooked(text, "TimerfdCreate", "clockid int, flags int", "fd int, err error", "clockid, flags",
                   "func(clockid int, flags int) (fd int, err error, handled bool)", False)
    text = _hooked(text, "TimerfdSettime", "fd int, flags int, newValue *ItimerSpec, oldValue *ItimerSpec", "err error",
                   "fd, flags, newValue, oldValue",
                   "func(fd int, flags int, newValue *ItimerSpec, oldValue *ItimerSpec) (err error, handled bool)", False)
    text = _hooked(text, "ppoll", "fds *PollFd, nfds int, timeout *Timespec, sigmask *Sigset_t", "n int, err error",
                   "fds, nfds, timeout, sigmask",
                   "func(fds *PollFd, nfds int, timeout *Timespec, sigmask *Sigset_t) (n int, err error, handled bool)", False)
    text = _hooked(text, "Close", "fd int", "err error", "fd", "func(fd int) (err error, handled bool)", False)
    with open(os.path.join(dst, "unix", "zsyscall_linux.go"), "w") as f:
        f.write(text)
    md = ctx.path("mod")
    os.makedirs(md)
    gm = open(base_mod).read() + "\nreplace golang.org/x/sys => %s\n" % dst
    open(os.path.join(md, "go.mod"), "w").write(gm)
    shutil.copy(os.path.join(os.path.dirname(base_mod), "go.sum"), os.path.join(md, "go.sum"))
    return os.path.join(md, "go.mod")


def _godriver(ctx, modfile, cases, timeout=600):
    outp = ctx.path("trace.ndjson")
    env = vlib.goenv()
    env.update(VERIF_SEED=str(ctx.seed), VERIF_TIER=ctx.tier, VERIF_SCRATCH=ctx.scratch, VERIF_IN=cases, VERIF_OUT=outp)
    cmd = ["timeout", str(timeout), vlib.GO, "test", "-modfile=" + modfile, "-tags", "verif,x04hook", "-count", "1", "-vet=off",
           "-timeout", "%ds" % (timeout + 30), "-run", "^TestX04$", "-v", "./x04"]
    p = subprocess.run(cmd, cwd=vlib.HARNESS, env=env, stdout=subprocess.PIPE, stderr=subprocess.STDOUT, text=True, errors="replace")
    if p.returncode == 124:
        raise vlib.Inconclusive("go driver x04 timed out after %ss" % timeout)
    if p.returncode != 0 or not os.path.exists(outp):
        raise vlib.Inconclusive("go driver x04 failed (rc=%d):\n%s" % (p.returncode, "\n".join(p.stdout.splitlines()[-60:])))
    return outp, p.stdout


# ------------------------------------------------------------- trace validation
def _run_trace(ctx, cfg, part, name, want=("M", "S", "O")):
    """one TLC pass over the events; returns {marker: sorted (event, clause) pairs}"""
    d = ctx.specdir()
    tn = name + ".ndjson"
    vlib.write_ndjson(os.path.join(d, tn), part)
    # each run reads its own trace file: a private copy of the module with the file name substituted
    mod = "SysClockTrace_%s" % name
    text = open(os.path.join(d, "SysClockTrace.tla")).read()
    text = text.replace("MODULE SysClockTrace ", "MODULE %s " % mod).replace('"trace.ndjson"', '"%s"' % tn)
    open(os.path.join(d, mod + ".tla"), "w").write(text)
    r = ctx.tlc(mod, cfg, workers=1, timeout=900, tag="trace:%s:%s" % (cfg, name), heap="3g")
    res = {}
    for k in want:
        total = vlib.Ctx.emitted(r["out"], marker=k + "DONE")
        if not total:
            raise vlib.Inconclusive("trace validation %s ended without its %s report:\n%s"
                                    % (cfg, k, "\n".join(r["out"].splitlines()[-30:])))
        pairs = sorted({(int(e["l"]), c) for e in vlib.Ctx.emitted(r["out"], marker=k + "BAD") for c in e["c"]})
        if total[0]["events"] != len(part) or total[0]["n"] != len(pairs):
            raise vlib.Inconclusive("trace validation %s: report inconsistent (%s, %d pairs, %d events)"
                                    % (cfg, total[0], len(pairs), len(part)))
        res[k] = pairs
    return res


def _cfg(ctx, consts, invs, name):
    with open(os.path.join(ctx.specdir(), name), "w") as f:
        f.write("SPECIFICATION TSpec\nCONSTANTS\n  QPS = %d\n  G = %d\n  DPS = %d\nINVARIANTS %s\n" % (tuple(consts) + (invs,)))
    return name


def _schedule(part, l):
    """the events of the schedule that contains event l (1-based), up to and including it"""
    i = l - 1
    s = i
    while s > 0 and part[s]["a"] != "reset":
        s -= 1
    return part[s:i + 1]


def _brief(r):
    calls = " ".join("%s(%s)" % (c["m"], c["v"] if c["m"] in ("freq", "offset") else
                                 "%d,%d" % (c["sec"], c["usec"]) if c["m"] == "setoffset" else "")
                     + ("" if c["m"] not in ("read", "offset") else str(c["st"])) + ("" if c["exact"] else "~") + ("!" if c["x"] else "")
                     for c in r["calls"])
    args = dict(adjust="off=%d dur=%d freq=%d" % (r["off"], r["dur"], r["freq"]), step="off=%d" % r["off"], fire="k=%d" % r["k"],
                advance="d=%d" % r["d"], do="off=%d st=%s" % (r["off"], r["st"])).get(r["a"], "")
    return "%s(%s) -> calls [%s] panic=%s armed=%d deadline=%d epoch=%d clk=%d raw_ok=%s" % (
        r["a"], args, calls, r["panic"], r["armed"], r["deadline"], r["ep"], r["clk"], r["raw_ok"])


# ------------------------------------------------------------------ self-tests
def _call(m, v=0, sec=0, usec=0, st=(), exact=True, x=False):
    return dict(m=m, v=v, sec=sec, usec=usec, st=list(st), exact=exact, x=x)


def _ev(sc, i, a, calls=(), ep=0, clk=0, **kw):
    r = dict(sc=sc, i=i, qps=4, g=4, dps=4, a=a, off=0, dur=0, freq=0, k=0, d=0, st=[], calls=list(calls), panic=False, armed=0,
             deadline=0, ep=ep, clk=clk, timer_ok=True, dl_exact=True, raw_ok=True, not_due=False, gen=True, exp_ok=True,
             emb="synthetic")
    r.update(kw)
    return r


def _synth(sc):
    """a correct hand-written schedule at QPS = G = DPS = 4 (what the code as it is does)"""
    F, S = (lambda v: _call("freq", v=v)), (lambda s, u: _call("setoffset", sec=s, usec=u))
    return [
        _ev(sc, 0, "reset"),
        _ev(sc, 1, "adjust", [F(1 + 12)], off=3, dur=5, freq=1, armed=1, deadline=4),            # 1 + 3*4/1
        _ev(sc, 2, "adjust", [F(2 - 12)], off=-6, dur=8, freq=2, armed=1, deadline=8),           # 2 - 6*4/2
        _ev(sc, 3, "advance", d=4, clk=4),
        _ev(sc, 4, "fire", k=1, clk=4),                                                            # superseded: silent
        _ev(sc, 5, "epoch", clk=4),
        _ev(sc, 6, "step", [F(2), S(-1, 1)], off=-3, ep=1, clk=1),                                 # pending: restore, then offset
        _ev(sc, 7, "adjust", [F(1)], off=0, dur=0, freq=1, armed=1, deadline=5, ep=1, clk=1),
        _ev(sc, 8, "advance", d=8, ep=1, clk=9),
        _ev(sc, 9, "fire", [F(1)], k=3, ep=1, clk=9),                                              # pending: restore
        _ev(sc, 10, "fire", k=2, ep=1, clk=9),                                                     # cleared by the step: silent
        _ev(sc, 11, "step", [S(1, 1)], off=5, ep=2, clk=14),
        _ev(sc, 12, "do", [S(-1, 1)], off=-3, st=[0], ep=2, clk=14),
        _ev(sc, 13, "do", [_call("read", st=[6, 7, 9]), _call("offset", v=2, st=[0, 6])], off=2, st=[6, 7, 9], ep=2, clk=14),
        _ev(sc, 14, "adjust", [], off=3, dur=-1, freq=2, panic=True, ep=2, clk=14),
    ]


def _selftest(ctx):
    """corrupted-field controls: the monitor must accept the hand-written correct schedule and reject each copy in
    which one recorded field was falsified, with the clause named"""
    F = lambda v: _call("freq", v=v)
    fals = [("SupersededSilent", 4, lambda r: r.update(calls=[F(1)])),
            ("TemporaryOnly", 6, lambda r: r.update(calls=r["calls"][1:])),
            ("StepOrder", 6, lambda r: r.update(calls=r["calls"][::-1])),
            ("StepOrder", 6, lambda r: r.update(calls=[F(2), _call("setoffset", sec=0, usec=-3)])),
            ("StepOrder", 11, lambda r: r.update(raw_ok=False)),
            ("EpochCountsSteps", 6, lambda r: r.update(ep=0)),
            ("EpochCountsSteps", 7, lambda r: r.update(ep=2)),
            ("Restore", 9, lambda r: r.update(calls=[])),
            ("Restore", 9, lambda r: r.update(calls=[F(2)])),
            ("Restore", 9, lambda r: r.update(calls=[F(1), F(1)])),
            ("FrequencyFormula", 1, lambda r: r.update(calls=[F(1 + 9)])),
            ("FrequencyFormula", 2, lambda r: r.update(calls=[F(2 - 24)])),
            ("FrequencyFormula", 2, lambda r: r.update(raw_ok=False)),
            ("FrequencyFormula", 7, lambda r: r.update(calls=[dict(F(1), x=True)])),
            ("FrequencyFormula", 14, lambda r: r.update(panic=False)),
            ("FrequencyFormula", 14, lambda r: r.update(calls=[F(14)])),
            ("Duration", 2, lambda r: r.update(deadline=12)),
            ("Duration", 1, lambda r: r.update(armed=0)),
            ("Duration", 7, lambda r: r.update(timer_ok=False)),
            ("Duration", 6, lambda r: r.update(armed=1)),
            ("Quiet", 5, lambda r: r.update(calls=[F(2)])),
            ("SysAdjustment", 12, lambda r: r.update(calls=[_call("setoffset", sec=0, usec=-3)])),
            ("SysAdjustment", 13, lambda r: r.update(calls=[r["calls"][0], _call("offset", v=2, st=[0, 6, 7])])),
            ("SysAdjustment", 13, lambda r: r.update(calls=[r["calls"][0], _call("offset", v=2, st=[0, 6, 13])])),
            ("SysAdjustment", 13, lambda r: r.update(calls=r["calls"][1:])),
            ("SysAdjustment", 13, lambda r: r.update(calls=[_call("setoffset", sec=0, usec=2)]))]
    trace, want = _synth(1), set()
    n0 = len(trace)
    for j, (clause, i, f) in enumerate(fals):
        h = _synth(j + 2)
        f(h[i])
        want.add((len(trace) + i + 1, clause))
        trace += h
    cfg = _cfg(ctx, (4, 4, 4), "MonitorReport ObserveReport", "SysClockTrace_self.cfg")
    res = _run_trace(ctx, cfg, trace, "self", want=("M", "O"))
    got = set(res["M"])
    if any(l <= n0 for l, _ in got):
        raise vlib.Inconclusive("self-test: the monitor rejects the correct hand-written schedule: %s" % sorted(got)[:5])
    if not want <= got:
        raise vlib.Inconclusive("self-test: the monitor did not reject falsified fields: %s" % sorted(want - got))
    # the falsification with two restoring writes is also the one AtMostOneRestore observation
    dbl = [n0 * (j + 1) + i + 1 for j, (c, i, f) in enumerate(fals) if c == "Restore" and len(trace[n0 * (j + 1) + i]["calls"]) == 2]
    if [l for l, _ in res["O"]] != dbl or len(dbl) != 1:
        raise vlib.Inconclusive("self-test: AtMostOneRestore observations %s, expected at %s" % (res["O"], dbl))
    return len(fals)


# ------------------------------------------------------------------------ run
EXPECT_FAIL = [("SysClock_f_noident.cfg", "SupersededSilent", "a timer goroutine without the `adj == adjustment` identity test writes for a superseded adjustment"),
               ("SysClock_f_twin.cfg", "SupersededSilent", "identity, not equality of (duration, afterFreq), is what the test must compare"),
               ("SysClock_f_steplazy.cfg", "TemporaryOnly", "a Step that does not restore afterFreq leaves the offset-cancelling term in the kernel"),
               ("SysClock_f_noepoch.cfg", "EpochCountsSteps", "a Step without epoch++"),
               ("SysClock_f_restore2.cfg", "AtMostOneRestore", "the code as it is: Step after the timer's expiry rewrites afterFreq (the observation)")]


def run(ctx):
    q = ctx.quick
    ctx.specdir()
    pool = ThreadPoolExecutor(max_workers=4)

    def T(cfg, **kw):
        kw.setdefault("workers", 2)
        kw.setdefault("timeout", 900)
        return pool.submit(ctx.tlc, "SysClockMC", cfg, **kw)

    # ---- 1. design level (steps 1 and 2 do not depend on the repository: side by side with the Go build)
    cfgs = ["SysClock_exh.cfg", "SysClock_clearfire.cfg", "SysClock_do.cfg", "SysClock_do2.cfg", "SysClock_mixed.cfg"]
    design = [(c, T(c)) for c in cfgs]
    if not q:
        design += [(c, T(c, workers=4, timeout=1500)) for c in ("SysClock_deep.cfg", "SysClock_deep2.cfg")]
    selfr = [(c, inv, why, T(c, allow_violation=True, tag="selftest:" + c)) for c, inv, why in EXPECT_FAIL]
    # ---- 2. generators
    nsim = 60 if q else 400
    depth = (12 if q else 24) + 1
    gens = [T("SysClock_gen.cfg" if q else "SysClock_gendeep.cfg", workers=1, tag="gen"),
            T("SysClock_gendo.cfg" if q else "SysClock_gendodeep.cfg", workers=1, tag="gen"),
            T("SysClock_sim.cfg" if q else "SysClock_simdeep.cfg", workers=1, simulate="num=%d" % nsim, depth=depth, tag="sim"),
            T("SysClock_simB.cfg" if q else "SysClock_simBdeep.cfg", workers=1, simulate="num=%d" % nsim, depth=depth, tag="sim"),
            T("SysClock_simneg.cfg", workers=1, simulate="num=%d" % nsim, depth=11, tag="sim"),
            T("SysClock_simnegB.cfg", workers=1, simulate="num=%d" % nsim, depth=11, tag="sim")]
    modfile = _prepare_build(ctx)
    for c, fut in design:
        r = fut.result()
        ctx.log("TLC SysClockMC/%s: %d distinct / %d generated (%.0fs)" % (c, r["distinct"], r["generated"], r["wall_s"]))
    for c, inv, why, fut in selfr:
        r = fut.result()
        if r["violated"] != inv:
            raise vlib.Inconclusive("spec self-test: TLC no longer finds the %s counterexample of %s (%s): %s" % (inv, c, why, r["violated"]))
    ctx.log("spec self-tests: %d expected counterexamples found" % len(selfr))
    seen, cases = set(), []
    for fut in gens:
        g = fut.result()
        em = ctx.emitted(g["out"])
        if len(em) != g["out"].count('<<"CASE"') or not em:
            raise vlib.Inconclusive("generator %s output garbled: %d of %d CASE lines parsed" % (g["cfg"], len(em), g["out"].count('<<"CASE"')))
        for c in em:
            k = json.dumps(c, sort_keys=True)
            if k not in seen:
                seen.add(k)
                cases.append(c)
    cp = ctx.path("cases.ndjson")
    vlib.write_ndjson(cp, cases)
    nclk = sum(1 for c in cases if c["ops"][0]["a"] != "do" or len(c["ops"]) > 1)
    ctx.log("generated %d distinct schedules (%d SystemClock, %d SysAdjustment)" % (len(cases), nclk, len(cases) - nclk))
    # ---- 3. real code
    trace, out = _godriver(ctx, modfile, cp)
    recs = vlib.read_ndjson(trace)
    m = re.search(r"X04STATS (.*)", out)
    if not m:
        raise vlib.Inconclusive("driver statistics missing:\n%s" % out[-1500:])
    st = {k: int(v) for k, v in (kv.split("=") for kv in m.group(1).split())}
    ctx.log("driver: %s" % m.group(1))
    if st["cases"] != len(cases) or st["records"] != len(recs):
        raise vlib.Inconclusive("driver replayed %d of %d schedules, %d of %d records read" % (st["cases"], len(cases), len(recs), st["records"]))
    # control hook (negative control of the trace validation itself): falsify one recorded field
    corrupt = os.environ.get("X04_CORRUPT", "")
    if corrupt:
        kind, field = corrupt.split(".")
        tgt = [r for r in recs if r["a"] == kind and (field != "calls" or r["calls"])][len(recs) // 7 % 50]
        if field == "calls":
            tgt["calls"] = tgt["calls"][:-1]
        else:
            tgt[field] += 1
        ctx.log("X04_CORRUPT: falsified %s of schedule %d event %d" % (corrupt, tgt["sc"], tgt["i"]))
    # ---- 4. code -> spec
    ntests = _selftest(ctx)
    groups = {}
    for r in recs:
        groups.setdefault(tuple(r[k] for k in CONSTS), []).append(r)
    jobs = []
    for gi, (consts, part) in enumerate(sorted(groups.items())):
        # long groups are split at schedule boundaries so that several TLC runs share the load
        chunk, chunks = [], []
        for r in part:
            if r["a"] == "reset" and len(chunk) >= 12000:
                chunks.append(chunk)
                chunk = []
            chunk.append(r)
        chunks.append(chunk)
        cfg = _cfg(ctx, consts, "MonitorReport StrictReport ObserveReport", "SysClockTrace_g%d.cfg" % gi)
        for ci, ch in enumerate(chunks):
            jobs.append((ch, pool.submit(_run_trace, ctx, cfg, ch, "g%dc%d" % (gi, ci))))
    found, counts, dseen, nval, nobs, obs_sample = {}, {}, set(), 0, 0, None
    for part, fut in jobs:
        res = fut.result()
        bad = set()
        for l, clause in res["M"]:
            r = part[l - 1]
            sig = "X04 %s %s" % (clause, r["a"])
            bad.add(r["sc"])
            counts[sig] = counts.get(sig, 0) + 1
            if sig not in found:
                found[sig] = ("real %s breaks %s: %s [%s]" % ("SysAdjustment.Do" if r["a"] == "do" else "SystemClock", clause, _brief(r), r["emb"]),
                              _schedule(part, l))
        nval += len({r["sc"] for r in part} - bad)
        for l, clause in res["S"]:
            r = part[l - 1]
            k = (clause, r["a"])
            if k in dseen or len(ctx.drift) >= 20:
                continue
            dseen.add(k)
            ctx.drift.append("event differs from SysClock.tla as written (%s): schedule %d event %d %s" % (clause, r["sc"], r["i"], _brief(r)))
        for l, clause in res["O"]:
            nobs += 1
            if obs_sample is None:
                obs_sample = _schedule(part, l)
    for sig, (what, hist) in sorted(found.items()):
        ctx.violation(sig, "%s (%d recorded events)" % (what, counts[sig]), hist)
    if nobs:
        note = ("AtMostOneRestore does not hold for the code as it is: the timer goroutine restores afterFreq but leaves c.adjustment "
                "in place, so a Step after the expiry writes the same afterFreq a second time (redundant while nobody else writes the "
                "frequency; it would overwrite a frequency set in between by another controller). %d recorded Steps; "
                "SysClock_f_restore2.cfg is the specification-level counterexample, SysClock_clearfire.cfg the repaired variant, "
                "fixes/X04-clear-adjustment-on-expiry.diff the repair" % nobs)
        print("OBSERVATION: property=X04 %s" % note)
        ctx.notes.append("observation (not judged): " + note)
    ctx.log("validated %d schedules (monitor), %d failing clause signatures, %d drift notes, %d AtMostOneRestore observations"
            % (nval, len(found), len(ctx.drift), nobs))
    # ---- evidence
    acts = [r for r in recs if r["a"] != "reset"]
    by = {}
    for r in acts:
        by[r["a"]] = by.get(r["a"], 0) + 1

    def nontrivial(c):
        a = [o["a"] for o in c["ops"]]
        if a[0] == "do":
            return True
        # a timer expiry after a second Adjust or a Step: the identity test / restore logic is exercised
        return "fire" in a and (a.count("adjust") >= 2 or "step" in a)
    distinct = len({json.dumps(c, sort_keys=True) for c in cases if nontrivial(c)})
    samples = [r for r in recs if r["sc"] == 1][:8] + [r for r in recs if r["a"] == "do"][:3]
    if obs_sample:
        samples.append(dict(observation="AtMostOneRestore", schedule=obs_sample[-6:]))
    ctx.cov.update(
        evaluations=len(acts), distinct_nontrivial=distinct,
        rule="schedules generated by TLC from SysClock.tla: every history of %d actions over Adjust (2 durations x 2 frequencies), Step, "
             "Epoch, one-second advances and the enabled timer expiries; random walks of %d actions over 9 offsets x 11 durations x 5 "
             "frequencies (two unit embeddings: quantum 1953125 ns / unit 15625 scaled ppm, quantum 250 ms / unit 62500 scaled ppm), "
             "walks ending in a negative duration; SysAdjustment.Do for 19 offsets around +-500 ms and the second boundaries (ns) x "
             "%d status words. Replayed with virtual time; at the end of a schedule the driver lets the remaining timers expire. "
             "distinct_nontrivial = distinct schedules with a timer expiry after a second Adjust or a Step, plus distinct Do cases; "
             "evaluations = recorded actions (calls, expiries, advances)" % (4 if q else 5, 12 if q else 24, 8 if q else 264),
        traces_validated_against_impl=nval, exhaustive=False, monitor_selftests=ntests, spec_selftests=len(EXPECT_FAIL),
        expectation_mismatches=st["mismatches"], actions=by, timer_expiries=st["fires"], silent_expiries=st["silent"],
        restoring_expiries=st["restores"], panics=st["panics"], eintr_injected=st["eintr"], not_due=st["not_due"],
        at_most_one_restore_observations=nobs, samples=samples)
    ctx.assumptions += [
        "SystemClock and SysAdjustment are driven with unix.ClockAdjtime, ClockGettime, TimerfdCreate, TimerfdSettime, ppoll and Close "
        "replaced (link-time, scratch copy of golang.org/x/sys) by a model of the kernel with virtual CLOCK_REALTIME; everything else is "
        "the unmodified repository code",
        "a timer goroutine does nothing observable between the return of its sleep and c.mu.Lock(): delivering an expiry late stands for "
        "every scheduling of the goroutine (testing/synctest waits until it has left its critical section)",
        "frequencies are whole units of 2^-22 (2^-20), offsets whole quanta of 2^-9 s (2^-2 s) with offset*G divisible by the rounded "
        "duration, so every float64 intermediate is exact and the monitor compares integers; durations carry an arbitrary sub-quantum rest",
        "the kernel's own clamping of the frequency (+-500 ppm) and of the phase offset is not part of the properties",
        "after a panic (negative duration) only the remaining timer expiries are replayed",
        "small scope: TLC decides the clauses for histories of <= 3 (4) calls with <= 3 advances; Do for |offset| <= 2 s",
    ]
