SPECIFICATION Spec
CONSTANTS
  Kinds <- KindsAll
  MaxExt = 3
  MaxExtCli = 3
  MaxKe = 2
  MaxCases = 1
  ScDev = 2
  MaxHist = 4
  Bursts = {"vn", "vk", "mix"}
  Wide = TRUE
  ExtLenZeroLoops = TRUE
  NonceLenUnchecked = TRUE
  CookieDecodeUnchecked = TRUE
  PacketOverflowUnchecked = TRUE
  ShortUniqueIdEchoed = TRUE
  CsptpShortDatagram = TRUE
  ScionReverseUnchecked = TRUE
  ScionAddrLenUnchecked = TRUE
  ScionAuthOptUnchecked = TRUE
  ScionMacErrPanics = TRUE
  ScionTsOptUnchecked = TRUE
  ScionTsOptTrusted = TRUE
  CmsgLenUnchecked = TRUE
INVARIANTS Emit
