--------------------------- MODULE DrkeyCacheMC ---------------------------
(***************************************************************************)
(* Model-checking wrapper for DrkeyCache.tla (X02).                        *)
(*   SpecExh : the specification as is; property section decided.          *)
(*   SpecGen : the same transition relation with the sequence of calls in  *)
(*             `hist`; Emit prints every behaviour of GenLen events with   *)
(*             the specification's results; harness/x02 replays them on    *)
(*             the real scion.Fetcher with a scripted daemon.              *)
(*   SpecSim : long random behaviours (`tlc -simulate`).                   *)
(***************************************************************************)
EXTENDS DrkeyCache, Sequences, Json

CONSTANTS GenLen,
          HHMetas, HHVals   \* generator: metadata / instants of host-host requests
VARIABLES hist, pick
allvars == <<mock, now, haks, calls, ret, last, hist, pick>>

MCInit == Init /\ hist = << >> /\ pick = 0
SpecExh == MCInit /\ [][Next /\ UNCHANGED <<hist, pick>>]_allvars

AKeyValidAtRequest == [][KeyValidAtRequest']_allvars
AKeyForRequest     == [][KeyForRequest']_allvars
AReuseWhileValid   == [][ReuseWhileValid']_allvars
ARefetchOnce       == [][RefetchOnce']_allvars
AErrorReturned     == [][ErrorReturned']_allvars
ANoKeyOnError      == [][NoKeyOnError']_allvars

AdvEv == [NoRet EXCEPT !.op = "adv", !.v = now' - now, !.t = now']
LastIsAdv == Len(hist) > 0 /\ hist[Len(hist)].op = "adv"
Calls ==
  \/ \E m \in Metas, v \in Vals, rp \in AllReplies : HostAS(m, v, rp)
  \/ \E m \in HHMetas, dh \in DHosts, v \in HHVals, rp \in AllReplies : HostHost(m, dh, v, rp)
GenNext ==
  /\ Len(hist) < GenLen
  /\ \/ ~LastIsAdv /\ (\E d \in Gaps : Advance(d)) /\ hist' = Append(hist, AdvEv)
     \/ Calls /\ hist' = Append(hist, ret')
SpecGen == MCInit /\ [][GenNext /\ UNCHANGED pick]_allvars
Case == [kind |-> "drkey", mock |-> mock, e |-> E, h6 |-> H6, h |-> hist]
Emit == (Len(hist) = GenLen /\ ~LastIsAdv) => PrintT(<<"CASE", ToJson(Case)>>)

\* -simulate: see KeyProviderMC (a behaviour is printed by a final step with one successor)
SimDone == 99
SimNext ==
  \/ /\ Len(hist) < GenLen
     /\ \/ ~LastIsAdv /\ (\E d \in Gaps : Advance(d)) /\ hist' = Append(hist, AdvEv)
        \/ Calls /\ hist' = Append(hist, ret')
     /\ pick' = 0
  \/ /\ Len(hist) = GenLen /\ pick # SimDone /\ pick' = SimDone
     /\ UNCHANGED <<mock, now, haks, calls, ret, last, hist>>
SpecSim == MCInit /\ [][SimNext]_allvars
EmitSim == pick = SimDone => PrintT(<<"CASE", ToJson(Case)>>)

\* ---- constant sets
M(p, s, d, h) == [proto |-> p, src |-> s, dst |-> d, host |-> h]
\* base metadata, and one field changed at a time (+ both destination slots)
MetasExh == {M(1, 1, 1, 1), M(2, 1, 1, 1), M(1, 1, 1, 2), M(1, 1, 2, 1)}
MetasDeep == {M(1, 1, 1, 1), M(2, 1, 1, 1), M(1, 2, 1, 1), M(1, 1, 1, 2), M(1, 1, 2, 1)}
MetasGen == {M(1, 1, 1, 1), M(2, 1, 1, 1), M(1, 1, 1, 2), M(1, 1, 2, 1)}
MetasSim == {M(1, 1, 1, 1), M(2, 1, 1, 1), M(1, 2, 1, 1), M(1, 1, 1, 2), M(1, 1, 2, 1)}
MetasHH == {M(1, 1, 1, 1)}
ValsHH == {2}
MetasGenS == {M(1, 1, 1, 1), M(1, 1, 1, 2), M(1, 1, 2, 1)}
MetasMock == {M(1, 1, 1, 1), M(1, 1, 1, 2), M(1, 1, 2, 1)}
MetasMockG == {M(1, 1, 1, 1), M(1, 1, 1, 2)}
ValsExh  == 0 .. 4          \* E = 2, two epochs: every interior and boundary instant
ValsDeep == 0 .. 6          \* three epochs
ValsGen  == 1 .. 3
ValsMock == {0, 2, 3, 5, 8}
GapsMock == {1, 2, 3}
NoGaps   == {}
OnlyReal == {FALSE}
OnlyMock == {TRUE}
Both     == {FALSE, TRUE}
DH1 == {1}
DH2 == {1, 2}
=============================================================================
