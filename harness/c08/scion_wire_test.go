package c08

// Raw-byte serialiser for SCION datagrams (common header, address header, path,
// hop-by-hop / end-to-end extensions, UDP / SCMP), so that every malformed shape
// of the abstract datagram can be produced. The only library use is the SPAO MAC
// (scionproto's spao.ComputeAuthCMAC over slayers' decoding of these bytes).

import (
	"encoding/binary"
	"math/rand"
	"time"

	"github.com/google/gopacket"
	"github.com/scionproto/scion/pkg/slayers"
	"github.com/scionproto/scion/pkg/spao"
)

const (
	scIA          = uint64(1)<<48 | 0xff00_0000_0110 // 1-ff00:0:110
	scOtherIA     = uint64(1)<<48 | 0xff00_0000_0111
	scSrvPort     = 10123
	scEndhostPort = 30041
	spiClient     = uint32(1)<<17 | uint32(1)<<16 | 123
	spiServer     = uint32(1)<<17 | uint32(0)<<16 | 123
)

var zeroKey = make([]byte, 16)

type scParams struct {
	srcIA, dstIA     uint64
	srcHost, dstHost []byte // 4 bytes: the canonical (t0l4) addresses
	srcPort, dstPort uint16
	payload          []byte // UDP payload / SCMP data
	fwdHost          []byte // server role: host to use for a 4-byte destination that is not canonical
}

func addrTL(cls string) (t, l int) {
	// "t<T>l<bytes>"
	t = int(cls[1] - '0')
	switch cls[3:] {
	case "4":
		l = 0
	case "8":
		l = 1
	case "12":
		l = 2
	default:
		l = 3
	}
	return
}

func hopField(rng *rand.Rand, in, eg uint16) []byte {
	b := rndBytes(rng, 12)
	b[0] = 0
	b[1] = 63
	binary.BigEndian.PutUint16(b[2:], in)
	binary.BigEndian.PutUint16(b[4:], eg)
	return b
}

func infoField(rng *rand.Rand) []byte {
	b := rndBytes(rng, 8)
	b[0] &= 3
	b[1] = 0
	binary.BigEndian.PutUint32(b[4:], uint32(time.Now().Unix()))
	return b
}

func scionPathMeta(currINF, currHF int, seg [3]int) []byte {
	v := uint32(currINF&3)<<30 | uint32(currHF&63)<<24 | uint32(seg[0]&63)<<12 | uint32(seg[1]&63)<<6 | uint32(seg[2]&63)
	b := make([]byte, 4)
	binary.BigEndian.PutUint32(b, v)
	return b
}

func scionPath(rng *rand.Rand, currINF, currHF int, seg [3]int, present int) []byte {
	b := scionPathMeta(currINF, currHF, seg)
	ninf, nh := 0, 0
	for _, s := range seg {
		if s > 0 {
			ninf++
		}
		nh += s
	}
	for i := 0; i < ninf; i++ {
		b = append(b, infoField(rng)...)
	}
	for i := 0; i < nh; i++ {
		b = append(b, hopField(rng, uint16(1+rng.Intn(100)), uint16(1+rng.Intn(100)))...)
	}
	if present >= 0 && present < len(b) {
		b = b[:present]
	}
	return b
}

// pathBytes returns the path type value and the path bytes for a class.
func scPathBytes(rng *rand.Rand, cls string) (byte, []byte) {
	switch cls {
	case "empty", "na":
		return 0, nil
	case "emptyjunk":
		return 0, rndBytes(rng, 4*(1+rng.Intn(4)))
	case "s1":
		n := 2 + rng.Intn(3)
		return 1, scionPath(rng, 0, n-1, [3]int{n, 0, 0}, -1)
	case "s2":
		return 1, scionPath(rng, 1, 3, [3]int{2, 2, 0}, -1)
	case "s3":
		return 1, scionPath(rng, 2, 5, [3]int{2, 2, 2}, -1)
	case "scurr":
		// CurrINF = 3 (there are 2 segments), CurrHF = 60 (there are 4 hop fields)
		return 1, scionPath(rng, 3, 60, [3]int{2, 2, 0}, -1)
	case "sinf0":
		return 1, scionPathMeta(0, 0, [3]int{0, 0, 0})
	case "sgap":
		b := scionPathMeta(0, 0, [3]int{0, 2, 0})
		b = append(b, infoField(rng)...)
		return 1, append(b, append(hopField(rng, 1, 2), hopField(rng, 3, 4)...)...)
	case "shops":
		return 1, scionPath(rng, 0, 0, [3]int{30, 30, 5}, -1)
	case "strunc":
		return 1, scionPath(rng, 0, 0, [3]int{3, 0, 0}, 4+8+12)
	case "onehop", "onehop0":
		b := infoField(rng)
		b = append(b, hopField(rng, 0, 5)...)
		in := uint16(7)
		if cls == "onehop0" {
			in = 0
		}
		return 2, append(b, hopField(rng, in, 0)...)
	case "onehoptrunc":
		return 2, rndBytes(rng, 20)
	case "epic":
		return 3, append(rndBytes(rng, 16), scionPath(rng, 0, 1, [3]int{2, 0, 0}, -1)...)
	case "epicinf0":
		return 3, append(rndBytes(rng, 16), scionPathMeta(0, 0, [3]int{0, 0, 0})...)
	case "epictrunc":
		return 3, rndBytes(rng, 12)
	case "raw4":
		return byte(4 + rng.Intn(4)), rndBytes(rng, 4*rng.Intn(6))
	case "raw255":
		return byte(200 + rng.Intn(56)), rndBytes(rng, 4*rng.Intn(6))
	}
	return 0, nil
}

func cmsg(length uint64, level, typ uint32, data []byte) []byte {
	b := make([]byte, 16)
	binary.LittleEndian.PutUint64(b, length)
	binary.LittleEndian.PutUint32(b[8:], level)
	binary.LittleEndian.PutUint32(b[12:], typ)
	return append(b, data...)
}

func ts64(sec, nsec int64) []byte {
	b := make([]byte, 16)
	binary.LittleEndian.PutUint64(b, uint64(sec))
	binary.LittleEndian.PutUint64(b[8:], uint64(nsec))
	return b
}

// e2eOptions returns the option bytes (without the 2-byte extension header).
func e2eOptions(rng *rand.Rand, cls string) []byte {
	opt := func(t byte, data []byte) []byte { return append([]byte{t, byte(len(data))}, data...) }
	auth := func(n int, spi uint32, algo byte) []byte {
		d := rndBytes(rng, n)
		if n >= 5 {
			binary.BigEndian.PutUint32(d, spi)
			d[4] = algo
		}
		for i := 5; i < 12 && i < n; i++ {
			d[i] = 0
		}
		return opt(2, d)
	}
	now := time.Now()
	switch cls {
	case "auth28c", "auth28cok":
		return auth(28, spiClient, 0)
	case "auth28s", "auth28sok":
		return auth(28, spiServer, 0)
	case "auth28x":
		if rng.Intn(2) == 0 {
			return auth(28, spiClient, byte(1+rng.Intn(200)))
		}
		return auth(28, rng.Uint32()|1<<30, 0)
	case "auth0":
		return auth(0, 0, 0)
	case "auth27":
		return auth(27-rng.Intn(20), spiClient, 0)
	case "auth29":
		return auth(29+rng.Intn(100), spiClient, 0)
	case "ts":
		return opt(253, cmsg(32, 1, 35, ts64(now.Unix(), int64(now.Nanosecond()))))
	case "tsold":
		return opt(253, cmsg(32, 1, 35, ts64(1000000000+int64(rng.Intn(1000000)), 0)))
	case "tsnew":
		return opt(253, cmsg(64, 1, 65, append(append(ts64(now.Unix(), int64(now.Nanosecond())), ts64(0, 0)...), ts64(0, 0)...)))
	case "ts2":
		return opt(253, cmsg(64, 1, 65, append(append(ts64(now.Unix(), 1), ts64(0, 0)...), ts64(now.Unix(), 2)...)))
	case "tsshort":
		return opt(253, rndBytes(rng, rng.Intn(16)))
	case "tslen":
		return opt(253, cmsg(200+uint64(rng.Intn(1000)), 1, 35, ts64(now.Unix(), 0)))
	case "tstail":
		n := 17 + rng.Intn(7) // not a multiple of 8
		return opt(253, cmsg(uint64(n), 0, 0, make([]byte, n-16)))
	case "ts0o", "ts0of", "ts0t", "ts0tf", "tsso", "tssof", "tsst", "tsstf":
		// first control message: cmsg_len below the header size (0 resp. 1..15), level/type another (o) or a
		// timestamp (t) message, at least 16 bytes of data; with suffix f a well-formed message follows
		l := uint64(0)
		if cls[2] == 's' {
			l = uint64(1 + rng.Intn(15))
		}
		level, typ := uint32(2+rng.Intn(200)), uint32(rng.Intn(200))
		if cls[3] == 't' {
			level, typ = 1, 35
		}
		d := cmsg(l, level, typ, make([]byte, 8*rng.Intn(3)))
		if cls[len(cls)-1] == 'f' {
			d = append(d, cmsg(32, 1, 35, ts64(now.Unix(), int64(now.Nanosecond())))...)
		}
		return opt(253, d)
	case "full":
		var b []byte
		for i := 0; i < 4; i++ {
			b = append(b, opt(byte(100+rng.Intn(100)), rndBytes(rng, 253))...)
		}
		return append(b, 1, 0)
	case "optbeyond":
		return append([]byte{byte(100 + rng.Intn(100)), byte(40 + rng.Intn(200))}, rndBytes(rng, 6)...)
	}
	return nil
}

// extn wraps an extension header around what follows: next header value, option bytes.
func extn(next byte, opts []byte) []byte {
	b := append([]byte{next, 0}, opts...)
	for len(b)%4 != 0 {
		switch (4 - len(b)%4) % 4 {
		case 1:
			b = append(b, 0) // Pad1
		default:
			n := 4 - len(b)%4 - 2
			b = append(b, 1, byte(n))
			b = append(b, make([]byte, n)...)
		}
	}
	b[1] = byte(len(b)/4 - 1)
	return b
}

// scBytes serialises the abstract SCION datagram g.
func scBytes(rng *rand.Rand, g *dgram, p scParams) []byte {
	// L4
	var l4 []byte
	var proto byte
	switch g.L4 {
	case "scmpecho", "scmptr", "scmpother", "scmptrunc":
		proto = 202
		typ := byte(128)
		switch g.L4 {
		case "scmptr":
			typ = 130
		case "scmpother":
			typ = []byte{1, 2, 4, 5, 129, 131, 200}[rng.Intn(7)]
		}
		l4 = append([]byte{typ, 0, byte(rng.Intn(256)), byte(rng.Intn(256))}, rndBytes(rng, 4)...)
		if g.L4 == "scmptr" {
			l4 = append(l4, rndBytes(rng, 16)...)
		}
		l4 = append(l4, p.payload...)
		if g.L4 == "scmptrunc" {
			l4 = l4[:1+rng.Intn(3)]
		}
	case "unk":
		proto = []byte{6, 203, 253, 0}[rng.Intn(4)]
		l4 = append(rndBytes(rng, 8), p.payload...)
	default: // udp, udptrunc
		proto = 17
		l4 = make([]byte, 8)
		binary.BigEndian.PutUint16(l4[0:], p.srcPort)
		binary.BigEndian.PutUint16(l4[2:], p.dstPort)
		binary.BigEndian.PutUint16(l4[4:], uint16(8+len(p.payload)))
		binary.BigEndian.PutUint16(l4[6:], uint16(rng.Intn(65536)))
		l4 = append(l4, p.payload...)
		if g.L4 == "udptrunc" {
			l4 = l4[:1+rng.Intn(7)]
		}
	}
	// extension chain
	rest := l4
	first := proto
	eopts := e2eOptions(rng, g.Eo)
	switch g.Ext {
	case "hbh":
		rest, first = append(extn(proto, []byte{1, 0}), rest...), 200
	case "e2e":
		rest, first = append(extn(proto, eopts), rest...), 201
	case "hbhe2e":
		rest = append(extn(proto, eopts), rest...)
		rest, first = append(extn(201, []byte{1, 0}), rest...), 200
	case "e2ehbh":
		rest = append(extn(proto, []byte{1, 0}), rest...)
		rest, first = append(extn(200, eopts), rest...), 201
	case "e2e2":
		rest = append(extn(proto, eopts), rest...)
		rest, first = append(extn(201, []byte{1, 0}), rest...), 201
	case "hbh2":
		rest = append(extn(proto, []byte{1, 0}), rest...)
		rest, first = append(extn(200, []byte{1, 0}), rest...), 200
	case "exttrunc":
		rest, first = []byte{proto, byte(20 + rng.Intn(200)), 1, 0}, byte(200+rng.Intn(2))
	}
	if g.Eo == "optbeyond" && (g.Ext == "e2e" || g.Ext == "hbhe2e") {
		// the option's length reaches beyond the extension: shorten the extension to its first 8 bytes
		i := 0
		if g.Ext == "hbhe2e" {
			i = 4
		}
		rest[i+1] = 1
		rest = append(rest[:i+8:i+8], l4...)
	}
	// addresses
	da, sa := g.Da, g.Sa
	if da == "na" {
		da = "t0l4"
	}
	if sa == "na" {
		sa = "t0l4"
	}
	dt, dl := addrTL(da)
	st, sl := addrTL(sa)
	host := func(cls string, canon []byte, alt []byte, l int) []byte {
		if cls == "t0l4" {
			return canon
		}
		if l == 0 && alt != nil {
			return alt
		}
		b := rndBytes(rng, 4*(l+1))
		if l == 3 {
			b[0] = 0xfd // a (non-existent) unique local IPv6 address
		}
		return b
	}
	dst := host(da, p.dstHost, p.fwdHost, dl)
	src := host(sa, p.srcHost, nil, sl)
	addrHdr := make([]byte, 16)
	dia, sia := p.dstIA, p.srcIA
	switch g.Ia {
	case "src":
		sia = scOtherIA
	case "dst":
		dia = scOtherIA
	}
	binary.BigEndian.PutUint64(addrHdr[0:], dia)
	binary.BigEndian.PutUint64(addrHdr[8:], sia)
	addrHdr = append(append(addrHdr, dst...), src...)
	// path
	ptype, pbytes := scPathBytes(rng, g.Pt)
	hdrLen := 12 + len(addrHdr) + len(pbytes)
	cmn := make([]byte, 12)
	binary.BigEndian.PutUint32(cmn, uint32(rng.Intn(256))<<20|uint32(rng.Intn(1<<20)))
	cmn[4] = first
	cmn[5] = byte(hdrLen / 4)
	binary.BigEndian.PutUint16(cmn[6:], uint16(len(rest)))
	cmn[8] = ptype
	cmn[9] = byte(dt<<6 | dl<<4 | st<<2 | sl)
	b := append(append(append(cmn, addrHdr...), pbytes...), rest...)
	// a verifying MAC is computed over the consistent datagram, before any length is falsified
	switch g.Eo {
	case "auth28cok":
		scRemac(b, spiClient)
	case "auth28sok":
		scRemac(b, spiServer)
	}
	if proto == 17 && len(l4) >= 8 {
		lo := len(b) - len(l4) + 4 // offset of the UDP Length field
		switch g.Ul {
		case "zero":
			binary.BigEndian.PutUint16(b[lo:], 0)
		case "lt8":
			binary.BigEndian.PutUint16(b[lo:], uint16(1+rng.Intn(7)))
		case "small":
			binary.BigEndian.PutUint16(b[lo:], uint16(8+rng.Intn(len(l4)-8)))
		case "bigudp":
			binary.BigEndian.PutUint16(b[lo:], uint16(len(l4)+1+rng.Intn(len(b)-len(l4))))
		case "big":
			binary.BigEndian.PutUint16(b[lo:], uint16(len(b)+1+rng.Intn(1000)))
		case "max":
			binary.BigEndian.PutUint16(b[lo:], 65535)
		}
	}
	switch g.Pl {
	case "small":
		binary.BigEndian.PutUint16(b[6:], uint16(rng.Intn(len(rest))))
	case "big":
		binary.BigEndian.PutUint16(b[6:], uint16(len(b)+2000+rng.Intn(1000)))
	case "max":
		binary.BigEndian.PutUint16(b[6:], 65535)
	}
	if g.Tr == "inpl" && proto == 17 && len(l4) > 9 {
		b = b[:len(b)-1-rng.Intn(len(l4)-9)] // cut inside the UDP payload
	}
	switch g.Sc {
	case "cmnshort":
		b = b[:rng.Intn(12)]
	case "addrshort":
		b = b[:12+rng.Intn(len(addrHdr))]
	case "hdrneg":
		b[5] = byte(rng.Intn((12+len(addrHdr))/4 - 1))
	case "hdrbig":
		b[5] = 255
		if len(b) > 400 {
			b = b[:400]
		}
	}
	return b
}

// scRemac recomputes, in place, the MAC of the datagram's authenticator option
// under the all-zero mock key (scionproto's own SPAO computation).
func scRemac(w []byte, spi uint32) bool {
	var (
		sl  slayers.SCION
		hbh slayers.HopByHopExtnSkipper
		e2e slayers.EndToEndExtn
		ul  slayers.UDP
		sc  slayers.SCMP
	)
	parser := gopacket.NewDecodingLayerParser(slayers.LayerTypeSCION, &sl, &hbh, &e2e, &ul, &sc)
	parser.IgnoreUnsupported = true
	layers := make([]gopacket.LayerType, 0, 4)
	if err := parser.DecodeLayers(w, &layers); err != nil || len(layers) < 3 || layers[len(layers)-1] != slayers.LayerTypeSCIONUDP {
		return false
	}
	o, err := e2e.FindOption(slayers.OptTypeAuthenticator)
	if err != nil || len(o.OptData) != 28 {
		return false
	}
	binary.BigEndian.PutUint32(o.OptData[0:], spi)
	_, err = spao.ComputeAuthCMAC(spao.MACInput{Key: zeroKey, Header: slayers.PacketAuthOption{EndToEndOption: o},
		ScionLayer: &sl, PldType: slayers.L4UDP, Pld: e2e.Payload}, make([]byte, spao.MACBufferSize), o.OptData[12:])
	return err == nil
}

// scParse finds the L4 header of a well-formed SCION datagram (as the real
// client and server send them): UDP source port and payload.
func scParse(w []byte) (srcPort uint16, payload []byte, ok bool) {
	if len(w) < 12 {
		return
	}
	off := int(w[5]) * 4
	nh := w[4]
	for nh == 200 || nh == 201 {
		if len(w) < off+2 {
			return
		}
		nh2 := w[off]
		off += (int(w[off+1]) + 1) * 4
		nh = nh2
	}
	if nh != 17 || len(w) < off+8 {
		return
	}
	return binary.BigEndian.Uint16(w[off:]), w[off+8:], true
}
