SPECIFICATION Spec
CONSTANTS
  Servers = {"A"}
  B0s <- B0Hist
  Shapes <- ShapesHist
  Vias <- ViasHist
  MaxInject = 3
  Spoof = FALSE
  Confs <- ConfsSw
  Stores <- StoresNone
  Ancs <- AncsTs
  SrcPorts <- SrcPortsEph
  RestoreAtTop = FALSE
INVARIANTS HistoryIndependence
