"""Negative controls of X05: python3 negctl/x05_run.py [-j N] [name-prefix...]; one scratch worktree of /repo per lane."""
import json, os, subprocess, sys, threading, queue
HERE = os.path.dirname(os.path.abspath(__file__)); ROOT = os.path.dirname(HERE)
M = json.load(open(os.path.join(HERE, "x05.json")))
args = sys.argv[1:]; J = 3
if args[:1] == ["-j"]:
    J = int(args[1]); args = args[2:]
M = [m for m in M if not args or any(a in m["name"] for a in args)]
q = queue.Queue(); [q.put(m) for m in M]; res = {}; lock = threading.Lock()
def lane(i):
    wt = "/tmp/x05-wt%d" % i
    subprocess.run(["git", "-C", "/repo", "worktree", "remove", "--force", wt], stdout=subprocess.DEVNULL, stderr=subprocess.DEVNULL)
    subprocess.run(["git", "-C", "/repo", "worktree", "add", "--detach", wt, "HEAD"], check=True, stdout=subprocess.DEVNULL, stderr=subprocess.DEVNULL)
    try:
        while True:
            try: m = q.get_nowait()
            except queue.Empty: break
            subprocess.run(["git", "-C", wt, "checkout", "--", "."], check=True)
            p = os.path.join(wt, m["file"]); s = open(p).read()
            for o, n in (("old", "new"), ("old2", "new2")):
                if o in m:
                    assert s.count(m[o]) == 1, (m["name"], o, s.count(m[o]))
                    s = s.replace(m[o], m[n])
            open(p, "w").write(s)
            r = subprocess.run(["bin/check", "X05"], cwd=ROOT, env=dict(os.environ, VERIF_REPO=wt), stdout=subprocess.PIPE, stderr=subprocess.STDOUT, text=True)
            lines = [l for l in r.stdout.splitlines() if l.startswith(("X05 ", "DRIFT", "INCONCLUSIVE", "VIOLATION", "NOTE"))]
            want = 0 if m.get("preserving") else 1
            ok = r.returncode == want and (want == 0 or any(m["expect"] in l for l in lines))
            with lock:
                res[m["name"]] = (r.returncode, ok)
                print("=== %s -> rc=%d %s" % (m["name"], r.returncode, "as expected" if ok else "UNEXPECTED")); print("\n".join(l[:300] for l in lines[:8])); sys.stdout.flush()
    finally:
        subprocess.run(["git", "-C", "/repo", "worktree", "remove", "--force", wt])
ths = [threading.Thread(target=lane, args=(i,)) for i in range(J)]
[t.start() for t in ths]; [t.join() for t in ths]
print("SUMMARY", sum(1 for v in res.values() if v[1]), "of", len(res), "as expected")
