SPECIFICATION Spec
CONSTANTS
  MaxClients = 3
  MaxPaths = 3
  ThetaVecs <- Theta2
  AllCompletions = TRUE
  FW = 8
  CheckRand = FALSE
  RandWMax = 4
  CheckUnif = FALSE
  UnifNMax = 0
INVARIANTS TypeOK Distinct StickyKept ElseResetWithFilter Participants LaunchedAreParticipants OneValuePerParticipant NoPathError ResetExactlyNonSticky
