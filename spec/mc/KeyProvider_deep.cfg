SPECIFICATION SpecDeep
CONSTANTS
  Day = 8
  Gaps <- GapsDeep
  Horizon = 64
  GenLen = 0
VIEW ViewDeep
INVARIANTS TypeOK HistBelow CurrentPresent CarrierFits
PROPERTIES IdsIncreasing ACurrentValid ACurrentFresh AGetOnlyValid AIdsUnique ATrackedLifetime
