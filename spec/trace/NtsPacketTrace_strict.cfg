SPECIFICATION TSpec
INVARIANTS SPredicted SRecomputed SStored
