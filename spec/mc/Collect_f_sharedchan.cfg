SPECIFICATION FairSpec
CONSTANTS
  MaxClocks = 2
  Rounds = 2
  DVals = {1, 2, 3, 5}
  Overlap = FALSE
  Hist = FALSE
  Fault = "sharedchan"
INVARIANTS ByDeadline ExactlyOncePrefix InTimeCounted NoStuckLeak SecondCallRefused CounterRestored
PROPERTIES NoLeak
