SPECIFICATION Spec
CONSTANTS
  U = 1000
  OneMs = 2
  OffMax = 20
  PB = 500000
  SatSecs = 2001
  Advs <- AdvsFull
  Offs <- OffsNoMin
  Weights <- WeightsFull
  AllowSat = FALSE
  BumpDen = 2
  InitClkEpochs = {0, 1}
  MaxLen = 5
  RawMags <- RawMagsFull
  StepUsesDoubleInv = TRUE
  DurationWraps = TRUE
VIEW ViewCore
INVARIANTS TypeOK
PROPERTIES C19Step LemmaStep
