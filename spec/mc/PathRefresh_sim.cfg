SPECIFICATION SpecSim
CONSTANTS
  P = 3
  DstLists <- DLAll
  Dsts <- Dsts123
  IAs <- IA12
  MaxN = 1
  Delays <- D027
  Horizon = 40
  MaxUpd = 99
  KeepOnFail = FALSE
  Dedup = FALSE
  GenLen = 30
INVARIANTS EmitSim
