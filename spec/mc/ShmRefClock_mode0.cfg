SPECIFICATION Spec
CONSTANTS
  WriterKind = "proto"
  Mode = 0
  NSamples = 2
  MaxCalls = 2
  MaxRetries = 0
  DlKinds <- DlNone
  ReadOrder <- AddrOrder
  AtomicAttempt = FALSE
  RecordHist = FALSE
  SModes <- ModesSmall
  SValids <- ValidsSmall
  SPairs <- PairsSmall
  SCounts = {7}
INVARIANTS NoTorn
