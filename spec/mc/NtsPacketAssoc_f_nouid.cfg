SPECIFICATION Spec
CONSTANTS
  NC = 2
  MaxRounds = 1
  MaxTries = 1
  MaxDraws = 2
  SharedIdBuf = FALSE
  UidChecked = FALSE
  StoreAfterUid = TRUE
  ServeEager = FALSE
  RecvKinds <- KindsAll
INVARIANTS OutstandingId
