package c08

// Own serialisers for everything the harness puts on the wire (NTP header,
// NTS extension fields, server cookies, authenticator, NTS-KE records, CSPTP
// messages). Nothing here calls the encoders of scion-time.

import (
	"encoding/binary"
	"math/rand"
	"strings"
	"time"

	"github.com/miscreant/miscreant.go"
)

const (
	extUID    = 0x0104
	extCookie = 0x0204
	extPH     = 0x0304
	extAuth   = 0x0404
	extUnk    = 0x0504
)

// abstract datagram (RobustTrace/Robust.tla record g)
type dgram struct {
	Sz    string  `json:"sz"`
	Src   string  `json:"src"`
	Fs    []field `json:"fs"`
	End   string  `json:"end"`
	Ck    string  `json:"ck"`
	An    string  `json:"an"`
	Ac    string  `json:"ac"`
	Av    string  `json:"av"`
	Inner string  `json:"inner"`
	Uidm  string  `json:"uidm"`
	Org   string  `json:"org"`
	B0    string  `json:"b0"`
	Meta  string  `json:"meta"`
	Ts    string  `json:"ts"`
	Ml    string  `json:"ml"`
	Mt    string  `json:"mt"`
	Seq   string  `json:"seq"`
	Tlv   string  `json:"tlv"`
	// SCION
	Cp  string `json:"cp"`
	Sc  string `json:"sc"`
	Da  string `json:"da"`
	Sa  string `json:"sa"`
	Ia  string `json:"ia"`
	Pt  string `json:"pt"`
	Ext string `json:"ext"`
	Eo  string `json:"eo"`
	L4  string `json:"l4"`
	Ul  string `json:"ul"`
	Dp  string `json:"dp"`
	Pl  string `json:"pl"`
	Tr  string `json:"tr"`
	// servers: class of the burst of concurrent traffic that precedes the datagram
	Bu string `json:"bu"`
}

type field struct {
	T string `json:"t"`
	L string `json:"l"`
}

// abstract case (record c)
type acase struct {
	Kind string   `json:"kind"`
	Auth string   `json:"auth"`
	Pre  string   `json:"pre"`
	Ke   []string `json:"ke"`
	Kt   string   `json:"kt"`
	Rs   []dgram  `json:"rs"`
	Out  string   `json:"out"`
	Site string   `json:"site"`
	// clients: InterleavedMode ("yes": the case is the history Hs on one client value)
	Il string   `json:"il"`
	Hs []hentry `json:"hs"`
}

// one exchange of a client history (Robust.tla HEntry); the harness uses X only
type hentry struct {
	X string `json:"x"`
	Q string `json:"q"`
	R string `json:"r"`
}

// session is what an NTS key exchange leaves with the party that crafts packets.
type session struct {
	c2s, s2c []byte
	cookies  [][]byte
}

func pick(rng *rand.Rand, xs ...string) string { return xs[rng.Intn(len(xs))] }

func rndBytes(rng *rand.Rand, n int) []byte {
	b := make([]byte, n)
	rng.Read(b)
	return b
}

func ntpNow() (sec, frac uint32) {
	t := time.Now()
	return uint32(t.Unix() + 2208988800), uint32(uint64(t.Nanosecond()) << 32 / 1000000000)
}

var b0Byte = map[string]byte{
	"v4c": 0x23, "v3c": 0x1b, "v1m0": 0x08, "li3c": 0xe3,
	"li1c": 0x63, "vn0c": 0x03, "vn5c": 0x2b, "v4srv": 0x24, "v1c": 0x0b,
}

// ntpRequest: 48 bytes, first byte by class, the rest from the seed; the
// transmit timestamp is returned (the reply's origin timestamp identifies it).
func ntpRequest(rng *rand.Rand, b0 string) ([]byte, [8]byte) {
	b := rndBytes(rng, 48)
	if v, ok := b0Byte[b0]; ok {
		b[0] = v
	} else {
		b[0] = byte(rng.Intn(256))
	}
	// basic mode: receive == transmit is not required; random values never match a stored rx time
	var tx [8]byte
	copy(tx[:], b[40:48])
	return b, tx
}

func putHdr(b []byte, t, l uint16) []byte {
	return append(b, byte(t>>8), byte(t), byte(l>>8), byte(l))
}

// encrypted server cookie TLVs
func ckTLV(b []byte, t uint16, v []byte, declared int) []byte {
	if declared < 0 {
		declared = len(v)
	}
	b = append(b, byte(t>>8), byte(t), byte(declared>>8), byte(declared))
	return append(b, v...)
}

// cookieValue builds the value of the first cookie for a shape class.
func cookieValue(rng *rand.Rand, shape string, s *session) []byte {
	if s == nil || len(s.cookies) == 0 {
		return rndBytes(rng, 124) // towards a client: cookies are opaque
	}
	valid := s.cookies[rng.Intn(len(s.cookies))]
	keyID := valid[4:6] // [0x0401 len=2 id]
	id := func(b []byte) []byte { return ckTLV(b, 0x0401, keyID, -1) }
	switch shape {
	case "valid":
		return append([]byte(nil), valid...)
	case "forged":
		b := id(nil)
		b = ckTLV(b, 0x0501, rndBytes(rng, 16), -1)
		return ckTLV(b, 0x0601, rndBytes(rng, 94), -1)
	case "unkkey":
		b := append([]byte(nil), valid...)
		b[4], b[5] = 0xff, byte(0xf0+rng.Intn(15))
		return b
	case "ctshort":
		b := id(nil)
		b = ckTLV(b, 0x0501, rndBytes(rng, 16), -1)
		return ckTLV(b, 0x0601, rndBytes(rng, rng.Intn(16)), -1)
	case "nonce0", "nonce15", "nonce17":
		n := map[string]int{"nonce0": 0, "nonce15": 15, "nonce17": 17}[shape]
		b := id(nil)
		b = ckTLV(b, 0x0501, rndBytes(rng, n), -1)
		return ckTLV(b, 0x0601, rndBytes(rng, 94), -1)
	case "idshort":
		return ckTLV(nil, 0x0401, nil, 0)
	case "tail":
		return append(append([]byte(nil), valid...), rndBytes(rng, 1+rng.Intn(3))...)
	case "tlvbeyondn":
		b := id(nil)
		return ckTLV(b, 0x0501, rndBytes(rng, 16), 256+rng.Intn(60000))
	case "tlvbeyondc":
		b := id(nil)
		b = ckTLV(b, 0x0501, rndBytes(rng, 16), -1)
		return ckTLV(b, 0x0601, rndBytes(rng, 20), 0xffff)
	case "tlvbeyondu":
		b := append([]byte(nil), valid...)
		return ckTLV(b, 0x0701, rndBytes(rng, 4), 256)
	case "missing":
		b := id(nil)
		return ckTLV(b, 0x0501, rndBytes(rng, 16), -1)
	}
	return rndBytes(rng, 124)
}

func pad4(n int) int { return (n + 3) &^ 3 }

// authBody builds the value of the authenticator field (after the 4-byte
// header) for the classes an/ac/av/inner. ad = everything before the header.
func authBody(rng *rand.Rand, g *dgram, key []byte, ad []byte, sess *session) []byte {
	an, ac, av, inner := g.An, g.Ac, g.Av, g.Inner
	if an == "na" {
		an = pick(rng, "n0", "n15", "n16", "n16", "n17", "nmax")
	}
	if ac == "na" {
		ac = pick(rng, "c0", "c15", "ok", "ok", "cmax")
	}
	var nonce []byte
	nlen := 0
	switch an {
	case "n0":
		nlen = 0
	case "n15":
		nlen = 15
	case "n16":
		nlen = 16
	case "n17":
		nlen = 17
	case "nmax":
		nlen = 65535
	}
	if nlen <= 64 {
		nonce = rndBytes(rng, nlen)
	} else {
		nonce = rndBytes(rng, 16) // fewer bytes than announced: the decoder zero-fills
	}
	var ct []byte
	ctlen := 0
	switch ac {
	case "c0":
		ctlen = 0
	case "c15":
		ct = rndBytes(rng, 15)
		ctlen = 15
	case "cmax":
		ct = rndBytes(rng, 20)
		ctlen = 65535
	default: // ok
		var pt []byte
		switch inner {
		case "short":
			pt = rndBytes(rng, 4+4*rng.Intn(6))
		case "cookie":
			pt = putHdr(nil, extCookie, 4+124)
			pt = append(pt, rndBytes(rng, 124)...)
		case "zero":
			pt = putHdr(nil, uint16(0x0604+0x100*rng.Intn(4)), 0)
			pt = append(pt, rndBytes(rng, 24+4*rng.Intn(8))...)
		}
		if av == "yes" && len(key) > 0 && len(nonce) == 16 {
			aead, err := miscreant.NewAEAD("AES-CMAC-SIV", key, 16)
			if err != nil {
				panic(err)
			}
			ct = aead.Seal(nil, nonce, pt, ad)
		} else {
			ct = rndBytes(rng, 16+len(pt))
		}
		ctlen = len(ct)
	}
	b := []byte{byte(nlen >> 8), byte(nlen), byte(ctlen >> 8), byte(ctlen)}
	b = append(b, nonce...)
	b = append(b, make([]byte, pad4(len(nonce))-len(nonce))...)
	b = append(b, ct...)
	b = append(b, make([]byte, pad4(len(ct))-len(ct))...)
	return b
}

// ntsTrailer appends the extension fields of g to the 48-byte header hdr.
//
//	uid   : unique identifier to use for a uid/ok field (client responses that must match)
//	key   : key for a verifying authenticator (c2s towards the server, s2c towards a client)
//	total : 0, or the exact datagram size (a leading unknown field pads to it)
func ntsTrailer(rng *rand.Rand, hdr []byte, g *dgram, sess *session, key []byte, uid []byte, total int) []byte {
	seed := rng.Int63()
	build := func(padLen int) []byte {
		rng := rand.New(rand.NewSource(seed)) // both passes make the same choices
		b := append([]byte(nil), hdr...)
		if padLen > 0 {
			b = putHdr(b, extUnk, uint16(padLen))
			b = append(b, make([]byte, padLen-4)...)
		}
		firstCookie := true
		cursor := len(b) // where the decoder reads the next header
		overlap := 0     // bytes of the next header that are already written (after a `short` field)
		for i, f := range g.Fs {
			last := i == len(g.Fs)-1
			var t uint16
			switch f.T {
			case "uid":
				t = extUID
			case "cookie":
				t = extCookie
			case "ph":
				t = extPH
			case "auth":
				t = extAuth
			default:
				t = extUnk + uint16(0x100*rng.Intn(8))
			}
			start := cursor
			// header: type (unless it overlaps a preceding short field) and a length placeholder
			for len(b) < start+4 {
				b = append(b, 0)
			}
			if overlap == 0 {
				b[start], b[start+1] = byte(t>>8), byte(t)
			}
			var val []byte
			L := 0
			switch f.L {
			case "zero":
				L = 0
				val = rndBytes(rng, 28+4*rng.Intn(8))
			case "short":
				L = 2 + rng.Intn(2)
				if last && g.End == "short" {
					// the walk must end here: fewer than 28 bytes behind the new position
					val = rndBytes(rng, 24)
				}
			case "four":
				L = 4
			case "odd":
				n := 1 + rng.Intn(3)
				L = 4 + n
				val = rndBytes(rng, n)
			case "small":
				n := 4 * (1 + rng.Intn(7))
				L = 4 + n
				val = rndBytes(rng, n)
			case "big":
				// echoed into a reply of maxPacketLen bytes: 48 + 4 + n leaves no room for the next header
				n := maxPacketLen - 52 + 4*rng.Intn(8)
				L = 4 + n
				val = rndBytes(rng, n)
			case "beyond":
				val = rndBytes(rng, 24+4*rng.Intn(8))
				L = 4 + len(val) + 1 + rng.Intn(2000)
			default: // ok
				switch f.T {
				case "uid":
					if uid != nil {
						val = append([]byte(nil), uid...)
					} else {
						val = rndBytes(rng, 32)
					}
				case "cookie":
					if firstCookie && g.Ck != "na" && g.Ck != "empty" && g.Ck != "b1to3" && g.Ck != "opaque" {
						val = cookieValue(rng, g.Ck, sess)
					} else if firstCookie && g.Ck == "na" {
						val = cookieValue(rng, pick(rng, "valid", "forged", "missing"), sess)
					} else {
						val = rndBytes(rng, 124)
					}
				case "ph":
					val = make([]byte, 124)
				case "auth":
					// filled below: needs everything before it
				default:
					val = rndBytes(rng, 24+4*rng.Intn(10))
				}
				L = 4 + len(val)
			}
			if f.T == "cookie" {
				firstCookie = false
			}
			if f.T == "auth" {
				val = authBody(rng, g, key, b[:start], sess)
				if f.L == "zero" {
					L = 0
				} else {
					L = 4 + len(val)
				}
			}
			b[start+2], b[start+3] = byte(L>>8), byte(L)
			if overlap > 0 && f.L != "short" {
				overlap = 0
			}
			b = append(b[:start+4], val...)
			switch f.L {
			case "short":
				cursor = start + L
				overlap = 4 - L
			case "zero":
				cursor = start
			default:
				if f.T == "auth" {
					cursor = len(b)
				} else if L > 4+len(val) {
					cursor = len(b) // beyond
				} else {
					cursor = start + L
				}
				overlap = 0
			}
			if last {
				// the loop condition len(b)-pos >= 28 must hold at this field's header ...
				for len(b)-start < 28 {
					b = append(b, 0)
				}
				// ... and fail behind it when the walk ends for lack of bytes
				if g.End == "short" && f.L != "zero" {
					for len(b)-cursor >= 28 {
						// cannot happen for well-formed cases; keep the invariant anyway
						b = b[:len(b)-1]
					}
				}
			}
		}
		return b
	}
	b := build(0)
	if total > 0 && total > len(b)+4 {
		b = build(total - len(b))
	}
	return b
}

// ---------------------------------------------------------------- NTS-KE
func keRec(b []byte, typ uint16, crit bool, body []byte, declared int) []byte {
	if crit {
		typ |= 0x8000
	}
	if declared < 0 {
		declared = len(body)
	}
	b = append(b, byte(typ>>8), byte(typ), byte(declared>>8), byte(declared))
	return append(b, body...)
}

var keCookie = map[string][2]int{ // symbol -> count, size
	"ck1n": {1, 124}, "ck2n": {2, 124}, "ck8n": {8, 124}, "ck9n": {9, 124},
	"ck1s": {1, 16}, "ck8z": {8, 0}, "ck1h": {1, 1000}, "ck1m": {1, 65535},
}

// keStream serialises record symbols and a terminator. srvIP/port: contents of
// the server / port records. Returns the bytes and whether the writer closes
// without an end-of-message record.
func keStream(rng *rand.Rand, syms []string, term string, srvIP string, port int) []byte {
	var b []byte
	for _, s := range syms {
		switch s {
		case "np":
			b = keRec(b, 1, true, []byte{0, 0}, -1)
		case "aead":
			b = keRec(b, 4, true, []byte{0, 15}, -1)
		case "aeadx":
			b = keRec(b, 4, true, []byte{0, byte(16 + rng.Intn(16))}, -1)
		case "srv":
			b = keRec(b, 6, false, []byte(srvIP), -1)
		case "srvx":
			b = keRec(b, 6, false, []byte("not-an-address.invalid"), -1)
		case "port":
			b = keRec(b, 7, false, []byte{byte(port >> 8), byte(port)}, -1)
		case "warnnc":
			b = keRec(b, 3, false, []byte{0, 1}, -1)
		case "unk":
			b = keRec(b, uint16(1024+rng.Intn(1000)), false, rndBytes(rng, 2*rng.Intn(8)), -1)
		case "unkbig":
			b = keRec(b, uint16(1024+rng.Intn(1000)), false, make([]byte, 65535), -1)
		default:
			if lv, ok := keLvRec(rng, s, srvIP, port); ok {
				b = append(b, lv...)
				continue
			}
			if cs, ok := keCookie[s]; ok {
				for i := 0; i < cs[0]; i++ {
					b = keRec(b, 5, false, rndBytes(rng, cs[1]), -1)
				}
			}
		}
	}
	switch term {
	case "eom":
		b = keRec(b, 0, true, nil, -1)
	case "unkc":
		b = keRec(b, uint16(1024+rng.Intn(1000)), true, rndBytes(rng, 4), -1)
	case "warn":
		b = keRec(b, 3, true, []byte{0, 1}, -1)
	case "err0", "err1", "err2", "err9":
		b = keRec(b, 2, true, []byte{0, term[3] - '0'}, -1)
	case "eof0":
	case "eofh":
		b = append(b, rndBytes(rng, 1+rng.Intn(3))...)
	case "eofb":
		b = keRec(b, uint16(1024+rng.Intn(1000)), false, rndBytes(rng, 3), 10)
	default:
		if lv, ok := keLvRec(rng, term, srvIP, port); ok {
			b = append(b, lv...)
		}
	}
	return b
}

// keIsLv: a length-variant record symbol "<type>.<len>.<crit>" of Robust.tla (KeLvSyms / KeLvTerms).
func keIsLv(sym string) bool { return strings.Count(sym, ".") == 2 }

func keHasLv(syms []string, term string) bool {
	for _, s := range syms {
		if keIsLv(s) {
			return true
		}
	}
	return keIsLv(term)
}

// keLvRec serialises one length-variant record: the declared body length is chosen independently
// of the record type; as many body bytes follow as declared ("beyond": fewer). Bodies of the
// fixed-size types whose length is not 2 are filled with 0xFF (the filler Robust.tla assumes).
func keLvRec(rng *rand.Rand, sym string, srvIP string, port int) ([]byte, bool) {
	p := strings.Split(sym, ".")
	if len(p) != 3 {
		return nil, false
	}
	types := map[string]uint16{"np": 1, "err": 2, "warn": 3, "aead": 4, "ck": 5, "srv": 6, "port": 7, "unk": uint16(1024 + rng.Intn(1000))}
	typ, ok := types[p[0]]
	if !ok {
		return nil, false
	}
	crit := p[2] == "c"
	ff := func(n int) []byte {
		x := make([]byte, n)
		for i := range x {
			x[i] = 0xff
		}
		return x
	}
	var body []byte
	declared := -1
	switch p[1] {
	case "0":
	case "1":
		body = ff(1)
		if p[0] == "ck" || p[0] == "unk" {
			body = rndBytes(rng, 1)
		}
	case "2":
		switch p[0] {
		case "aead":
			body = []byte{0, 15}
		case "port":
			body = []byte{byte(port >> 8), byte(port)}
		case "err", "warn":
			body = []byte{0, 1}
		default:
			body = []byte{0, 0}
		}
	case "3":
		body = ff(3)
	case "4":
		body = ff(4)
	case "big":
		body = ff(40)
	case "typ":
		switch p[0] {
		case "ck":
			body = rndBytes(rng, 124)
		case "srv":
			body = []byte(srvIP)
		default:
			body = rndBytes(rng, 2*rng.Intn(8))
		}
	case "beyond":
		body = rndBytes(rng, 3)
		declared = 13
	default:
		return nil, false
	}
	return keRec(nil, typ, crit, body, declared), true
}

// ---------------------------------------------------------------- CSPTP
func csptpMsg(rng *rand.Rand, typ byte, msgLen int, seq uint16) []byte {
	b := rndBytes(rng, 44)
	b[0] = typ
	b[1] = 0x12
	binary.BigEndian.PutUint16(b[2:], uint16(msgLen))
	binary.BigEndian.PutUint16(b[30:], seq)
	return b
}

func csptpTLV(rng *rand.Rand, n int, typ uint16, org [3]byte, sub [3]byte, flags uint32) []byte {
	b := rndBytes(rng, n)
	if n >= 14 {
		binary.BigEndian.PutUint16(b[0:], typ)
		binary.BigEndian.PutUint16(b[2:], uint16(n))
		copy(b[4:], org[:])
		copy(b[7:], sub[:])
		binary.BigEndian.PutUint32(b[10:], flags)
	}
	return b
}

var (
	orgMeinberg = [3]byte{0xec, 0x46, 0x70}
	subRequest  = [3]byte{0x52, 0x65, 0x71}
	subResponse = [3]byte{0x52, 0x65, 0x73}
)
