SPECIFICATION GenSpec
CONSTANTS
  W = 6
  MaxN = 4
  K = 2
  Bands <- Bands2
  Far <- FarBoth
  Variants <- VarAll
  Shared = FALSE
  SortedInputs = TRUE
INVARIANTS Emit
