// Time / key epochs at the level of the fetcher: the sequences TLC enumerated
// from ScionAuth.tla (ScionAuth_genkeys*.cfg, ScionAuth_genepochs*.cfg) are
// replayed on the REAL scion.Fetcher with the calls the listener makes for
// every authenticated request (server_scion.go: FetchHostASKey for the receive
// instant, DeriveHostHostKey for the source host, MAC comparison) -- with exact
// instants, which the live listener (kernel receive time) does not allow: the
// first nanosecond of an epoch (NotBefore), one in the middle, the last one
// (NotAfter), for epochs of 3 ns up to 3 days.
package c13

import (
	"context"
	"math/rand"
	"net"
	"os"
	"testing"
	"time"

	"github.com/scionproto/scion/pkg/addr"
	"github.com/scionproto/scion/pkg/drkey"

	"example.com/scion-time/net/scion"

	"verif/harness/internal/vio"
)

var scales = map[string]time.Duration{"3ns": 3, "3ms": 3 * time.Millisecond, "3s": 3 * time.Second,
	"3h": 3 * time.Hour, "3d": 72 * time.Hour}

func (h *harness) runFetcherSeq(id int, c *kcase, rng *rand.Rand) []*rec {
	const mode = "server"
	L, ok := scales[c.Scale]
	if !ok {
		panic("scale " + c.Scale)
	}
	ias := map[string]addr.IA{"iaS": iaS, "iaC": addr.MustIAFrom(1, 0xff0000020000), "iaC2": addr.MustIAFrom(1, 0xff0000020001)}
	pm := portMap{srv: h.w.srvPort, cp: 31000 + rng.Intn(1000), oth: -1, ias: map[addr.IA]string{}}
	for l, ia := range ias {
		pm.ias[ia] = l
	}
	// model epoch e = the daemon's epoch e + 1 = [T0 + e*L, T0 + (e+1)*L - 1 ns]
	kd := newKeyDaemon()
	w := h.w
	kd.bind(&w)
	maxEp := 0
	for _, st := range c.Steps {
		maxEp = max(maxEp, st.Ep)
	}
	T0 := time.Unix(1790000000+int64(rng.Intn(1<<20)), int64(rng.Intn(1000000000)))
	for k := 1; k <= maxEp+3; k++ {
		for _, l := range []string{"iaC", "iaC2"} {
			kd.setBound(ias[l], k, T0.Add(time.Duration(k-1)*L))
		}
	}
	f := scion.NewFetcher(kd)
	var recs []*rec
	for i := range c.Steps {
		st := &c.Steps[i]
		pos := st.Pos
		if c.Elen == 1 {
			pos = rng.Intn(3) // (an epoch of one instant: any instant of the real epoch)
		}
		T := T0.Add(time.Duration(st.Ep) * L)
		switch pos {
		case 1:
			T = T.Add(L / 2)
		case 2:
			T = T.Add(L - 1)
		}
		r := &rec{K: "fkey", ID: id, Seq: id, Step: i + 1, Sub: -1, Rsub: -1, Mode: mode, Ak: st.Ak, Pl0: "ntp", Outs: []adgram{},
			Rm: "-", Cli: "-", WFetch: st.Fetch, WExp: st.Exp, WAct: st.Wact, At: st.At, Pos: pos, Cst: st.Cst, WMacOK: st.Macok,
			Scale: c.Scale, Sn: 1, Tries: 1}
		ksia, ksh, kdh, kep := st.Sia, st.Sh, st.Dh, st.Ep+1
		switch st.Ak {
		case "keyOtherSrv":
			kdh = otherOf(kdh)
		case "keyOtherCli":
			ksh = otherOf(ksh)
		case "keyOtherIA":
			ksia = otherOf(ksia)
		case "keyPrevEpoch":
			kep--
		case "keyNextEpoch":
			kep++
		case "valid":
		default:
			panic("ak " + st.Ak)
		}
		key := hostHostKey(protoTS, iaS, ias[ksia], w.host(mode, kdh, 4).String(), w.host(mode, ksh, 4).String(), kep)
		s := &pktSpec{srcIA: ias[st.Sia], dstIA: iaS, srcHost: w.host(mode, st.Sh, 4), dstHost: w.host(mode, st.Dh, 4),
			sport: uint16(pm.cp), dport: uint16(h.w.srvPort), path: emptyPath, l4: "udp", payload: ntpRequest(0x23, h.tag(), rng),
			flow: uint32(rng.Intn(1 << 20)), auth: &authSpec{spi: spiClient, algo: algCMAC, key: key[:]}}
		wire := build(s, rng)
		q, qp := w.project(mode, wire, pm)
		q.Ul, q.Pl = "srv", "ntp"
		r.HasAuth = q.Auth != "absent"
		r.Expected = q.Aspi == "client" && q.Aalgo == "cmac"
		r.Ep, _ = kd.epochAt(ias[st.Sia], T)
		q.Auth = "bad"
		for _, e := range q.Vep {
			if e == r.Ep {
				q.Auth = "ok"
			}
		}
		r.Q = q
		r.MacOK = q.Auth == "ok"
		// what runSCIONServer does with a request that carries the expected authenticator
		before := kd.hostAS.Load()
		srvHost, cliHost := w.host(mode, st.Dh, 4).String(), w.host(mode, st.Sh, 4).String()
		hak, err := f.FetchHostASKey(context.Background(), drkey.HostASMeta{
			ProtoId: drkey.Protocol(protoTS), Validity: T, SrcIA: iaS, DstIA: ias[st.Sia], SrcHost: srvHost})
		if err != nil {
			panic(err)
		}
		hhk, err := scion.DeriveHostHostKey(hak, cliHost)
		if err != nil {
			panic(err)
		}
		r.Accepted = qp.verifies(hhk.Key[:])
		r.Fetches = int(kd.hostAS.Load() - before)
		r.InEp = hak.Epoch.Contains(T)
		r.Fep = -9
		for e := 0; e <= kd.lastEpoch(ias[st.Sia]); e++ {
			if hak.Key == hostASKey(drkey.Protocol(protoTS), iaS, ias[st.Sia], srvHost, e) {
				r.Fep = e
			}
		}
		recs = append(recs, r)
	}
	return recs
}

func TestC13Fetcher(t *testing.T) {
	if v := os.Getenv("USE_MOCK_KEYS"); v == "true" || v == "TRUE" {
		t.Fatal("USE_MOCK_KEYS must not be set for the key-regime driver")
	}
	cases := vio.ReadCases[kcase](t)
	out := vio.Create(t)
	defer out.Close()
	mk := func(last byte) net.IP { return net.IPv4(127, 99, 1, last).To4() }
	h := &harness{w: world{ipS: map[string]net.IP{"server": mk(1), "dispatcher": mk(2)}, ipC: mk(3), ipP: mk(4), ipD: mk(5), ipC2: mk(6)}}
	h.w.srvPort = 10123
	rng := rand.New(rand.NewSource(vio.Seed()))
	nseq, nrec := 0, 0
	for i := range cases {
		if cases[i].T != "seq" || cases[i].Scale == "" {
			continue
		}
		for _, r := range h.runFetcherSeq(i, &cases[i], rng) {
			out.Emit(r)
			nrec++
		}
		nseq++
	}
	t.Logf("C13F records=%d seq=%d", nrec, nseq)
}
