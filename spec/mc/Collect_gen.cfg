SPECIFICATION Spec
CONSTANTS
  MaxClocks = 4
  Overlap = TRUE
  Fault = "none"
INVARIANTS Emit
