SPECIFICATION Spec
CONSTANTS
  Fault = "none"
  KeyRegime = "drkey"
  CheckSrcHost = TRUE
  MaxDatagrams = 3
  CIAs <- CIAsE
  CHosts <- CHostsE
  EpochLen = 3
  MaxClock = 8
  Grace = 0
  KeepPathType = FALSE
  Modes <- ModesK
  ULs <- ULsK
  L4s <- L4sK
  DPorts <- DPortsK
  DHosts <- DHostsE
  Fams <- Fams4
  PathSet <- PathsK
  PathExts <- PathExtsK
  RespExts <- RespExts1
  Pls <- PlsK
  ReqAuths <- ReqAuthsE
  RespMuts <- RespMutsK
INVARIANTS TypeOK MacSound AuthReplyVerifies ReplyAddressing ForwardRule AtMostOne EmitSeq
CONSTRAINT KeysOnly
