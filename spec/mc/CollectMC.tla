----------------------------- MODULE CollectMC -----------------------------
EXTENDS Collect, Json
(***************************************************************************)
(* Model-checking wrapper for Collect.tla (C16).                           *)
(*   Collect_exh.cfg   n <= 3, overlapping call, safety + NoLeak + Emit     *)
(*                     (quick tier: decides and generates in one run)      *)
(*   Collect_deep.cfg  n <= 4, overlapping call, safety + NoLeak           *)
(*   Collect_gen.cfg   n <= 4: every reachable final observable outcome    *)
(*                     of every scenario is printed once (Emit); grouped   *)
(*                     by scenario this is the SET of outcomes the real    *)
(*                     code may show for that scenario.                    *)
(*   Collect_f_*.cfg   single-site deviations; each must violate the named *)
(*                     clause (the property section is not vacuous)        *)
(***************************************************************************)
SeqOf(f, m) == [x \in 1 .. m |-> f[x]]

\* final states: everything done and the clock at its end.  The observable
\* outcome of a round: return time, j, the prefix, and what happened to the
\* second call.
Final == AllDone /\ now = TEnd /\ ~Busy
Emit == Final =>
  PrintT(<<"CASE", ToJson([n |-> n, d |-> SeqOf(dl, n), o |-> SeqOf(oc, n),
                           rt |-> rt, j |-> j, prefix |-> Prefix,
                           phase |-> p2phase, refused |-> (p2 = "panicked")])>>)
=============================================================================
