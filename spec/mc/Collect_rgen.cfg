SPECIFICATION SpecGen
CONSTANTS
  MaxClocks = 3
  Rounds = 3
  DVals = {1, 2, 3, 5}
  Overlap = TRUE
  Hist = TRUE
  Fault = "none"
INVARIANTS EmitHist TypeOK OutcomeIsOfForm ByDeadline ExactlyOncePrefix InTimeCounted NoStuckLeak SecondCallRefused CounterRestored
