// C01 driver: replays the behaviours TLC generated from spec/SyncRound.tla on
// the real sync.Run (scripted reference clocks and peers, fake system clock,
// recording adjustment, virtual time; the fake clock's Sleep returns as late and
// its reading jumps as far as the behaviour says) under several value embeddings and
// records, per clk.Sleep call, what the loop did, in model units, for
// SyncRoundTrace.tla (monitor + strict).
package c01

import (
	"testing"
	"time"

	"example.com/scion-time/core/sync"

	"verif/harness/internal/vio"
)

type mcfg struct {
	Nref     int   `json:"nref"`
	Npeer    int   `json:"npeer"`
	Ri4      int64 `json:"ri4"`
	Pi4      int64 `json:"pi4"`
	Cutoff   int64 `json:"cutoff"`
	Interval int64 `json:"interval"`
	Timeout  int64 `json:"timeout"`
	Drift    int64 `json:"drift"`
}

type outc struct {
	K string `json:"k"`
	V int64  `json:"v"`
}

type mround struct {
	Ref   []outc  `json:"ref"`
	Rord  []int   `json:"rord"`
	Peer  []outc  `json:"peer"`
	Pord  []int   `json:"pord"`
	Rs    []int64 `json:"rs"`
	Ps    []int64 `json:"ps"`
	Ro    int64   `json:"ro"`
	Po    int64   `json:"po"`
	Rc    int64   `json:"rc"`
	Pc    int64   `json:"pc"`
	Corr  int64   `json:"corr"`
	Small bool    `json:"small"`
	// the local clock during the Sleep call before this round (half intervals)
	Slp int64 `json:"slp"`
	Stp int64 `json:"stp"`
}

type tcase struct {
	Kind    string   `json:"kind"`
	Cfg     mcfg     `json:"cfg"`
	Refused bool     `json:"refused"`
	Stated  bool     `json:"stated"`
	Rounds  []mround `json:"rounds"`
}

// rec is one line of the trace read by SyncRoundTrace.tla.
type rec struct {
	K       string `json:"k"` // "boot" | "round"
	Case    int    `json:"case"`
	Emb     int    `json:"emb"`
	Tau     int64  `json:"tau"`  // time unit of interval/timeout in ns (0: see unit)
	Unit    string `json:"unit"` // the same, readable (2^56 does not fit a TLC integer)
	Word    bool   `json:"word"` // start-up case of the word-range grid
	Cfg     mcfg   `json:"cfg"`
	Refused bool   `json:"refused"` // boot: Run panicked before reaching the loop
	Rnd     int    `json:"rnd"`
	Ndo     int    `json:"ndo"`    // adj.Do calls before this clk.Sleep
	RawOK   bool   `json:"raw_ok"` // every Do argument within the bound, on the real values
	Exact   bool   `json:"exact"`  // the model-unit fields below are exact images
	HasLog  bool   `json:"haslog"` // exactly one complete "correcting clock" record
	Corr    int64  `json:"corr"`   // (first) argument of adj.Do
	Ro      int64  `json:"ro"`     // refClkOff
	Po      int64  `json:"po"`     // peerClkOff
	Rc      int64  `json:"rc"`     // refClkCorr
	Pc      int64  `json:"pc"`     // peerClkCorr
	Rok     bool   `json:"rok"`
	Pok     bool   `json:"pok"`
	Hung    bool   `json:"hung"`   // the round never reached clk.Sleep (real-time watchdog)
	HasExp  bool   `json:"hasexp"` // expectation of the specification for this round
	ERo     int64  `json:"ero"`
	EPo     int64  `json:"epo"`
	ERc     int64  `json:"erc"`
	EPc     int64  `json:"epc"`
	ECorr   int64  `json:"ecorr"`
	// the fake local clock during the Sleep call before this round, in half
	// intervals (-1: not a whole number): how far clk.Now() moved, how long the
	// call took, clk.Epoch() afterwards; and the generated behaviour's choice
	El    int64 `json:"el"`
	Slept int64 `json:"slept"`
	Epoch int64 `json:"epoch"`
	ESlp  int64 `json:"eslp"`
	EStp  int64 `json:"estp"`
}

func realCfg(c mcfg, e emb, tau time.Duration) sync.Config {
	return sync.Config{
		ReferenceClockImpact: float64(c.Ri4) / 4,
		PeerClockImpact:      float64(c.Pi4) / 4,
		PeerClockCutoff:      time.Duration(e.a * c.Cutoff),
		SyncTimeout:          time.Duration(c.Timeout) * tau,
		SyncInterval:         time.Duration(c.Interval) * tau,
	}
}

// scripts turns the per-round outcome vectors of one kind into per-source steps.
func scripts(n int, rounds []mround, peer bool, e emb, timeout time.Duration, tau time.Duration) []*scriptedClock {
	cl := make([]*scriptedClock, n)
	for i := range cl {
		cl[i] = &scriptedClock{}
	}
	for _, r := range rounds {
		o, ord := r.Ref, r.Rord
		if peer {
			o, ord = r.Peer, r.Pord
		}
		pos := map[int]int{} // source -> arrival position among the scripted sources
		k := 0
		for _, s := range ord {
			if s <= n { // the local clock (index n+1) is not scripted
				k++
				pos[s] = k
			}
		}
		for i := 0; i < n; i++ {
			st := step{kind: o[i].K}
			switch st.kind {
			case "ok":
				st.val = time.Duration(e.ap(o[i].V))
				st.delay = timeout * time.Duration(pos[i+1]) / 8
			case "err":
				st.delay = timeout * time.Duration(i+1) / 16
			case "late":
				st.val = time.Duration(e.ap(60))
				st.delay = timeout + tau/2
			}
			cl[i].steps = append(cl[i].steps, st)
		}
	}
	return cl
}

func errClocks(n int) []*scriptedClock {
	cl := make([]*scriptedClock, n)
	for i := range cl {
		cl[i] = &scriptedClock{steps: []step{{kind: "err"}}}
	}
	return cl
}

func hasWordMax(c tcase) bool {
	for _, r := range c.Rounds {
		for _, o := range append(append([]outc{}, r.Ref...), r.Peer...) {
			if o.K == "ok" && o.V == wordMax {
				return true
			}
		}
	}
	return false
}

func eligible(c tcase) []int {
	small := true
	for _, r := range c.Rounds {
		small = small && r.Small
	}
	var res []int
	for i, e := range embs {
		if !small && e.a != 1<<56 {
			continue // 64-bit arithmetic would not wrap where the 8-bit model does
		}
		if e.ext && !hasWordMax(c) {
			continue
		}
		res = append(res, i)
	}
	return res
}

func TestC01(t *testing.T) {
	cases := vio.ReadCases[tcase](t)
	out := vio.Create(t)
	defer out.Close()
	nrec, ninexact, nruns := 0, 0, 0
	for ci, c := range cases {
		if c.Kind == "boot" {
			for ti, tau := range []time.Duration{time.Millisecond, time.Nanosecond} {
				ei := (ci + ti) % 5
				bootCase(t, out, ci, c, ei, tau)
				nruns++
				nrec++
			}
			continue
		}
		if c.Kind == "bootw" {
			for _, w := range wordEmbs {
				if w.ext && !hasWordMaxCfg(c.Cfg) {
					continue
				}
				bootWordCase(t, out, ci, c, w)
				nruns++
				nrec++
			}
			continue
		}
		el := eligible(c)
		if !vio.Thorough() && len(el) > 2 {
			el = []int{el[ci%len(el)], el[(ci/3+1+ci%len(el))%len(el)]}
		}
		for _, ei := range el {
			n, nx := runCase(t, out, ci, c, ei)
			nruns++
			nrec += n
			ninexact += nx
		}
	}
	observeNonFinite(t)
	t.Logf("C01 runs=%d records=%d inexact=%d cases=%d", nruns, nrec, ninexact, len(cases))
	if nrec == 0 {
		t.Fatal("no record produced")
	}
}
