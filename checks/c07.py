"""C07 - server per-client state stays bounded, consistent and race-free."""
import serverstore


def run(ctx):
    serverstore.run(ctx, "C07")
