SPECIFICATION GSpec
CONSTANTS
  Transport = "quic"
  ResidueAfterFailure = FALSE
  ShortCookieRead = FALSE
  DialResetsData = FALSE
  Alpns <- AlpnsOk
  Alphabet <- AlphaLen
  CutRecs <- CutLen
  MaxRecs = 4
  MaxDials = 1
  MaxCalls = 1
  MaxStore = 0
  CtxMode = "ignored"
  MaxStalls = 0
  StaleNextHop = FALSE
  Tails = TRUE
  Vias <- ViasAny
CONSTRAINT LenFamily1
INVARIANTS EmitLen1 RunAgrees
