SPECIFICATION SpecExh
CONSTANTS
  Metas <- MetasExh
  DHosts <- DH1
  Vals <- ValsExh
  E = 2
  NEpochs = 2
  MockModes <- OnlyReal
  H6 = 2
  Gaps <- NoGaps
  Horizon = 0
  MaxCalls = 4
  HHMetas <- MetasHH
  HHVals <- ValsHH
  GenLen = 0
INVARIANTS TypeOK CacheIsLast KeyValidAtRequest KeyForRequest ReuseWhileValid RefetchOnce ErrorReturned NoKeyOnError MockNoDaemon MockEpoch HostHostOneCall
PROPERTIES AKeyValidAtRequest AKeyForRequest AReuseWhileValid ARefetchOnce AErrorReturned ANoKeyOnError
