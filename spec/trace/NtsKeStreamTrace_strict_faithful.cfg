SPECIFICATION StrictSpec
CONSTANTS ShortCookieRead = TRUE
INVARIANTS SStream SNoExtraFetch SResult
