SPECIFICATION Spec
CONSTANTS
  Conn <- C1
  MaxLen = 4
  MaxIll = 2
  MaxRot = 1
  Kinds <- KAll
  Cuts <- CutsAll
  Ends <- EndsAll
  NCk = 8
  Fault = "none"
INVARIANTS TypeOK OneMessage ErrorIffBad NoEarlyAnswer ResponseShape CookiesSealSession CookiesDistinct KeyCurrent StillServingSafe

