SPECIFICATION Spec
CONSTANTS
  KPn = 1
  KPd = 4
  KIn = 1
  KId = 4
  G = 16
  Thr = 0
  FMax = 20
  Offs <- OffsSmall
  Perturb <- PertNone
  K0s <- K0sSmall
  MaxLen = 3
  StepWritesFreq = FALSE
INVARIANTS Emit
