SPECIFICATION Spec
CONSTANTS
  MaxNf = 2
  Roles <- RolesAll
  PlaceholderTypedAsCookie = TRUE
  UidChecked = FALSE
  AdWhole = TRUE
  LenChoices <- LenChoicesGen
  TruncMax = 2
INVARIANTS Sound
