// Package vio holds the small I/O helpers shared by all drivers: ndjson
// case input (VERIF_IN), ndjson trace output (VERIF_OUT), seed and tier.
package vio

import (
	"bufio"
	"encoding/json"
	"math/rand"
	"os"
	"strconv"
	"sync"
	"testing"
)

func Seed() int64 {
	s, err := strconv.ParseInt(os.Getenv("VERIF_SEED"), 10, 64)
	if err != nil {
		return 1
	}
	return s
}

func Rand() *rand.Rand { return rand.New(rand.NewSource(Seed())) }

func Thorough() bool { return os.Getenv("VERIF_TIER") == "thorough" }

// ReadCases decodes every line of $VERIF_IN into a fresh T.
func ReadCases[T any](t testing.TB) []T {
	return ReadCasesFrom[T](t, os.Getenv("VERIF_IN"))
}

func ReadCasesFrom[T any](t testing.TB, p string) []T {
	if p == "" {
		t.Fatal("VERIF_IN not set")
	}
	f, err := os.Open(p)
	if err != nil {
		t.Fatal(err)
	}
	defer f.Close()
	var res []T
	sc := bufio.NewScanner(f)
	sc.Buffer(make([]byte, 1<<20), 1<<26)
	for sc.Scan() {
		if len(sc.Bytes()) == 0 {
			continue
		}
		var c T
		if err := json.Unmarshal(sc.Bytes(), &c); err != nil {
			t.Fatalf("bad case line %q: %v", sc.Text(), err)
		}
		res = append(res, c)
	}
	if err := sc.Err(); err != nil {
		t.Fatal(err)
	}
	return res
}

// Out is an ndjson writer safe for concurrent use.
type Out struct {
	mu sync.Mutex
	f  *os.File
	w  *bufio.Writer
	N  int
}

func Create(t testing.TB) *Out { return CreateAt(t, os.Getenv("VERIF_OUT")) }

func CreateAt(t testing.TB, p string) *Out {
	if p == "" {
		t.Fatal("VERIF_OUT not set")
	}
	f, err := os.Create(p)
	if err != nil {
		t.Fatal(err)
	}
	return &Out{f: f, w: bufio.NewWriterSize(f, 1<<20)}
}

func (o *Out) Emit(rec any) {
	b, err := json.Marshal(rec)
	if err != nil {
		panic(err)
	}
	o.mu.Lock()
	o.w.Write(b)
	o.w.WriteByte('\n')
	o.N++
	o.mu.Unlock()
}

func (o *Out) Close() {
	o.mu.Lock()
	defer o.mu.Unlock()
	o.w.Flush()
	o.f.Close()
}
