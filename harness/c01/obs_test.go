package c01

import (
	"encoding/json"
	"fmt"
	"math"
	"os"
	"testing"
	"time"

	"example.com/scion-time/core/sync"
)

// Non-finite impact factors pass Run's `<= 1.0` tests. The statement of C01
// does not classify them, so this is recorded as an observation only.
type obsRec struct {
	Ri      string  `json:"ref_impact"`
	Pi      string  `json:"peer_impact"`
	Refused bool    `json:"refused"`
	Offset  int64   `json:"reported_offset_ns"`
	Corr    []int64 `json:"do_args_ns"`
	Note    string  `json:"note"`
}

func observeNonFinite(t *testing.T) {
	p := os.Getenv("VERIF_OUT")
	if p == "" {
		return
	}
	f, err := os.Create(p + ".obs")
	if err != nil {
		t.Fatal(err)
	}
	defer f.Close()
	nan, inf := math.NaN(), math.Inf(1)
	const off = int64(1) << 60
	for _, c := range [][2]float64{{nan, 2.5}, {1.25, nan}, {nan, nan}, {1.25, inf}, {inf, inf}, {inf, 2.5}} {
		cfg := sync.Config{ReferenceClockImpact: c[0], PeerClockImpact: c[1], PeerClockCutoff: 8,
			SyncTimeout: 2 * time.Millisecond, SyncInterval: 8 * time.Millisecond}
		mk := func() []*scriptedClock {
			return []*scriptedClock{{steps: []step{{kind: "ok", val: time.Duration(off), delay: time.Microsecond}}}}
		}
		res := runOnce(t, cfg, 2, time.Millisecond, 1, mk(), mk(), nil, nil)
		o := obsRec{Ri: fmt.Sprint(c[0]), Pi: fmt.Sprint(c[1]), Refused: res.panicked, Offset: off, Corr: []int64{},
			Note: "observation only: C01 does not say whether non-finite factors are admissible"}
		for _, ob := range res.rec.rounds {
			for _, d := range ob.dos {
				o.Corr = append(o.Corr, int64(d))
			}
		}
		b, _ := json.Marshal(o)
		f.Write(append(b, '\n'))
	}
	// A cap that is not a float64: 1.7 (= 1.6999999999999999556 as float64) x 10 ns
	// rounds up to 17.0, so the clamp yields 17 ns, 4.4e-16 ns above the exact
	// product. The specification reads the factors as exact rationals; recorded, not judged.
	cfg := sync.Config{ReferenceClockImpact: 1.7, PeerClockImpact: 3.0, PeerClockCutoff: 8,
		SyncTimeout: 2 * time.Millisecond, SyncInterval: 10 * time.Millisecond}
	refs := []*scriptedClock{{steps: []step{{kind: "ok", val: time.Duration(off), delay: time.Microsecond}}}}
	res := runOnce(t, cfg, 1, time.Millisecond, 1, refs, nil, nil, nil)
	o := obsRec{Ri: "1.7", Pi: "3", Refused: res.panicked, Offset: off, Corr: []int64{},
		Note: "cap 1.7 x 10 ns is not exactly representable: float64 product rounds to 17.0; exact product of the " +
			"float64 factor is 16.99999999999999955591 ns (sub-ulp excess, observation only)"}
	for _, ob := range res.rec.rounds {
		for _, d := range ob.dos {
			o.Corr = append(o.Corr, int64(d))
		}
	}
	b, _ := json.Marshal(o)
	f.Write(append(b, '\n'))
}
