SPECIFICATION TSpec
INVARIANTS MonitorReport
