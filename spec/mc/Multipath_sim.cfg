SPECIFICATION Spec
CONSTANTS
  MaxClients = 3
  MaxPaths = 4
  ThetaVecs <- Theta1
  AllCompletions = FALSE
  FW = 8
  MaxRounds = 4
  MaxRefresh = 2
  PrivateSlice = TRUE
  KeepHist = TRUE
  CheckRand = FALSE
  RandWMax = 4
  CheckUnif = FALSE
  UnifNMax = 0
CONSTRAINT SimShape
INVARIANTS EmitSes TypeOK TableIntact Distinct StickyKept ElseResetWithFilter Participants LaunchedAreParticipants OneValuePerParticipant NoPathError ResetExactlyNonSticky
