---------------------------- MODULE CsptpExchange ----------------------------
(***************************************************************************)
(* CSPTP (client-server PTP, FlashPTP style) two-message exchange:          *)
(*   client  core/client/client_csptp_ip.go  CSPTPClientIP.MeasureClockOffset*)
(*   server  core/server/server_csptp_ip.go  runCSPTPServerIP               *)
(*   codec   net/csptp/csptp.go              C2SDelay .. ClockOffset        *)
(* and a network that drops, duplicates, delays and reorders each of the    *)
(* four datagrams of an exchange (request Sync -> :319, request Follow_Up   *)
(* with the request TLV -> :320, response Sync <- :319, response Follow_Up  *)
(* with the response TLV <- :320), forges responses and contains one-step   *)
(* transparent clocks (residence time added to the correctionField).        *)
(*                                                                         *)
(* Real time is the integer `now`; a client's clock reads `now`, the        *)
(* server's clock reads now + theta.  Every timestamp is taken at its own   *)
(* tick, so timestamp values identify the event that produced them; the     *)
(* ghost fields ex (exchange = one call of MeasureClockOffset), h (server   *)
(* pairing instance), role and th (theta in force) travel with the value    *)
(* and are never inspected by the protocol actions, only by the property    *)
(* section.                                                                *)
(*                                                                         *)
(* SERVER.  The code at the pinned commit is work in progress: it validates *)
(* a request, takes csptpMu, touches nothing and leaves sequenceComplete    *)
(* FALSE, so it NEVER answers (ServerMode = "wip" is that code).            *)
(* ServerMode = "paired" is the minimal completion of the declared data     *)
(* structures (csptpClient keyed by source address, csptpContextCap         *)
(* contexts {conn, srcPort, rxTime, sequenceID, correction} per client, the *)
(* response-building code that is already there): a context waits for its   *)
(* other half with the same sequence id from the same address; the pair is  *)
(* answered once and forgotten.  It is what the client is exercised         *)
(* against, and what the server part of the property is stated for.         *)
(***************************************************************************)
EXTENDS Integers, Sequences, FiniteSets, TLC

CONSTANTS Clients,      \* client addresses (small integers)
          MaxExch,      \* calls of MeasureClockOffset in total (each opens a fresh socket)
          MaxDupReq,    \* duplications of request datagrams in total
          MaxDupResp,   \* duplications of response datagrams in total
          MaxInject,    \* forged datagrams sent to a client socket in total
          MaxTC,        \* transparent-clock residences in total
          Thetas,       \* possible server-minus-client clock offsets
          CtxCap,       \* csptpContextCap
          ServerMode,   \* "wip" (the code as it is) | "paired" (see above)
          ReusePorts,   \* TRUE: every socket of a client gets the same port
          LateRequests, \* TRUE: a request may reach the server after its call has ended
          SeqPerAttempt \* FALSE: the code (sequenceID++ only on success); TRUE: candidate fix

Residence == 3          \* ticks a transparent clock holds a datagram

TS(v, ex, h, role, th) == [v |-> v, ex |-> ex, h |-> h, role |-> role, th |-> th]
Nil == TS(-1000, 0, 0, "nil", 0)

VARIABLES now, theta,
          seq,      \* client -> CSPTPClientIP.sequenceID
          pend,     \* client -> state of the running call, or NoReq
          nex,      \* exchanges started so far (ghost numbering, global)
          owner,    \* ghost: exchange -> client
          net,      \* datagrams in flight
          dupq, dupr, injs, tcs,   \* budget counters of the network
          ctx,      \* server: client address -> sequence of contexts
          hcount,   \* server pairings so far
          pairs,    \* ghost: pairing -> what was paired
          res       \* observation: outcome of the last client receive / timeout

vars == <<now, theta, seq, pend, nex, owner, net, dupq, dupr, injs, tcs, ctx, hcount, pairs, res>>

NoReq == [sock |-> 0]
NoRes == [kind |-> "none"]
IsReq(m)  == m.kind \in {"sync", "fu"}
IsResp(m) == m.kind \in {"rsync", "rfu", "other"}

Init ==
  /\ now = 0 /\ theta \in Thetas
  /\ seq = [c \in Clients |-> 0]
  /\ pend = [c \in Clients |-> NoReq]
  /\ nex = 0 /\ owner = << >>
  /\ net = {} /\ dupq = 0 /\ dupr = 0 /\ injs = 0 /\ tcs = 0
  /\ ctx = [c \in Clients |-> << >>]
  /\ hcount = 0 /\ pairs = << >>
  /\ res = NoRes

(***************************************************************************)
(* Client: the two requests (lines 54-141).  Both leave from one socket;    *)
(* t0 is the kernel transmit timestamp of the Sync.                         *)
(***************************************************************************)
ClientSend(c) ==
  /\ pend[c] = NoReq /\ nex < MaxExch
  /\ LET k    == nex + 1
         sock == IF ReusePorts THEN 1 ELSE k
         t0   == TS(now + 1, k, 0, "cTx", 0)
     IN /\ pend' = [pend EXCEPT ![c] =
                      [sock |-> sock, ex |-> k, seq |-> seq[c], t0 |-> t0,
                       ok0 |-> FALSE, ok1 |-> FALSE,
                       r0 |-> [rx |-> Nil, corr |-> 0],
                       r1 |-> [t1 |-> Nil, rc |-> 0, t2 |-> Nil, corr |-> 0],
                       retries |-> 0]]
        /\ net' = net \cup
             {[kind |-> "sync", cl |-> c, sock |-> sock, seq |-> seq[c], ex |-> k, copy |-> 0, corr |-> 0],
              [kind |-> "fu",   cl |-> c, sock |-> sock, seq |-> seq[c], ex |-> k, copy |-> 0, corr |-> 0]}
        /\ nex' = k /\ owner' = Append(owner, c)
  /\ now' = now + 2
  /\ res' = NoRes
  /\ UNCHANGED <<theta, seq, dupq, dupr, injs, tcs, ctx, hcount, pairs>>

(***************************************************************************)
(* Network                                                                 *)
(***************************************************************************)
NetDrop(m) ==
  /\ m \in net /\ net' = net \ {m}
  /\ res' = NoRes
  /\ UNCHANGED <<now, theta, seq, pend, nex, owner, dupq, dupr, injs, tcs, ctx, hcount, pairs>>

NetDup(m) ==
  /\ m \in net /\ m.copy = 0
  /\ IF IsReq(m) THEN dupq < MaxDupReq /\ dupq' = dupq + 1 /\ dupr' = dupr
                 ELSE dupr < MaxDupResp /\ dupr' = dupr + 1 /\ dupq' = dupq
  /\ net' = net \cup {[m EXCEPT !.copy = 1]}
  /\ res' = NoRes
  /\ UNCHANGED <<now, theta, seq, pend, nex, owner, injs, tcs, ctx, hcount, pairs>>

\* a one-step transparent clock holds a Sync (request or response) for Residence
\* ticks and adds that time to its correctionField
NetTC(m) ==
  /\ m \in net /\ m.kind \in {"sync", "rsync"} /\ tcs < MaxTC
  /\ IF m.kind = "rsync" THEN m.f = "" ELSE TRUE
  /\ net' = (net \ {m}) \cup {[m EXCEPT !.corr = @ + Residence]}
  /\ now' = now + Residence
  /\ tcs' = tcs + 1
  /\ res' = NoRes
  /\ UNCHANGED <<theta, seq, pend, nex, owner, dupq, dupr, injs, ctx, hcount, pairs>>

\* datagrams that are not the server's answer to the outstanding request.  src: "e" =
\* server:319, "g" = server:320, "x" = another host.
Flaws == {"seq", "src0", "src1", "type", "wf", "tlv", "tail"}
Forged(c, f, n) ==
  LET p == pend[c]
      base == [kind |-> "rsync", cl |-> c, sock |-> p.sock, seq |-> p.seq, ex |-> 0, h |-> 0, copy |-> 0,
               corr |-> 0, src |-> "e", wf |-> TRUE, tlv |-> "none", t1 |-> Nil, rc |-> 0, t2 |-> Nil,
               f |-> f, n |-> n]
      fu   == [base EXCEPT !.kind = "rfu", !.src = "g", !.tlv = "ok"]
  IN CASE f = "seq"  -> [base EXCEPT !.seq = @ + 1]       \* another sequence id
       [] f = "src0" -> [base EXCEPT !.src = "g"]         \* Sync from the general port
       [] f = "src1" -> [fu EXCEPT !.src = "x"]           \* Follow_Up from another host
       [] f = "type" -> [base EXCEPT !.kind = "other"]    \* another PTP message type
       [] f = "wf"   -> [base EXCEPT !.wf = FALSE]        \* short / inconsistent messageLength
       [] f = "tlv"  -> [fu EXCEPT !.tlv = "bad"]         \* not the response TLV
       [] f = "tail" -> [base EXCEPT !.tlv = "ok"]        \* Sync with bytes after the header

Inject(c, f) ==
  /\ pend[c] # NoReq /\ injs < MaxInject /\ f \in Flaws
  /\ net' = net \cup {Forged(c, f, injs + 1)}
  /\ injs' = injs + 1
  /\ res' = NoRes
  /\ UNCHANGED <<now, theta, seq, pend, nex, owner, dupq, dupr, tcs, ctx, hcount, pairs>>

(***************************************************************************)
(* Server (runCSPTPServerIP, one goroutine per socket; the table is         *)
(* protected by csptpMu, so one request is one atomic step)                 *)
(***************************************************************************)
FirstIdx(s, sq, cn) ==
  IF \E i \in DOMAIN s : s[i].seq = sq /\ s[i].conn = cn
  THEN CHOOSE i \in DOMAIN s : /\ s[i].seq = sq /\ s[i].conn = cn
                               /\ \A j \in 1 .. (i - 1) : ~(s[j].seq = sq /\ s[j].conn = cn)
  ELSE 0
RemoveAt(s, i) == SubSeq(s, 1, i - 1) \o SubSeq(s, i + 1, Len(s))
Other(cn) == IF cn = "e" THEN "g" ELSE "e"

RSync(c, port, sq, ex, h) ==
  [kind |-> "rsync", cl |-> c, sock |-> port, seq |-> sq, ex |-> ex, h |-> h, copy |-> 0,
   corr |-> 0, src |-> "e", wf |-> TRUE, tlv |-> "none", t1 |-> Nil, rc |-> 0, t2 |-> Nil, f |-> "", n |-> 0]
RFu(c, port, sq, ex, h, t1, rc, t2) ==
  [kind |-> "rfu", cl |-> c, sock |-> port, seq |-> sq, ex |-> ex, h |-> h, copy |-> 0,
   corr |-> 0, src |-> "g", wf |-> TRUE, tlv |-> "ok", t1 |-> t1, rc |-> rc, t2 |-> t2, f |-> "", n |-> 0]

ServerRecv(m) ==
  /\ m \in net /\ IsReq(m)
  /\ res' = NoRes
  /\ UNCHANGED <<theta, seq, pend, nex, owner, dupq, dupr, injs, tcs>>
  /\ IF ServerMode = "wip"
     THEN \* validated, logged, csptpMu taken and released, sequenceComplete = false
          /\ net' = net \ {m} /\ now' = now + 1
          /\ UNCHANGED <<ctx, hcount, pairs>>
     ELSE
     LET c    == m.cl                                    \* key: srcAddr.Addr()
         cn   == IF m.kind = "sync" THEN "e" ELSE "g"    \* the socket it arrived on
         tab  == ctx[c]
         me   == [conn |-> cn, port |-> m.sock, seq |-> m.seq, corr |-> m.corr,
                  rx |-> TS(now + 1 + theta, m.ex, 0, "sRx", theta), ex |-> m.ex]
         oth  == FirstIdx(tab, m.seq, Other(cn))
         sam  == FirstIdx(tab, m.seq, cn)
     IN IF oth # 0
        THEN \* sequence complete: Sync response to the Sync's source port, Follow_Up
             \* response (request ingress timestamp, request correction, precise
             \* transmit time of the Sync response) to the Follow_Up's source port
             LET h  == hcount + 1
                 sy == IF cn = "e" THEN me ELSE tab[oth]
                 fu == IF cn = "g" THEN me ELSE tab[oth]
                 t1 == [sy.rx EXCEPT !.h = h]
                 t2 == TS(now + 2 + theta, sy.ex, h, "sTx", theta)
             IN /\ net' = (net \ {m}) \cup {RSync(c, sy.port, m.seq, sy.ex, h),
                                            RFu(c, fu.port, m.seq, sy.ex, h, t1, sy.corr, t2)}
                /\ ctx' = [ctx EXCEPT ![c] = RemoveAt(tab, oth)]
                /\ hcount' = h
                /\ pairs' = Append(pairs, [cl |-> c, scl |-> owner[sy.ex], fcl |-> owner[fu.ex],
                                           sseq |-> sy.seq, fseq |-> fu.seq, sex |-> sy.ex, fex |-> fu.ex])
                /\ now' = now + 3
        ELSE /\ ctx' = [ctx EXCEPT ![c] =
                          IF sam # 0 THEN [tab EXCEPT ![sam] = me]            \* repeated half: refreshed
                          ELSE IF Len(tab) = CtxCap THEN Append(Tail(tab), me) \* oldest context evicted
                          ELSE Append(tab, me)]
             /\ net' = net \ {m} /\ now' = now + 1
             /\ UNCHANGED <<hcount, pairs>>

\* the server's clock is stepped
ThetaChange ==
  /\ \E t \in Thetas \ {theta} : theta' = t
  /\ res' = NoRes
  /\ UNCHANGED <<now, seq, pend, nex, owner, net, dupq, dupr, injs, tcs, ctx, hcount, pairs>>

(***************************************************************************)
(* Client: receive loop (lines 151-298) and evaluation (lines 308-338)      *)
(***************************************************************************)
Close(c, sock) ==
  LET ex == pend[c].ex
      n1 == IF ReusePorts THEN net ELSE {m \in net : ~(IsResp(m) /\ m.cl = c /\ m.sock = sock)}
  IN IF LateRequests THEN n1 ELSE {m \in n1 : ~(IsReq(m) /\ m.ex = ex)}
SeqAfterFailure(c) == IF SeqPerAttempt THEN [seq EXCEPT ![c] = @ + 1] ELSE seq

ClientRecv(c, m) ==
  /\ pend[c] # NoReq /\ m \in net /\ IsResp(m) /\ m.cl = c /\ m.sock = pend[c].sock
  /\ now' = now + 1
  /\ UNCHANGED <<theta, nex, owner, dupq, dupr, injs, tcs, ctx, hcount, pairs>>
  /\ LET p     == pend[c]
         hdr   == m.wf /\ m.seq = p.seq            \* length >= 44, decodes, messageLength, sequenceID
         isS   == hdr /\ m.kind = "rsync"
         isF   == hdr /\ m.kind = "rfu"
         goodS == isS /\ m.src = "e" /\ m.tlv = "none"
         goodF == isF /\ m.src = "g" /\ m.tlv = "ok"
         rx    == TS(now + 1, p.ex, m.h, "cRx", 0)
         \* respmsgNOk is cleared before the source/TLV checks of that message type
         p1    == [p EXCEPT !.ok0 = IF isS THEN goodS ELSE @,
                            !.ok1 = IF isF THEN goodF ELSE @,
                            !.r0  = IF goodS THEN [rx |-> rx, corr |-> m.corr] ELSE @,
                            !.r1  = IF goodF THEN [t1 |-> m.t1, rc |-> m.rc, t2 |-> m.t2, corr |-> m.corr] ELSE @,
                            !.retries = IF @ >= 4 THEN 4 ELSE @ + 1]
         desc  == [kind |-> m.kind, seq |-> m.seq, src |-> m.src, wf |-> m.wf, tlv |-> m.tlv, f |-> m.f, want |-> p.seq]
     IN IF goodS \/ goodF
        THEN IF p1.ok0 /\ p1.ok1
             THEN LET t0 == p.t0
                      t1 == p1.r1.t1
                      t2 == p1.r1.t2
                      t3 == p1.r0.rx
                      a  == (t1.v - t0.v) - p1.r1.rc                       \* t1.Sub(t0) - t1Corr
                      b  == (t3.v - t2.v) - (p1.r0.corr + p1.r1.corr)      \* t3.Sub(t2) - t3Corr
                  IN /\ pend' = [pend EXCEPT ![c] = NoReq]
                     /\ seq' = [seq EXCEPT ![c] = @ + 1]
                     /\ net' = Close(c, p.sock) \ {m}
                     /\ res' = [kind |-> "ok", cl |-> c, ex |-> p.ex, m |-> desc,
                                t0 |-> t0, t1 |-> t1, t2 |-> t2, t3 |-> t3,
                                off2 |-> a - b, rtd |-> a + b]
             ELSE /\ pend' = [pend EXCEPT ![c] = p1]
                  /\ net' = net \ {m}
                  /\ res' = [kind |-> "stored", cl |-> c, ex |-> p.ex, m |-> desc]
                  /\ UNCHANGED seq
        ELSE IF p.retries # 3       \* numRetries != maxNumRetries (sic: "!=", not "<")
        THEN /\ pend' = [pend EXCEPT ![c] = p1]
             /\ net' = net \ {m}
             /\ res' = [kind |-> "skip", cl |-> c, ex |-> p.ex, m |-> desc]
             /\ UNCHANGED seq
        ELSE /\ pend' = [pend EXCEPT ![c] = NoReq]
             /\ net' = Close(c, p.sock) \ {m}
             /\ res' = [kind |-> "error", cl |-> c, ex |-> p.ex, m |-> desc]
             /\ seq' = SeqAfterFailure(c)    \* the code: the sequence id advances only on success

\* the context deadline passes
ClientTimeout(c) ==
  /\ pend[c] # NoReq
  /\ pend' = [pend EXCEPT ![c] = NoReq]
  /\ net' = Close(c, pend[c].sock)
  /\ res' = [kind |-> "timeout", cl |-> c, ex |-> pend[c].ex]
  /\ seq' = SeqAfterFailure(c)
  /\ UNCHANGED <<now, theta, nex, owner, dupq, dupr, injs, tcs, ctx, hcount, pairs>>

Next ==
  \/ ThetaChange
  \/ \E c \in Clients : ClientSend(c) \/ ClientTimeout(c) \/ (\E f \in Flaws : Inject(c, f))
  \/ \E m \in net : NetDrop(m) \/ NetDup(m) \/ NetTC(m) \/ ServerRecv(m)
  \/ \E c \in Clients, m \in net : ClientRecv(c, m)

Spec == Init /\ [][Next]_vars

(***************************************************************************)
(* Property section (X01)                                                  *)
(*                                                                         *)
(* (1) Every offset the client reports is computed from the four           *)
(*     timestamps of ONE exchange - t0 the transmit time of this call's     *)
(*     Sync request, t1 the server's ingress time of that request, t2 the   *)
(*     transmit time of the Sync response of the server's answer to it, t3  *)
(*     the client's receive time of (a copy of) that Sync response - and,   *)
(*     if the server clock was not stepped between t1 and t2, differs from  *)
(*     the true server-minus-client offset by at most half the round-trip   *)
(*     delay (less the residence times reported in the correction fields).  *)
(*     Environment assumptions (CsptpExchange_obs1/obs2.cfg show what       *)
(*     happens without them; both are consequences of matching the two      *)
(*     response datagrams by sequence id alone):                            *)
(*     A1 the network does not duplicate REQUEST datagrams (MaxDupReq = 0;  *)
(*        responses may be duplicated freely);                              *)
(*     A2 a request is not delivered to the server after the call that sent *)
(*        it has ended (LateRequests = FALSE) - needed only because the     *)
(*        client reuses the sequence id of a failed call (SeqPerAttempt =   *)
(*        FALSE is the code; with TRUE, A2 can be dropped: _fix1.cfg).      *)
(* (2) A datagram contributes to a result only if its sequence id is the    *)
(*     outstanding one, it is a Sync from server:319 without trailing data  *)
(*     or a Follow_Up from server:320 carrying the response TLV; any other  *)
(*     datagram is skipped or ends the call with an error.                  *)
(* (3) The server answers only a Sync and a Follow_Up with the same         *)
(*     sequence id from the same client address, each pair once; it keeps   *)
(*     at most CtxCap contexts per client; the ingress timestamp in a       *)
(*     response is that of a Sync sent by the client the response goes to.  *)
(***************************************************************************)
Ok == res.kind = "ok"
Abs(x) == IF x < 0 THEN -x ELSE x

OneExchange ==
  Ok => /\ res.t0.role = "cTx" /\ res.t0.ex = res.ex
        /\ res.t1.role = "sRx" /\ res.t1.ex = res.ex
        /\ res.t2.role = "sTx" /\ res.t2.h = res.t1.h /\ res.t1.h # 0
        /\ res.t3.role = "cRx" /\ res.t3.ex = res.ex /\ res.t3.h = res.t2.h

\* doubled, to stay in integers: |2 off - 2 theta| <= (t1-t0-c1) + (t3-t2-c3)
HalfRTT ==
  (Ok /\ res.t1.th = res.t2.th) => Abs(res.off2 - 2 * res.t1.th) <= res.rtd

AcceptOnlyMatching ==
  (res.kind \in {"ok", "stored"}) =>
     /\ res.m.wf /\ res.m.seq = res.m.want /\ res.m.f = ""
     /\ \/ (res.m.kind = "rsync" /\ res.m.src = "e" /\ res.m.tlv = "none")
        \/ (res.m.kind = "rfu" /\ res.m.src = "g" /\ res.m.tlv = "ok")

PairsOK ==
  \A h \in DOMAIN pairs : /\ pairs[h].scl = pairs[h].cl /\ pairs[h].fcl = pairs[h].cl
                          /\ pairs[h].sseq = pairs[h].fseq
AnsweredOnce ==
  \A h, g \in DOMAIN pairs : (h # g) => (pairs[h].sex # pairs[g].sex \/ pairs[h].fex # pairs[g].fex)
  \* (holds trivially per datagram; with A1 it means: per exchange)
CtxBounded == \A c \in Clients : Len(ctx[c]) <= CtxCap
CtxOwn == \A c \in Clients : \A i \in DOMAIN ctx[c] : owner[ctx[c][i].ex] = c
RespOwn ==
  \A m \in net : (m.kind = "rfu" /\ m.f = "") =>
     /\ m.t1.role = "sRx" /\ owner[m.t1.ex] = m.cl
     /\ m.t1.h = m.h /\ m.t2.h = m.h /\ m.t2.role = "sTx"
\* the code as it is: no response ever
NoAnswer == (ServerMode = "wip") => (\A m \in net : IsResp(m) => m.f # "")
=============================================================================
