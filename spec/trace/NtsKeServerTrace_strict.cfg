SPECIFICATION TSpec
INVARIANTS SOutcome SCookieCount
