SPECIFICATION Spec
CONSTANTS
  Nts = FALSE
  MaxArrivals = 1
INVARIANTS OnlyGenuine Emit
