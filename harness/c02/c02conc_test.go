// C02, concurrent callers: replays the rounds enumerated by TLC from
// spec/MidpointConc.tla (k callers, each with its own input in its own value
// band, its own package variant and operation) on the real functions.  The k
// goroutines of a round are released together and call back to back; every
// call works on a fresh copy of the caller's own input.  Every call is
// recorded; calls of one caller with the same input order and the same outcome
// are one record with a repetition count (judging the record judges them all).
// The records have the layout of the sequential driver and are judged by the
// same clauses of MidpointTrace.tla.
package c02

import (
	"math/rand"
	"os"
	"slices"
	"strconv"
	"sync"
	"sync/atomic"
	"testing"
	"time"

	"example.com/scion-time/base/timemath"
	"example.com/scion-time/core/measurements"

	"verif/harness/internal/vio"
)

type ccaller struct {
	S  []int64 `json:"s"`
	V  string  `json:"v"`
	Op string  `json:"op"`
}

type cround struct {
	K       int       `json:"k"`
	Callers []ccaller `json:"callers"`
}

// embeddings with an exact inverse for every integer (a = 1)
var concEmbs = []int{0, 1, 2}

const (
	maxOutcomes = 24 // distinct outcomes kept per caller, input order and round
	clampModel  = 31 // model value standing for "beyond every admissible input"
)

func envInt(name string, def int) int {
	if v, err := strconv.Atoi(os.Getenv(name)); err == nil && v > 0 {
		return v
	}
	return def
}

type worker interface {
	// loop calls the function under test until this caller has made reps calls
	// and all k callers have done so
	loop(start <-chan struct{}, ready *sync.WaitGroup, reps int, fin *atomic.Int32, k int32)
	// records of the calls made, and the number of calls that could not be
	// expressed in model units (never judged)
	records(round, caller, k int) ([]*rec, int)
	calls() int
}

func TestC02Conc(t *testing.T) {
	rounds := vio.ReadCases[cround](t)
	out := vio.Create(t)
	defer out.Close()
	rng := vio.Rand()
	reps := envInt("C02_REPS", 1500)
	infl := envInt("C02_INFL", 8)
	nperm := envInt("C02_PERMS", 4)
	embs := []emb{{1, 0}, {1, lim - 16}, {1, -(lim - 16)}}
	nrec, ncalls, skipped, overlapped := 0, 0, 0, 0
	for ri, rd := range rounds {
		k := len(rd.Callers)
		ei := concEmbs[ri%len(concEmbs)]
		ws := make([]worker, k)
		for c, cl := range rd.Callers {
			model := inflate(cl.S, infl)
			if cl.V == "dur" {
				ws[c] = newDurWorker(model, cl.Op, embs[ei], ei, nperm, rng)
			} else {
				ws[c] = newMeasWorker(model, cl.Op, embs[ei], ei, nperm, rng)
			}
		}
		start := make(chan struct{})
		var ready, done sync.WaitGroup
		var fin atomic.Int32
		for _, w := range ws {
			ready.Add(1)
			done.Add(1)
			go func(w worker) {
				defer done.Done()
				w.loop(start, &ready, reps, &fin, int32(k))
			}(w)
		}
		ready.Wait()
		close(start)
		done.Wait()
		more := 0
		for c, w := range ws {
			rs, sk := w.records(ri+1, c+1, k)
			skipped += sk
			ncalls += w.calls()
			if w.calls() > reps {
				more++
			}
			for _, r := range rs {
				out.Emit(r)
				nrec++
			}
		}
		// all but the slowest caller kept calling until the slowest was done
		if more >= k-1 {
			overlapped++
		}
	}
	t.Logf("C02CONC rounds=%d calls=%d records=%d inexact-skips=%d rounds-overlapped=%d",
		len(rounds), ncalls, nrec, skipped, overlapped)
	if nrec == 0 {
		t.Fatal("no record produced")
	}
}

// inflate repeats the model input m times: same value band, same share of
// arbitrary values (m*floor((n-1)/3) <= floor((m*n-1)/3)), longer calls.
func inflate(s []int64, m int) []int64 {
	res := make([]int64, 0, len(s)*m)
	for i := 0; i < m; i++ {
		res = append(res, s...)
	}
	return res
}

func orders(n, nperm int, rng *rand.Rand) [][]int {
	res := [][]int{identity(n)}
	for len(res) < nperm {
		res = append(res, rng.Perm(n))
	}
	return res
}

func clamp(v int64) (int64, bool) {
	if v > clampModel {
		return clampModel, true
	}
	if v < -clampModel {
		return -clampModel, true
	}
	return v, false
}

// ---------------------------------------------------------------- durations

type durOutcome struct {
	res      time.Duration
	post     []time.Duration
	panicked bool
	count    int
}

type durWorker struct {
	e     emb
	ei    int
	op    string
	fn    func([]time.Duration) time.Duration
	model [][]int64         // the input in model units, per order
	in    [][]time.Duration // the same in real units
	seen  [][]durOutcome    // per order
	lost  int               // calls whose outcome was not kept (more than maxOutcomes distinct ones)
	n     int
	ncall int
	ref   [2]int64 // sequential FaultTolerantMidpoint / Median of order 0, model units
}

func newDurWorker(model []int64, op string, e emb, ei, nperm int, rng *rand.Rand) *durWorker {
	w := &durWorker{e: e, ei: ei, op: op, n: len(model), fn: timemath.FaultTolerantMidpoint}
	if op == "med" {
		w.fn = timemath.Median
	}
	for _, ord := range orders(w.n, nperm, rng) {
		m := make([]int64, w.n)
		in := make([]time.Duration, w.n)
		for i, j := range ord {
			m[i] = model[j]
			in[i] = time.Duration(e.ap(model[j]))
			if int64(in[i]) >= lim || int64(in[i]) <= -lim {
				panic("embedding leaves the admissible range")
			}
		}
		w.model = append(w.model, m)
		w.in = append(w.in, in)
	}
	w.seen = make([][]durOutcome, len(w.in))
	// reference: the two functions called alone, before the round starts
	w.ref[0], _ = e.inv(int64(timemath.FaultTolerantMidpoint(slices.Clone(w.in[0]))))
	w.ref[1], _ = e.inv(int64(timemath.Median(slices.Clone(w.in[0]))))
	return w
}

func (w *durWorker) calls() int { return w.ncall }

func safeDur(fn func([]time.Duration) time.Duration, a []time.Duration) (r time.Duration, panicked bool) {
	defer func() {
		if recover() != nil {
			panicked = true
		}
	}()
	return fn(a), false
}

func (w *durWorker) loop(start <-chan struct{}, ready *sync.WaitGroup, reps int, fin *atomic.Int32, k int32) {
	a := make([]time.Duration, w.n)
	np := len(w.in)
	ready.Done()
	<-start
	for i := 0; i < 50*reps; i++ {
		p := i % np
		copy(a, w.in[p])
		r, pan := safeDur(w.fn, a)
		w.ncall++
		found := false
		for j := range w.seen[p] {
			o := &w.seen[p][j]
			if o.res == r && o.panicked == pan && slices.Equal(o.post, a) {
				o.count++
				found = true
				break
			}
		}
		if !found {
			if len(w.seen[p]) < maxOutcomes {
				w.seen[p] = append(w.seen[p], durOutcome{res: r, post: slices.Clone(a), panicked: pan, count: 1})
			} else {
				w.lost++
			}
		}
		if i+1 == reps {
			fin.Add(1)
		}
		if i+1 >= reps && fin.Load() >= k {
			break
		}
	}
}

func (w *durWorker) records(round, caller, k int) ([]*rec, int) {
	var res []*rec
	skipped := w.lost
	n := w.n
	f := (n - 1) / 3
	for p, outs := range w.seen {
		in := w.in[p]
		srt := slices.Clone(in)
		slices.Sort(srt)
		// the other operation and Midpoint: called alone, after the round
		ob := slices.Clone(in)
		var other time.Duration
		if w.op == "ftm" {
			other = timemath.Median(ob)
		} else {
			other = timemath.FaultTolerantMidpoint(ob)
		}
		mid := timemath.Midpoint(srt[f], srt[n-1-f])
		for _, o := range outs {
			r := &rec{K: "dur", Emb: w.ei, S: w.model[p], Ts: []int64{}, PostFT: []int64{}, PostMT: []int64{},
				Conc: true, Round: round, Caller: caller, NCall: k, Cop: w.op, Reps: o.count,
				Panicked: o.panicked, Ftm0: w.ref[0], Med0: w.ref[1]}
			ftm, med, pf, pm := o.res, other, o.post, ob
			if w.op == "med" {
				ftm, med, pf, pm = other, o.res, ob, o.post
			}
			r.RawOK = o.panicked || (srt[f] <= ftm && ftm <= srt[n-1-f] && srt[0] <= med && med <= srt[n-1])
			exact := true
			conv := func(v time.Duration) int64 {
				x, ok := w.e.inv(int64(v))
				if !ok {
					exact = false
				}
				x, cl := clamp(x)
				r.Clamped = r.Clamped || cl
				return x
			}
			r.Ftm, r.Med, r.Mid = conv(ftm), conv(med), conv(mid)
			r.PostF, r.PostM = make([]int64, n), make([]int64, n)
			for i := 0; i < n; i++ {
				r.PostF[i], r.PostM[i] = conv(pf[i]), conv(pm[i])
			}
			if !exact && r.RawOK {
				skipped += o.count
				continue
			}
			res = append(res, r)
		}
	}
	return res, skipped
}

// ------------------------------------------------------------- measurements

const tsUnit = 2000 // ns per model timestamp unit (even: midpoints are exact in half units)

type measOutcome struct {
	res      measurements.Measurement
	post     []measurements.Measurement
	panicked bool
	count    int
}

type measWorker struct {
	e     emb
	ei    int
	op    string
	fn    func([]measurements.Measurement) measurements.Measurement
	model [][]int64
	ts    [][]int64 // timestamps in model units, per order
	in    [][]measurements.Measurement
	seen  [][]measOutcome
	lost  int
	n     int
	ncall int
	ref   [2]int64
}

func newMeasWorker(model []int64, op string, e emb, ei, nperm int, rng *rand.Rand) *measWorker {
	w := &measWorker{e: e, ei: ei, op: op, n: len(model), fn: measurements.FaultTolerantMidpoint}
	if op == "med" {
		w.fn = measurements.Median
	}
	ts := make([]int64, w.n)
	bad := make([]bool, w.n)
	for i := range ts {
		ts[i] = int64(rng.Intn(9)) - 4
		bad[i] = rng.Intn(4) == 0
	}
	for _, ord := range orders(w.n, nperm, rng) {
		m := make([]int64, w.n)
		mt := make([]int64, w.n)
		in := make([]measurements.Measurement, w.n)
		for i, j := range ord {
			m[i], mt[i] = model[j], ts[j]
			in[i] = measurements.Measurement{
				Timestamp: t0.Add(time.Duration(tsUnit * ts[j])),
				Offset:    time.Duration(e.ap(model[j])),
			}
			if bad[j] {
				in[i].Error = sentinelErr{}
			}
		}
		w.model = append(w.model, m)
		w.ts = append(w.ts, mt)
		w.in = append(w.in, in)
	}
	w.seen = make([][]measOutcome, len(w.in))
	w.ref[0], _ = e.inv(int64(measurements.FaultTolerantMidpoint(slices.Clone(w.in[0])).Offset))
	w.ref[1], _ = e.inv(int64(measurements.Median(slices.Clone(w.in[0])).Offset))
	return w
}

func (w *measWorker) calls() int { return w.ncall }

func safeMeas(fn func([]measurements.Measurement) measurements.Measurement,
	a []measurements.Measurement) (r measurements.Measurement, panicked bool) {
	defer func() {
		if recover() != nil {
			panicked = true
		}
	}()
	return fn(a), false
}

func (w *measWorker) loop(start <-chan struct{}, ready *sync.WaitGroup, reps int, fin *atomic.Int32, k int32) {
	a := make([]measurements.Measurement, w.n)
	np := len(w.in)
	ready.Done()
	<-start
	for i := 0; i < 50*reps; i++ {
		p := i % np
		copy(a, w.in[p])
		r, pan := safeMeas(w.fn, a)
		w.ncall++
		found := false
		for j := range w.seen[p] {
			o := &w.seen[p][j]
			if o.res == r && o.panicked == pan && slices.Equal(o.post, a) {
				o.count++
				found = true
				break
			}
		}
		if !found {
			if len(w.seen[p]) < maxOutcomes {
				w.seen[p] = append(w.seen[p], measOutcome{res: r, post: slices.Clone(a), panicked: pan, count: 1})
			} else {
				w.lost++
			}
		}
		if i+1 == reps {
			fin.Add(1)
		}
		if i+1 >= reps && fin.Load() >= k {
			break
		}
	}
}

func (w *measWorker) records(round, caller, k int) ([]*rec, int) {
	var res []*rec
	skipped := w.lost
	n := w.n
	f := (n - 1) / 3
	for p, outs := range w.seen {
		in := w.in[p]
		srt := make([]int64, n)
		for i := range in {
			srt[i] = int64(in[i].Offset)
		}
		slices.Sort(srt)
		ob := slices.Clone(in)
		var other measurements.Measurement
		if w.op == "ftm" {
			other = measurements.Median(ob)
		} else {
			other = measurements.FaultTolerantMidpoint(ob)
		}
		for _, o := range outs {
			r := &rec{K: "meas", Emb: w.ei, S: w.model[p], Ts: w.ts[p],
				Conc: true, Round: round, Caller: caller, NCall: k, Cop: w.op, Reps: o.count,
				Panicked: o.panicked, Ftm0: w.ref[0], Med0: w.ref[1]}
			ftm, med, pf, pm := o.res, other, o.post, ob
			if w.op == "med" {
				ftm, med, pf, pm = other, o.res, ob, o.post
			}
			fo, mo := int64(ftm.Offset), int64(med.Offset)
			r.RawOK = o.panicked || (srt[f] <= fo && fo <= srt[n-1-f] && srt[0] <= mo && mo <= srt[n-1])
			r.ErrNil = o.panicked || (ftm.Error == nil && med.Error == nil)
			exact := true
			conv := func(v time.Duration) int64 {
				x, ok := w.e.inv(int64(v))
				if !ok {
					exact = false
				}
				x, cl := clamp(x)
				r.Clamped = r.Clamped || cl
				return x
			}
			tconv := func(t time.Time, unit int64) int64 {
				d := int64(t.Sub(t0))
				if d%unit != 0 {
					exact = false
				}
				x, cl := clamp(d / unit)
				r.Clamped = r.Clamped || cl
				return x
			}
			r.Ftm, r.Med = conv(ftm.Offset), conv(med.Offset)
			r.FtmTs2, r.MedTs2 = tconv(ftm.Timestamp, tsUnit/2), tconv(med.Timestamp, tsUnit/2)
			r.PostF, r.PostFT = make([]int64, n), make([]int64, n)
			r.PostM, r.PostMT = make([]int64, n), make([]int64, n)
			for i := 0; i < n; i++ {
				r.PostF[i], r.PostFT[i] = conv(pf[i].Offset), tconv(pf[i].Timestamp, tsUnit)
				r.PostM[i], r.PostMT[i] = conv(pm[i].Offset), tconv(pm[i].Timestamp, tsUnit)
			}
			if !exact && r.RawOK {
				skipped += o.count
				continue
			}
			res = append(res, r)
		}
	}
	return res, skipped
}
