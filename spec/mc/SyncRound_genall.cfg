SPECIFICATION Spec
CONSTANTS
  W = 8
  NRef = 3
  NPeer = 2
  Vals <- ValsMid
  Cfgs <- AdmBasic
  MaxRound = 2
  FailKinds <- AllFails
  AnyOrder = FALSE
  Canon = TRUE
  Elapse <- ElapseAll
  ElapseChoices <- GenAllElapse
VIEW View
INVARIANTS EmitEvery
