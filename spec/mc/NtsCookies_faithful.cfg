SPECIFICATION Spec
CONSTANTS
  PoolMax = 8
  CookieLen = 124
  MaxPacketLen = 1024
  PlaceholderTypedAsCookie = TRUE
  CapReply = FALSE
  Day = 2
  Ticks <- TicksExh
  Horizon = 8
  MaxEx = 1000000
  ProbeNs <- ProbesFaithful
  ProbeUids <- UidsOwn
  MaxOld = 1
  Transports <- TrIP
  ScmpTypes <- ScmpNone
  HdrStates <- HdrAll
VIEW viewU
INVARIANTS SentLeavesPool FieldCount NoShrink PoolCap StaysFull RespCount FreshCookiesOpen
PROPERTIES SingleUse Answered Fresh
