SPECIFICATION Spec
CONSTANTS
  MaxNf = 3
  Roles <- RolesAll
  PlaceholderTypedAsCookie = FALSE
  UidChecked = TRUE
  AdWhole = TRUE
  Hardened = FALSE
  StopAtAuth = TRUE
  CtLenExact = TRUE
  StoreAfterUid = TRUE
  LenChoices <- LenChoicesExh
  TruncMax = 4
INVARIANTS TypeOK Sound Complete CookieBinding AuthenticOnly RejectedInert
