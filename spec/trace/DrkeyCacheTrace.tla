-------------------------- MODULE DrkeyCacheTrace --------------------------
(***************************************************************************)
(* Validation of what the real scion.Fetcher returned (harness/x02, kind   *)
(* "drkey") against DrkeyCache.tla.  The trace is a sequence of behaviours, *)
(* each starting with a "reset" record (NewFetcher, USE_MOCK_KEYS value),  *)
(* followed by "adv" (clock step), "has" (FetchHostASKey) and "hh"         *)
(* (FetchHostHostKey) records in units of 3 h since the start; l' = l + 1. *)
(*   monitor (DrkeyCacheTrace_mon.cfg): mock, now, ret and the caller's    *)
(*     history `last` are bound to the recorded projection (ret.hit/h* are *)
(*     computed from `last` exactly as in DrkeyCache.tla) and the property *)
(*     section is evaluated as is.  The cache itself is left alone.        *)
(*   strict (DrkeyCacheTrace_strict.cfg): the specification is stepped by  *)
(*     the recorded calls with the daemon's recorded answer and must       *)
(*     return what the code returned and hold the same cache.              *)
(***************************************************************************)
EXTENDS Integers, Sequences, FiniteSets, TLC, Json

E == 2
H6 == 2
NEpochs == 16
Metas == {}
DHosts == {}
Vals == {}
MockModes == BOOLEAN
Gaps == {}
Horizon == 2000000
MaxCalls == 2000000
VARIABLES mock, now, haks, calls, ret, last, l
INSTANCE DrkeyCache

Trace == ndJsonDeserialize("trace.ndjson")
N == Len(Trace)
tvars == <<mock, now, haks, calls, ret, last, l>>

IsCallRec(e) == e.op \in {"has", "hh"}
MetaOf(e) == [proto |-> e.proto, src |-> e.src, dst |-> e.dst, host |-> e.host]
Proj(e) ==
  LET m == MetaOf(e)
      hit == e.op = "has" /\ HistHit(m, e.v)
      hk == IF e.op = "has" THEN HistKey(m) ELSE ZeroKey
  IN [op |-> e.op, proto |-> e.proto, src |-> e.src, dst |-> e.dst, host |-> e.host, dhost |-> e.dhost,
      v |-> e.v, t |-> e.t, err |-> e.err,
      kproto |-> e.kproto, ksrc |-> e.ksrc, kdst |-> e.kdst, khost |-> e.khost, kdhost |-> e.kdhost,
      nb |-> e.nb, na |-> e.na, ser |-> e.ser,
      ncalls |-> e.ncalls, nfail |-> e.nfail, cser |-> e.cser, rp |-> e.rp,
      hit |-> hit, hnb |-> hk.nb, hna |-> hk.na, hser |-> hk.ser]

TInit ==
  /\ l = 0 /\ mock = FALSE /\ now = 0 /\ haks = << >> /\ calls = 0 /\ ret = NoRet /\ last = << >>

\* ------------------------------------------------------------- monitor
MonNext ==
  /\ l < N /\ l' = l + 1
  /\ UNCHANGED <<haks, calls>>
  /\ LET e == Trace[l'] IN
     IF e.op = "reset"
     THEN mock' = e.mock /\ now' = 0 /\ ret' = NoRet /\ last' = << >>
     ELSE /\ mock' = mock
          /\ now' = e.t
          /\ IF IsCallRec(e) /\ e.exact
             THEN /\ ret' = Proj(e)
                  /\ last' = IF e.op = "has" /\ ~e.err THEN Put(last, e.dst, KeyOfRet(ret')) ELSE last
             ELSE ret' = NoRet /\ last' = last
MonSpec == TInit /\ [][MonNext]_tvars

\* the property section of DrkeyCache.tla is listed in the cfg as is; plus the
\* per-call clauses evaluated by the driver on the raw values (time.Time,
\* addr.IA, strings, key bytes): guards the embedding into model units
RRaw == l > 0 => Trace[l].raw_ok

\* -------------------------------------------------------------- strict
StrNext ==
  \/ /\ l < N /\ l' = l + 1
     /\ LET e == Trace[l'] IN
        CASE e.op = "reset" ->
               /\ mock' = e.mock /\ now' = 0 /\ haks' = << >> /\ calls' = 0
               /\ ret' = NoRet /\ last' = << >>
          [] e.op = "adv" -> Advance(e.d)
          [] e.op = "has" -> HostAS(MetaOf(e), e.v, e.rp)
          [] e.op = "hh" -> HostHost(MetaOf(e), e.dhost, e.v, e.rp)
  \/ l = N /\ UNCHANGED tvars
StrSpec == TInit /\ [][StrNext]_tvars

Judged == l > 0 /\ IsCallRec(Trace[l]) /\ Trace[l].exact
SExplained == Judged =>
  LET e == Trace[l] IN
    /\ ret.err = e.err /\ ret.nb = e.nb /\ ret.na = e.na /\ ret.ser = e.ser
    /\ ret.kproto = e.kproto /\ ret.ksrc = e.ksrc /\ ret.kdst = e.kdst
    /\ ret.khost = e.khost /\ ret.kdhost = e.kdhost
    /\ ret.ncalls = e.ncalls /\ ret.nfail = e.nfail /\ ret.cser = e.cser
STime == (l > 0 /\ Trace[l].exact /\ Trace[l].op # "reset") => now = Trace[l].t
\* the cache holds what the specification's cache holds
SlotsOf(c) == {[slot |-> c[i].slot, proto |-> c[i].proto, src |-> c[i].src, dst |-> c[i].dst,
                host |-> c[i].host, nb |-> c[i].nb, na |-> c[i].na, ser |-> c[i].ser] : i \in DOMAIN c}
SCache == Judged =>
  SlotsOf(Trace[l].cache) =
    {[slot |-> s, proto |-> haks[s].proto, src |-> haks[s].src, dst |-> haks[s].dst,
      host |-> haks[s].host, nb |-> haks[s].nb, na |-> haks[s].na, ser |-> haks[s].ser] : s \in DOMAIN haks}
\* ... and it is what the generating TLC run printed for this event
SExpected == (Judged /\ Trace[l].hasx /\ Trace[l].gsrc # "rnd") =>
  LET e == Trace[l] IN
    e.err = e.xerr /\ e.nb = e.xnb /\ e.na = e.xna /\ e.ser = e.xser /\ e.ncalls = e.xncalls
SUnits == l > 0 => (Trace[l].e = E /\ Trace[l].h6 = H6)
=============================================================================
