SPECIFICATION SpecGen
CONSTANTS
  Metas <- MetasMockG
  DHosts <- DH1
  Vals <- ValsMock
  E = 2
  NEpochs = 3
  MockModes <- OnlyMock
  H6 = 2
  Gaps <- GapsMock
  Horizon = 6
  MaxCalls = 99
  HHMetas <- MetasHH
  HHVals <- ValsMock
  GenLen = 3
INVARIANTS Emit
