SPECIFICATION SimSpec
CONSTANTS
  QPS = 512
  G = 8192
  DPS = 1000000000
  Variant = "code"
  AdjOffs <- OffsA
  AdjDurs <- DursA
  AdjFreqs <- FreqsA
  StepOffs <- StepsA
  Deltas <- DeltaA
  DoOffs <- None
  DoStats <- None
  MaxOps = 1000
  MaxAdv = 1000
  DoAtomic = TRUE
  KeepHist = TRUE
  EpochReads = TRUE
  MaxLen = 12
INVARIANTS Emit
