"""C09 - servers answer exactly the valid client requests, once, to the sender.

spec/Listener.tla (pipeline of runIPServer / runSCIONServer + ValidateRequest +
reply header/addressing)  <->  the real listeners on loopback (harness/c09).

 1. TLC decides the property section on the specification: the complete
    first-byte x length x trailer x transport product for one listener
    (Listener_exh), two listeners and a forged source address (Listener_pair;
    thorough: Listener_pairdeep and, with two forged datagrams, Listener_deep).
 2. spec -> code: TLC enumerates the cases (Listener_gen*.cfg, Emit) and the
    forged-source cases (Listener_genpair*.cfg).
 3. the Go driver sends each of them to StartIPServer / StartSCIONServer.
 4. code -> spec: ListenerTrace.tla, monitor (= the property section on the
    recorded events; decides) then strict (= the pipeline's prediction; DRIFT).

VERIF_C09_CORRUPT=<kind> corrupts one recorded field before validation
(negative control of the binding): drop_reply | dup_reply | reply_mode |
reply_stratum | swap_path | pair_count.
"""
import os, threading
import vlib


def _par(jobs):
    """run callables concurrently; re-raise the first exception"""
    res, errs = [None] * len(jobs), []

    def w(i, f):
        try:
            res[i] = f()
        except BaseException as e:  # noqa
            errs.append(e)
    ts = [threading.Thread(target=w, args=(i, f)) for i, f in enumerate(jobs)]
    for t in ts:
        t.start()
    for t in ts:
        t.join()
    if errs:
        raise errs[0]
    return res


def _sig(inv, r):
    if r is None:
        return "C09 %s ?" % inv
    if r["k"] == "pair":
        return "C09 %s pair %s" % (inv, r["tp"])
    if r["k"] == "stage":
        return "C09 %s stage %s" % (inv, r["stage"])
    b = r["b0"]
    ln = r["len"]
    lc = "<48" if ln < 48 else "48" if ln == 48 else ">48"
    if r["n"] == 0 and inv in ("ToSender", "ReplyHeader", "MRawReverse"):
        # only the sentinel's reply can be meant
        return "C09 %s sentinel-reply %s%s" % (inv, r["tp"], (" hosts=%s>%s" % (r["sc"]["st"], r["sc"]["dt"])) if r["tp"] == "scion" else "")
    if r["sn"] != 1 and r["n"] == r["exp"] and not inv.startswith("S"):
        # the case itself was handled as the statement demands; the well-formed
        # request that followed it on the same listener socket got no reply
        return "C09 %s sentinel-after %s len%s tr=%s" % (inv, r["tp"], lc, r["tr"])
    fam = (" hosts=%s>%s" % (r["sc"]["st"], r["sc"]["dt"])) if r["tp"] == "scion" and r["sc"]["st"] + r["sc"]["dt"] != "v4v4" else ""
    return "C09 %s %s%s len%s tr=%s li=%d vn=%d mode=%d" % (inv, r["tp"], fam, lc, r["tr"], b >> 6, (b >> 3) & 7, b & 7)


def _corrupt(recs, kind):
    """negative control: change one recorded field"""
    for r in recs:
        if r["k"] == "case" and r["n"] == 1 and r["id"] >= 0 and (kind != "swap_path" or r["pk"] == "s3"):
            if kind == "drop_reply":
                r["out"], r["n"] = [], 0
            elif kind == "dup_reply":
                r["out"], r["n"] = r["out"] * 2, 2
            elif kind == "reply_mode":
                r["out"][0]["b0"] = 0x23
            elif kind == "reply_stratum":
                r["out"][0]["st"] = 2
            elif kind == "swap_path":
                r["out"][0]["sc"]["path"] = r["sc"]["path"]
            else:
                continue
            return
    for r in recs:
        if r["k"] == "pair" and kind == "pair_count":
            r["arecv"] += 2
            return
    raise vlib.Inconclusive("corruption %s not applicable" % kind)


def run(ctx):
    q = ctx.quick
    ctx.specdir()
    # 1 + 2: design-level model checking and case generation, concurrently
    jobs = [lambda: ctx.tlc("ListenerMC", "Listener_exh.cfg" if q else "Listener_exhall.cfg", workers=6, timeout=900),
            lambda: ctx.tlc("ListenerMC", "Listener_pair.cfg", workers=3, timeout=600),
            lambda: ctx.tlc("ListenerMC", "Listener_gen.cfg" if q else "Listener_gendeep.cfg",
                            workers=1, timeout=600, tag="gen"),
            lambda: ctx.tlc("ListenerMC", "Listener_genpair.cfg" if q else "Listener_genpairdeep.cfg",
                            workers=1, timeout=600, tag="genpair")]
    # histories of three datagrams on one listener socket (HistoryIndependence), and
    # the proof that the invariant is not vacuous: the variant that restores the
    # receive buffer only after a served request must violate it
    jobs += [lambda: ctx.tlc("ListenerMC", "Listener_hist.cfg", workers=2, timeout=600),
             lambda: ctx.tlc("ListenerMC", "Listener_f_stalebuf.cfg", workers=2, timeout=600, allow_violation=True,
                             tag="f_stalebuf")]
    if not q:
        jobs += [lambda: ctx.tlc("ListenerMC", "Listener_deep.cfg", workers=3, timeout=900),
                 lambda: ctx.tlc("ListenerMC", "Listener_pairdeep.cfg", workers=3, timeout=900)]
    res = _par(jobs)
    for r in res:
        ctx.log("TLC %s: %d distinct states, %.1fs" % (r["cfg"], r["distinct"], r["wall_s"]))
    if res[5]["violated"] != "HistoryIndependence":
        raise vlib.Inconclusive("self-check: the stale-buffer variant of Listener.tla does not violate HistoryIndependence")
    cases = ctx.emitted(res[2]["out"])
    pairs = ctx.emitted(res[3]["out"])
    if len(cases) < 30000 or len(pairs) < 300 or {c["fam"] for c in cases} != {"44", "46", "64", "66"}:
        raise vlib.Inconclusive("case generator produced only %d cases / %d pair cases" % (len(cases), len(pairs)))
    # vacuity self-check: every stage of the pipeline at which the model drops a
    # datagram, and acceptance, must occur among the generated cases on both transports
    stages = {"none", "ntp.DecodePacket", "nts.DecodePacket:errNoUniqueID", "nts.DecodePacket:errNoAuthenticator",
              "nts.DecodePacket:errUnexpectedExtHdrLength", "nts.DecodePacket:errShortUniqueID",
              "EncryptedServerCookie.Decode", "FirstCookie", "provider.Get", "EncryptedServerCookie.Decrypt", "nts.ProcessRequest", "ntp.ValidateRequest"}
    for tp in ("ip", "scion"):
        seen = {c["drop"] for c in cases if c["tp"] == tp}
        if seen != stages:
            raise vlib.Inconclusive("generated %s cases do not exercise the stages %s" % (tp, sorted(stages ^ seen)))
    cp, pp = ctx.path("cases.ndjson"), ctx.path("pairs.ndjson")
    vlib.write_ndjson(cp, cases)
    vlib.write_ndjson(pp, pairs)

    # 3: the real listeners
    trace, out = ctx.godriver("c09", "TestC09", cases=cp, env={"VERIF_PAIRS": pp}, timeout=900)
    recs = vlib.read_ndjson(trace)
    ncase = sum(1 for r in recs if r["k"] == "case")
    npair = sum(1 for r in recs if r["k"] == "pair")
    stage_recs = [r for r in recs if r["k"] == "stage"]
    obs = [r for r in recs if r["k"] != "stage"]
    ctx.log("driver: %d case records (%d cases), %d pair records (%d pair cases)" % (ncase, len(cases), npair, len(pairs)))
    if not recs:
        raise vlib.Inconclusive("driver recorded nothing:\n" + out[-2000:])
    retried = sum(1 for r in recs if r["k"] == "case" and r["tries"] > 1)
    if retried:
        ctx.notes.append("%d cases needed more than one attempt (sentinel reply not seen within 2 s)" % retried)
    kind = os.environ.get("VERIF_C09_CORRUPT")
    if kind:
        _corrupt(recs, kind)
        ctx.notes.append("trace corrupted on purpose: " + kind)
    # the driver stops early only after recording why: sentinels that were not
    # answered (cases) or run-away traffic between the two servers (pairs)
    complete = all(r["sn"] == 1 for r in recs if r["k"] == "case")
    calm = all(r["arecv"] + r["brecv"] <= 2 for r in recs if r["k"] == "pair")
    reps = 1 if q else 2
    if (complete and ncase < reps * len(cases) + 2) or (complete and calm and npair < len(pairs)):
        raise vlib.Inconclusive("driver stopped early without an observation that explains it (%d/%d, %d/%d)"
                                % (ncase, len(cases), npair, len(pairs)))

    # 4: monitor decides; strict reports drift. A violation ends a TLC run, so the
    # records with the same structural signature are set aside and the rest is
    # validated again (a few rounds: enough to name the distinct ways it fails).
    # the trace module reads "trace.ndjson"; the two validations use separate
    # spec directories so that they can run side by side
    def mon_and_strict(rs):
        sd = ctx.path("spec_strict")
        if not os.path.isdir(sd):
            import shutil
            shutil.copytree(ctx.specdir(), sd)
        pm = ctx.path("mon.ndjson")
        vlib.write_ndjson(pm, rs)
        # common case: one run with the monitor's and the strict invariants together;
        # only if that fails are they run separately to tell VIOLATION from DRIFT
        a = ctx.validate("ListenerTrace", "ListenerTrace_all.cfg", pm, timeout=900, workers=6)
        if a[0]:
            return a, a

        def strict():
            # same machinery as ctx.validate, in the second directory
            c2 = _Sub(ctx, sd)
            return c2.validate("ListenerTrace", "ListenerTrace_strict.cfg", pm, timeout=900, workers=4)
        return _par([lambda: ctx.validate("ListenerTrace", "ListenerTrace_mon.cfg", pm, timeout=900, workers=4),
                     strict])

    cur = recs
    nval = 0
    drift_done = False
    for rnd in range(3):
        (ok, l, inv, tout), (sok, sl, sinv, sout) = mon_and_strict(cur)
        if not sok and not drift_done:
            bad = cur[sl - 1] if sl else None
            ctx.drift.append("%s: record differs from Listener.tla's prediction: %s" % (sinv, _brief(bad)))
            drift_done = True
        if ok:
            nval = len(cur)
            break
        if l is None:
            raise vlib.Inconclusive("monitor failed without a trace position:\n" + tout[-1500:])
        bad = cur[l - 1]
        sig = _sig(inv, bad)
        ctx.violation(sig, "real listener violates %s: %s" % (inv, _brief(bad)), bad)
        ctx.log("monitor: %s" % sig)
        cur = [r for r in cur if _sig(inv, r) != sig]
    valid = [r for r in recs if r["k"] == "case" and r["n"] > 0]
    ctx.cov.update(
        evaluations=len(recs),
        distinct_nontrivial=len({(r["k"], r["tp"], r["b0"], r["len"], r["tr"], r["pk"], r.get("fam", ""), r["src"]["h"]) for r in obs}),
        rule="every first payload byte 0..255 x {0,1,47,48,49,75,76,1024,2048 and each trailer class's natural length} "
             "x 18 trailer classes (none, <28 bytes, unknown fields, uid only, no uid, no cookie, valid NTS, valid NTS with "
             "placeholders, bad tag, wrong key, altered header, unknown cookie key, altered cookie, data after authenticator, "
             "field length < 4, short uid, undecodable cookie, nonce length != 16) x {IP, SCION} (TLC-enumerated from "
             "Listener.tla; other bytes random per seed); SCION: path kinds {empty, 1, 2, 2 mid-path, 3 segments} x host "
             "address types {v4>v4, v6>v6, v4>v6, v6>v4} (%s); each case is followed on the same socket by a well-formed "
             "48- or 252-byte request (two-datagram history per record); plus forged-source datagrams between two servers "
             "(%s first bytes x 3 shapes x {IP, SCION} x 2 directions); "
             "distinct = distinct (kind, transport, first byte, length, trailer class, path kind, address types, source host)"
             % ("non-empty paths and non-v4 hosts with 27 key first bytes" if q else "non-v4 hosts with 27 key first bytes",
                "27 key" if q else "all 256"),
        traces_validated_against_impl=nval, exhaustive=True,
        replies_observed=len(valid),
        records_per_predicted_stage={st: sum(1 for r in obs if r["drop"] == st) for st in sorted(stages)},
        stage_log_counts={r["stage"]: [r["logged"], r["predicted"]] for r in stage_recs},
        samples=[_brief(r) for r in (valid[:2] + [r for r in recs if r["k"] == "pair"][:2] + obs[-1:])])
    ctx.assumptions += [
        "a datagram counts as the listener's answer to a case iff it reaches the sending socket before the reply to the "
        "sentinel request sent from the same socket right after the case (same 4-tuple => same SO_REUSEPORT listener, FIFO on loopback)",
        "the abstraction is complete for the decisions of the pinned pipeline: bytes that no stage looks at are random per seed",
        "since the decoder fixes in /repo the trailer classes include extension fields with Length < 4, short unique "
        "identifiers, undecodable cookies and nonce lengths != 16 (clean rejections; on older trees they kill the listener "
        "and the check reports INCONCLUSIVE)",
        "SPAO-authenticated SCION requests, SCMP and the forwarding branch of the SCION loop are out of scope (C13)",
        "datagrams with bytes after the NTS authenticator are recorded but not judged (the statement is silent on them)",
        "pair experiment: 'total datagrams ever sent' is read from the servers' own received-packet counters after the "
        "counters have been quiet for 6 ms"]


def _brief(r):
    if r is None:
        return "?"
    if r["k"] == "stage":
        return r
    if r["k"] == "pair":
        return {k: r[k] for k in ("k", "tp", "b0", "len", "tr", "src", "dst", "arecv", "brecv", "asrv", "bsrv", "exp")}
    d = {k: r[k] for k in ("k", "id", "tp", "b0", "len", "tr", "pk", "n", "slen", "sn", "tries", "exp", "drop")}
    d["out"] = [{k: o[k] for k in ("b0", "st", "len", "src", "echo", "raw_ok")} for o in r["out"]]
    if r["tp"] == "scion":
        d["sc"] = r["sc"]
        for i, o in enumerate(r["out"]):
            d["out"][i]["sc"] = o["sc"]
    return d


class _Sub:
    """ctx.validate against a second copy of the spec directory (vlib's Ctx
    always uses <scratch>/spec; two TLC runs reading different trace.ndjson
    files must not share it)."""

    def __init__(self, ctx, d):
        self.ctx, self.d = ctx, d

    def validate(self, module, cfg, trace_path, timeout=900, workers=4):
        import shutil, subprocess, tempfile, time, re
        shutil.copy(trace_path, os.path.join(self.d, "trace.ndjson"))
        meta = tempfile.mkdtemp(prefix="meta-", dir=self.ctx.scratch)
        cmd = ["timeout", str(timeout), "java", "-XX:+UseSerialGC", "-Xmx6g", "-Xss64m", "-Djava.io.tmpdir=" + meta, "-cp",
               "/opt/veriftools/tla/tla2tools.jar:/opt/veriftools/tla/CommunityModules-deps.jar",
               "tlc2.TLC", "-metadir", meta, "-config", cfg, "-noGenerateSpecTE", "-workers", str(workers),
               "-deadlock", module]
        t = time.time()
        p = subprocess.run(cmd, cwd=self.d, stdout=subprocess.PIPE, stderr=subprocess.STDOUT, text=True, errors="replace")
        shutil.rmtree(meta, ignore_errors=True)
        out = p.stdout
        if p.returncode == 124:
            raise vlib.Inconclusive("TLC timeout on %s/%s" % (module, cfg))
        m = re.findall(r"(\d+) states generated, (\d+) distinct states found", out)
        self.ctx.tlc_runs.append(dict(module=module, cfg=cfg, generated=int(m[-1][0]) if m else 0,
                                      distinct=int(m[-1][1]) if m else 0, wall_s=round(time.time() - t, 2),
                                      tag="trace:" + cfg))
        mv = re.search(r"Invariant (\S+) is violated", out)
        if mv:
            return False, self.ctx.trace_state_l(out), mv.group(1), out
        if p.returncode == 0 and "Model checking completed. No error has been found" in out:
            return True, None, None, out
        raise vlib.Inconclusive("TLC failed on %s/%s (rc=%s):\n%s" % (module, cfg, p.returncode, "\n".join(out.splitlines()[-40:])))
