SPECIFICATION TSpec
INVARIANTS RNormalised RShiftDrops RTsRoundTrip RTsRevRoundTrip RPpm RDrift RFormula
