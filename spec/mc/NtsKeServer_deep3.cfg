SPECIFICATION Spec
CONSTANTS
  Conn <- C3
  MaxLen = 2
  MaxIll = 0
  MaxRot = 1
  Kinds <- KTiny
  Cuts <- CutsNone
  Ends <- EndsHalf
  NCk = 8
  Fault = "none"
INVARIANTS TypeOK OneMessage ErrorIffBad NoEarlyAnswer ResponseShape CookiesSealSession CookiesDistinct KeyCurrent StillServingSafe

