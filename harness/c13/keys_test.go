// Key regime "drkey" (no USE_MOCK_KEYS): the host-to-host key is a function of
// (server ISD-AS, client ISD-AS, server host, client host). Each worker runs one
// REAL listener loop (server.VerifRunSCIONServer: runSCIONServer with
// scion.NewFetcher over a DRKey daemon of the harness) and replays the
// sequences TLC enumerated from ScionAuth.tla (ScionAuth_genkeys*.cfg): requests
// whose MAC was computed under the key of this pair / another server host /
// another client host / another ISD-AS, in orders that first fill the listener's
// key cache with another host's key. The real SCIONClient (DRKey fetcher over the
// same daemon) measures against the same listener through the relay.
package c13

import (
	"context"
	"crypto/sha256"
	"log/slog"
	"math/rand"
	"net"
	"net/netip"
	"os"
	"sync"
	"sync/atomic"
	"testing"
	"time"

	"github.com/prometheus/client_golang/prometheus"
	"github.com/scionproto/scion/pkg/addr"
	"github.com/scionproto/scion/pkg/daemon"
	"github.com/scionproto/scion/pkg/drkey"
	"github.com/scionproto/scion/pkg/drkey/generic"
	"github.com/scionproto/scion/pkg/scrypto/cppki"

	"example.com/scion-time/core/server"
	"example.com/scion-time/core/timebase"
	"example.com/scion-time/driver/clocks"
	"example.com/scion-time/net/ntske"

	"verif/harness/internal/vio"
)

const protoTS = 123 // DRKey protocol number of the time service (ScionAuth.tla!DRKeyProtocolTS)

// host-AS key of (server IA, client IA, server host): what a control service
// would derive; here a hash of the metadata
func hostASKey(proto drkey.Protocol, srvIA, cliIA addr.IA, srvHost string) drkey.Key {
	h := sha256.Sum256([]byte("c13|" + proto.String() + "|" + srvIA.String() + "|" + cliIA.String() + "|" + srvHost))
	var k drkey.Key
	copy(k[:], h[:])
	return k
}

func hostHostKey(proto drkey.Protocol, srvIA, cliIA addr.IA, srvHost, cliHost string) drkey.Key {
	k, err := (&generic.Deriver{Proto: proto}).DeriveHostHost(cliHost, hostASKey(proto, srvIA, cliIA, srvHost))
	if err != nil {
		panic(err)
	}
	return k
}

// the harness's DRKey daemon: only the two calls net/scion/drkey.go makes
type keyDaemon struct {
	daemon.Connector
	hostAS   atomic.Int64 // DRKeyGetHostASKey calls
	hostHost atomic.Int64
	ttl      atomic.Int64 // validity of the next key handed out beyond the requested instant, ns
}

const (
	longTTL  = int64(6 * time.Hour)
	shortTTL = int64(80 * time.Millisecond)
)

func (d *keyDaemon) epoch(at time.Time) drkey.Epoch {
	return drkey.Epoch{Validity: cppki.Validity{NotBefore: at.Add(-time.Hour), NotAfter: at.Add(time.Duration(d.ttl.Load()))}}
}

func (d *keyDaemon) DRKeyGetHostASKey(ctx context.Context, meta drkey.HostASMeta) (drkey.HostASKey, error) {
	d.hostAS.Add(1)
	return drkey.HostASKey{ProtoId: meta.ProtoId, Epoch: d.epoch(meta.Validity), SrcIA: meta.SrcIA, DstIA: meta.DstIA,
		SrcHost: meta.SrcHost, Key: hostASKey(meta.ProtoId, meta.SrcIA, meta.DstIA, meta.SrcHost)}, nil
}

func (d *keyDaemon) DRKeyGetHostHostKey(ctx context.Context, meta drkey.HostHostMeta) (drkey.HostHostKey, error) {
	d.hostHost.Add(1)
	return drkey.HostHostKey{ProtoId: meta.ProtoId, Epoch: d.epoch(meta.Validity), SrcIA: meta.SrcIA, DstIA: meta.DstIA,
		SrcHost: meta.SrcHost, DstHost: meta.DstHost,
		Key: hostHostKey(meta.ProtoId, meta.SrcIA, meta.DstIA, meta.SrcHost, meta.DstHost)}, nil
}

// one step of a sequence as printed by ScionAuthMC!EmitSeq
type kstep struct {
	Sia    string `json:"sia"`
	Sh     string `json:"sh"`
	Dh     string `json:"dh"`
	Ak     string `json:"ak"`
	Asked  bool   `json:"asked"`
	Exp    bool   `json:"exp"`
	Fetch  bool   `json:"fetch"`
	Wact   string `json:"wact"`
	Wauthd bool   `json:"wauthd"`
}

type kcase struct {
	T     string  `json:"t"` // "seq" | "e2e"
	Steps []kstep `json:"steps"`
	// e2e
	Rm string `json:"rm"`
}

var iaSeq atomic.Uint64

func otherOf(x string) string {
	switch x {
	case "S":
		return "D"
	case "D":
		return "S"
	case "C":
		return "C2"
	case "C2":
		return "C"
	case "iaC":
		return "iaC2"
	case "iaC2":
		return "iaC"
	}
	return x
}

func (h *harness) runSeq(id int, c *kcase, kd *keyDaemon, rng *rand.Rand) []*rec {
	const mode = "server"
	// fresh client ISD-AS numbers: the listener's cache holds nothing for them
	n := iaSeq.Add(2)
	ias := map[string]addr.IA{"iaS": iaS,
		"iaC":  addr.MustIAFrom(1, addr.AS(0xff0000010000+n)),
		"iaC2": addr.MustIAFrom(1, addr.AS(0xff0000010001+n))}
	pm := portMap{srv: h.w.srvPort, oth: -1, ias: map[addr.IA]string{}}
	for l, ia := range ias {
		pm.ias[ia] = l
	}
	P := h.listen(h.w.ipP)
	defer P.Close()
	pm.cp = 31000 + rng.Intn(1000)
	dst := udpAddr(h.w.ipS[mode], h.w.srvPort)
	var recs []*rec
	sentAt := make([]time.Time, len(c.Steps))
	for i := range c.Steps {
		st := &c.Steps[i]
		r := &rec{K: "key", ID: id, Seq: id, Step: i + 1, Sub: -1, Rsub: -1, Mode: mode, Ak: st.Ak, Pl0: "ntp", Outs: []adgram{},
			Rm: "-", Cli: "-", WFetch: st.Fetch, WExp: st.Exp, WAct: st.Wact}
		// the key's lifetime: short iff the specification lets it run out before its next use
		kd.ttl.Store(longTTL)
		for j := i + 1; j < len(c.Steps); j++ {
			if c.Steps[j].Sia == st.Sia && c.Steps[j].Asked && (c.Steps[j].Exp || c.Steps[j].Fetch) {
				if c.Steps[j].Exp {
					kd.ttl.Store(shortTTL)
				}
				break
			}
		}
		if st.Exp {
			// the entry this step meets was fetched at the last fetching step of the same ISD-AS
			for j := i - 1; j >= 0; j-- {
				if c.Steps[j].Sia == st.Sia && c.Steps[j].Fetch {
					time.Sleep(time.Until(sentAt[j].Add(time.Duration(shortTTL) + 10*time.Millisecond)))
					break
				}
			}
		}
		// the tuple whose key the MAC is computed with
		ksia, ksh, kdh := st.Sia, st.Sh, st.Dh
		switch st.Ak {
		case "keyOtherSrv":
			kdh = otherOf(kdh)
		case "keyOtherCli":
			ksh = otherOf(ksh)
		case "keyOtherIA":
			ksia = otherOf(ksia)
		case "valid":
		default:
			panic("ak " + st.Ak)
		}
		key := hostHostKey(protoTS, iaS, ias[ksia], h.w.host(mode, kdh, 4).String(), h.w.host(mode, ksh, 4).String())
		s := &pktSpec{srcIA: ias[st.Sia], dstIA: iaS, srcHost: h.w.host(mode, st.Sh, 4), dstHost: h.w.host(mode, st.Dh, 4),
			sport: uint16(pm.cp), dport: uint16(h.w.srvPort), path: emptyPath, l4: "udp", payload: ntpRequest(0x23, h.tag(), rng),
			flow: uint32(rng.Intn(1 << 20)), auth: &authSpec{spi: spiClient, algo: algCMAC, key: key[:]}}
		wire := build(s, rng)
		q, qp := h.w.project(mode, wire, pm)
		q.Ul, q.Pl = "srv", "ntp"
		r.Q = q
		r.HasAuth = q.Auth != "absent"
		r.Expected = q.Aspi == "client" && q.Aalgo == "cmac"
		r.MacOK = q.Auth == "ok"
		lo := layoutOf(wire)
		reqPath := typedPath{lo.pathType, append([]byte{}, wire[lo.pathOff:lo.hdrLen]...)}
		reqPl := append([]byte{}, qp.l4Payload()...)
		swire, mark := h.sentinelFor(mode, P, rng)
		before := kd.hostAS.Load()
		P.WriteToUDP(wire, dst)
		P.WriteToUDP(swire, dst)
		P.SetReadDeadline(time.Now().Add(sentinelWait))
		buf := make([]byte, 16384)
		for r.Sn == 0 && len(r.Outs) < 16 {
			nb, from, err := P.ReadFromUDP(buf)
			if err != nil {
				break
			}
			b := append([]byte{}, buf[:nb]...)
			if isSentinelReply(b, mark) {
				r.Sn = 1
				break
			}
			r.Outs = append(r.Outs, h.observe(mode, b, from, "prev", pm, reqPl, reqPl[40:48], reqPath, reqPath, "ntp"))
		}
		sentAt[i] = time.Now()
		r.Fetches = int(kd.hostAS.Load() - before)
		r.Tries = 1
		recs = append(recs, r)
		if r.Sn == 0 {
			break // the rest of the sequence would meet an unknown cache
		}
	}
	return recs
}

func TestC13Keys(t *testing.T) {
	if v := os.Getenv("USE_MOCK_KEYS"); v == "true" || v == "TRUE" {
		t.Fatal("USE_MOCK_KEYS must not be set for the key-regime driver")
	}
	cases := vio.ReadCases[kcase](t)
	out := vio.Create(t)
	defer out.Close()
	timebase.RegisterClock(clocks.NewSystemClock(slog.New(slog.DiscardHandler), clocks.UnknownDrift))
	hsh := uint32(os.Getpid())*2654435761 ^ uint32(time.Now().UnixNano())
	base := net.IPv4(127, byte(1+(hsh>>8)%250), byte(hsh>>16), 0).To4()
	mk := func(last byte) net.IP { ip := append(net.IP{}, base...); ip[3] = last; return ip }
	w0 := world{ipS: map[string]net.IP{"server": mk(1), "dispatcher": mk(2)}, ipC: mk(3), ipP: mk(4), ipD: mk(5), ipC2: mk(6)}
	w0.keyFn = func(srvIA, cliIA addr.IA, srvHost, cliHost netip.Addr) []byte {
		k := hostHostKey(protoTS, srvIA, cliIA, srvHost.String(), cliHost.String())
		return k[:]
	}
	log := slog.New(slog.DiscardHandler)
	if os.Getenv("C13_LOG") != "" {
		log = slog.New(slog.NewTextHandler(os.Stderr, &slog.HandlerOptions{Level: slog.LevelDebug}))
	}
	const workers = 12
	hs := make([]*harness, workers)
	kds := make([]*keyDaemon, workers)
	for w := 0; w < workers; w++ {
		// one real listener loop per worker: its own socket, fetcher and key cache
		conn, err := net.ListenUDP("udp4", &net.UDPAddr{IP: w0.ipS["server"]})
		if err != nil {
			t.Fatal(err)
		}
		if portOf(conn) == endhostPort {
			w--
			conn.Close()
			continue
		}
		kd := &keyDaemon{}
		kd.ttl.Store(longTTL)
		h := &harness{w: w0, dc: kd, grace: 3 * time.Millisecond}
		h.w.srvPort = portOf(conn)
		// the loop registers its counters on the default registerer when it starts
		prometheus.DefaultRegisterer = prometheus.NewRegistry()
		go server.VerifRunSCIONServer(context.Background(), log, conn, h.w.srvPort, 0, kd, ntske.NewProvider())
		P := h.listen(h.w.ipP)
		swire, mark := h.sentinelFor("server", P, rand.New(rand.NewSource(int64(w))))
		up := false
		for try := 0; try < 50 && !up; try++ {
			P.WriteToUDP(swire, udpAddr(h.w.ipS["server"], h.w.srvPort))
			for _, x := range drain(P, 100*time.Millisecond) {
				up = up || isSentinelReply(x.b, mark)
			}
		}
		P.Close()
		if !up {
			t.Logf("C13K records=0 seq=0 e2e=0 lost=1 aborted=1")
			return
		}
		hs[w], kds[w] = h, kd
	}
	prometheus.DefaultRegisterer = prometheus.NewRegistry()

	var wg sync.WaitGroup
	var lost, nseq, nstep, ne2e atomic.Int64
	for w := 0; w < workers; w++ {
		wg.Add(1)
		go func(w int) {
			defer wg.Done()
			rng := rand.New(rand.NewSource(vio.Seed()*1000 + int64(w)))
			for i := w; i < len(cases); i += workers {
				if lost.Load() > 24 {
					return
				}
				c := &cases[i]
				var rs []*rec
				if c.T == "e2e" {
					kds[w].ttl.Store(longTTL)
					tc := &tcase{T: "e2e", Mode: "server", Ul: "srv", L4: "udp", Dp: "srv", Dh: "S", Sfam: 4, Dfam: 4,
						Path: emptyPath, Pl: "ntp", Ak: "valid", Ext: "e2e", Rext: "e2e", Cauth: true, Rm: c.Rm}
					r := hs[w].runE2EOne(i, tc, -1, -1, rng).r
					rs = []*rec{r}
					ne2e.Add(1)
				} else {
					rs = hs[w].runSeq(i, c, kds[w], rng)
					nseq.Add(1)
					nstep.Add(int64(len(rs)))
				}
				for _, r := range rs {
					if r.Sn != 1 {
						lost.Add(1)
					}
					out.Emit(r)
				}
			}
		}(w)
	}
	wg.Wait()
	t.Logf("C13K records=%d seq=%d e2e=%d lost=%d aborted=0", nstep.Load()+ne2e.Load(), nseq.Load(), ne2e.Load(), lost.Load())
}
