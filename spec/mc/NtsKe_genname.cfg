SPECIFICATION GSpec
CONSTANTS
  Transport = "tls"
  ResidueAfterFailure = FALSE
  ShortCookieRead = FALSE
  DialResetsData = TRUE
  Alpns <- AlpnsOk
  Alphabet <- AlphaNaming
  CutRecs <- CutNone
  MaxRecs = 6
  MaxDials = 1
  MaxCalls = 2
  MaxStore = 0
  CtxMode = "ignored"
  MaxStalls = 0
  StaleNextHop = FALSE
  Tails = FALSE
  Vias <- ViasMeasure
CONSTRAINT Naming
INVARIANTS EmitNaming RunAgrees
