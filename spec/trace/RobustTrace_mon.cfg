SPECIFICATION TSpec
INVARIANTS RWellFormed RNeverDead RProgress RSentinelServed
