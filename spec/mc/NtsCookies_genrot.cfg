SPECIFICATION HSpec
CONSTANTS
  PoolMax = 8
  CookieLen = 124
  MaxPacketLen = 1280
  PlaceholderTypedAsCookie = FALSE
  CapReply = TRUE
  Day = 2
  Ticks <- GTicksRot
  Horizon = 40
  MaxEx = 14
  ProbeNs <- GProbesRot
  ProbeUids <- GUidsRot
  MaxOld = 2
  Transports <- TrIP
  ScmpTypes <- ScmpNone
  HdrStates <- HdrSync
  HdrPct = 0
  Exhaustive = FALSE
  Biases <- BiasLow
  TickPct = 35
  ProbePct = 30
  StalePct = 5
  ExInj <- InjX
  ScmpPct = 0
  ExScmp <- ScmpX0
INVARIANTS Emit
PROPERTIES StepOfSpec
