SPECIFICATION SpecGen
CONSTANTS
  Metas <- MetasGen
  DHosts <- DH1
  Vals <- ValsGen
  E = 2
  NEpochs = 3
  MockModes <- OnlyReal
  H6 = 2
  Gaps <- NoGaps
  Horizon = 0
  MaxCalls = 99
  HHMetas <- MetasHH
  HHVals <- ValsHH
  GenLen = 3
INVARIANTS Emit
