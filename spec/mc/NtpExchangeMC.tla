--------------------------- MODULE NtpExchangeMC ---------------------------
EXTENDS NtpExchange
ThetasSmall == {0, 40, -40}
ThetasTwo == {0, 40}
\* IP: the client's end host attaches nothing to a response
FwdNone == {"none"}
\* SCION: every class of end-host forwarder stamp (end-to-end option 253)
FwdAll == {"none", "inside", "before", "after", "bad"}
=============================================================================
