--------------------------- MODULE PiController ---------------------------
(***************************************************************************)
(* X03 (1) - the PI clock discipline of core/sync/adjustments/pi_linux.go  *)
(* (PIController.Do), the production Adjustment of timeservice.go.         *)
(*                                                                         *)
(* The controller acts on the kernel clock only through clock_adjtime:     *)
(* one read (modes = 0) and one write per call, either                     *)
(*   ADJ_SETOFFSET|ADJ_NANO  (step by the measured offset), or             *)
(*   ADJ_FREQUENCY           (new frequency).                              *)
(* The kernel is modelled by its frequency register `kfreq` (what the read *)
(* returns), clamped to +-FMax like Linux does (MAXFREQ = 500 ppm =        *)
(* 32768000 scaled ppm), and possibly changed behind the controller's back *)
(* (Perturb).                                                              *)
(*                                                                         *)
(* Units.  Frequencies are integers in "frequency units" (an integral      *)
(* number of the kernel's scaled ppm), offsets are integers in "offset     *)
(* quanta".  G is the number of frequency units one quantum of offset is   *)
(* worth at gain 1, so the proportional term of an offset is               *)
(* off * G * KP.  KP = KPn/KPd, KI = KIn/KId; G is chosen so that every    *)
(* product below is integral (ASSUME).  The real code computes in float64  *)
(* and truncates the result to scaled ppm: it agrees with this arithmetic  *)
(* up to one scaled ppm unit (2^-16 ppm), which is far below one frequency *)
(* unit of the embeddings used by harness/x03.                             *)
(*                                                                         *)
(* Do, transcribed (pi_linux.go:72-125):                                   *)
(*   freq := kernel frequency                                              *)
(*   warn if c.freq # 0, c.freq within +-FMax and c.freq # freq            *)
(*   c.i  += c.freqAddend * KI                 (the part that is kept)     *)
(*   freq -= c.freqAddend - c.freqAddend * KI  (the part that is reverted) *)
(*   if StepThreshold # 0 and |offset| >= StepThreshold:                   *)
(*        step(offset); c.freqAddend = 0; c.freq = 0                       *)
(*        -- the reverted frequency is NOT written (StepWritesFreq=FALSE)  *)
(*   else c.freqAddend = offset * KP; freq += c.freqAddend;                *)
(*        write freq; c.freq = freq                                        *)
(***************************************************************************)
EXTENDS Integers, Sequences

CONSTANTS KPn, KPd,        \* proportional gain KP = KPn / KPd
          KIn, KId,        \* kept part of the previous proportional term, KI = KIn / KId
          G,               \* frequency units per offset quantum at gain 1
          Thr,             \* step threshold in offset quanta, 0 = never step
          FMax,            \* the kernel clamps its frequency to +-FMax
          Offs,            \* measured offsets (quanta)
          Perturb,         \* changes of the kernel frequency by somebody else between two calls
          K0s,             \* kernel frequency before the first call
          MaxLen,          \* calls per history
          StepWritesFreq   \* FALSE: the code as it is.  TRUE: what-if, the step branch also
                           \* writes the frequency with the non-kept part reverted

VARIABLES kfreq,    \* the kernel's frequency register
          cfreq,    \* c.freq: the frequency written by the last call, 0 after a step
          addend,   \* c.freqAddend: proportional term of the last call, 0 after a step
          integ,    \* c.i: the sum of the kept parts
          act,      \* what the last call did to the kernel
          lastIn,   \* its inputs
          lastPa,   \* ghost: the proportional term in force when it was entered
          base,     \* ghost: k0 plus all perturbations
          clean,    \* ghost: the kernel never clamped a written frequency
          nsteps,   \* ghost: number of steps so far
          hist      \* the calls so far, with the specification's result (generator)

vars == <<kfreq, cfreq, addend, integ, act, lastIn, lastPa, base, clean, nsteps, hist>>

Abs(x)   == IF x < 0 THEN -x ELSE x
Clamp(x) == IF x > FMax THEN FMax ELSE IF x < -FMax THEN -FMax ELSE x
Prop(off) == (off * G * KPn) \div KPd
Keep(a)   == (a * KIn) \div KId

ASSUME /\ KPd > 0 /\ KId > 0 /\ KPn >= 0 /\ KIn >= 0 /\ KIn <= KId
       /\ \A o \in Offs : (o * G * KPn) % KPd = 0 /\ (Prop(o) * KIn) % KId = 0

NoAct == [k |-> "none", x |-> 0, w |-> 0, kread |-> 0, warn |-> FALSE]
NoIn  == [off |-> 0, pert |-> 0]

Init ==
  /\ kfreq \in K0s
  /\ cfreq = 0 /\ addend = 0 /\ integ = 0
  /\ act = NoAct /\ lastIn = NoIn /\ lastPa = 0
  /\ base = kfreq /\ clean = TRUE /\ nsteps = 0
  /\ hist = << >>

StepsOn(off) == Thr # 0 /\ Abs(off) >= Thr

\* One call PIController.Do(in.off); before it the kernel frequency was moved by in.pert.
Do(in) ==
  LET k0   == Clamp(kfreq + in.pert)
      warn == cfreq # 0 /\ cfreq >= -FMax /\ cfreq <= FMax /\ cfreq # k0
      i1   == integ + Keep(addend)
      f1   == k0 - (addend - Keep(addend))
  IN
  /\ lastIn' = in
  /\ lastPa' = addend
  /\ base' = base + in.pert
  /\ integ' = i1
  /\ IF StepsOn(in.off)
     THEN /\ act' = [k |-> "step", x |-> in.off, w |-> 0, kread |-> k0, warn |-> warn]
          /\ kfreq' = IF StepWritesFreq THEN Clamp(f1) ELSE k0
          /\ addend' = 0
          /\ cfreq' = 0
          /\ nsteps' = nsteps + 1
          /\ clean' = (clean /\ (StepWritesFreq => Clamp(f1) = f1) /\ kfreq + in.pert = k0)
     ELSE LET a  == Prop(in.off)
              f2 == f1 + a
          IN /\ act' = [k |-> "freq", x |-> 0, w |-> f2, kread |-> k0, warn |-> warn]
             /\ kfreq' = Clamp(f2)
             /\ addend' = a
             /\ cfreq' = f2
             /\ nsteps' = nsteps
             /\ clean' = (clean /\ Clamp(f2) = f2 /\ kfreq + in.pert = k0)
  /\ hist' = Append(hist, [off |-> in.off, pert |-> in.pert, k |-> act'.k, x |-> act'.x, w |-> act'.w,
                           kread |-> act'.kread, warn |-> act'.warn, kafter |-> kfreq'])

Next == Len(hist) < MaxLen /\ \E o \in Offs, p \in Perturb : Do([off |-> o, pert |-> p])

Spec == Init /\ [][Next]_vars

(***************************************************************************)
(* PROPERTY SECTION (stated from the evident intent of pi.go/pi_linux.go). *)
(* The predicates speak about one call: a = what it did to the kernel      *)
(* (kind, step amount, frequency written, frequency read at entry),        *)
(* in = its input, pa = the proportional term of the previous call if      *)
(* that call slewed, 0 if it stepped or if there was none.                 *)
(*                                                                         *)
(*  Kind        every call actuates: either one step (ADJ_SETOFFSET with   *)
(*              ADJ_NANO; a frequency may be written along with it) or     *)
(*              exactly one frequency write (ADJ_FREQUENCY); no other      *)
(*              adjtimex mode (ADJ_OFFSET, status bits, ...) is ever used  *)
(*  StepRule    it steps iff stepping is enabled (threshold # 0) and       *)
(*              |offset| >= threshold; otherwise it slews                  *)
(*  StepAmount  a step moves the clock by exactly the measured offset      *)
(*  SlewValue   a slew writes  (frequency read at entry)                   *)
(*                             - (1 - KI) * (previous proportional term)   *)
(*                             + KP * offset ;                             *)
(*              in particular the term of a call before a step is not      *)
(*              reverted a second time (the controller forgets it), and    *)
(*              the written value is finite and has the sign of that sum   *)
(***************************************************************************)
KindP(a)            == a.k \in {"step", "freq"}
StepRuleP(a, in)    == (a.k = "step") <=> StepsOn(in.off)
StepAmountP(a, in)  == a.k = "step" => a.x = in.off
SlewValueP(a, in, pa) == a.k = "freq" => a.w = a.kread - (pa - Keep(pa)) + Prop(in.off)

PiCall(a, in, pa) == KindP(a) /\ StepRuleP(a, in) /\ StepAmountP(a, in) /\ SlewValueP(a, in, pa)

\* on the specification: every call satisfies the clauses (pa: the ghost lastPa,
\* which by PaGhost is the observable definition above)
X03Pi == act.k # "none" => PiCall(act, lastIn, lastPa)
PaGhost == Len(hist) >= 2 =>
             lastPa = (IF hist[Len(hist) - 1].k = "freq" THEN Prop(hist[Len(hist) - 1].off) ELSE 0)

(***************************************************************************)
(* Design-level facts about the control law (decided by TLC on this        *)
(* module, not judged on the code).                                        *)
(*  Decomposition: as long as the kernel did not clamp, the kernel         *)
(*  frequency is  base + integral part (c.i) + current proportional term.  *)
(*  It holds while the controller only slews (DecompNoStep).  With the     *)
(*  code as it is (StepWritesFreq = FALSE) it FAILS after a slew followed  *)
(*  by a step: c.i is increased by KI * addend, but the frequency write is *)
(*  skipped, so the whole stale proportional term stays in the kernel and, *)
(*  c.freqAddend being 0 afterwards, is never reverted.  Decomp holds with *)
(*  StepWritesFreq = TRUE.  Reported as an observation (X03 report).       *)
(***************************************************************************)
DecompNoStep == (clean /\ nsteps = 0) => kfreq = base + integ + addend
Decomp       == clean => kfreq = base + integ + addend
=============================================================================
