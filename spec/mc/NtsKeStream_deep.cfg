SPECIFICATION Spec
CONSTANTS
  ShortCookieRead = FALSE
  Alphabet <- AlphaDeep
  MaxRecs = 3
  MaxChunks = 4
INVARIANTS TypeOK SegmentationIndependent KeRoundTrip
