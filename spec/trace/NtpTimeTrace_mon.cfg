SPECIFICATION TSpec
INVARIANTS RWithin1ns RNeverLater ROrder RAgg RConsistent
