------------------------------ MODULE Filters ------------------------------
(***************************************************************************)
(* The two offset filters behind measurements.Filter                       *)
(*   core/client/filter_flash.go   LuckyPacketFilter  (Do, Reset, New...)  *)
(*   core/client/filter_ntimed.go  NtimedFilter       (Do, Reset)          *)
(* Two independent machines in one module; the constant Which selects the  *)
(* one that moves (the other one stays in its initial state).              *)
(*                                                                         *)
(* Lucky packet filter: modelled completely (window, both sorts, the       *)
(* truncation to pick, the median arithmetic with Go's truncating `/ 2`).  *)
(* A sample is the pair (off, rtd) that ntp.ClockOffset / RoundTripDelay   *)
(* compute from the four timestamps; the driver concretises every pair to  *)
(* four timestamps giving exactly these two numbers.                       *)
(*                                                                         *)
(* Ntimed filter: control skeleton only.  The running averages alo, amid,  *)
(* ahi, alolo, ahihi are IEEE-754 doubles; what the skeleton keeps of them *)
(* is `dep`, the list of samples they summarise.  Whether a sample is      *)
(* below / above the learned limits (failLo, failHi in the code) is an     *)
(* input of the Sample action.                                             *)
(*                                                                         *)
(* The clock epoch is not part of the filter: timebase.Epoch() is read by  *)
(* separate steps of Do (once for the test `f.epoch != timebase.Epoch()`,  *)
(* once more inside the Reset that the test triggers), and the clock can   *)
(* be stepped by another goroutine (the sync loop) between any two of      *)
(* them.  Do is therefore four actions (call, test, reset-read, body) and  *)
(* the environment action NStepInDo may fire between them.  The lucky      *)
(* packet filter never reads the clock (neither Epoch() nor Now()), so the *)
(* interleaving dimension does not exist for it.                           *)
(***************************************************************************)
EXTENDS Integers, Sequences, FiniteSets, TLC

CONSTANTS Which,          \* "lucky" | "ntimed"
          Caps, Picks,    \* arguments of NewLuckyPacketFilter; the zero value is added by UnconfToo
          UnconfToo,      \* BOOLEAN: also the zero value &LuckyPacketFilter{}
          Offs, Rtds,     \* sample values (model units)
          DistinctOnly,   \* BOOLEAN: only histories with pairwise distinct delays
          Clk0s,          \* clock epochs at which an Ntimed behaviour may start (0: equal to the zero value's epoch)
          MaxEv,          \* bound on the number of events of a behaviour
          FilterAverage,  \* const filterAverage = 20.0
          Classes,        \* sample classes <<failLo, failHi>> the environment offers
          StepAt,         \* numbers k of Epoch() reads of a Do after which a clock step may land inside that Do
          MaxInDo         \* bound on the number of clock steps of a behaviour that land inside a Do

VARIABLES cap,     \* cap(f.state); 0 for the zero value (unconfigured)
          kcfg,    \* the `pick` argument as configured
          pick,    \* f.pick = min(pick, cap)
          win,     \* f.state: FIFO window, sequence of [off, rtd]
          lout,    \* last value returned by LuckyPacketFilter.Do
          lastn,   \* ghost (property section): the last max(cap,1) samples since the last Reset
          navg,    \* f.navg (integral values only)
          fepoch,  \* f.epoch
          clk,     \* timebase.Epoch()
          dep,     \* ids of the samples summarised in alo, amid, ahi, alolo, ahihi
          nout,    \* result of NtimedFilter.Do if that was the last event: branch, dependency set, ...
          since,   \* ghost (property section): ids of the samples whose Do was called since the last Reset / clock step
          amb,     \* ghost (property section): << id >> of the sample whose Do was in progress when the last
                   \*   clock step landed (seen before or since: either reading is allowed), else << >>
          pc,      \* control point of NtimedFilter.Do: "idle" | "test" | "reset" | "body"
          rd,      \* timebase.Epoch() reads made so far by the Do in progress
          stp,     \* for each clock step that landed inside the Do in progress: the value of rd then
          hist     \* events so far (behaviour generator, bounds)

lvars == <<cap, kcfg, pick, win, lout, lastn>>
nvars == <<navg, fepoch, clk, dep, nout, since, amb, pc, rd, stp>>
vars  == <<lvars, nvars, hist>>

Min2(a, b) == IF a <= b THEN a ELSE b
Max2(a, b) == IF a >= b THEN a ELSE b
Abs(x) == IF x >= 0 THEN x ELSE -x
\* Go's `/ 2` on time.Duration truncates toward zero
TDiv2(z) == IF z >= 0 THEN z \div 2 ELSE -((-z) \div 2)
Last(s) == s[Len(s)]
LastN(s, n) == IF Len(s) <= n THEN s ELSE SubSeq(s, Len(s) - n + 1, Len(s))

(***************************************************************************)
(* Lucky packet filter                                                     *)
(***************************************************************************)
\* slices.SortFunc on at most 12 elements is a plain insertion sort: element
\* i moves left while it is strictly smaller than its predecessor, i.e. it
\* ends up behind all earlier elements whose key is <= its own (stable).
\* f is the name of the key field ("rtd" or "off").
InsertSorted(s, m, f) ==
  LET p == Cardinality({i \in DOMAIN s : s[i][f] <= m[f]})
  IN SubSeq(s, 1, p) \o <<m>> \o SubSeq(s, p + 1, Len(s))
RECURSIVE InsSort(_, _)
InsSort(s, f) ==
  IF s = << >> THEN << >>
  ELSE InsertSorted(InsSort(SubSeq(s, 1, Len(s) - 1), f), s[Len(s)], f)

NoOut == [has |-> FALSE, v |-> 0]
Some(v) == [has |-> TRUE, v |-> v]

\* LuckyPacketFilter.Do for the sample m = [off, rtd]; c = cap(f.state), p = f.pick, w = f.state
LDo(c, p, w, m) ==
  IF c = 0 THEN [win |-> w, out |-> m.off]               \* cap(f.state) == 0: raw offset
  ELSE
    LET w1 == IF Len(w) = c THEN Tail(w) ELSE w          \* copy(state[0:], state[1:]); state = state[:len-1]
        w2 == Append(w1, m)                              \* append
        lp == IF p < Len(w2)                             \* luckyPkts = copy of state
              THEN SubSeq(InsSort(w2, "rtd"), 1, p)      \* sort by rtd, truncate to pick
              ELSE w2
        so == InsSort(lp, "off")                         \* sort by off
        n  == Len(so)
        i  == n \div 2                                   \* 0-based index n/2 is 1-based i+1
    IN [win |-> w2,
        out |-> IF n % 2 # 0 THEN so[i + 1].off
                ELSE so[i].off + TDiv2(so[i + 1].off - so[i].off)]

\* NewLuckyPacketFilter(c, k) (c, k >= 1) or the zero value (c = k = 0)
LNew(c, k) ==
  /\ cap' = c /\ kcfg' = k /\ pick' = Min2(k, c)
  /\ win' = << >> /\ lout' = NoOut /\ lastn' = << >>

LSampleCore(o, r) ==
  LET m == [off |-> o, rtd |-> r]
      d == LDo(cap, pick, win, m)
  IN /\ win' = d.win
     /\ lout' = Some(d.out)
     /\ lastn' = LastN(Append(lastn, m), Max2(cap, 1))
     /\ UNCHANGED <<cap, kcfg, pick>>

LResetCore ==                                            \* f.state = f.state[:0]
  /\ win' = << >>
  /\ lout' = NoOut
  /\ lastn' = << >>
  /\ UNCHANGED <<cap, kcfg, pick>>

(***************************************************************************)
(* Ntimed filter, control skeleton                                         *)
(***************************************************************************)
\* the if / else-if chain of Do; n is f.navg after the increment
Branch(n, fl, fh) ==
  IF fl /\ fh THEN 1
  ELSE IF n > 3 /\ fl THEN 2          \* mid = amid + (hi - ahi)
  ELSE IF n > 3 /\ fh THEN 3          \* mid = amid + (lo - alo)
  ELSE 4
\* branches 1 and 4 leave mid = (lo + hi) / 2; Do returns Inv(Duration(mid)),
\* which is the NTP clock offset ((sRx - cTx) + (sTx - cRx)) / 2
RawBranch(b) == b \in {1, 4}

NNoOut == [has |-> FALSE, br |-> 0, raw |-> FALSE, n |-> 0, fl |-> FALSE, fh |-> FALSE,
           dep |-> << >>, cands |-> {}, rd |-> 0]

NNew(e) ==                                               \* NewNtimedFilter: zero value
  /\ navg' = 0 /\ fepoch' = 0 /\ dep' = << >> /\ nout' = NNoOut
  /\ clk' = e /\ since' = << >> /\ amb' = << >>
  /\ pc' = "idle" /\ rd' = 0 /\ stp' = << >>

\* ghost: the readings of "the samples seen since the last reset / clock
\* step" that the statement allows at this moment.  A sample whose Do was in
\* progress when the clock was stepped was handed to the filter before the
\* step and answered after it: it may be counted on either side.
Readings == {since, amb \o since}

\* --- NtimedFilter.Do, one action per interaction with the clock -----------
NDoCallCore ==                                           \* Do(cTx, sRx, sTx, cRx) is entered
  /\ pc = "idle"
  /\ pc' = "test" /\ rd' = 0 /\ stp' = << >> /\ nout' = NNoOut
  /\ UNCHANGED <<navg, fepoch, clk, dep, since, amb>>

NDoTestCore ==                                           \* if f.epoch != timebase.Epoch()   (first read)
  /\ pc = "test"
  /\ rd' = rd + 1
  /\ pc' = IF fepoch # clk THEN "reset" ELSE "body"
  /\ UNCHANGED <<navg, fepoch, clk, dep, nout, since, amb, stp>>

NDoResetCore ==                                          \* { f.Reset() }: f.epoch = timebase.Epoch() (second read), zeroes
  /\ pc = "reset"
  /\ rd' = rd + 1
  /\ fepoch' = clk /\ navg' = 0 /\ dep' = << >>
  /\ pc' = "body"
  /\ UNCHANGED <<clk, nout, since, amb, stp>>

NDoBodyCore(id, fl, fh) ==                               \* the rest of Do: no further clock access
  LET n1 == IF navg < FilterAverage THEN navg + 1 ELSE navg   \* if f.navg < filterAverage { f.navg += 1.0 }
      b  == Branch(n1, fl, fh)
      d1 == Append(dep, id)                              \* the five averages absorb the sample
      inDo == stp # << >>                                \* the clock was stepped while this Do was in progress
      cs == {Append(c, id) : c \in Readings} \cup (IF inDo THEN {<<id>>} ELSE {})
  IN /\ pc = "body"
     /\ navg' = n1
     /\ dep' = d1
     /\ nout' = [has |-> TRUE, br |-> b, raw |-> RawBranch(b), n |-> n1, fl |-> fl, fh |-> fh,
                 dep |-> d1, cands |-> cs, rd |-> rd]
     /\ since' = IF inDo THEN << >> ELSE Append(since, id)
     /\ amb' = IF inDo THEN <<id>> ELSE amb
     /\ pc' = "idle" /\ rd' = 0 /\ stp' = << >>
     /\ UNCHANGED <<fepoch, clk>>

NResetCore ==                                            \* NtimedFilter.Reset (never concurrent with Do on the same filter;
  /\ pc = "idle"                                         \*   its single clock read is atomic: a step lands before or after it)
  /\ fepoch' = clk /\ navg' = 0 /\ dep' = << >>
  /\ nout' = NNoOut
  /\ since' = << >> /\ amb' = << >>
  /\ UNCHANGED <<clk, pc, rd, stp>>

NEpochCore ==                                            \* the clock is stepped while no Do is in progress
  /\ pc = "idle"
  /\ clk' = clk + 1
  /\ since' = << >> /\ amb' = << >>
  /\ nout' = NNoOut                                      \* (nout: result of a Do not yet followed by another event)
  /\ UNCHANGED <<navg, fepoch, dep, pc, rd, stp>>        \* the filter notices in its next Do only

NStepInDoCore ==                                         \* the clock is stepped by another goroutine inside a Do:
  /\ pc # "idle"                                         \*   after rd reads of that Do (0: before the first)
  /\ clk' = clk + 1
  /\ stp' = Append(stp, rd)
  /\ UNCHANGED <<navg, fepoch, dep, nout, since, amb, pc, rd>>   \* (ghosts are settled when the Do returns)

(***************************************************************************)
(* Behaviours                                                              *)
(***************************************************************************)
LEv(t, o, r, v) == [t |-> t, off |-> o, rtd |-> r, out |-> v]
\* st: for each clock step inside this Do, the number of Epoch() reads made before it
NEv(t, fl, fh, b, n, st) == [t |-> t, fl |-> fl, fh |-> fh, br |-> b, n |-> n, st |-> st]

UsedRtds == {hist[i].rtd : i \in {j \in DOMAIN hist : hist[j].t = "s"}}

LInit ==
  /\ \/ cap \in Caps /\ kcfg \in Picks
     \/ UnconfToo /\ cap = 0 /\ kcfg = 0
  /\ pick = Min2(kcfg, cap)
  /\ win = << >> /\ lout = NoOut /\ lastn = << >>
NZero ==
  /\ navg = 0 /\ fepoch = 0 /\ dep = << >> /\ nout = NNoOut /\ since = << >> /\ amb = << >>
  /\ pc = "idle" /\ rd = 0 /\ stp = << >>
NInit == NZero /\ clk \in Clk0s
LIdle == cap = 0 /\ kcfg = 0 /\ pick = 0 /\ win = << >> /\ lout = NoOut /\ lastn = << >>
NIdle == NZero /\ clk = 0

Init ==
  /\ hist = << >>
  /\ IF Which = "lucky" THEN LInit /\ NIdle ELSE LIdle /\ NInit

LSample(o, r) ==
  /\ DistinctOnly => r \notin UsedRtds
  /\ LSampleCore(o, r)
  /\ hist' = Append(hist, LEv("s", o, r, lout'.v))
LReset == LResetCore /\ hist' = Append(hist, LEv("r", 0, 0, 0))

\* clock steps inside a Do so far (bound of the generator)
InDoCount == Cardinality({p \in (DOMAIN hist) \X (1 .. 4) : p[2] <= Len(hist[p[1]].st)})
NDoCall  == Len(hist) < MaxEv /\ NDoCallCore /\ UNCHANGED hist
NDoTest  == NDoTestCore /\ UNCHANGED hist
NDoReset == NDoResetCore /\ UNCHANGED hist
NDoBody(fl, fh) ==
  /\ NDoBodyCore(Len(hist) + 1, fl, fh)
  /\ hist' = Append(hist, NEv("s", fl, fh, nout'.br, nout'.n, stp))
NStepInDo ==
  /\ rd \in StepAt
  /\ IF stp = << >> THEN TRUE ELSE Last(stp) # rd        \* (two steps at one place: nothing the filter can tell from one)
  /\ InDoCount + Len(stp) < MaxInDo
  /\ NStepInDoCore /\ UNCHANGED hist
NReset == Len(hist) < MaxEv /\ NResetCore /\ hist' = Append(hist, NEv("r", FALSE, FALSE, 0, 0, << >>))
NEpoch == Len(hist) < MaxEv /\ NEpochCore /\ hist' = Append(hist, NEv("e", FALSE, FALSE, 0, 0, << >>))

Next ==
  \/ /\ Which = "lucky"
     /\ Len(hist) < MaxEv
     /\ (\E o \in Offs, r \in Rtds : LSample(o, r)) \/ LReset
     /\ UNCHANGED nvars
  \/ /\ Which = "ntimed"
     /\ \/ NDoCall \/ NDoTest \/ NDoReset \/ (\E c \in Classes : NDoBody(c[1], c[2]))
        \/ NStepInDo \/ NReset \/ NEpoch
     /\ UNCHANGED lvars

Spec == Init /\ [][Next]_vars

(***************************************************************************)
(* Property section (C17)                                                  *)
(*                                                                         *)
(* Lucky packet: "returns the median offset of the k lowest-round-trip-    *)
(* delay samples among the last N samples (k capped at N; unconfigured:    *)
(* the raw offset)", for windows with pairwise distinct delays.  Stated    *)
(* over the ghost `lastn` (what an observer of the inputs knows), not      *)
(* over the filter's window, and declaratively (no sorting).               *)
(***************************************************************************)
DistinctRtd(w) == \A i, j \in DOMAIN w : i # j => w[i].rtd # w[j].rtd

\* the positions of the k samples with the lowest delay (unique for distinct delays)
Lowest(w, k) ==
  CHOOSE S \in SUBSET (DOMAIN w) :
    /\ Cardinality(S) = Min2(k, Len(w))
    /\ \A i \in S, j \in (DOMAIN w) \ S : w[i].rtd < w[j].rtd

\* j-th smallest offset (with multiplicity) among positions S of w
Kth(w, S, j) ==
  CHOOSE x \in {w[i].off : i \in S} :
    /\ Cardinality({i \in S : w[i].off < x}) < j
    /\ Cardinality({i \in S : w[i].off <= x}) >= j

\* v is the median of the offsets at positions S; for an even count the mean
\* of the two middle values, rounded to an integer in either direction
IsMedianOf(v, w, S) ==
  LET n == Cardinality(S)
  IN IF n % 2 = 1 THEN v = Kth(w, S, (n + 1) \div 2)
     ELSE Abs(2 * v - (Kth(w, S, n \div 2) + Kth(w, S, n \div 2 + 1))) <= 1

\* Rule(window, N, k)
RuleHolds(v, w, N, k) == IsMedianOf(v, w, Lowest(w, Min2(k, N)))

DoEqualsRule ==
  (lout.has /\ cap > 0 /\ DistinctRtd(lastn)) => RuleHolds(lout.v, lastn, cap, kcfg)
UnconfiguredRaw ==
  (lout.has /\ cap = 0) => lout.v = Last(lastn).off
\* Reset leaves nothing behind: the window is empty, and at all times the
\* window is exactly the last N samples seen since (so later outputs depend
\* on those samples only)
ResetEmpties ==
  (hist # << >> /\ Last(hist).t = "r" /\ Which = "lucky") => win = << >>
WindowIsLastN == cap > 0 => win = lastn

(***************************************************************************)
(* Ntimed: "returns the raw offset while fewer than four samples have been *)
(* seen since the last reset and whenever a sample lies within its learned *)
(* delay bounds; after a clock step or an explicit reset its output        *)
(* depends only on samples seen since".                                    *)
(*                                                                         *)
(* Which samples were "seen since" a clock step that landed while a Do was *)
(* in progress?  That Do's sample was handed over before the step and is   *)
(* answered after it; the statement does not say on which side it counts,  *)
(* so both readings are allowed (nout.cands, one sequence per reading):    *)
(* the sample counts as seen before the step - the Do in progress still    *)
(* answers from everything seen since the previous step / reset, and later *)
(* answers do not depend on it - or as seen since the step - the Do in     *)
(* progress answers from this sample alone, and later answers may depend   *)
(* on it.  Samples of Do calls that returned before the step are never     *)
(* "since"; samples of calls entered after it always are.                  *)
(***************************************************************************)
InBounds(o) == ~o.fl /\ ~o.fh
\* raw offset whenever the statement demands it under every allowed reading
RawWhen ==
  nout.has => (((\A c \in nout.cands : Len(c) <= 3) \/ InBounds(nout)) => nout.raw)
\* the answer depends on exactly the samples seen since, under some allowed reading
HistoryIndependent ==
  nout.has => nout.dep \in nout.cands
ResetIsInit ==
  (hist # << >> /\ Last(hist).t = "r" /\ Which = "ntimed" /\ pc = "idle") =>
     (navg = 0 /\ dep = << >> /\ fepoch = clk)

(***************************************************************************)
(* Implementation facts beyond the statement (strict mode / drift only)    *)
(***************************************************************************)
\* both limits violated: also the raw offset
RawBothFail == (nout.has /\ nout.fl /\ nout.fh) => nout.raw
\* the counter is the number of samples since, saturating
NavgCounts == nout.has => \E c \in nout.cands : nout.n = Min2(Len(c), FilterAverage)
\* one clock read for the test, one more inside the Reset it triggers
ReadsPerDo == nout.has => nout.rd \in {1, 2}

TypeOK ==
  /\ cap \in Nat /\ pick \in Nat /\ pick <= Max2(cap, 0)
  /\ Len(win) <= cap
  /\ navg \in 0 .. FilterAverage
  /\ pc \in {"idle", "test", "reset", "body"}
  /\ Len(amb) <= 1
=============================================================================
