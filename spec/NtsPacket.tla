------------------------------ MODULE NtsPacket ------------------------------
(***************************************************************************)
(* NTS authentication of NTP packets (property C10) as implemented in      *)
(*   net/nts/nts.go       NewRequestPacket, NewResponsePacket,             *)
(*                        EncodePacket, DecodePacket, FirstCookie,         *)
(*                        authenticate, ProcessRequest, ProcessResponse,   *)
(*                        Authenticator.pack / unpack                      *)
(*   net/ntske/cookies.go ServerCookie.Encode/Decode/EncryptWithNonce,     *)
(*                        EncryptedServerCookie.Encode/Decode/Decrypt      *)
(*   net/ntske/ntske.go   ExportKeys (contexts ..00 = C2S, ..01 = S2C)     *)
(*   core/server/server_ip.go (authenticated branch), core/client/         *)
(*                        client_ip.go (order of the calls)                *)
(*                                                                         *)
(* A packet on the wire is a sequence of CELLS.  A cell stands for the     *)
(* bytes of one header half (type or length, 2 bytes each in the code) or  *)
(* of one unit of a body; all offsets and lengths are counted in cells and *)
(* the decoders below do the same position arithmetic as the Go code does  *)
(* in bytes (length fields of extension fields include their header,       *)
(* length fields of the cookie TLVs do not, short copies are zero filled,  *)
(* and - in the code before the hardening, switch Hardened - slicing      *)
(* beyond the buffer panics and a length of 0 makes DecodePacket loop).   *)
(*  AEAD is symbolic and perfect: Seal is a constructor, Open       *)
(* succeeds iff the ciphertext is exactly what Seal produced for the same  *)
(* key, nonce and associated data.  (AES-SIV-CMAC itself is trusted.)      *)
(*                                                                         *)
(* One behaviour = one packet: the sender encodes (possibly with a         *)
(* substituted key / direction / request), the network changes at most one *)
(* field (any cell, any replacement value, or appends / truncates), the    *)
(* receiver processes the result exactly as the server / client does.      *)
(* The property section is at the end.                                     *)
(*                                                                         *)
(* Several associations in one process whose exchanges overlap (clients    *)
(* with own keys, own pool, own outstanding request; identifier storage)   *)
(* are NtsPacketAssoc.tla's subject; it uses the packets, decoders and     *)
(* receiving paths defined here.                                           *)
(***************************************************************************)
EXTENDS Integers, Sequences, FiniteSets, TLC

CONSTANTS
  MaxNf,                     \* max. number of cookie + placeholder fields of a request / cookies of a response
  Roles,                     \* subset of {"req", "resp", "cookie"}
  PlaceholderTypedAsCookie,  \* FALSE = the code as it is now (placeholders typed 0x304); TRUE = before the repair of C11/C14's finding
  UidChecked,                \* TRUE = as written; FALSE = fault switch (ProcessResponse without the uid comparison)
  AdWhole,                   \* TRUE = as written (associated data buf[:pos] in pack and b[:Auth.pos] in authenticate);
                             \* FALSE = fault switch (both sides use the NTP header only)
  Hardened,                  \* TRUE = the code as it is now: extension Length < 4, nonce length # 16, uid length out of
                             \* range and out-of-bounds cookie TLVs are decode ERRORS; FALSE = the code before those
                             \* repairs (C08's findings): endless loop, AEAD panic, index panics
  StopAtAuth,                \* TRUE = as written (DecodePacket's loop ends at the authenticator);
                             \* FALSE = fault switch (fields after the authenticator are parsed too)
  CtLenExact,                \* TRUE = as written (make(cipherTextLen), zero filled); FALSE = fault switch (clamped to what is left)
  StoreAfterUid,             \* TRUE = as written (ProcessResponse: compare the uid, authenticate, store the cookies);
                             \* FALSE = fault switch (authenticate, store the cookies, compare the uid last)
  LenChoices(_),             \* replacement values tried for a length cell (argument: the original value)
  TruncMax                   \* how many cells a truncation may remove

(***************************************************************************)
(* Cells                                                                   *)
(***************************************************************************)
Cell(t, v, i, s) == [t |-> t, v |-> v, i |-> i, s |-> s]
A(t, v)  == Cell(t, v, 0, << >>)
TY(c)    == A("T", c)           \* a 16-bit type field
LN(n)    == A("L", n)           \* a 16-bit length field
Z        == A("Z", 0)           \* zero bytes (placeholder bodies, make()'s zero fill)
X        == A("X", 0)           \* bytes that differ from what the encoder wrote and mean nothing

NtpCells   == 2                 \* 48 bytes NTP header
UidCells   == 2                 \* 32 bytes unique identifier
NonceCells == 1                 \* 16 bytes, what miscreant.NewAEAD(.., 16) insists on
MinField   == 4                 \* DecodePacket / authenticate: `len(b)-pos >= 28`
MaxUidCells == 10 * UidCells   \* UniqueIdentifier.unpack: Length-4 <= MaxPacketLen/4 = 320 bytes
JunkLen    == 5                 \* arbitrary bytes read as a length after the walk lost alignment

EXT_UID == 1  EXT_COOKIE == 2  EXT_PH == 3  EXT_AUTH == 4      \* 0x104 0x204 0x304 0x404
CK_ALGO == 11 CK_S2C == 12 CK_C2S == 13                        \* 0x101 0x201 0x301
CK_KID == 14  CK_NONCE == 15 CK_CT == 16                       \* 0x401 0x501 0x601
TypeChoices == {0, EXT_UID, EXT_COOKIE, EXT_PH, EXT_AUTH, CK_KID, CK_NONCE, CK_CT}

\* binary.BigEndian.Uint16 on whatever is there
TypeOf(c) == IF c.t = "T" THEN c.v ELSE 0
LenOf(c)  == IF c.t = "L" THEN c.v ELSE IF c.t = "Z" THEN 0 ELSE JunkLen

Min2(a, b) == IF a <= b THEN a ELSE b
Rep(n, x) == [i \in 1 .. n |-> x]
\* x := make([]byte, n); copy(x, b[p:])     (p is Go's 0-based offset)
Take(b, p, n) == [i \in 1 .. n |-> IF p + i <= Len(b) THEN b[p + i] ELSE Z]
RECURSIVE Flat(_)
Flat(ss) == IF ss = << >> THEN << >> ELSE Head(ss) \o Flat(Tail(ss))
Range(s) == {s[i] : i \in DOMAIN s}

(***************************************************************************)
(* Keys.  ExportKeys derives both directions from one TLS session with the *)
(* contexts 00 00 00 0f 00 (C2S) and 00 00 00 0f 01 (S2C): distinct keys.  *)
(***************************************************************************)
ExportKeys(sess, dir) == 10 * sess + (IF dir = "c2s" THEN 0 ELSE 1)
SC(sess) == [algo |-> 15, s2c |-> ExportKeys(sess, "s2c"), c2s |-> ExportKeys(sess, "c2s")]
ScId(sc) == IF sc = SC(1) THEN 1 ELSE IF sc = SC(2) THEN 2 ELSE IF sc = SC(3) THEN 3 ELSE 0
\* ntske.Provider of the receiving server: key id -> key value
Provider == (1 :> 101) @@ (2 :> 102)
ForeignServerKey == 201         \* a key this server does not hold (another server, or retired)

Uid(u)   == << A("U", 10 * u + 1), A("U", 10 * u + 2) >>
Nonce(n) == << A("N", n) >>
Ntp      == << A("H", 1), A("H", 2) >>

(***************************************************************************)
(* Perfect AEAD.  The first cell of a ciphertext is the synthetic IV (it   *)
(* depends on everything), the others are the CTR-encrypted plaintext.     *)
(***************************************************************************)
SealCells(k, n, ad, pt) ==
  << Cell("SIV", k, 0, <<n, ad, pt>>) >> \o [j \in 1 .. Len(pt) |-> Cell("CTR", k, j, <<n, pt[j]>>)]

NoPt == [ok |-> FALSE, pt |-> << >>]
Open(k, n, ad, ct) ==
  IF Len(ct) >= 1 /\ ct[1].t = "SIV"
  THEN IF /\ ct[1].v = k
          /\ ct[1].s[1] = n
          /\ ct[1].s[2] = ad
          /\ ct = SealCells(k, n, ad, ct[1].s[3])
       THEN [ok |-> TRUE, pt |-> ct[1].s[3]]
       ELSE NoPt
  ELSE NoPt

(***************************************************************************)
(* Cookies (net/ntske/cookies.go): TLVs  type | length-of-value | value    *)
(***************************************************************************)
\* ServerCookie.Encode
PlainCookie(sc) ==
  << TY(CK_ALGO), LN(1), A("ALG", sc.algo),
     TY(CK_S2C),  LN(1), A("KEY", sc.s2c),
     TY(CK_C2S),  LN(1), A("KEY", sc.c2s) >>

\* ServerCookie.EncryptWithNonce(key, keyid) ; EncryptedServerCookie.Encode
EncCookie(id, skey, cn, sc) ==
  LET ct == SealCells(skey, Nonce(cn), << >>, PlainCookie(sc))
  IN << TY(CK_KID), LN(1), A("KID", id), TY(CK_NONCE), LN(NonceCells) >> \o Nonce(cn)
       \o << TY(CK_CT), LN(Len(ct)) >> \o ct
CookieLen == 8 + 10

\* The decoding loop shared by ServerCookie.Decode and EncryptedServerCookie.Decode:
\*   for pos < len(b) { t, len := ...; scalar: Uint16(b[pos+4:]); slices: b[pos+4 : pos+4+len]; pos += 4+len }
\* tS: the scalar type, tA / tB: the two slice types.
\* chk: the bounds-checked variant (EncryptedServerCookie.Decode since its repair): a TLV that does not fit
\* is an error; the unchecked variant (ServerCookie.Decode, and both before the repair) indexes and panics.
Tlv0 == [res |-> "ok", s |-> Z, a |-> << >>, b |-> << >>, hs |-> FALSE, ha |-> FALSE, hb |-> FALSE]
RECURSIVE TlvWalk(_, _, _, _, _, _, _)
TlvWalk(b, pos, acc, tS, tA, tB, chk) ==
  IF pos >= Len(b)
  THEN IF pos # Len(b) \/ ~(acc.hs /\ acc.ha /\ acc.hb) THEN [acc EXCEPT !.res = "rejected"] ELSE acc
  ELSE IF pos + 2 > Len(b) THEN [acc EXCEPT !.res = IF chk THEN "rejected" ELSE "panic"]     \* header beyond the slice
  ELSE IF b[pos + 2].t \notin {"L", "Z"}                                  \* the walk lost alignment: see Expand
       THEN [acc EXCEPT !.res = IF chk THEN "rejected" ELSE "junk"]
  ELSE LET t == TypeOf(b[pos + 1])
           n == LenOf(b[pos + 2])
       IN IF chk /\ (pos + 2 + n > Len(b) \/ (t = tS /\ n < 1)) THEN [acc EXCEPT !.res = "rejected"]
          ELSE IF t = tS
          THEN IF pos + 3 > Len(b) THEN [acc EXCEPT !.res = "panic"]
               ELSE TlvWalk(b, pos + 2 + n, [acc EXCEPT !.s = b[pos + 3], !.hs = TRUE], tS, tA, tB, chk)
          ELSE IF t \in {tA, tB}
          THEN IF pos + 2 + n > Len(b) THEN [acc EXCEPT !.res = "panic"]   \* slice bounds out of range
               ELSE LET v == SubSeq(b, pos + 3, pos + 2 + n)
                    IN TlvWalk(b, pos + 2 + n,
                               IF t = tA THEN [acc EXCEPT !.a = v, !.ha = TRUE] ELSE [acc EXCEPT !.b = v, !.hb = TRUE],
                               tS, tA, tB, chk)
          ELSE TlvWalk(b, pos + 2 + n, acc, tS, tA, tB, chk)

IdOf(c)  == IF c.t = "KID" THEN c.v ELSE 0 - 1
KeyOf(s) == IF Len(s) = 1 /\ s[1].t = "KEY" THEN s[1].v ELSE 0 - 1
AlgOf(c) == IF c.t = "ALG" THEN c.v ELSE 0 - 1

\* server_ip.go: encryptedCookie.Decode(cookie); provider.Get(ID); encryptedCookie.Decrypt(key.Value)
\* result: res in {"ok","rejected","panic","junk"}, key = the provider key used, sc = the decoded ServerCookie
NoSc == [algo |-> 0 - 1, s2c |-> 0 - 1, c2s |-> 0 - 1]
OpenCookie(cookie, provider) ==
  LET d == TlvWalk(cookie, 0, Tlv0, CK_KID, CK_NONCE, CK_CT, Hardened)
      fail(r) == [res |-> r, key |-> 0, sc |-> NoSc]
  IN IF d.res # "ok" THEN fail(d.res)
     ELSE IF IdOf(d.s) \notin DOMAIN provider THEN fail("rejected")
     ELSE LET key == provider[IdOf(d.s)] IN
          IF Len(d.a) # NonceCells THEN fail(IF Hardened THEN "rejected" ELSE "panic")   \* miscreant: incorrect nonce length
          ELSE LET o == Open(key, d.a, << >>, d.b) IN
               IF ~o.ok THEN fail("rejected")
               ELSE LET p == TlvWalk(o.pt, 0, Tlv0, CK_ALGO, CK_S2C, CK_C2S, FALSE) IN
                    IF p.res # "ok" THEN fail(p.res)
                    ELSE [res |-> "ok", key |-> key,
                          sc |-> [algo |-> AlgOf(p.s), s2c |-> KeyOf(p.a), c2s |-> KeyOf(p.b)]]

(***************************************************************************)
(* Extension fields and packets (net/nts/nts.go)                           *)
(***************************************************************************)
\* UniqueIdentifier.pack / Cookie.pack / CookiePlaceholder.pack (bodies are multiples of 4 bytes: no padding)
Field(ty, body) == << TY(ty), LN(2 + Len(body)) >> \o body
PhType == IF PlaceholderTypedAsCookie THEN EXT_COOKIE ELSE EXT_PH

\* Authenticator.pack: the associated data is everything written so far (buf[:pos]).
\* Nonce (16 bytes) and ciphertext (16 + a multiple of 4) need no padding, so the pad regions are empty.
AdOf(prefix) == IF AdWhole THEN prefix ELSE SubSeq(prefix, 1, Min2(NtpCells, Len(prefix)))
AuthField(k, n, prefix, pt) ==
  LET ct == SealCells(k, n, AdOf(prefix), pt)
  IN << TY(EXT_AUTH), LN(4 + Len(n) + Len(ct)), LN(Len(n)), LN(Len(ct)) >> \o n \o ct

\* NewRequestPacket + EncodePacket: uid, the first cookie of the pool, one placeholder per missing cookie
ReqPrefix(uid, cookie, nph) ==
  Ntp \o Field(EXT_UID, uid) \o Field(EXT_COOKIE, cookie) \o Flat(Rep(nph, Field(PhType, Rep(Len(cookie), Z))))
EncodeReq(uid, cookie, nph, key, an) ==
  LET p == ReqPrefix(uid, cookie, nph) IN p \o AuthField(key, Nonce(an), p, << >>)

\* NewResponsePacket + EncodePacket: the fresh cookies travel encrypted inside the authenticator
RespPrefix(uid) == Ntp \o Field(EXT_UID, uid)
EncodeResp(uid, cookies, key, an) ==
  LET p == RespPrefix(uid)
  IN p \o AuthField(key, Nonce(an), p, Flat([i \in DOMAIN cookies |-> Field(EXT_COOKIE, cookies[i])]))

\* DecodePacket: walk the extension fields after the NTP header until an authenticator is found
ValueLen(n, b) == IF n >= 2 THEN n - 2 ELSE Len(b) + 3 + n       \* uint16(Length - 4) wraps for Length < 4
Dec0 == [uid |-> << >>, hasU |-> FALSE, cookies |-> << >>, nph |-> 0, hasA |-> FALSE, apos |-> 0,
         nonce |-> << >>, ct |-> << >>, hang |-> FALSE, err |-> FALSE]
RECURSIVE DecWalk(_, _, _)
DecWalk(b, pos, a) ==
  IF (StopAtAuth /\ a.hasA) \/ Len(b) - pos < MinField THEN a
  ELSE LET ty == TypeOf(b[pos + 1])
           n  == LenOf(b[pos + 2])
           a1 == IF ty = EXT_UID THEN [a EXCEPT !.uid = Take(b, pos + 2, ValueLen(n, b)), !.hasU = TRUE]
                 ELSE IF ty = EXT_COOKIE THEN [a EXCEPT !.cookies = Append(@, Take(b, pos + 2, ValueLen(n, b)))]
                 ELSE IF ty = EXT_PH THEN [a EXCEPT !.nph = @ + 1]
                 ELSE IF ty = EXT_AUTH
                 THEN \* Authenticator.unpack: two length fields, nonce, ciphertext right after the copied nonce
                      LET nl == LenOf(b[pos + 3])
                          cl == LenOf(b[pos + 4])
                          copied == Min2(nl, Len(b) - (pos + 4))
                          left == Len(b) - (pos + 4 + copied)
                          cl2 == IF CtLenExact \/ cl <= left THEN cl ELSE left
                      IN [a EXCEPT !.hasA = TRUE, !.apos = pos,
                                   !.nonce = Take(b, pos + 4, nl),
                                   !.ct = Take(b, pos + 4 + copied, cl2)]
                 ELSE a
       IN IF Hardened /\ (n < 2 \/ (ty = EXT_UID /\ (n < 2 + UidCells \/ n - 2 > MaxUidCells)))
          THEN [a EXCEPT !.err = TRUE]             \* errUnexpectedExtHdrLength / errShortUniqueID / errLongUniqueID
          ELSE IF n = 0 /\ ~(StopAtAuth /\ a1.hasA) THEN [a1 EXCEPT !.hang = TRUE]        \* pos += Length - 4 undoes pos += 4
          ELSE DecWalk(b, pos + n, a1)

\* Packet.authenticate
RECURSIVE PtCookies(_, _, _)
PtCookies(pt, pos, acc) ==
  IF Len(pt) - pos < MinField THEN acc
  ELSE LET n == LenOf(pt[pos + 2])
           acc1 == IF TypeOf(pt[pos + 1]) = EXT_COOKIE THEN Append(acc, Take(pt, pos + 2, ValueLen(n, pt))) ELSE acc
       IN IF n = 0 THEN acc1 ELSE PtCookies(pt, pos + n, acc1)
Authenticate(b, key, d) ==
  IF Len(d.nonce) # NonceCells THEN [res |-> IF Hardened THEN "rejected" ELSE "panic", cookies |-> << >>]
  ELSE LET o == Open(key, d.nonce, AdOf(SubSeq(b, 1, d.apos)), d.ct)
       IN IF o.ok THEN [res |-> "accepted", cookies |-> PtCookies(o.pt, 0, << >>)]
          ELSE [res |-> "rejected", cookies |-> << >>]

\* What the receiver reports.  out: accepted / rejected / panic / hang;
\* opened, key, sc: the cookie part (did the cookie open, under which provider key, to what);
\* stored: cookies handed to Fetcher.StoreCookie.
\* cok: the cookies stored (client) / the cookie and placeholder fields counted for the reply (server) are
\* exactly the authenticated ones (nothing that follows the authenticator is taken over).
Rcv(out, opened, key, sc, stored, cok) ==
  [out |-> out, opened |-> opened, key |-> key, sc |-> sc, stored |-> stored, cok |-> cok]
Rej(out) == Rcv(out, FALSE, 0, 0, 0, TRUE)

\* server_ip.go: DecodePacket, FirstCookie, Decode, provider.Get, Decrypt, ProcessRequest(buf, serverCookie.C2S)
Server(b, provider, n) ==
  LET d == DecWalk(b, NtpCells, Dec0) IN
  IF d.err THEN Rej("rejected")
  ELSE IF d.hang THEN Rej("hang")
  ELSE IF ~d.hasU \/ ~d.hasA THEN Rej("rejected")
  ELSE IF d.cookies = << >> THEN Rej("rejected")
  ELSE LET c == OpenCookie(d.cookies[1], provider) IN
       IF c.res # "ok" THEN Rej(c.res)
       ELSE Rcv(Authenticate(b, c.sc.c2s, d).res, TRUE, c.key, ScId(c.sc), 0, Len(d.cookies) + d.nph = n)

\* client_ip.go: DecodePacket, ProcessResponse(buf, S2cKey, fetcher, pkt, requestID)
\* ProcessResponse stores pkt.Cookies: whatever DecodePacket collected, then what authenticate decrypted
Client(b, key, reqid, genuine) ==
  LET d == DecWalk(b, NtpCells, Dec0) IN
  IF d.err THEN Rej("rejected")
  ELSE IF d.hang THEN Rej("hang")
  ELSE IF ~d.hasU \/ ~d.hasA THEN Rej("rejected")
  ELSE IF UidChecked /\ StoreAfterUid /\ d.uid # reqid THEN Rej("rejected")      \* errUnexpectedResponseID
  ELSE LET r == Authenticate(b, key, d)
           st == d.cookies \o r.cookies
       IN IF r.res = "accepted"
          THEN IF UidChecked /\ d.uid # reqid      \* (only with ~StoreAfterUid) the error is returned after StoreCookie
               THEN Rcv("rejected", FALSE, 0, 0, Len(st), TRUE)
               ELSE Rcv(r.res, FALSE, 0, 0, Len(st), Len(st) = Len(genuine) /\ \A i \in DOMAIN st : st[i] = genuine[i])
          ELSE Rcv(r.res, FALSE, 0, 0, 0, TRUE)

\* a cookie on its own, as the server opens it
CookieRcv(b, provider) ==
  LET c == OpenCookie(b, provider)
  IN IF c.res = "ok" THEN Rcv("accepted", TRUE, c.key, ScId(c.sc), 0, TRUE) ELSE Rej(c.res)

(***************************************************************************)
(* Layout: which region of the packet a cell belongs to.                   *)
(* r: region (the names of DESIGN C10), fi: which cookie/placeholder       *)
(* field, sub: the part of the field.                                      *)
(***************************************************************************)
G(r, fi, sub) == [r |-> r, fi |-> fi, sub |-> sub]
CookieLayout(r, fi) ==
  << G(r, fi, "kidT"), G(r, fi, "kidL"), G(r, fi, "kid"), G(r, fi, "nonT"), G(r, fi, "nonL"), G(r, fi, "non"),
     G(r, fi, "ctT"), G(r, fi, "ctL") >> \o Rep(CookieLen - 8, G(r, fi, "ct"))
AuthLayout(ptl) ==
  << G("authHdr", 0, "type"), G("authHdr", 0, "len"), G("nonceLenField", 0, "len"), G("ctLenField", 0, "len"),
     G("nonce", 0, "body"), G("ciphertext", 0, "siv") >> \o Rep(ptl, G("ciphertext", 0, "ctr"))
HeadLayout ==
  Rep(NtpCells, G("ntpHeader", 0, "body")) \o << G("uidField", 0, "type"), G("uidField", 0, "len") >>
    \o Rep(UidCells, G("uidField", 0, "body"))
Layout(rl, n) ==
  IF rl = "req"
  THEN HeadLayout \o << G("cookieField", 1, "type"), G("cookieField", 1, "len") >> \o CookieLayout("cookieField", 1)
         \o Flat([j \in 1 .. (n - 1) |-> << G("placeholderField", j + 1, "type"), G("placeholderField", j + 1, "len") >>
                                           \o Rep(CookieLen, G("placeholderField", j + 1, "body"))])
         \o AuthLayout(0)
  ELSE IF rl = "resp" THEN HeadLayout \o AuthLayout(n * (2 + CookieLen))
  ELSE CookieLayout("cookie", 1)
UidBodyAt == NtpCells + 2       \* 0-based offset of the uid body

(***************************************************************************)
(* Scenario.  Session 1 is the one under test: the client holds            *)
(* ExportKeys(1, ..), its outstanding request has Uid(1), the server's     *)
(* cookie for it is sealed under Provider[1].                              *)
(***************************************************************************)
VARIABLES phase, role, nf, wire, mut, truth, outcome, ck
vars == <<phase, role, nf, wire, mut, truth, outcome, ck>>

Regions == {"ntpHeader", "uidField", "cookieField", "placeholderField", "authHdr", "nonceLenField", "ctLenField",
            "nonce", "noncePad", "ciphertext", "ctPad", "trailing", "cookie"}

Mut(kind, g, alt) == [kind |-> kind, region |-> g.r, fi |-> g.fi, sub |-> g.sub, alt |-> alt]
NoG == G("-", 0, "-")
\* truth: what was really done to the packet, in the words of the property statement
Truth(key, dir, uid, touched, ckey, csc) ==
  [key |-> key, dir |-> dir, uid |-> uid, touched |-> touched, ckey |-> ckey, csc |-> csc]
Ck0 == [opened |-> FALSE, key |-> 0, sc |-> 0, cok |-> TRUE, stored |-> 0]

SenderKinds(rl) ==
  IF rl = "req" THEN {"none", "swapkey", "swapdir", "foreignkey"}
  ELSE IF rl = "resp" THEN {"none", "swapkey", "swapdir", "replay"}
  ELSE {"none", "foreignkey"}

FreshCookies(n) == [j \in 1 .. n |-> EncCookie(1, Provider[1], 50 + j, SC(1))]

\* the packet as the project's own encoder writes it for the (possibly substituted) parameters
SenderWire(rl, n, kind) ==
  LET skey == IF kind = "foreignkey" THEN ForeignServerKey ELSE Provider[1]
      cookie == EncCookie(1, skey, 7, SC(1))
  IN IF rl = "req"
     THEN EncodeReq(Uid(1), cookie, n - 1,
                    IF kind = "swapkey" THEN ExportKeys(2, "c2s")
                    ELSE IF kind = "swapdir" THEN ExportKeys(1, "s2c") ELSE ExportKeys(1, "c2s"), 9)
     ELSE IF rl = "resp"
     THEN EncodeResp(IF kind = "replay" THEN Uid(2) ELSE Uid(1), FreshCookies(n),
                     IF kind = "swapkey" THEN ExportKeys(2, "s2c")
                     ELSE IF kind = "swapdir" THEN ExportKeys(1, "c2s") ELSE ExportKeys(1, "s2c"), 9)
     ELSE cookie

SenderTruth(rl, kind) ==
  Truth(kind # "swapkey", kind # "swapdir", kind # "replay", {},
        IF kind = "foreignkey" THEN ForeignServerKey ELSE Provider[1], 1)

Receive(rl, n, b) ==
  IF rl = "req" THEN Server(b, Provider, n)
  ELSE IF rl = "resp" THEN Client(b, ExportKeys(1, "s2c"), Uid(1), FreshCookies(n))
  ELSE CookieRcv(b, Provider)

Init ==
  /\ phase = "start" /\ role \in Roles /\ nf \in 1 .. MaxNf
  /\ (role = "cookie" => nf = 1)
  /\ wire = << >> /\ mut = Mut("none", NoG, "-") /\ truth = Truth(TRUE, TRUE, TRUE, {}, 0, 0)
  /\ outcome = "pending" /\ ck = Ck0

Encode ==
  /\ phase = "start"
  /\ \E k \in SenderKinds(role) :
       /\ wire' = SenderWire(role, nf, k)
       /\ mut' = Mut(k, NoG, "-")
       /\ truth' = SenderTruth(role, k)
  /\ phase' = "encoded"
  /\ UNCHANGED <<role, nf, outcome, ck>>

\* replacement values for one cell
AltName(v) == IF v.t = "T" THEN "T" ELSE IF v.t = "L" THEN "L" ELSE IF v.t = "KID" THEN "KID" ELSE "X"
Alts(c) ==
  IF c.t = "T" THEN {TY(x) : x \in TypeChoices \ {c.v}}
  ELSE IF c.t = "L" THEN {LN(n) : n \in LenChoices(c.v) \ {c.v}}
  ELSE IF c.t = "KID" THEN {A("KID", x) : x \in {1, 2, 9} \ {c.v}} \cup {X}
  ELSE {X}

UidIntact(rl, b) == rl = "cookie" \/ (Len(b) >= UidBodyAt + UidCells /\ SubSeq(b, UidBodyAt + 1, UidBodyAt + UidCells) = Uid(1))

Deliver ==                       \* the network does nothing
  /\ UNCHANGED <<wire, mut, truth>>

Flip ==                          \* one cell gets another value
  /\ mut.kind = "none"
  /\ \E i \in 1 .. Len(wire) : \E v \in Alts(wire[i]) :
       LET g == Layout(role, nf)[i] IN
       /\ wire' = [wire EXCEPT ![i] = v]
       /\ mut' = Mut("flip", g, AltName(v))
       /\ truth' = [truth EXCEPT !.touched = {g.r}, !.uid = UidIntact(role, wire')]

AppendJunk ==                    \* bytes after the end of the packet
  /\ mut.kind = "none"
  /\ \E c \in {X, Z} :
       /\ wire' = Append(wire, c)
       /\ mut' = Mut("append", G("trailing", 0, "body"), AltName(c))
       /\ truth' = [truth EXCEPT !.touched = {"trailing"}]

Truncate ==                      \* the tail is cut off
  /\ mut.kind = "none"
  /\ \E k \in 1 .. Min2(TruncMax, Len(wire) - 1) :
       LET lay == Layout(role, nf) n == Len(wire) IN
       /\ wire' = SubSeq(wire, 1, n - k)
       /\ mut' = Mut("trunc", lay[n], "-")
       /\ truth' = [truth EXCEPT !.touched = {lay[i].r : i \in (n - k + 1) .. n}, !.uid = UidIntact(role, wire')]

ReplaceUid ==                    \* the uid of another request, written over this one
  /\ mut.kind = "none" /\ role \in {"req", "resp"}
  /\ wire' = [i \in 1 .. Len(wire) |-> IF i \in (UidBodyAt + 1) .. (UidBodyAt + UidCells) THEN Uid(2)[i - UidBodyAt] ELSE wire[i]]
  /\ mut' = Mut("replaceuid", G("uidField", 0, "body"), "-")
  /\ truth' = [truth EXCEPT !.touched = {"uidField"}, !.uid = FALSE]

SwapCookie ==                    \* another session's valid cookie, written over this one
  /\ mut.kind = "none" /\ role = "req"
  /\ LET other == EncCookie(1, Provider[1], 8, SC(2))
         at == NtpCells + 2 + UidCells + 2
     IN wire' = [i \in 1 .. Len(wire) |-> IF i \in (at + 1) .. (at + CookieLen) THEN other[i - at] ELSE wire[i]]
  /\ mut' = Mut("swapcookie", G("cookieField", 1, "body"), "-")
  /\ truth' = [truth EXCEPT !.touched = {"cookieField"}, !.csc = 2]

\* Whole extension fields appended after the authenticator, to a genuine packet or to a genuine response to
\* ANOTHER request of the same association (replay): a uid field carrying the outstanding request's id
\* (another one for a request), a cookie field with a valid cookie of another session.
TrailField(rl, name) ==
  IF name = "appenduid" THEN Field(EXT_UID, IF rl = "resp" THEN Uid(1) ELSE Uid(2))
  ELSE Field(EXT_COOKIE, EncCookie(1, Provider[1], 60, SC(2)))
AppendField ==
  /\ mut.kind \in {"none", "replay"} /\ role \in {"req", "resp"}
  /\ \E name \in {"appenduid", "appendcookie"} :
       /\ wire' = wire \o TrailField(role, name)
       /\ mut' = Mut(IF mut.kind # "replay" THEN name
                     ELSE IF name = "appenduid" THEN "replay+appenduid" ELSE "replay+appendcookie",
                     G("trailing", 0, "field"), "-")
       /\ truth' = [truth EXCEPT !.touched = {"trailing"}]

Network ==
  /\ phase = "encoded"
  /\ (Deliver \/ Flip \/ AppendJunk \/ Truncate \/ ReplaceUid \/ SwapCookie \/ AppendField)
  /\ phase' = "sent"
  /\ UNCHANGED <<role, nf, outcome, ck>>

\* "junk": a cookie TLV walk that reads arbitrary body bytes as a length ends in an error or in an
\* out-of-range panic depending on bytes the model does not track; both are possible, acceptance is not.
Expand(o) == IF o = "junk" THEN {"rejected", "panic"} ELSE {o}
Process ==
  /\ phase = "sent"
  /\ LET r == Receive(role, nf, wire) IN
     /\ outcome' \in Expand(r.out)
     /\ ck' = [opened |-> r.opened, key |-> r.key, sc |-> r.sc, cok |-> r.cok, stored |-> r.stored]
  /\ phase' = "done"
  /\ UNCHANGED <<role, nf, wire, mut, truth>>

Next == Encode \/ Network \/ Process
Spec == Init /\ [][Next]_vars

(***************************************************************************)
(* Property section (C10).                                                 *)
(*                                                                         *)
(* Authenticated bytes = "the header and extension bytes that precede" the *)
(* authenticator; plus the nonce and the ciphertext - and the two length   *)
(* fields that say what the nonce and the ciphertext ARE ("every           *)
(* single-field mutation (including length fields)").  The authenticator's *)
(* own extension header (type, Length), padding and bytes after the packet *)
(* are not covered by the statement (the spec predicts what the code does  *)
(* with them, the property does not judge it) - except that nothing which  *)
(* follows the authenticator may be taken over (AuthenticOnly), and that a *)
(* response to a different request stays one whatever is appended to it.   *)
(***************************************************************************)
AuthRegions == {"ntpHeader", "uidField", "cookieField", "placeholderField", "nonceLenField", "ctLenField",
                "nonce", "ciphertext"}
Unjudged    == {"authHdr", "noncePad", "ctPad", "trailing"}

Observed == phase = "done"
Pristine == mut.kind = "none"
\* "listener": the server path observed at the socket of the real listener (reply / no reply); it occurs in
\* recorded behaviour only (NtsPacketTrace), where the cookie part `ck` is not observable.
ServerSide == {"req", "listener"}

\* accepted => nothing authenticated was changed, right key, right direction, and (client) the uid of its request
Sound ==
  (Observed /\ role \in ServerSide \cup {"resp"} /\ outcome = "accepted") =>
     /\ truth.touched \cap AuthRegions = {}
     /\ truth.key
     /\ truth.dir
     /\ (role = "resp" => truth.uid)

\* every packet / cookie of the project's own encoder for the same keys is accepted
Complete ==
  (Observed /\ Pristine) =>
     /\ outcome = "accepted"
     /\ (role \in {"req", "cookie"} => ck.opened)

\* a cookie opens only under the server key that sealed it and yields exactly what was sealed
CookieBinding ==
  (Observed /\ ck.opened) => (ck.key = truth.ckey /\ ck.sc = truth.csc)

\* accepted => nothing but what was authenticated is stored / counted (that ALL of it is stored is not this property's business)
AuthenticOnly ==
  (Observed /\ role \in ServerSide \cup {"resp"} /\ outcome = "accepted") => ck.cok

\* A client that does not accept a response takes nothing from it: "a response to a different request is
\* rejected" (and so is everything else that fails a check) means that it leaves the client's NTS state - the
\* cookies it will send next - as it was.  (To accept = to act on the packet: return nil OR take its cookies.)
RejectedInert ==
  (Observed /\ role = "resp" /\ outcome # "accepted") => ck.stored = 0

\* ExportKeys: the two directions never share a key (needed for "different direction is rejected")
DirectionsDistinct == \A s1, s2 \in {1, 2} : ExportKeys(s1, "c2s") # ExportKeys(s2, "s2c")

TypeOK ==
  /\ phase \in {"start", "encoded", "sent", "done"}
  /\ role \in Roles /\ nf \in 1 .. MaxNf
  /\ outcome \in {"pending", "accepted", "rejected", "panic", "hang"}
  /\ mut.region \in Regions \cup {"-"}
  /\ truth.touched \subseteq Regions
  /\ (phase \in {"encoded"} => Len(wire) = Len(Layout(role, nf)))

\* what the specification predicts for a sender-side substitution / whole-field replacement (used by strict trace validation)
PostWire(rl, n, kind) ==
  LET w == SenderWire(rl, n, IF kind \in {"swapkey", "swapdir", "foreignkey", "replay"} THEN kind
                             ELSE IF kind \in {"replay+appenduid", "replay+appendcookie"} THEN "replay" ELSE "none") IN
  IF kind = "replaceuid"
  THEN [i \in 1 .. Len(w) |-> IF i \in (UidBodyAt + 1) .. (UidBodyAt + UidCells) THEN Uid(2)[i - UidBodyAt] ELSE w[i]]
  ELSE IF kind = "swapcookie"
  THEN LET other == EncCookie(1, Provider[1], 8, SC(2)) at == NtpCells + 2 + UidCells + 2
       IN [i \in 1 .. Len(w) |-> IF i \in (at + 1) .. (at + CookieLen) THEN other[i - at] ELSE w[i]]
  ELSE IF kind \in {"appenduid", "replay+appenduid"} THEN w \o TrailField(rl, "appenduid")
  ELSE IF kind \in {"appendcookie", "replay+appendcookie"} THEN w \o TrailField(rl, "appendcookie")
  ELSE w
Predict(rl, n, kind) == Receive(rl, n, PostWire(rl, n, kind))
=============================================================================
