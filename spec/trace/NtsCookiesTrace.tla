--------------------------- MODULE NtsCookiesTrace ---------------------------
(***************************************************************************)
(* Validation of what harness/c11 recorded from the real code (real        *)
(* IPClient with NTS, real NTS-KE and NTP servers sharing one Provider, a  *)
(* recording UDP proxy in between; plus NewRequestPacket/EncodePacket at   *)
(* every pool level and harness-built requests to the live server)         *)
(* against NtsCookies.tla.                                                 *)
(*                                                                         *)
(* Record 1 carries the constants measured on the tree under test (length  *)
(* of the cookies its server issues, nts.MaxPacketLen).  Every further     *)
(* record is one event; the variables of NtsCookies are BOUND to the       *)
(* logged projection (pool via Fetcher.VerifData, datagrams as seen by the *)
(* proxy, provider keys in model time units), so that the property section *)
(* of NtsCookies is evaluated on what the implementation really did.       *)
(*   monitor (cfg _mon):  every clause of the property section on every    *)
(*     recorded state/step.  A failing clause is reported as               *)
(*     <<"VIOL", clause, l>> and evaluation goes on, so that one run       *)
(*     reports all clauses at all positions (decides VIOLATION).           *)
(*   strict (cfg _strict..): every recorded step is the step NtsCookies    *)
(*     takes from the recorded pre-state (<<"DRIFTAT", ...>>, DRIFT only). *)
(* Probe events carry the listener that was asked (tr = "ip": server_ip.go,*)
(* tr = "scion": server_scion.go, SCION/UDP over an empty path): both      *)
(* listeners are judged by the same clauses and the same ReplyFor.         *)
(* "stale" / "stray": the proxy handed the client an earlier reply of the   *)
(* server while it was waiting / after its call had returned (facts about   *)
(* the network; what the client made of it shows in the pool recorded with  *)
(* the next "done" / "stray").                                              *)
(* A behaviour is run with the real IPClient or the real SCIONClient (NTS   *)
(* enabled, same-AS empty path, the proxy as next hop; "reset" names it:    *)
(* tr).  "scmp": the proxy handed the waiting SCION client an SCMP message  *)
(* (a fact about the network, like "stale").                                *)
(* "rep" names the NTP header state (hdr) of the authentic reply that was    *)
(* on the wire: "sync", or the reply of an unsynchronised server ("li3",     *)
(* "str0", "str16": the proxy, which holds the association's S2C key, plays   *)
(* that server - same unique identifier, same cookies, sealed anew).  A fact  *)
(* about the environment; it is no loss, so the history stays loss-free.      *)
(* Behaviours are concatenated; "reset" starts a new one.                  *)
(* The cfg _c12 evaluates, on the same records, the clause of C12 (property *)
(* section of KeyProvider.tla) about the key new cookies are sealed with.   *)
(***************************************************************************)
EXTENDS Integers, Sequences, FiniteSets, TLC, Json

CONSTANTS PlaceholderTypedAsCookie, CapReply

Trace == ndJsonDeserialize("trace.ndjson")
Cfg == Trace[1]

PoolMax      == 8
CookieLen    == Cfg.cookie_len
MaxPacketLen == Cfg.maxlen
Day     == 2
Ticks   == {}
Horizon == 0
MaxEx   == 0
ProbeNs == {}
ProbeUids == {}
MaxOld == 0
Transports == {"ip", "scion"}
ScmpTypes == {"unreach", "echorep", "param"}
HdrStates == {"sync", "li3", "str0", "str16"}

VARIABLES now, prov, pool, sess, used, seen, phase, net, rep, pre, clean, nex, nextId, obs, old, tries, tr,
          l,     \* position of the last event consumed
          aux    \* what the harness observed besides the model state (real decryption results, flags)
INSTANCE NtsCookies
tvars == <<vars, l, aux>>

NoAux == [opens |-> TRUE, lens |-> TRUE, ans |-> TRUE, kv |-> TRUE, phlen |-> TRUE, fn |-> FALSE, nas |-> << >>]

RangeOf(s) == {s[i] : i \in DOMAIN s}
ProvOf(pj) == [keys |-> [i \in {k.id : k \in RangeOf(pj.keys)} |->
                           (CHOOSE k \in RangeOf(pj.keys) : k.id = i).nb],
               cur |-> pj.cur, gen |-> pj.gen]
\* NotAfter of the keys the provider holds (model units), by key id
NasOf(pj) == [i \in {k.id : k \in RangeOf(pj.keys)} |-> (CHOOSE k \in RangeOf(pj.keys) : k.id = i).na]
AllOpen(cs) == \A i \in DOMAIN cs : cs[i].opens
AllLen(cs)  == \A i \in DOMAIN cs : cs[i].len = CookieLen

TInit ==
  /\ l = 1
  /\ aux = NoAux
  /\ Init
  /\ tr = "ip"

TNext ==
  /\ l < Len(Trace)
  /\ l' = l + 1
  /\ nex' = 0 /\ nextId' = 0
  /\ old' = << >>       \* (the network's memory is the proxy's; the clauses do not refer to it)
  \* datagrams other than the genuine reply handed to the client during the current call
  /\ tries' = (LET e == Trace[l + 1] IN
                IF e.ev \in {"stale", "scmp"} THEN tries + 1 ELSE IF e.ev \in {"reset", "req", "done"} THEN 0 ELSE tries)
  \* the client the behaviour is run with
  /\ tr' = (LET e == Trace[l + 1] IN IF e.ev = "reset" THEN e.tr ELSE tr)
  /\ LET e == Trace[l + 1] IN
     \/ /\ e.ev = "reset"
        /\ now' = 0 /\ prov' = ProvOf(e.prov)
        /\ pool' = << >> /\ sess' = 0 /\ used' = {} /\ seen' = {}
        /\ phase' = "idle" /\ net' = NoMsg /\ rep' = NoMsg /\ pre' = 0 /\ clean' = TRUE
        /\ obs' = "init" /\ aux' = NoAux
     \/ /\ e.ev = "tick"
        /\ now' = e.prov.now /\ prov' = ProvOf(e.prov)
        /\ rep' = NoMsg /\ obs' = "tick" /\ aux' = NoAux
        /\ UNCHANGED <<pool, sess, used, seen, phase, net, pre, clean>>
     \/ /\ e.ev = "rekey"
        /\ prov' = ProvOf(e.prov)
        /\ sess' = e.sess
        /\ pool' = e.pool
        /\ rep' = [k |-> "ke", n |-> 8, u |-> OwnUid, cookies |-> e.cookies, sess |-> e.sess, size |-> 0, bad |-> FALSE]
        /\ seen' = seen \cup Ids(e.cookies)
        /\ obs' = "rekey"
        /\ aux' = [NoAux EXCEPT !.opens = AllOpen(e.cookies), !.lens = AllLen(e.cookies), !.nas = NasOf(e.prov)]
        /\ UNCHANGED <<now, used, phase, net, pre, clean>>
     \/ /\ e.ev = "fpool"      \* function level: a pool of p cookies handed to NewRequestPacket
        /\ prov' = ProvOf(e.prov)
        /\ sess' = e.sess
        /\ pool' = e.pool
        /\ seen' = seen \cup Ids(e.pool)
        /\ rep' = NoMsg /\ phase' = "idle" /\ net' = NoMsg /\ clean' = FALSE
        /\ obs' = "init"
        /\ aux' = [NoAux EXCEPT !.opens = AllOpen(e.pool), !.lens = AllLen(e.pool), !.fn = TRUE]
        /\ UNCHANGED <<now, used, pre>>
     \/ /\ e.ev = "req"
        /\ phase' = "req"
        /\ net' = [k |-> "req", cookie |-> e.cookie, p |-> e.p, ncookie |-> e.ncookie, nph |-> e.nph,
                   size |-> e.size, bad |-> e.bad]
        /\ pool' = e.pool
        /\ pre' = e.p
        /\ used' = used \cup {e.cookie.id}
        /\ rep' = NoMsg /\ obs' = "send"
        /\ aux' = [NoAux EXCEPT !.kv = e.kv, !.phlen = e.phlen_ok, !.fn = e.fn]
        /\ UNCHANGED <<now, prov, sess, seen, clean>>
     \/ /\ e.ev = "panic"
        /\ phase' = "panic" /\ net' = NoMsg /\ rep' = NoMsg
        /\ pool' = e.pool /\ pre' = e.p /\ clean' = FALSE
        /\ obs' = "panic" /\ aux' = [NoAux EXCEPT !.fn = e.fn]
        /\ UNCHANGED <<now, prov, sess, used, seen>>
     \/ /\ e.ev = "nosend"     \* the call failed before anything reached the wire (deadline during set-up)
        /\ phase' = "idle" /\ net' = NoMsg /\ rep' = NoMsg
        /\ pool' = e.pool /\ pre' = e.p /\ clean' = FALSE
        /\ obs' = "fail" /\ aux' = NoAux
        /\ UNCHANGED <<now, prov, sess, used, seen>>
     \/ /\ e.ev = "losereq"
        /\ phase' = "wait" /\ net' = NoMsg /\ rep' = NoMsg /\ clean' = FALSE
        /\ obs' = "losereq" /\ aux' = NoAux
        /\ UNCHANGED <<now, prov, pool, sess, used, seen, pre>>
     \/ /\ e.ev = "rep"
        /\ phase' = "resp" /\ net' = NoMsg
        /\ prov' = ProvOf(e.prov)
        /\ rep' = [k |-> "ntp", n |-> e.n, u |-> e.u, cookies |-> e.cookies, sess |-> e.sess, hdr |-> e.hdr, size |-> e.size, bad |-> e.bad]
        /\ seen' = seen \cup Ids(e.cookies)
        /\ obs' = "serve"
        /\ aux' = [NoAux EXCEPT !.opens = AllOpen(e.cookies), !.lens = AllLen(e.cookies), !.nas = NasOf(e.prov)]
        /\ UNCHANGED <<now, pool, sess, used, pre, clean>>
     \/ /\ e.ev = "norep"
        /\ phase' = "wait" /\ net' = NoMsg /\ rep' = NoMsg /\ clean' = FALSE
        /\ prov' = ProvOf(e.prov)
        /\ obs' = "norep" /\ aux' = NoAux
        /\ UNCHANGED <<now, pool, sess, used, seen, pre>>
     \/ /\ e.ev = "loseresp"
        /\ phase' = "wait" /\ rep' = NoMsg /\ clean' = FALSE
        /\ obs' = "loseresp" /\ aux' = NoAux
        /\ UNCHANGED <<now, prov, pool, sess, used, seen, net, pre>>
     \/ /\ e.ev = "done"
        /\ phase' = "idle" /\ net' = NoMsg /\ rep' = NoMsg
        /\ pool' = e.pool
        /\ obs' = IF e.ok THEN "store" ELSE "fail"
        \* a reply handed to the client which it did not accept: the run stays "clean"
        \* unless the reply was malformed (reported by RespFits) or handed over too late
        \* (nor when the network handed it something else as well)
        /\ clean' = IF e.ok THEN clean
                    ELSE IF phase = "resp" /\ tries = 0 THEN clean /\ ~rep.bad /\ ~e.late
                    ELSE FALSE
        /\ aux' = NoAux
        /\ UNCHANGED <<now, prov, sess, used, seen, pre>>
     \/ /\ e.ev = "probe"
        /\ prov' = ProvOf(e.prov)
        /\ rep' = IF e.ans
                  THEN [k |-> "probe", n |-> e.n, u |-> e.u, cookies |-> e.cookies, sess |-> 0, size |-> e.size,
                        bad |-> e.bad, tr |-> e.tr, ck |-> e.ck, kv |-> e.kv, fresh |-> e.kb = 0]
                  ELSE [k |-> "dropped", n |-> e.n, u |-> e.u, cookies |-> << >>, sess |-> 0, size |-> 0,
                        bad |-> FALSE, tr |-> e.tr, ck |-> e.ck, kv |-> e.kv, fresh |-> e.kb = 0]
        /\ seen' = seen \cup Ids(e.cookies)
        /\ obs' = "probe"
        /\ aux' = [NoAux EXCEPT !.opens = AllOpen(e.cookies), !.lens = AllLen(e.cookies), !.ans = e.ans,
                                !.nas = NasOf(e.prov)]
        /\ UNCHANGED <<now, pool, sess, used, phase, net, pre, clean>>
     \/ /\ e.ev = "stale"
        /\ obs' = "stale" /\ aux' = NoAux
        /\ UNCHANGED <<now, prov, pool, sess, used, seen, phase, net, rep, pre, clean>>
     \/ /\ e.ev = "scmp"      \* an SCMP message (e.typ) handed to the waiting SCION client
        /\ obs' = "scmp" /\ aux' = NoAux
        /\ UNCHANGED <<now, prov, pool, sess, used, seen, phase, net, rep, pre, clean>>
     \/ /\ e.ev = "stray"
        /\ pool' = e.pool
        /\ rep' = NoMsg /\ obs' = "stray" /\ aux' = NoAux
        /\ UNCHANGED <<now, prov, sess, used, seen, phase, net, pre, clean>>
     \/ /\ e.ev = "fend"
        /\ phase' = "idle" /\ net' = NoMsg /\ rep' = NoMsg /\ obs' = "fail" /\ aux' = NoAux
        /\ UNCHANGED <<now, prov, pool, sess, used, seen, pre, clean>>
     \/ /\ e.ev = "end"
        /\ rep' = NoMsg /\ obs' = "end" /\ aux' = NoAux
        /\ UNCHANGED <<now, prov, pool, sess, used, seen, phase, net, pre, clean>>

TSpec == TInit /\ [][TNext]_tvars

(***************************************************************************)
(* monitor: the property section of NtsCookies on the recorded behaviour   *)
(***************************************************************************)
Mon(name, ok)  == ok \/ PrintT(<<"VIOL", name, l>>)
MonS(name, ok) == ok \/ PrintT(<<"VIOL", name, l + 1>>)     \* step clauses: the offending event is l + 1

\* the real decryption (Provider.Get + EncryptedServerCookie.Decrypt) of every
\* issued cookie, next to the model's KeyValid on the projected provider
RealOpens == aux.opens

TMonitor ==
  /\ Mon("SentLeavesPool", SentLeavesPool)
  /\ Mon("FieldCount", FieldCount)
  /\ Mon("PlaceholderType", PlaceholderType)
  /\ Mon("ReqFits", ReqFits)
  /\ Mon("NoShrink", NoShrink)
  /\ Mon("PoolCap", PoolCap)
  /\ Mon("StaysFull", StaysFull)
  /\ Mon("RespFits", RespFits)
  /\ Mon("RespCount", RespCount)
  /\ Mon("FreshCookiesOpen", FreshCookiesOpen)
  /\ Mon("RealOpens", RealOpens)
  /\ Mon("ProbeAnswered", ProbeAnswered)

TMonitorStep ==
  /\ MonS("SingleUse", SingleUseStep)
  /\ MonS("Answered", AnsweredStep)
  /\ MonS("Fresh", FreshStep)
TMonitorProp == [][TMonitorStep]_tvars

(***************************************************************************)
(* strict: each recorded step is the specification's step                  *)
(***************************************************************************)
Dr(name, ok) == ok \/ PrintT(<<"DRIFTAT", name, l + 1>>)
IdSeq(s) == [i \in DOMAIN s |-> s[i].id]
KeysOf(s) == {s[i].key : i \in DOMAIN s}

SReply(r, n, s, kind) ==
  LET pv == CurrentP(prov, now)
      x  == ReplyFor(kind, n, s, pv, r.u, r.hdr)
  IN /\ prov' = pv
     /\ r.n = n /\ r.sess = s
     /\ r.bad = x.bad /\ r.size = x.size
     /\ (~r.bad => (Len(r.cookies) = Len(x.cookies) /\ KeysOf(r.cookies) \subseteq {pv.cur}))

StrictStep ==
  /\ Dr("send", obs' = "send" =>
       /\ pool # << >>
       /\ LET p == Len(pool) n == 1 + (PoolMax - p) oc == EncodeOutcome(FieldsEnd(n), ReqSizeN(n)) IN
          /\ oc # "panic"
          /\ net'.p = p
          /\ net'.cookie.id = Head(pool).id
          /\ IdSeq(pool') = IdSeq(Tail(pool))
          /\ net'.ncookie = (IF PlaceholderTypedAsCookie THEN n ELSE 1)
          /\ net'.nph = (IF PlaceholderTypedAsCookie THEN 0 ELSE PoolMax - p)
          /\ net'.size = Min2(ReqSizeN(n), MaxPacketLen)
          /\ net'.bad = (oc = "trunc")
          /\ aux'.phlen
          /\ aux'.kv = ValidAt(prov', net'.cookie.key, now'))
  /\ Dr("panic", obs' = "panic" =>
       /\ pool # << >>
       /\ LET n == 1 + (PoolMax - Len(pool)) IN EncodeOutcome(FieldsEnd(n), ReqSizeN(n)) = "panic"
       /\ IdSeq(pool') = IdSeq(Tail(pool)))
  /\ Dr("rekey", obs' = "rekey" =>
       /\ pool = << >>
       /\ prov' = CurrentP(prov, now)
       /\ sess' = sess + 1
       /\ Len(pool') = 8 /\ KeysOf(pool') = {prov'.cur})
  /\ Dr("serve", obs' = "serve" =>
       /\ ~net.bad /\ KeyValid(net.cookie.key)
       /\ rep'.u = OwnUid
       /\ SReply(rep', net.ncookie + net.nph, net.cookie.sess, "ntp"))
  /\ Dr("norep", obs' = "norep" => (net.bad \/ ~KeyValid(net.cookie.key)) /\ prov' = prov)
  /\ Dr("probe", obs' = "probe" =>
       LET pk == IF rep'.fresh THEN CurrentP(prov, now) ELSE prov
           kv == ValidAt(pk, rep'.ck, now)
           pv == CurrentP(pk, now)
           x  == ReplyFor("probe", rep'.n, 0, pv, rep'.u, "sync")
       IN /\ rep'.kv = kv
          /\ (rep'.fresh => rep'.ck = pk.cur)
          /\ aux'.ans = (UidAccepted(rep'.u) /\ kv)
          /\ IF aux'.ans
             THEN /\ prov' = pv
                  /\ rep'.bad = x.bad /\ rep'.size = x.size
                  /\ (~rep'.bad => (Len(rep'.cookies) = Len(x.cookies) /\ KeysOf(rep'.cookies) \subseteq {pv.cur}))
             ELSE prov' = pk)
  /\ Dr("store", obs' = "store" =>
       /\ phase = "resp" /\ ~rep.bad /\ tries <= MaxRetries /\ Synced(rep.hdr)
       /\ IdSeq(pool') = IdSeq(pool \o rep.cookies))
  \* a call that ended with an error: nothing was stored - unless it took in the
  \* authentic reply of an unsynchronised server (stored first, refused then)
  /\ Dr("fail", (obs' = "fail" /\ ~aux.fn /\ phase # "idle") =>
       IF phase = "resp" /\ ~rep.bad /\ tries <= MaxRetries
       THEN ~Synced(rep.hdr) /\ IdSeq(pool') = IdSeq(pool \o rep.cookies)
       ELSE IdSeq(pool') = IdSeq(pool))
  /\ Dr("stray", obs' = "stray" => IdSeq(pool') = IdSeq(pool))
  /\ Dr("scmp", obs' = "scmp" => (tr = "scion" /\ phase \in {"resp", "wait"}))
  /\ Dr("nosend", (obs' = "fail" /\ phase = "idle" /\ ~aux.fn /\ pool # << >>) => IdSeq(pool') = IdSeq(Tail(pool)))
  /\ Dr("tick", obs' = "tick" => (prov' = prov /\ now' > now))
  /\ Dr("cookielen", aux'.lens)
  /\ Dr("constants", CookieLen = 124)
TStrictProp == [][StrictStep]_tvars

(***************************************************************************)
(* C12 on the same records (cfg _c12): the clause of KeyProvider.tla about  *)
(* the key the servers seal new cookies with, for every cookie of every     *)
(* key-exchange message and reply (IP and SCION listener), at the instant   *)
(* it was issued.  Instants: what the provider's clock read when a key was  *)
(* generated / expires is a whole number nb / na of 12 h units after an     *)
(* earlier reading; the issue of a cookie at model time `now` is a strictly *)
(* later reading less than a unit after `now`.  In 6 h units 2 * nb, 2 * na *)
(* and 2 * now + 1 compare with every multiple of 12 h exactly as the real  *)
(* instants do.                                                             *)
(***************************************************************************)
KP == INSTANCE KeyProvider WITH Day <- 2 * Day, Gaps <- {}, Horizon <- 0, now <- 0, keys <- << >>,
                                currentID <- 0, generatedAt <- 0, ret <- 0, issued <- << >>, seen <- {},
                                cookies <- << >>, draw <- "real"
IssuedNow == obs \in {"rekey", "serve", "probe"} /\ rep.k \in {"ke", "ntp", "probe"}
\* (a cookie that names no key the provider holds is C11's business: FreshCookiesOpen)
Judged12(c) == c.key \in DOMAIN prov.keys /\ c.key \in DOMAIN aux.nas
KeyRec(c) == [nb |-> 2 * prov.keys[c.key], na |-> 2 * aux.nas[c.key]]
C12Monitor ==
  /\ Mon("SealedWithCurrent", IssuedNow =>
          \A i \in DOMAIN rep.cookies :
             Judged12(rep.cookies[i]) => KP!SealedWithCurrent(2 * now + 1, KeyRec(rep.cookies[i])))
  /\ Mon("SealedLifetime", IssuedNow =>
          \A i \in DOMAIN rep.cookies :
             Judged12(rep.cookies[i]) => KP!SealedLifetime(2 * now + 1, KeyRec(rep.cookies[i])))

\* the whole trace must be consumed (a TLC evaluation error or a record that
\* matches no disjunct of TNext would otherwise end the behaviour silently)
Consumed == TLCGet("stats").diameter = Len(Trace)
=============================================================================
