"""C20 - NTS key exchange: agreeing keys, bad offers refused, failures leave no state.

spec/NtsKe.tla            the client side of the key exchange (Fetcher.FetchData, exchangeKeys, dialTLS,
                          ReadData, ExportKeys, StoreCookie) against an arbitrary peer; property section C20
spec/mc/NtsKeGen.tla      history generator (exhaustive single exchanges; tlc -simulate for multi-call histories)
spec/trace/NtsKeTrace.tla monitor (property section on the recorded behaviour) and strict mode

1. TLC decides the property section on the default variant (ResidueAfterFailure = FALSE, ShortCookieRead = FALSE,
   DialResetsData = TRUE) exhaustively; the old-switch configurations (NtsKe_faithful.cfg, NtsKe_quic_faithful.cfg,
   NtsKe_quic_fix1.cfg) are spec self-tests: TLC must refute them - information, never a verdict.
2. TLC generates the histories: every peer script of <= 3 (quick) / <= 4 (thorough) records x ALPN answer x
   truncation; every almost-acceptable message (AEAD 15 + cookies + at most one other record, <= 4 / <= 6 records);
   random walks through Next with <= 6 records, 3 exchanges, 6 calls, StoreCookie; the same (smaller) for QUIC.
   TIME: every script of <= 3 / <= 4 records (QUIC: <= 2 / <= 3; over one representative per record class) in which the peer stalls
   - at any record boundary, inside a header, inside a body - until the deadline of the call's context has passed
   and then sends the rest; the walks stall too (under CtxMode "ignored" and "returns": the statement leaves open
   whether such a call fails at the deadline or returns late; what it says is judged on the calls that follow).
   BODY LENGTH: records of an unrecognised type (critical or not) and Warning records with a body of length 0 | 1 |
   typical, <= 2 of them anywhere in an otherwise acceptable message of <= 4 / <= 5 records (QUIC: <= 1 in <= 4); the
   walks draw them too.
3. harness/c20 replays them on the real Fetcher / IPClient against a scripted TLS 1.3 peer that exports its own
   keys (every history is followed by a probe call; histories with unrecognised non-critical records are run a
   second time without them), runs the project's own StartNTSKEServerIP against the real Fetcher and opens its
   cookies, and the same over QUIC/SCION. WHERE THE REQUEST GOES: histories of the Naming family (acceptable messages
   that name no endpoint / a host / a port / both) are replayed through client.MeasureClockOffsetIP and
   client.MeasureClockOffsetSCION (configured remote address host:4003, same ISD-AS); capture sockets record where
   the request arrives and, over SCION, the destination host and UDP port inside it.
4. NtsKeTrace.tla validates what the real code did: monitor invariants => VIOLATION, strict => DRIFT.
"""
import copy, json, os, re, shutil, threading
from concurrent.futures import ThreadPoolExecutor

import vlib

MON = ["TSuccessOnlyIf", "TIgnoresNonCritical", "TKeysAgree", "TPoolIsIssued", "TPoolReturned", "TDestination",
       "TNoResidue"]
ACTIONS = ["FetchCached", "Dial", "CheckAlpn", "SendRequest", "ReadRecord", "ReadCut", "PeerClose", "Export",
           "Finish", "StoreCookie", "StallPastDeadline", "LateRecord", "LateClose"]


def variants(transport):
    """switch settings of NtsKe.tla tried by strict mode, the repository's current code first:
    (ResidueAfterFailure, ShortCookieRead, DialResetsData, description, CtxMode)"""
    res = []
    for ctxmode in ("ignored", "returns"):
        for short in ("FALSE", "TRUE"):
            for residue, dial in (("FALSE", "FALSE"), ("FALSE", "TRUE"), ("TRUE", "FALSE"), ("TRUE", "TRUE")):
                if transport == "tls" and dial == "FALSE":
                    continue
                res.append((residue, short, dial, "ResidueAfterFailure=%s ShortCookieRead=%s DialResetsData=%s CtxMode=%s" %
                            (residue, short, dial, ctxmode), ctxmode))
    return res


CHUNK = 5000
# python twins of NtsKe!ErrRecs / UnkCrit / UnkNon / Warns / LenRecs (used for signatures and censuses only)
ERR_RECS = ("e0", "e1", "e2", "eX")
UNK_CRIT = ("uc", "uc0", "uc1")
UNK_NON = ("un", "un0", "un1")
WARNS = ("warn", "warn0", "warn1")
LEN_RECS = ("uc0", "uc1", "un0", "un1", "warn0", "warn1")
KEEP = ("ev", "via", "planned", "served", "dialed", "sess", "ok", "ret", "post", "dest", "has_un", "twin", "id")


class Lane:
    """private copy of the spec directory: several TLC runs read differently filled trace files at once"""
    _n = 0
    _lock = threading.Lock()

    def __init__(self, ctx):
        with Lane._lock:
            Lane._n += 1
            n = Lane._n
        self.dir = ctx.path("lane%d" % n)
        shutil.copytree(ctx.specdir(), self.dir)
        self.ctx = copy.copy(ctx)
        self.ctx.specdir = lambda: self.dir

    def load(self, part):
        """one line per history; only the fields the trace specification reads"""
        total = sum(len(c) for c in part)
        vlib.write_ndjson(os.path.join(self.dir, "trace.ndjson"),
                          [dict(total=total, evs=[slim(e) for e in c]) for c in part])

    def validate(self, transport, residue, short, dialresets, body, timeout=600, ctxmode="ignored"):
        """returns (ok, history number, operation number, violated, output)"""
        cfg = "lane_NtsKeTrace.cfg"
        with open(os.path.join(self.dir, cfg), "w") as f:
            f.write(trace_cfg(transport, residue, short, dialresets, body, ctxmode))
        tp = os.path.join(self.dir, "trace.ndjson")
        ok, l, inv, out = self.ctx.validate("NtsKeTrace", cfg, tp, timeout=timeout, workers=4)
        pm = re.findall(r"^/?\\?\s*p = (\d+)\s*$", out, re.M) if not ok else []
        return ok, l, (int(pm[-1]) if pm else None), inv, out


def slim(e):
    """the fields NtsKeTrace reads (twin only with has_un, planned only for calls that did not dial)"""
    d = {k: e[k] for k in KEEP}
    if not e["has_un"]:
        del d["twin"]
    if e["dialed"]:
        del d["planned"]
    return d


def trace_cfg(transport, residue, short, dialresets, body, ctxmode="ignored"):
    return ("SPECIFICATION TSpec\nCONSTANTS\n  Transport = \"%s\"\n  ResidueAfterFailure = %s\n  ShortCookieRead = %s\n"
            "  DialResetsData = %s\n  Alpns = {}\n  Alphabet = {}\n  CutRecs = {}\n  MaxRecs = 0\n  MaxDials = 0\n"
            "  MaxCalls = 0\n  MaxStore = 0\n  CtxMode = \"%s\"\n  MaxStalls = 0\n  StaleNextHop = FALSE\n%s\nPOSTCONDITION Consumed\n"
            % (transport, residue, short, dialresets, ctxmode, body))


def split_cases(evs):
    """events of one driver -> list of histories (the "reset" markers are dropped)"""
    cases = []
    for e in evs:
        if e["ev"] == "reset":
            cases.append([])
        elif e["ev"] != "skip":   # a StoreCookie the driver left out (no successful call before it)
            cases[-1].append(e)
    return [c for c in cases if c]


def chunks(cases, limit):
    out, cur, n = [], [], 0
    for c in cases:
        if cur and n + len(c) > limit:
            out.append(cur)
            cur, n = [], 0
        cur.append(c)
        n += len(c)
    if cur:
        out.append(cur)
    return out


def summary(sc):
    """python twin of NtsKe!Summary, used only to word a violation's signature"""
    recs = sc["recs"] if sc["cut"] == "none" else sc["recs"][:-1]
    s = dict(alpn=sc["alpn"], nck=0, a15=False, bad=False, eom=False)
    for r in recs:
        if r == "ck":
            s["nck"] += 1
        s["a15"] |= r == "a15"
        s["bad"] |= r in ERR_RECS + UNK_CRIT
        if r == "eom":
            s["eom"] = True
            break
    return s


def classify(inv, e):
    """structural class of a violating call (what known_findings.json matches)"""
    if e.get("ev") != "call":
        return e.get("ev", "?")
    src = e["src"]
    if inv == "TSuccessOnlyIf":
        s = summary(e["served"])
        why = []
        if s["alpn"] != "ntske/1":
            why.append("alpn=" + s["alpn"])
        if not s["a15"]:
            why.append("aead-not-selected")
        if s["nck"] < 1:
            why.append("no-cookie")
        if not s["eom"]:
            why.append("no-end-of-message")
        if s["bad"]:
            why.append("error-or-critical-record")
            recs = e["served"]["recs"]
            short = sorted({"empty" if r[-1] == "0" else "one-byte" for r in recs if r in LEN_RECS and r in UNK_CRIT})
            if short and not any(r in ERR_RECS + ("uc",) for r in recs):
                why[-1] += " [unrecognised critical record with %s body]" % "/".join(short)
        return "%s success despite %s" % (src, "+".join(why) or "?")
    if inv == "TNoResidue":
        return "%s call after failed exchange returns leftover data without a new exchange (keys %s)" % (
            src, "absent" if e["ret"]["c2s"] == 0 else "present")
    if inv == "TKeysAgree":
        c, s = e["ret"]["c2s"], e["ret"]["s2c"]
        kind = "absent" if 0 in (c, s) else "foreign" if -1 in (c, s) else "swapped" if c % 2 == 1 and s % 2 == 0 \
            else "of-another-session"
        return "%s keys %s" % (src, kind)
    if inv == "TDestination":
        # python twin of NtsKe!NamedServers / NamedPorts, used only to name the conjunct of Destination that fails
        recs = e["served"]["recs"] if e["served"]["cut"] == "none" else e["served"]["recs"][:-1]
        recs = recs[:recs.index("eom")] if "eom" in recs else recs
        srvs = {dict(sA="A", sB="B", sH="host")[r] for r in recs if r in ("sA", "sB", "sH")} or {"host"}
        ports = {dict(pA=4001, pB=4002)[r] for r in recs if r in ("pA", "pB")} or {10123 if src == "quic" else 123}
        named = lambda x: x["server"] in srvs and x["port"] in ports
        d = e["dest"]
        bad = []
        if e["dialed"] and not named(e["ret"]):
            bad.append("returned-data")
        if d["sent"] and e["dialed"] and not named(d):
            bad.append("addressed-to")
        if d["sent"] and e["dialed"] and not named(d["hop"]):
            bad.append("handed-to")
        kind = "+".join(k for k, rs in (("host", ("sA", "sB", "sH")), ("port", ("pA", "pB"))) if any(r in rs for r in recs))
        return "%s %s %s %s (exchange names %s)" % (
            src, e["via"], d["net"] if d["sent"] else "-", "+".join(bad) or "endpoint-of-an-earlier-exchange",
            (kind or "no endpoint") if e["dialed"] else "nothing: no exchange in this call")
    if inv == "TIgnoresNonCritical":
        return "%s result differs from the history without the non-critical records (ok %s/%s)" % (
            src, e["ok"], e["twin"]["ok"])
    return "%s %s" % (src, e["via"])


def stall_census(cases):
    """how the generated histories exercise the time dimension"""
    c = dict(histories=0, ops=0, bnd=0, hdr=0, body=0, cookie_after=0, complete_after=0, walks=0, followed=0)
    for case in cases:
        h = case["h"]
        hit = False
        for i, op in enumerate(h):
            w = op.get("stallw", "none")
            if op["op"] != "fetch" or w == "none":
                continue
            hit = True
            c["ops"] += 1
            c[w] += 1
            rest = op["recs"][op["stall"]:]
            c["cookie_after"] += "ck" in rest          # a cookie record completed after the stall
            c["complete_after"] += "eom" in rest       # the message is brought to its end after the stall
            c["followed"] += any(o["op"] == "fetch" for o in h[i + 1:])   # (besides the probe the driver appends)
        c["histories"] += hit
        c["walks"] += hit and len(h) > 1
    return c


def census_text(c):
    return ("%(histories)d histories / %(ops)d exchanges (at a record boundary %(bnd)d, inside a header %(hdr)d, inside a "
            "body %(body)d; cookie records after the stall in %(cookie_after)d, End of Message after it in "
            "%(complete_after)d; %(walks)d multi-call walks, further generated calls after the stalled one in %(followed)d)" % c)


def len_census(cases):
    """how the generated histories exercise the BODY LENGTH dimension: exchanges whose message contains a record of an
    unrecognised type / a Warning with body length 0 or 1, by record; how many of these messages are otherwise
    acceptable (AEAD 15, >= 1 cookie, End of Message, nothing else that stops ReadData) - i.e. the record's treatment
    alone decides between success and failure - and in how many the message goes on after the record"""
    c = dict(histories=0, exchanges=0, otherwise_acceptable=0, goes_on=0, walks=0, **{r: 0 for r in LEN_RECS})
    for case in cases:
        hit = False
        for op in case["h"]:
            if op["op"] != "fetch" or not any(r in LEN_RECS for r in op["recs"]):
                continue
            hit = True
            c["exchanges"] += 1
            for r in LEN_RECS:
                c[r] += r in op["recs"]
            first = min(i for i, r in enumerate(op["recs"]) if r in LEN_RECS)
            c["goes_on"] += first < len(op["recs"]) - 1
            rest = [r for r in op["recs"] if r not in LEN_RECS]
            rest = rest[:rest.index("eom") + 1] if "eom" in rest else rest
            c["otherwise_acceptable"] += op["cut"] == "none" and "eom" in rest and "a15" in rest and "ck" in rest and \
                not any(r in ERR_RECS + UNK_CRIT + WARNS + ("aX",) for r in rest)
        c["histories"] += hit
        c["walks"] += hit and len(case["h"]) > 1
    return c


def len_text(c):
    return ("%(histories)d histories / %(exchanges)d exchanges with a record of body length 0 or 1 (unknown critical: empty "
            "%(uc0)d, one byte %(uc1)d; unknown non-critical: empty %(un0)d, one byte %(un1)d; Warning: empty %(warn0)d, one "
            "byte %(warn1)d); the message is otherwise acceptable in %(otherwise_acceptable)d and goes on after the record in "
            "%(goes_on)d; %(walks)d multi-call walks" % c)


NAME_RECS = dict(sA="host", sB="host", sH="host", pA="port", pB="port")


def naming_census(cases):
    """how the generated histories exercise the NTP client's use of the exchange result: exchanges (by an
    acceptable message: AEAD 15, >= 1 cookie, End of Message, nothing that stops ReadData) made by the NTP client
    ("measure"), by what they name; and measure calls served from the cache after such an exchange"""
    c = dict(histories=0, measure_ops=0, acceptable=0, none=0, host=0, port=0, both=0, two_hosts=0, cached_after=0,
             rekey_after=0)
    for case in cases:
        h = case["h"]
        hit = False
        prev = None      # what the last acceptable exchange of this history named
        for op in h:
            if op["op"] != "fetch":
                continue
            m = op.get("via") == "measure"
            c["measure_ops"] += m
            hit |= m
            if op["alpn"] == "dflt":
                c["cached_after"] += m and prev is not None and prev != "none"
                continue
            recs = op["recs"] if op["cut"] == "none" else op["recs"][:-1]
            ok = op["alpn"] == "ntske/1" and "eom" in recs and op.get("stallw", "none") == "none"
            recs = recs[:recs.index("eom")] if "eom" in recs else recs
            ok = ok and "a15" in recs and "ck" in recs and "aX" not in recs and \
                not any(r in ERR_RECS + UNK_CRIT + WARNS for r in recs)
            if not ok:
                continue
            kinds = {NAME_RECS[r] for r in recs if r in NAME_RECS}
            k = "both" if len(kinds) == 2 else (kinds.pop() if kinds else "none")
            if m:
                c["acceptable"] += 1
                c[k] += 1
                c["two_hosts"] += len({r for r in recs if r in ("sA", "sB", "sH")}) > 1
                c["rekey_after"] += prev is not None and prev != k
            prev = k
        c["histories"] += hit
    return c


def naming_text(c):
    return ("%(histories)d histories with %(measure_ops)d calls made by the NTP client; %(acceptable)d of them run an exchange "
            "with an acceptable message that names: no endpoint %(none)d, a host %(host)d, a port %(port)d, both %(both)d "
            "(two different hosts %(two_hosts)d); requests from cached data after an exchange that named something "
            "%(cached_after)d; exchanges after one that named something else %(rekey_after)d" % c)


def corrupt(evs, what):
    """corrupted-trace-field control (VERIF_C20_CORRUPT=pool|key|dest|ok): falsify one recorded field"""
    for i, e in enumerate(evs):
        if e["ev"] != "call" or not e["ok"] or not e["dialed"]:
            continue
        if what == "pool" and len(e["post"]["pool"]) >= 1:
            e["post"]["pool"] = e["post"]["pool"][:-1]
            return i
        if what == "key":
            e["ret"]["c2s"] += 2
            return i
        if what == "dest" and e["dest"]["sent"]:
            e["dest"]["port"] = 4002 if e["dest"]["port"] != 4002 else 4001
            return i
        if what == "ok":
            # a failed exchange reported as a success
            for j in range(i + 1, len(evs)):
                f = evs[j]
                if f["ev"] == "call" and f["dialed"] and not f["ok"] and f["served"]["alpn"] == "ntske/1":
                    f["ok"] = True
                    return j
    raise vlib.Inconclusive("corrupt control: no suitable event for %r" % what)


def validate_all(ctx, pool, evs, transport, label):
    """monitor + strict validation of one driver's events. Returns (#histories validated, #events, variant)."""
    cases = split_cases(evs)
    parts = chunks(cases, CHUNK)
    found = {}
    state = dict(variant=None, drift=[])
    lock = threading.Lock()

    def one(part):
        lane = Lane(ctx)
        lane.load(part)
        todo = list(MON)
        res, clean = [], True
        with lock:
            order = ([state["variant"]] if state["variant"] else []) + [v for v in variants(transport) if v != state["variant"]]
        hit, last, vi = None, (-1, None), 0
        # one TLC run checks the monitor invariants and, in the same pass, strict mode under the most likely
        # switch setting; a monitor violation is recorded, that invariant dropped and the rest checked again;
        # a strict failure moves on to the next switch setting
        while todo or (hit is None and vi < len(order)):
            strict = hit is None and vi < len(order)
            v = order[vi] if strict else order[0]
            body = ("INVARIANTS " + " ".join(todo) + "\n" if todo else "") + ("PROPERTIES StrictProp" if strict else "")
            ok, l, pp, inv, out = lane.validate(transport, v[0], v[1], v[2], body, ctxmode=v[4])
            if ok:
                if strict:
                    hit = v
                break
            if inv == "StrictProp":
                # remember the example of the setting that explained most of the trace
                m = re.findall(r"(\d+) distinct states found", out)
                if l and pp and m and int(m[-1]) > last[0]:
                    last = (int(m[-1]), part[l - 1][pp - 1], v[3])
                vi += 1
                continue
            clean = False
            if inv not in todo or not l or not pp:
                raise vlib.Inconclusive("trace validation (%s) stopped on %r at l=%r p=%r:\n%s" % (label, inv, l, pp, out[-1500:]))
            hist = part[l - 1][:pp]
            res.append((inv, hist[-1], hist))
            todo.remove(inv)
        with lock:
            if hit is None:
                if not state["drift"]:
                    state["drift"].append(
                        "%s: a call is not the one NtsKe.tla computes under any switch setting, e.g. (closest setting: %s) %s" %
                        (label, last[2] if last[1] else "?",
                         json.dumps({k: last[1][k] for k in KEEP if k != "twin"}, separators=(",", ":"))[:700] if last[1] else "?"))
            elif state["variant"] is None:
                state["variant"] = hit
            elif state["variant"] != hit:
                state["drift"].append("%s: parts of the trace match different switch settings (%s / %s)" %
                                      (label, state["variant"][3], hit[3]))
        return res, len(part) if clean else 0

    nval = 0
    for res, n in pool.map(one, parts):
        nval += n
        for inv, bad, hist in res:
            found.setdefault((inv, classify(inv, bad)), (bad, hist))
    for (inv, cls), (bad, hist) in sorted(found.items()):
        brief = {k: bad[k] for k in ("ev", "via", "served", "dialed", "ok", "ret", "post", "dest", "panicked", "note") if k in bad}
        ctx.violation("C20 %s %s" % (inv, cls),
                      "recorded behaviour of the real code violates %s of NtsKe.tla at call %s of history %s: %s" %
                      (inv[1:], bad.get("k"), bad.get("case"), json.dumps(brief, separators=(",", ":"))),
                      dict(transport=transport, invariant=inv, history=[{k: e[k] for k in e if k != "twin"} for e in hist]))
    ctx.drift += state["drift"]
    return nval, len(evs), state["variant"]


def run(ctx):
    try:
        _run(ctx)
    except vlib.Inconclusive:
        raise
    except Exception as e:    # a failure of this script is never a verdict about the code
        import traceback
        raise vlib.Inconclusive("checks/c20.py failed: %s\n%s" % (e, traceback.format_exc()[-1500:]))


def _run(ctx):
    q = ctx.quick
    ctx.specdir()             # (created lazily by vlib: before the threads start)
    jobs = ThreadPoolExecutor(max_workers=9)
    nsim, nqsim = (150, 60) if q else (2000, 600)

    def sim(cfg, n):
        s = ctx.tlc("NtsKeGen", cfg, workers=1, timeout=600, simulate="num=%d" % n, depth=150, tag="sim:" + cfg)
        beh = ctx.emitted(s["out"])
        if len(beh) < n // 2:
            raise vlib.Inconclusive("%s produced only %d histories" % (cfg, len(beh)))
        return beh

    # ---- 2. histories from the specification (first in the queue: the driver waits for them)
    f_gen = jobs.submit(ctx.tlc, "NtsKeGen", "NtsKe_gen.cfg" if q else "NtsKe_gendeep.cfg", workers=1, timeout=600, tag="gen")
    f_dec = jobs.submit(ctx.tlc, "NtsKeGen", "NtsKe_gendec.cfg" if q else "NtsKe_gendecdeep.cfg", workers=1, timeout=600,
                        tag="gen:decorated")
    f_stall = jobs.submit(ctx.tlc, "NtsKeGen", "NtsKe_genstall.cfg" if q else "NtsKe_genstalldeep.cfg", workers=1,
                          timeout=600, tag="gen:stall")
    f_qstall = jobs.submit(ctx.tlc, "NtsKeGen", "NtsKe_qgenstall.cfg" if q else "NtsKe_qgenstalldeep.cfg", workers=1,
                           timeout=600, tag="gen:quic-stall")
    # BODY LENGTH: records of an unrecognised type (critical or not) and Warning records with body length 0 | 1 | typical
    # in any position of an otherwise acceptable message (NtsKeGen!LenFamily)
    f_len = jobs.submit(ctx.tlc, "NtsKeGen", "NtsKe_genlen.cfg" if q else "NtsKe_genlendeep.cfg", workers=1, timeout=600,
                        tag="gen:body-length")
    f_qlen = jobs.submit(ctx.tlc, "NtsKeGen", "NtsKe_qgenlen.cfg", workers=1, timeout=600, tag="gen:quic-body-length")
    f_sim = [jobs.submit(sim, cfg, nsim) for cfg in ("NtsKe_sim.cfg", "NtsKe_simrep.cfg")]
    f_qgen = jobs.submit(ctx.tlc, "NtsKeGen", "NtsKe_qgen.cfg", workers=1, timeout=600, tag="gen:quic")
    f_qdec = jobs.submit(ctx.tlc, "NtsKeGen", "NtsKe_qgendec.cfg", workers=1, timeout=600, tag="gen:quic-decorated")
    f_qsim = jobs.submit(sim, "NtsKe_qsim.cfg", nqsim)
    # WHERE THE REQUEST GOES: acceptable messages that name no endpoint / a host / a port / both, every call made by
    # the NTP client (SCION: MeasureClockOffsetSCION; IP: MeasureClockOffsetIP) with its configured remote address
    f_qname = jobs.submit(ctx.tlc, "NtsKeGen", "NtsKe_qgenname.cfg" if q else "NtsKe_qgennamedeep.cfg", workers=1,
                          timeout=600, tag="gen:quic-naming")
    f_name = jobs.submit(ctx.tlc, "NtsKeGen", "NtsKe_genname.cfg" if q else "NtsKe_gennamedeep.cfg", workers=1,
                         timeout=600, tag="gen:naming")
    # ... and two exchanges in a row, each naming no endpoint / a host / a port
    f_qname2 = jobs.submit(ctx.tlc, "NtsKeGen", "NtsKe_qgenname2.cfg", workers=1, timeout=600, tag="gen:quic-naming2")
    f_name2 = jobs.submit(ctx.tlc, "NtsKeGen", "NtsKe_genname2.cfg", workers=1, timeout=600, tag="gen:naming2")

    cases = ctx.emitted(f_gen.result()["out"])
    nexh = len(cases)
    if nexh < 2000:
        raise vlib.Inconclusive("exhaustive generator produced only %d scripts" % nexh)
    dec = ctx.emitted(f_dec.result()["out"])
    if len(dec) < 500:
        raise vlib.Inconclusive("generator of almost-acceptable messages produced only %d scripts" % len(dec))
    cases += dec
    stall = ctx.emitted(f_stall.result()["out"])
    cases += stall
    name = ctx.emitted(f_name.result()["out"]) + ctx.emitted(f_name2.result()["out"])
    cases += name
    lenc = ctx.emitted(f_len.result()["out"])
    cases += lenc
    nexh = len(cases)
    for f in f_sim:
        cases += f.result()
    cp = ctx.path("cases.ndjson")
    vlib.write_ndjson(cp, cases)
    qcases = ctx.emitted(f_qgen.result()["out"]) + ctx.emitted(f_qdec.result()["out"])
    qstall = ctx.emitted(f_qstall.result()["out"])
    qcases += qstall
    qname = ctx.emitted(f_qname.result()["out"]) + ctx.emitted(f_qname2.result()["out"])
    qcases += qname
    qlenc = ctx.emitted(f_qlen.result()["out"])
    qcases += qlenc
    nqexh = len(qcases)
    qcases += f_qsim.result()
    qp = ctx.path("qcases.ndjson")
    vlib.write_ndjson(qp, qcases)
    ctx.log("TLC generated %d single-exchange scripts (exhaustive) + %d multi-call histories (simulation); "
            "QUIC: %d + %d" % (nexh, len(cases) - nexh, nqexh, len(qcases) - nqexh))
    # vacuity guard for the time dimension, judged on what the SPECIFICATION generated (not on how the code reacted)
    sg, qsg = stall_census(cases), stall_census(qcases)
    ctx.log("of these, the peer stalls past the caller's deadline in: " + census_text(sg) + "; QUIC: " + census_text(qsg))
    if len(stall) < 500 or sg["bnd"] < 250 or sg["hdr"] < 150 or sg["body"] < 60 or sg["cookie_after"] < 250 \
            or sg["walks"] < 50 or sg["followed"] < 50:
        raise vlib.Inconclusive("the generators exercise the stall dimension too little: %s" % census_text(sg))
    if len(qstall) < 100 or qsg["cookie_after"] < 30:
        raise vlib.Inconclusive("the QUIC generators exercise the stall dimension too little: %s" % census_text(qsg))
    # vacuity guard for the dimension "what the NTP client does with the endpoint the exchange names", again on what
    # the SPECIFICATION generated
    ng, qng = naming_census(cases), naming_census(qcases)
    ctx.log("the NTP client makes the call (where the request goes): IP " + naming_text(ng) + "; SCION " + naming_text(qng))
    for g, lbl in ((ng, "IP"), (qng, "SCION")):
        if g["none"] < 20 or min(g["host"], g["port"], g["both"]) < 100 or g["two_hosts"] < 20 or g["cached_after"] < 100 \
                or g["rekey_after"] < 100:
            raise vlib.Inconclusive("the generators exercise the naming dimension too little (%s): %s" % (lbl, naming_text(g)))
    # vacuity guard for the body length dimension, on what the SPECIFICATION generated
    lg, qlg = len_census(cases), len_census(qcases)
    ctx.log("body length of unrecognised / Warning records: TLS " + len_text(lg) + "; QUIC " + len_text(qlg))
    if len(lenc) < 1000 or min(lg[r] for r in LEN_RECS) < 200 or lg["otherwise_acceptable"] < 50 or lg["goes_on"] < 500 \
            or lg["walks"] < 20:
        raise vlib.Inconclusive("the generators exercise the body length dimension too little: %s" % len_text(lg))
    if len(qlenc) < 100 or min(qlg[r] for r in LEN_RECS) < 15 or qlg["otherwise_acceptable"] < 20:
        raise vlib.Inconclusive("the QUIC generators exercise the body length dimension too little: %s" % len_text(qlg))
    # ---- 1. design level (independent of each other and of the rest: started now: they run while the driver does)
    f_exh = jobs.submit(ctx.tlc, "NtsKeMC", "NtsKe_exh.cfg" if q else "NtsKe_deep.cfg", timeout=300 if q else 1200)
    f_cov = jobs.submit(ctx.tlc, "NtsKeMC", "NtsKe_cov.cfg", workers=2, timeout=240, coverage=True, tag="coverage")
    f_fth = jobs.submit(ctx.tlc, "NtsKeMC", "NtsKe_faithful.cfg", workers=2, timeout=240, allow_violation=True, tag="old-switch")
    f_q = [jobs.submit(ctx.tlc, "NtsKeMC", "NtsKe_quic_%s.cfg" % n, workers=2, timeout=300, allow_violation=n != "exh",
                       tag="quic:" + n) for n in (("exh", "faithful", "fix1") if not q else ("faithful",))]
    # TIME: the caller's deadline passes while the peer stalls; the call fails there ("returns") or goes on when the
    # peer does ("ignored"); the variant that leaves a reader behind ("abandons") is a spec self-test
    f_ctx = [jobs.submit(ctx.tlc, "NtsKeMC", cfg, workers=4, timeout=300 if q else 900, tag="deadline:" + cfg)
             for cfg in (("NtsKe_ctx_exh.cfg",) if q else ("NtsKe_ctx_deep.cfg", "NtsKe_ctx_igndeep.cfg"))]
    f_lenx = jobs.submit(ctx.tlc, "NtsKeMC", "NtsKe_len_exh.cfg", workers=4, timeout=300, tag="body-length")
    f_hop = jobs.submit(ctx.tlc, "NtsKeMC", "NtsKe_quic_stalehop.cfg", workers=2, timeout=240, allow_violation=True,
                        tag="quic:stale-next-hop")
    f_aban = jobs.submit(ctx.tlc, "NtsKeMC", "NtsKe_ctx_abandons.cfg", workers=2, timeout=240, allow_violation=True,
                         tag="deadline:self-test")
    # ---- 3. the real code (while the exhaustive run may still be going on)
    tp, out = ctx.godriver("c20", "TestC20", cases=cp, timeout=300 if q else 1500, extra=("-v",))
    evs = vlib.read_ndjson(tp)
    stats = dict(kv.split("=") for line in out.splitlines() if line.startswith("C20STATS") for kv in line.split()[1:])
    ctx.log("scripted peer: " + " ".join("%s=%s" % kv for kv in stats.items()))
    op, out = ctx.godriver("c20", "TestOwnServer", out_name="own.ndjson", timeout=300, extra=("-v",))
    own = vlib.read_ndjson(op)
    ctx.log("own server: %d events" % len(own))
    qtp, out = ctx.godriver("c20", "TestQUIC", cases=qp, out_name="quic.ndjson", timeout=600, extra=("-v",))
    qevs = vlib.read_ndjson(qtp)
    ctx.log("scripted peer over QUIC: " + " ".join(l[8:] for l in out.splitlines() if l.startswith("C20QUIC")))
    qstats = dict(kv.split("=") for line in out.splitlines() if line.startswith("C20QUIC") for kv in line.split()[1:])
    what = os.environ.get("VERIF_C20_CORRUPT")
    if what:
        i = corrupt(evs, what)
        ctx.notes.append("SELFTEST: recorded field %r of event %d falsified before validation" % (what, i))
        ctx.log("SELFTEST corrupt=%s at event %d" % (what, i))
    # ---- 4. code -> spec
    nval = nev = 0
    with ThreadPoolExecutor(max_workers=5) as pool:
        for part, transport, label in ((evs, "tls", "scripted peer"), (own, "tls", "own server"),
                                       (qevs, "quic", "scripted peer over QUIC")):
            n, m, var = validate_all(ctx, pool, part, transport, label)
            nval, nev = nval + n, nev + m
            if var:
                ctx.notes.append("strict mode, %s: the recorded calls are the ones NtsKe.tla computes with the switches "
                                 "set for: %s" % (label, var[3]))
    # ---- design-level results
    r = f_exh.result()
    ctx.log("TLC exhaustive (repaired variant): %d distinct states, property section holds" % r["distinct"])
    c = f_cov.result()
    cov = {}
    for a, n in re.findall(r"^<(\w+) line [^>]*of module NtsKe[^>]*>: (\d+):\d+", c["out"], re.M):
        cov[a] = cov.get(a, 0) + int(n)
    dead = [a for a in ACTIONS if cov.get(a, 0) == 0]
    if dead:
        raise vlib.Inconclusive("NtsKe.tla: actions never taken in %s: %s" % (c["cfg"], dead))
    ctx.cov["action_coverage"] = {a: cov[a] for a in ACTIONS}
    fr = f_fth.result()
    if fr["violated"] != "NoResidue":
        raise vlib.Inconclusive("spec self-test: the variant with ResidueAfterFailure = TRUE (the code before the fix) "
                                "should violate NoResidue, TLC says %s" % fr["violated"])
    info = ["TLS, ResidueAfterFailure = TRUE (the code before the fix): NoResidue"]
    for f in f_q:
        x = f.result()
        if x["tag"] != "quic:exh":
            if not x["violated"]:
                raise vlib.Inconclusive("spec self-test: %s should violate the property section" % x["cfg"])
            info.append("%s: %s" % (x["cfg"], x["violated"]))
    ab = f_aban.result()
    if ab["violated"] != "NoResidue":
        raise vlib.Inconclusive("spec self-test: the variant with CtxMode = \"abandons\" (the call returns at the deadline, a "
                                "reader left behind keeps filling Fetcher.data) should violate NoResidue, TLC says %s" % ab["violated"])
    info.append("TLS, CtxMode = \"abandons\": NoResidue")
    hp = f_hop.result()
    if hp["violated"] != "Destination":
        raise vlib.Inconclusive("spec self-test: the variant with StaleNextHop = TRUE (SCION request handed to the configured "
                                "host and port) should violate Destination, TLC says %s" % hp["violated"])
    info.append("QUIC/SCION, StaleNextHop = TRUE: Destination")
    ctx.notes.append("spec self-test: the old-switch variants of NtsKe.tla violate the property section on the "
                     "specification (information only): " + "; ".join(info))
    dl = [f.result() for f in f_ctx]
    ctx.log("TLC exhaustive with the deadline passing during a stall: " +
            "; ".join("%s %d distinct states" % (x["cfg"], x["distinct"]) for x in dl) + ", property section holds")
    early = int(stats.get("returned-early", 0))
    ctx.notes.append(
        "time dimension (the deadline of the caller's context passes while the peer stalls, then the peer continues). "
        "SPEC side: StallPastDeadline / LateRecord / LateClose of NtsKe.tla; TLC: %s (property section holds), CtxMode = "
        "\"abandons\" refuted (NoResidue); generated for replay: TLS %s; QUIC %s. CODE side (information): %s TLS / %s QUIC "
        "exchanges in which the peer got as far as its stall (the deadline of the call's context passes when the peer has fallen silent; the "
        "peer goes on once the call has returned or %s later); the call "
        "had returned before the peer went on in %d TLS / %s QUIC of them (the code as it is never looks at the context while "
        "reading: these are calls that had failed on an earlier record; failing at the deadline and returning late are both "
        "admitted); every such call is followed by a 'late' observation of the "
        "Fetcher after the peer has closed and nothing started by the call runs any more (not settled in time: %s / %s), "
        "and by at least one further call, on which NoResidue / KeysAgree / PoolIsIssued / Destination are judged"
        % ("; ".join("%s %d states" % (x["cfg"], x["distinct"]) for x in dl), census_text(sg), census_text(qsg),
           stats.get("stalled", "?"), qstats.get("stalled", "?"), "15 ms", early, qstats.get("returned-early", "?"),
           stats.get("unsettled", "?"), qstats.get("unsettled", "?")))
    lx = f_lenx.result()
    lcalls = [e for e in evs + qevs if e["ev"] == "call" and e["dialed"] and any(r in LEN_RECS for r in e["served"]["recs"])]
    ctx.notes.append(
        "body length dimension (records of an unrecognised type, critical or not, and Warning records with a body of "
        "length 0 | 1 | typical; what the statement says about such a record depends on type and critical bit only). SPEC "
        "side: NtsKe!LenRecs / BodyClass / UnkCrit / UnkNon / Warns; TLC: %s %d distinct states (property section holds); "
        "generated for replay (NtsKeGen!LenFamily: every message of <= %d records made of <= 1 AEAD(15), <= %d cookies, End "
        "and <= 2 such records, the peer going on after the record at which the client gives up; the stream may end inside "
        "the header of one; plus the walks, whose alphabet contains them): TLS %s; QUIC (<= 4 records, <= 1 such record) %s. "
        "CODE side (information): %d recorded exchanges served such a record, %d of them succeeded; judged by the unchanged "
        "SuccessOnlyIf / IgnoresNonCritical (twin run without the non-critical records) / NoResidue clauses"
        % (lx["cfg"], lx["distinct"], 4 if q else 5, 1 if q else 2, len_text(lg), len_text(qlg), len(lcalls),
           sum(e["ok"] for e in lcalls)))
    ctx.cov["body_length_dimension"] = dict(spec_tls=lg, spec_quic=qlg, tlc_states=lx["distinct"],
                                            code=dict(exchanges=len(lcalls), ok=sum(e["ok"] for e in lcalls)))
    mq = [e for e in qevs if e["ev"] == "call" and e["via"] == "measure"]
    mi = [e for e in evs + own if e["ev"] == "call" and e["via"] == "measure"]
    ctx.notes.append(
        "where the request goes (the NTP client's use of the exchange result; transport ip / scion; over SCION both the "
        "underlay address the datagram is handed to and the SCION destination host and UDP port inside it). SPEC side: "
        "NtsKe!Send (dest = [sent, net, server, port, hop]), Destination = DestReturned /\\ DestAddressed /\\ DestHandedTo; "
        "StaleNextHop = TRUE (request handed to the configured host and port) refuted by TLC (Destination); generated for "
        "replay (NtsKeGen Naming family: every order of one AEAD(15), one or two cookies, <= %d Server/Port records, End; two "
        "such exchanges in a row; all calls made by the NTP client with the configured remote address host:4003; plus the "
        "QUIC walks with calls made either way): IP %s; SCION %s. CODE side (information): %d calls through "
        "client.MeasureClockOffsetSCION (same ISD-AS, empty path), request datagram captured and parsed in %d; %d calls "
        "through client.MeasureClockOffsetIP, request captured in %d"
        % (2 if q else 3, naming_text(ng), naming_text(qng), len(mq), sum(e["dest"]["sent"] for e in mq), len(mi),
           sum(e["dest"]["sent"] for e in mi)))
    # a call that got key-exchange data but whose request arrived at none of the model's endpoints is not an
    # observation of where it went (it may have been sent elsewhere, or not at all: deadline under load): DRIFT
    lost = [e for e in mq + mi if e["ok"] and not e["dest"]["sent"] and not e["panicked"]]
    if lost:
        ctx.drift.append("%d of %d calls made by the NTP client got key-exchange data but no request arrived at any of the "
                         "capture sockets (hosts host/A/B x ports standard/4001/4002/4003), e.g. %s" %
                         (len(lost), len(mq) + len(mi),
                          json.dumps({k: lost[0][k] for k in ("src", "case", "k", "served", "ret", "dest")}, separators=(",", ":"))[:500]))
    ctx.cov["naming_dimension"] = dict(spec_ip=ng, spec_scion=qng,
                                       code_scion=dict(measure_calls=len(mq), captured=sum(e["dest"]["sent"] for e in mq)),
                                       code_ip=dict(measure_calls=len(mi), captured=sum(e["dest"]["sent"] for e in mi)))
    ctx.cov["stall_dimension"] = dict(spec_tls=sg, spec_quic=qsg, code_tls={k: stats.get(k) for k in
                                      ("stalled", "returned-early", "late-records", "unsettled")}, code_quic=qstats)
    jobs.shutdown()
    calls = [e for e in evs + own + qevs if e["ev"] == "call"]
    distinct = len({(e["src"], json.dumps(e["served"], sort_keys=True), e["dialed"], e["via"]) for e in calls})
    panics = {}
    for e in calls:
        if e["panicked"]:
            k = re.sub(r"\d+", "N", e["note"])[:90]
            panics[k] = panics.get(k, 0) + 1
    if panics:
        ctx.notes.append("recorded calls that ended in a panic of the client code (recorded as observations, not judged "
                         "by C20's clauses): %s" % json.dumps(panics))
    firstok = next((e for e in evs if e["ev"] == "call" and e["ok"] and e["dialed"]), None)
    qok = next((e for e in qevs if e["ev"] == "call" and e["ok"] and e["dialed"] and e["via"] == "fetch"), None)
    # a request over SCION after an exchange that names another host and another port
    qnamed = next((e for e in qevs if e["ev"] == "call" and e["dest"]["sent"] and
                   {"sA", "pA"} <= set(e["served"]["recs"])), None)
    # a call whose peer stalled past the deadline (with cookies after the stall), and the observation that follows it
    si = next((i for i, e in enumerate(evs) if e["ev"] == "call" and e["dialed"] and e["served"]["stallw"] != "none"
               and "ck" in e["served"]["recs"][e["served"]["stall"]:]), None)
    stalled = evs[si:si + 2] if si is not None else []
    ctx.cov.update(
        evaluations=len(calls), distinct_nontrivial=distinct, events_validated=nev,
        traces_validated_against_impl=nval, exhaustive=True,
        rule="every peer script of <= %d records over 16 record kinds (typical body lengths) x truncation of the last record (header / body) x "
             "ALPN answer, and every message of <= %d records made of AEAD(15) and cookie records plus at most one record of "
             "any other kind (TLC-enumerated, exhaustive), each followed by a probe call; plus tlc -simulate walks through "
             "NtsKe's Next (<= 6 records, 3 exchanges, 6 calls, StoreCookie) from the old-switch and the default variant; "
             "every script of <= %d records over {AEAD 15, cookie, server, unknown non-critical, error, End} in which the peer "
             "stalls past the deadline of the call's context at a record boundary / inside a header / inside a body and then "
             "goes on (the walks stall too), each followed by an observation of the Fetcher after the peer has finished and "
             "by a probe call; "
             "histories containing unrecognised non-critical records also run without them; the project's own "
             "StartNTSKEServerIP against the real Fetcher with its cookies opened; 20%% of the TLS calls go through "
             "client.MeasureClockOffsetIP with the NTP request captured; the same over QUIC on a same-AS empty SCION path "
             "(scripts of <= 2 records exhaustively + walks); every order of one AEAD(15), one or two cookie and <= %d Server / "
             "Port records + End (<= 6 records; and two such exchanges of <= 4 records in a row), every call made by the NTP "
             "client (client.MeasureClockOffsetIP / client.MeasureClockOffsetSCION with the configured remote address "
             "host:4003) and the request datagram captured where it arrives (SCION: parsed for destination host and UDP port); "
             "every message of <= %d records made of <= 1 AEAD(15), <= %d cookies, End and <= 2 records of an unrecognised type "
             "(critical or not) or Warning records with body length 0 | 1 | typical (TLS; QUIC: <= 4 records, <= 1 such "
             "record); "
             "distinct = distinct (transport, served script, dialed, via)"
             % ((3, 4, 3, 2, 4, 1) if q else (4, 6, 4, 3, 5, 2)),
        samples=[{k: x[k] for k in x if k != "twin"} for x in [firstok, own[1] if len(own) > 1 else None, qok, qnamed] + stalled if x])
    ctx.assumptions += [
        "the scripted peer writes each message in one TLS record / one stream write and closes gracefully "
        "(segmentation is C14's subject)",
        "keys, cookies, servers and ports are reported in model units by exact lookup against what the peer exported / "
        "issued (anything else maps to -1 / '?', which no clause accepts)",
        "Server records carry IP address literals (a host name there is outside what the NTP clients can use)",
        "own server: the cookies 'issued' are those that open under the provider's key (its wire is not observable)",
        "ALPN answers 'other' and 'refused' end in a failed handshake on either side (crypto/tls offers no way to "
        "select a protocol the client did not offer); over QUIC a handshake without ALPN is impossible",
        "SCION: client and server in the same ISD-AS (empty path, no daemon): the underlay next hop must be the named host "
        "and port; between ASes (next hop = the path's border router) nothing is generated; SPAO / DRKey authentication off",
        "where a request arrives is observed on UDP sockets bound to the three hosts x {standard NTP port, 4001, 4002, "
        "4003 (the configured port)}: a datagram sent anywhere else is not observed (the call then counts as 'not "
        "captured' and only the returned Data is judged)",
        "every MeasureClockOffsetSCION / MeasureClockOffsetIP call gets address values of its own (the clients write "
        "through remoteAddr.Host; timeservice.go's ntpReferenceClockSCION shares one *net.UDPAddr between the reference "
        "clock, its clients and their Fetchers: that aliasing is not generated); one client per call, not interleaved",
        "whether FetchData succeeded inside a Measure... call is read from the request on the wire, else from the client's "
        "log ('failed to fetch key exchange data'), as in the IP variant",
        "time: the deadline of the context a call against a stalling peer is made with passes (Done closed, Err = "
        "DeadlineExceeded) at the moment the peer has fallen silent, not at a wall-clock time (the context announces no "
        "Deadline, so dialling and handshake cannot be cut short by it); the stall ends when the call has returned or 15 ms "
        "later; the next operation on the Fetcher starts after the "
        "peer has closed that connection and no goroutine started by the call runs repository code any more (goroutine "
        "labels; at most 2 s) - overlap of late records with the NEXT call is not generated; calls through "
        "MeasureClockOffsetIP / MeasureClockOffsetSCION are not made against a stalling peer"]
