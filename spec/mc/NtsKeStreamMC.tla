--------------------------- MODULE NtsKeStreamMC ---------------------------
EXTENDS NtsKeStream, Json
\* Behaviour emitter (spec -> code): every completed read with the message and
\* the segmentation the transport chose.
Emit == phase # "done" \/ PrintT(<<"CASE", ToJson([recs |-> recs, cuts |-> cuts])>>)

R(t, cr, n, body) == W!KeRec(t, cr, n, body)
Np == R("np", TRUE, 0, << >>)
Ae == R("ae", TRUE, 0, <<15>>)
Ae2 == R("ae", TRUE, 0, <<15, 17>>)
Ck3 == R("ck", FALSE, 0, <<17, 34, 51>>)
Ck2 == R("ck", FALSE, 0, <<0, 5>>)
Ck0 == R("ck", FALSE, 0, << >>)
Ck5 == R("ck", FALSE, 0, <<128, 9, 0, 1, 77>>)
Sv == R("sv", FALSE, 0, <<49, 46>>)
SvC == R("sv", TRUE, 0, <<58>>)
Pt == R("pt", FALSE, 291, << >>)
PtC == R("pt", TRUE, 65535, << >>)
Unk == R("unk", FALSE, 9, <<7>>)
UnkC == R("unk", TRUE, 9, <<7>>)
Er1 == R("er", TRUE, 1, << >>)
Er7 == R("er", TRUE, 7, << >>)
Wn == R("wn", TRUE, 0, << >>)
AlphaExh == {Np, Ae, Ck3, Ck2, Sv, Unk, Er1}
AlphaFaithful == {Np, Ck3, Sv}
AlphaDeep == {Np, Ck3, Sv, Er1}
AlphaWide == {Np, Ae, Ae2, Ck3, Ck2, Ck0, Ck5, Sv, SvC, Pt, PtC, Unk, UnkC, Er1, Er7, Wn}
AlphaGen == {Ae, Ck3, Sv, Pt, Unk, Er1, Wn}
AlphaGenDeep == {Ae, Ck3, Sv, Unk, Er1}
AlphaGenDeep4 == {Ck3, Ck2, Pt}
AlphaGenWide == {Np, Ae, Ae2, Ck3, Ck2, Ck0, Ck5, Sv, SvC, Pt, PtC, Unk, UnkC, Er1, Er7, Wn}
=============================================================================
