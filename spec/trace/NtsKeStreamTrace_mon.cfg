SPECIFICATION MonSpec
CONSTANTS ShortCookieRead = FALSE
INVARIANTS RSegmentationIndependent RKeRoundTrip
